(* Proofs/AggPos.v — Aggregate with goroutine POSITIONS as ghost state.

   [aggregate_pos shuffle lvl gs] is Model/Bucket.v's [aggregate] run on the
   goroutines tagged with their position in the snapshot (0,1,2,...): every
   entry of the bucketing loop carries, besides what the Go code keeps, the
   list of the positions of the goroutines it absorbed.  Nothing the Go code
   computes depends on the tag: forgetting it gives back [aggregate]
   ([aggregate_pos_erasure], for every oracle, level and snapshot, panics
   included).  The loop is then analysed once more with the invariants of
   Proofs/Aggregate.v (Inv5, the class invariant, transported unchanged) and
   Proofs/Truthful.v (sig_rel and its step lemmas), positions threaded
   through; no hypothesis on the goroutine ids is needed any more. *)
From PP Require Import Base.Bytes Base.GoResult Model.Types Model.Stack Model.Bucket.
From PP Require Import Spec.BucketSpec Spec.Wf Spec.BucketSpecPos.
From PP Require Import Proofs.AggBase Proofs.AggCanon Proofs.Aggregate Proofs.TruthfulBase Proofs.Truthful.
From Coq Require Import Permutation String FinFun.

Notation pentry := (entry * list nat)%type (only parsing).

(* ------------------------------------------------------------------ *)
(* the instrumented aggregation                                        *)
(* ------------------------------------------------------------------ *)
Section AggPos.
  (* the map-iteration oracle of Model/Bucket.v *)
  Variable shuffle : nat -> list nat -> list nat.

  (* [k] is at the same time the number of the search (argument of the
     oracle, as in [agg_step]) and the position of [g] in the snapshot. *)
  Definition agg_step_pos (lvl : Similarity) (pst : list pentry) (k : nat) (g : Goroutine)
    : GoResult (list pentry) :=
    match find (entry_similar lvl (map fst pst) g) (shuffle k (seq 0 (List.length pst))) with
    | Some i =>
        match nth_error pst i with
        | None => Panic "unreachable"
        | Some (e, ps) =>
            let ids := eids e ++ [ID g] in
            let first := efirst e || First g in
            if sig_equal (ekey e) (GSig g) then
              Ok (upd_nth i (fun _ => (mkEntry (ekey e) ids first, ps ++ [k])) pst)
            else if sig_merge_safe (ekey e) (GSig g) then
              Ok (upd_nth i (fun _ => (mkEntry (sig_merge (ekey e) (GSig g)) ids first, ps ++ [k])) pst)
            else Panic "index out of range in merge"
        end
    | None => Ok (pst ++ [(mkEntry (GSig g) [ID g] (First g), [k])])
    end.

  Fixpoint agg_loop_pos (lvl : Similarity) (pst : list pentry) (k : nat) (gs : list Goroutine)
    : GoResult (list pentry) :=
    match gs with
    | [] => Ok pst
    | g :: gs' => pst' <- agg_step_pos lvl pst k g ;; agg_loop_pos lvl pst' (S k) gs'
    end.

  Definition pbucket_of (pe : pentry) : pbucket := (bucket_of_entry (fst pe), snd pe).
  Definition pbucket_before (l r : pbucket) : bool := bucket_before (forget l) (forget r).

  Definition aggregate_pos (lvl : Similarity) (gs : list Goroutine) : GoResult (list pbucket) :=
    pst <- agg_loop_pos lvl [] 0 gs ;;
    Ok (sort_stable pbucket_before (map pbucket_of pst)).
End AggPos.

(* forgetting the ghost *)
Definition erase_st (r : GoResult (list pentry)) : GoResult (list entry) :=
  match r with Ok l => Ok (map fst l) | Panic m => Panic m end.
Definition forget_all (r : GoResult (list pbucket)) : GoResult (list Bucket) :=
  match r with Ok l => Ok (map forget l) | Panic m => Panic m end.

(* ------------------------------------------------------------------ *)
(* erasure: the tagged run simulates the untagged one, step by step    *)
(* ------------------------------------------------------------------ *)
Lemma map_fst_upd_nth {A B} (a : A) (b : B) (l : list (A * B)) : forall i,
  map fst (upd_nth i (fun _ => (a, b)) l) = upd_nth i (fun _ => a) (map fst l).
Proof.
  induction l as [|x l IH]; intros [|i]; cbn; try reflexivity. now rewrite IH.
Qed.

Lemma insert_stable_map {A B} (f : A -> B) (before : B -> B -> bool) x l :
  map f (insert_stable (fun a b => before (f a) (f b)) x l) = insert_stable before (f x) (map f l).
Proof.
  induction l as [|y l IH]; cbn; [reflexivity|].
  destruct (before (f y) (f x)); cbn; [now rewrite IH | reflexivity].
Qed.

Lemma sort_stable_map {A B} (f : A -> B) (before : B -> B -> bool) l :
  map f (sort_stable (fun a b => before (f a) (f b)) l) = sort_stable before (map f l).
Proof.
  induction l as [|x l IH]; cbn; [reflexivity|]. now rewrite insert_stable_map, IH.
Qed.

Section Erasure.
  (* the map-iteration oracle; nothing is assumed about it *)
  Variable shuffle : nat -> list nat -> list nat.

  Lemma agg_step_pos_erasure lvl pst k g :
    erase_st (agg_step_pos shuffle lvl pst k g) = agg_step shuffle lvl (map fst pst) k g.
  Proof.
    unfold agg_step_pos, agg_step. cbv zeta. rewrite map_length.
    destruct (find (entry_similar lvl (map fst pst) g) (shuffle k (seq 0 (List.length pst)))) as [i|].
    - rewrite nth_error_map. destruct (nth_error pst i) as [[e ps]|]; cbn [option_map fst erase_st]; [|reflexivity].
      destruct (sig_equal (ekey e) (GSig g)).
      + cbn [erase_st]. now rewrite map_fst_upd_nth.
      + destruct (sig_merge_safe (ekey e) (GSig g)); cbn [erase_st]; [now rewrite map_fst_upd_nth | reflexivity].
    - cbn [erase_st]. now rewrite map_app.
  Qed.

  Lemma agg_loop_pos_erasure lvl gs : forall pst k,
    erase_st (agg_loop_pos shuffle lvl pst k gs) = agg_loop shuffle lvl (map fst pst) k gs.
  Proof.
    induction gs as [|g gs IH]; intros pst k; cbn [agg_loop_pos agg_loop]; [reflexivity|].
    rewrite <- agg_step_pos_erasure.
    destruct (agg_step_pos shuffle lvl pst k g) as [pst'|m]; cbn [erase_st bind]; [apply IH | reflexivity].
  Qed.

  (* same GoResult; same buckets, in the same order *)
  Theorem aggregate_pos_erasure lvl gs :
    forget_all (aggregate_pos shuffle lvl gs) = aggregate shuffle lvl gs.
  Proof.
    unfold aggregate_pos, aggregate.
    change (agg_loop shuffle lvl [] 0 gs) with (agg_loop shuffle lvl (map fst (@nil pentry)) 0 gs).
    rewrite <- agg_loop_pos_erasure.
    destruct (agg_loop_pos shuffle lvl [] 0 gs) as [pst|m]; cbn [erase_st bind forget_all]; [|reflexivity].
    f_equal. unfold pbucket_before.
    rewrite (sort_stable_map forget bucket_before), !map_map. reflexivity.
  Qed.

  Corollary aggregate_pos_forget lvl gs pbs :
    aggregate_pos shuffle lvl gs = Ok pbs -> aggregate shuffle lvl gs = Ok (map forget pbs).
  Proof. intros H. rewrite <- aggregate_pos_erasure, H. reflexivity. Qed.

  Corollary aggregate_pos_exists lvl gs bs :
    aggregate shuffle lvl gs = Ok bs -> exists pbs, aggregate_pos shuffle lvl gs = Ok pbs /\ bs = map forget pbs.
  Proof.
    intros H. rewrite <- aggregate_pos_erasure in H.
    destruct (aggregate_pos shuffle lvl gs) as [pbs|m]; cbn [forget_all] in H; [|discriminate].
    exists pbs. split; [reflexivity | congruence].
  Qed.
End Erasure.

(* ------------------------------------------------------------------ *)
(* one step, by cases (as Aggregate.agg_step_cases, positions instead  *)
(* of ghost goroutines, and keeping which branch was taken)            *)
(* ------------------------------------------------------------------ *)
Section Loop.
  (* the map-iteration oracle (nothing assumed) and the similarity level *)
  Variable shuffle : nat -> list nat -> list nat.
  Variable lvl : Similarity.

  Lemma agg_step_pos_cases (pst : list pentry) k g :
    (agg_step_pos shuffle lvl pst k g = Ok (pst ++ [(new_entry g, [k])]) /\
     forall i, In i (shuffle k (seq 0 (List.length pst))) -> entry_similar lvl (map fst pst) g i = false)
    \/
    (exists l1 e ps l2 key',
       pst = l1 ++ (e, ps) :: l2 /\ sig_similar lvl (ekey e) (GSig g) = true /\
       ((key' = ekey e /\ sig_equal (ekey e) (GSig g) = true) \/ key' = sig_merge (ekey e) (GSig g)) /\
       agg_step_pos shuffle lvl pst k g = Ok (l1 ++ (upd_entry e key' g, ps ++ [k]) :: l2)).
  Proof.
    unfold agg_step_pos. cbv zeta.
    destruct (find (entry_similar lvl (map fst pst) g) (shuffle k (seq 0 (List.length pst)))) as [i|] eqn:EF.
    - right. apply find_some in EF as [_ HS]. unfold entry_similar in HS. rewrite nth_error_map in HS.
      destruct (nth_error pst i) as [[e ps]|] eqn:EN; cbn [option_map fst] in HS; [|discriminate].
      apply nth_error_split in EN as (l1 & l2 & -> & EL).
      exists l1, e, ps, l2.
      assert (EU : forall key', upd_nth i (fun _ => (mkEntry key' (eids e ++ [ID g]) (efirst e || First g), ps ++ [k]))
                                  (l1 ++ (e, ps) :: l2) = l1 ++ (upd_entry e key' g, ps ++ [k]) :: l2).
      { intros key'. rewrite <- EL. unfold upd_entry.
        exact (upd_nth_app (fun _ => (mkEntry key' (eids e ++ [ID g]) (efirst e || First g), ps ++ [k])) l1 (e, ps) l2). }
      destruct (sig_equal (ekey e) (GSig g)) eqn:EQ.
      + exists (ekey e). split; [reflexivity|]. split; [exact HS|]. split; [left; now split|]. now rewrite EU.
      + exists (sig_merge (ekey e) (GSig g)). split; [reflexivity|]. split; [exact HS|]. split; [now right|].
        rewrite (sig_similar_safe lvl _ _ HS). now rewrite EU.
    - left. split; [reflexivity|]. intros i Hi. exact (find_none _ _ EF i Hi).
  Qed.

  (* the generic invariant rule: [all] is the whole snapshot, the invariant is
     indexed by the number of goroutines already processed *)
  Lemma agg_loop_pos_inv (all : list Goroutine) (Inv : nat -> list pentry -> Prop) :
    (forall n pst g, nth_error all n = Some g -> Inv n pst ->
       (forall i, In i (shuffle n (seq 0 (List.length pst))) -> entry_similar lvl (map fst pst) g i = false) ->
       Inv (S n) (pst ++ [(new_entry g, [n])])) ->
    (forall n l1 e ps l2 g key', nth_error all n = Some g -> Inv n (l1 ++ (e, ps) :: l2) ->
       sig_similar lvl (ekey e) (GSig g) = true ->
       ((key' = ekey e /\ sig_equal (ekey e) (GSig g) = true) \/ key' = sig_merge (ekey e) (GSig g)) ->
       Inv (S n) (l1 ++ (upd_entry e key' g, ps ++ [n]) :: l2)) ->
    forall rest pre pst, all = pre ++ rest -> Inv (List.length pre) pst ->
    exists pst', agg_loop_pos shuffle lvl pst (List.length pre) rest = Ok pst' /\ Inv (List.length all) pst'.
  Proof.
    intros Hnew Hupd rest. induction rest as [|g rest IH]; intros pre pst EA HI.
    - exists pst. subst all. rewrite app_nil_r. split; [reflexivity | exact HI].
    - assert (EN : nth_error all (List.length pre) = Some g).
      { subst all. rewrite nth_error_app2, Nat.sub_diag; [reflexivity | lia]. }
      assert (EA' : all = (pre ++ [g]) ++ rest) by (now rewrite <- app_assoc).
      assert (EL : List.length (pre ++ [g]) = S (List.length pre)) by (rewrite app_length; cbn; lia).
      cbn [agg_loop_pos].
      destruct (agg_step_pos_cases pst (List.length pre) g)
        as [[ES HN] | (l1 & e & ps & l2 & key' & EG & HS & HK & ES)].
      + rewrite ES. cbn [bind]. rewrite <- EL. apply (IH _ _ EA'). rewrite EL.
        now apply Hnew.
      + rewrite ES. cbn [bind]. rewrite <- EL. apply (IH _ _ EA'). rewrite EL. subst pst.
        now apply Hupd.
  Qed.

  Lemma aggregate_pos_inv (gs : list Goroutine) (Inv : nat -> list pentry -> Prop) :
    (forall n pst g, nth_error gs n = Some g -> Inv n pst ->
       (forall i, In i (shuffle n (seq 0 (List.length pst))) -> entry_similar lvl (map fst pst) g i = false) ->
       Inv (S n) (pst ++ [(new_entry g, [n])])) ->
    (forall n l1 e ps l2 g key', nth_error gs n = Some g -> Inv n (l1 ++ (e, ps) :: l2) ->
       sig_similar lvl (ekey e) (GSig g) = true ->
       ((key' = ekey e /\ sig_equal (ekey e) (GSig g) = true) \/ key' = sig_merge (ekey e) (GSig g)) ->
       Inv (S n) (l1 ++ (upd_entry e key' g, ps ++ [n]) :: l2)) ->
    Inv 0 [] ->
    exists pst, aggregate_pos shuffle lvl gs = Ok (sort_stable pbucket_before (map pbucket_of pst)) /\
                Inv (List.length gs) pst.
  Proof.
    intros Hnew Hupd H0.
    destruct (agg_loop_pos_inv gs Inv Hnew Hupd gs [] [] eq_refl H0) as (pst & EL & HI).
    exists pst. unfold aggregate_pos. cbn [List.length] in EL. rewrite EL. split; [reflexivity | exact HI].
  Qed.
End Loop.

(* ------------------------------------------------------------------ *)
(* members_at, asc_from                                                *)
(* ------------------------------------------------------------------ *)
Lemma members_at_app gs ps qs : members_at gs (ps ++ qs) = members_at gs ps ++ members_at gs qs.
Proof. apply flat_map_app. Qed.

Lemma members_at_one gs k g : nth_error gs k = Some g -> members_at gs [k] = [g].
Proof. intros H. unfold members_at, at_pos. cbn. now rewrite H. Qed.

Lemma in_members_at gs ps g : In g (members_at gs ps) <-> exists p, In p ps /\ nth_error gs p = Some g.
Proof.
  unfold members_at. rewrite in_flat_map. split; intros (p & Hp & H); exists p; (split; [exact Hp|]).
  - unfold at_pos in H. destruct (nth_error gs p) as [g'|]; [|contradiction]. destruct H as [<- | []]. reflexivity.
  - unfold at_pos. rewrite H. now left.
Qed.

Lemma asc_from_snoc ps : forall k n,
  asc_from k ps = true -> Forall (fun p => p < n) ps -> k <= n -> asc_from k (ps ++ [n]) = true.
Proof.
  induction ps as [|p ps IH]; intros k n HA HF Hk; cbn [app asc_from] in *.
  - rewrite andb_true_r. apply Nat.leb_le. exact Hk.
  - apply andb_true_iff in HA as [H1 H2]. inversion HF as [|? ? Hp HF']; subst.
    rewrite H1. cbn [andb]. apply IH; [exact H2 | exact HF' | lia].
Qed.

Lemma asc_from_ge ps : forall k, asc_from k ps = true -> Forall (fun p => k <= p) ps.
Proof.
  induction ps as [|p ps IH]; intros k HA; [constructor|].
  cbn [asc_from] in HA. apply andb_true_iff in HA as [H1 H2]. apply Nat.leb_le in H1.
  constructor; [exact H1|]. apply (Forall_impl _ (P := fun q => S p <= q)); [intros q Hq; lia | now apply IH].
Qed.

Lemma asc_from_weaken ps k k' : k' <= k -> asc_from k ps = true -> asc_from k' ps = true.
Proof.
  destruct ps as [|p ps]; [reflexivity|]. cbn [asc_from]. intros Hk HA.
  apply andb_true_iff in HA as [H1 H2]. apply Nat.leb_le in H1. rewrite H2, andb_true_r.
  apply Nat.leb_le. lia.
Qed.

(* ------------------------------------------------------------------ *)
(* the invariant: positions threaded through                           *)
(* ------------------------------------------------------------------ *)
Section Inv.
  Variable lvl : Similarity.
  Variable all : list Goroutine.     (* the whole snapshot *)

  (* the ghost of Proofs/Aggregate.v, recovered from the positions *)
  Definition ghost (pe : pentry) : entry * list Goroutine := (fst pe, members_at all (snd pe)).

  Lemma map_fst_ghost pst : map fst (map ghost pst) = map fst pst.
  Proof. rewrite map_map. apply map_ext. reflexivity. Qed.

  (* n goroutines processed *)
  Definition pent_ok (n : nat) (pe : pentry) : Prop :=
    snd pe <> [] /\ asc_from 0 (snd pe) = true /\ Forall (fun p => p < n) (snd pe) /\
    eids (fst pe) = map ID (members_at all (snd pe)) /\
    efirst (fst pe) = existsb First (members_at all (snd pe)) /\
    sig_rel (ekey (fst pe)) (map GSig (members_at all (snd pe))).

  Definition InvP (n : nat) (pst : list pentry) : Prop :=
    Forall (pent_ok n) pst /\ Permutation (List.concat (map snd pst)) (seq 0 n).

  Lemma pent_ok_S n pe : pent_ok n pe -> pent_ok (S n) pe.
  Proof.
    intros (H1 & H2 & H3 & H4). split; [exact H1|]. split; [exact H2|]. split; [|exact H4].
    apply (Forall_impl _ (P := fun p => p < n)); [intros p Hp; lia | exact H3].
  Qed.

  Lemma InvP_0 : InvP 0 [].
  Proof. split; constructor. Qed.

  Lemma InvP_new n pst g :
    nth_error all n = Some g -> InvP n pst -> InvP (S n) (pst ++ [(new_entry g, [n])]).
  Proof.
    intros EN [HF HP]. split.
    - apply Forall_app. split.
      + apply (Forall_impl _ (pent_ok_S n)). exact HF.
      + constructor; [|constructor]. unfold pent_ok. cbn [fst snd new_entry eids efirst ekey].
        rewrite (members_at_one _ _ _ EN). cbn [map existsb].
        split; [discriminate|]. split; [reflexivity|]. split; [constructor; [lia | constructor]|].
        split; [reflexivity|]. split; [now rewrite orb_false_r | apply sig_rel_init].
    - rewrite map_app, concat_app. cbn [map snd List.concat]. rewrite app_nil_r, seq_S. cbn [Nat.add].
      now apply Permutation_app.
  Qed.

  Lemma InvP_upd n l1 e ps l2 g key' :
    nth_error all n = Some g -> InvP n (l1 ++ (e, ps) :: l2) ->
    sig_similar lvl (ekey e) (GSig g) = true ->
    ((key' = ekey e /\ sig_equal (ekey e) (GSig g) = true) \/ key' = sig_merge (ekey e) (GSig g)) ->
    InvP (S n) (l1 ++ (upd_entry e key' g, ps ++ [n]) :: l2).
  Proof.
    intros EN [HF HP] HS HK. apply Forall_app in HF as [F1 F2]. inversion F2 as [|? ? Fx F2']; subst. split.
    - apply Forall_app. split; [apply (Forall_impl _ (pent_ok_S n)); exact F1|].
      constructor; [|apply (Forall_impl _ (pent_ok_S n)); exact F2'].
      destruct Fx as (X1 & X2 & X3 & X4 & X5 & X6). cbn [fst snd] in *.
      unfold pent_ok. cbn [fst snd upd_entry eids efirst ekey].
      rewrite members_at_app, (members_at_one _ _ _ EN), !map_app. cbn [map].
      split; [|split; [|split; [|split; [|split]]]].
      + intros E. apply app_eq_nil in E as [_ E]. discriminate.
      + apply asc_from_snoc; [exact X2 | exact X3 | lia].
      + apply Forall_app. split; [|constructor; [lia | constructor]].
        apply (Forall_impl _ (P := fun p => p < n)); [intros p Hp; lia | exact X3].
      + now rewrite X4.
      + rewrite existsb_app, X5. cbn. now rewrite orb_false_r.
      + destruct HK as [[-> EQ] | ->].
        * now apply (sig_rel_equal lvl).
        * now apply (sig_rel_merge lvl).
    - rewrite map_app, concat_app in *. cbn [map snd List.concat] in *. rewrite seq_S. cbn [Nat.add].
      transitivity ((List.concat (map snd l1) ++ ps ++ List.concat (map snd l2)) ++ [n]);
        [|apply Permutation_app_tail; exact HP].
      rewrite <- !app_assoc. apply Permutation_app_head. apply Permutation_app_head.
      apply Permutation_app_comm.
  Qed.

  (* the class invariant Inv5 of Proofs/Aggregate.v, transported along [ghost] *)
  Definition InvC (pst : list pentry) : Prop := Inv5 lvl (map ghost pst).

  Lemma InvC_new shuffle n pst g :
    (forall k l, Permutation (shuffle k l) l) ->
    nth_error all n = Some g -> wf_sig (GSig g) = true -> InvC pst ->
    (forall i, In i (shuffle n (seq 0 (List.length pst))) -> entry_similar lvl (map fst pst) g i = false) ->
    InvC (pst ++ [(new_entry g, [n])]).
  Proof.
    intros Hsh EN Wg HI HN. unfold InvC. rewrite map_app. cbn [map]. unfold ghost at 2. cbn [fst snd].
    rewrite (members_at_one _ _ _ EN).
    apply (Inv5_new shuffle lvl Hsh (map ghost pst) n g Wg HI).
    rewrite map_length, map_fst_ghost. exact HN.
  Qed.

  Lemma InvC_upd n l1 e ps l2 g key' :
    nth_error all n = Some g -> wf_sig (GSig g) = true -> InvC (l1 ++ (e, ps) :: l2) ->
    sig_similar lvl (ekey e) (GSig g) = true ->
    (key' = ekey e \/ key' = sig_merge (ekey e) (GSig g)) ->
    InvC (l1 ++ (upd_entry e key' g, ps ++ [n]) :: l2).
  Proof.
    intros EN Wg HI HS HK. unfold InvC in *. rewrite map_app in *. cbn [map] in *.
    unfold ghost at 2. unfold ghost at 2 in HI. cbn [fst snd] in *.
    rewrite members_at_app, (members_at_one _ _ _ EN).
    now apply Inv5_upd.
  Qed.
End Inv.

(* ------------------------------------------------------------------ *)
(* the final ghost state                                               *)
(* ------------------------------------------------------------------ *)
Definition pbs_of (pst : list pentry) : list pbucket := sort_stable pbucket_before (map pbucket_of pst).

Lemma aggregate_pos_ghostP shuffle lvl gs :
  exists pst, aggregate_pos shuffle lvl gs = Ok (pbs_of pst) /\ InvP gs (List.length gs) pst.
Proof.
  apply (aggregate_pos_inv shuffle lvl gs (InvP gs)).
  - intros n pst g EN HI _. now apply InvP_new.
  - intros n l1 e ps l2 g key' EN HI HS HK. now apply (InvP_upd lvl).
  - apply InvP_0.
Qed.

Lemma aggregate_pos_ghostC shuffle lvl gs :
  (forall k l, Permutation (shuffle k l) l) -> wf_goroutines gs = true ->
  exists pst, aggregate_pos shuffle lvl gs = Ok (pbs_of pst) /\ InvP gs (List.length gs) pst /\ InvC lvl gs pst.
Proof.
  intros Hsh Hwf.
  assert (W : forall n g, nth_error gs n = Some g -> wf_sig (GSig g) = true).
  { unfold wf_goroutines in Hwf. rewrite forallb_forall in Hwf. intros n g H. apply Hwf.
    now apply nth_error_In in H. }
  apply (aggregate_pos_inv shuffle lvl gs (fun n pst => InvP gs n pst /\ InvC lvl gs pst)).
  - intros n pst g EN [HP HC] HN. split; [now apply InvP_new|].
    exact (InvC_new lvl gs shuffle n pst g Hsh EN (W _ _ EN) HC HN).
  - intros n l1 e ps l2 g key' EN [HP HC] HS HK. split; [now apply (InvP_upd lvl)|].
    apply InvC_upd; [exact EN | exact (W _ _ EN) | exact HC | exact HS|].
    destruct HK as [[-> _] | ->]; [now left | now right].
  - split; [apply InvP_0 | split; constructor].
Qed.

Lemma in_pbs_of pst pb : In pb (pbs_of pst) <-> exists pe, In pe pst /\ pb = pbucket_of pe.
Proof.
  unfold pbs_of. split.
  - intros H. apply (Permutation_in _ (sort_stable_perm _ _)) in H.
    apply in_map_iff in H as (pe & E & Hpe). eauto.
  - intros (pe & Hpe & ->). apply (Permutation_in _ (Permutation_sym (sort_stable_perm _ _))).
    now apply in_map.
Qed.

Lemma positions_pbs_of pst : Permutation (flat_map positions (pbs_of pst)) (List.concat (map snd pst)).
Proof.
  unfold pbs_of.
  transitivity (flat_map positions (map pbucket_of pst)); [apply Permutation_flat_map, sort_stable_perm|].
  rewrite flat_map_concat_map, map_map. apply Permutation_refl.
Qed.

(* the two sorts on integers coincide *)
Lemma insert_ints_insertZ x l : insert_stable Z.ltb x l = insertZ x l.
Proof.
  induction l as [|y l IH]; cbn; [reflexivity|].
  destruct (Z.ltb_spec y x), (Z.leb_spec x y); try lia; [now rewrite IH | reflexivity].
Qed.

Lemma sort_ints_sortZ l : sort_ints l = sortZ l.
Proof.
  unfold sort_ints, sortZ. induction l as [|x l IH]; cbn; [reflexivity|]. now rewrite IH, insert_ints_insertZ.
Qed.

Lemma sortZ_perm' l : Permutation (sortZ l) l.
Proof. rewrite <- sort_ints_sortZ. apply sort_ints_perm. Qed.

Lemma sortZ_sorted l : sortedZ (sortZ l) = true.
Proof. rewrite <- sort_ints_sortZ. apply sort_ints_sorted. Qed.

Lemma sig_rel_c12 k ms : sig_rel k ms -> c12_sig k ms = true.
Proof.
  unfold c12_sig. intros H. destruct ms as [|m1 ms]; [reflexivity|].
  destruct H as (Hst & Hcr & Hmain & Hmin & Hmax & Hlk).
  apply andb_true_iff; split; [apply andb_true_iff; split; [apply andb_true_iff; split;
    [apply andb_true_iff; split; [apply andb_true_iff; split|]|]|]|].
  - exact Hst.
  - exact Hcr.
  - exact Hmain.
  - apply Z.eqb_eq. exact Hmin.
  - apply Z.eqb_eq. exact Hmax.
  - rewrite Hlk. apply Bool.eqb_reflx.
Qed.

(* ------------------------------------------------------------------ *)
(* the positional statements, in Prop                                  *)
(* ------------------------------------------------------------------ *)
Definition pos_partition (gs : list Goroutine) (pbs : list pbucket) : Prop :=
  Permutation (flat_map positions pbs) (seq 0 (List.length gs)) /\
  forall pb, In pb pbs ->
    positions pb <> [] /\ asc_from 0 (positions pb) = true /\
    IDs (forget pb) = sortZ (map ID (members_at gs (positions pb))) /\
    BFirst (forget pb) = existsb First (members_at gs (positions pb)).

Definition share (pbs : list pbucket) (p1 p2 : nat) : Prop :=
  exists pb, In pb pbs /\ In p1 (positions pb) /\ In p2 (positions pb).

Definition pos_classes (lvl : Similarity) (gs : list Goroutine) (pbs : list pbucket) : Prop :=
  forall p1 p2 g1 g2, nth_error gs p1 = Some g1 -> nth_error gs p2 = Some g2 ->
    (share pbs p1 p2 <-> canon_sig lvl (GSig g1) = canon_sig lvl (GSig g2)).

Definition pos_truthful (gs : list Goroutine) (pbs : list pbucket) : Prop :=
  forall pb, In pb pbs -> c12_sig (BSig (forget pb)) (map GSig (members_at gs (positions pb))) = true.

Theorem partition_pos shuffle lvl gs pbs :
  aggregate_pos shuffle lvl gs = Ok pbs -> pos_partition gs pbs.
Proof.
  intros HA. destruct (aggregate_pos_ghostP shuffle lvl gs) as (pst & EA & [HF HP]).
  rewrite EA in HA. injection HA as <-. split.
  - transitivity (List.concat (map snd pst)); [apply positions_pbs_of | exact HP].
  - intros pb Hpb. apply in_pbs_of in Hpb as (pe & Hpe & ->).
    rewrite Forall_forall in HF. destruct (HF pe Hpe) as (X1 & X2 & _ & X4 & X5 & _).
    unfold pbucket_of, forget, positions, bucket_of_entry. cbn [fst snd IDs BFirst].
    split; [exact X1|]. split; [exact X2|]. split; [|exact X5].
    now rewrite sort_ints_sortZ, X4.
Qed.

Theorem truthful_pos shuffle lvl gs pbs :
  aggregate_pos shuffle lvl gs = Ok pbs -> pos_truthful gs pbs.
Proof.
  intros HA. destruct (aggregate_pos_ghostP shuffle lvl gs) as (pst & EA & [HF HP]).
  rewrite EA in HA. injection HA as <-.
  intros pb Hpb. apply in_pbs_of in Hpb as (pe & Hpe & ->).
  rewrite Forall_forall in HF. destruct (HF pe Hpe) as (_ & _ & _ & _ & _ & X6).
  unfold pbucket_of, forget, positions, bucket_of_entry. cbn [fst snd BSig].
  now apply sig_rel_c12.
Qed.

Theorem classes_pos shuffle lvl gs pbs :
  (forall k l, Permutation (shuffle k l) l) -> wf_goroutines gs = true ->
  aggregate_pos shuffle lvl gs = Ok pbs -> pos_classes lvl gs pbs.
Proof.
  intros Hsh Hwf HA. destruct (aggregate_pos_ghostC shuffle lvl gs Hsh Hwf) as (pst & EA & [HF HP] & [H5F H5N]).
  rewrite EA in HA. injection HA as <-.
  rewrite Forall_forall in H5F.
  assert (HM : forall pe p g, In pe pst -> In p (snd pe) -> nth_error gs p = Some g ->
               canon_sig lvl (GSig g) = ckey lvl (ghost gs pe)).
  { intros pe p g Hpe Hp EN. destruct (H5F (ghost gs pe) (in_map _ _ _ Hpe)) as [_ M].
    apply M. cbn [ghost snd]. apply in_members_at. eauto. }
  assert (HC : forall p g, nth_error gs p = Some g -> exists pe, In pe pst /\ In p (snd pe)).
  { intros p g EN. assert (Hp : In p (seq 0 (List.length gs))).
    { apply in_seq. assert (p < List.length gs) by (apply nth_error_Some; congruence). lia. }
    apply (Permutation_in _ (Permutation_sym HP)) in Hp.
    apply in_concat in Hp as (l & Hl & Hp). apply in_map_iff in Hl as (pe & <- & Hpe). eauto. }
  intros p1 p2 g1 g2 E1 E2. split.
  - intros (pb & Hpb & I1 & I2). apply in_pbs_of in Hpb as (pe & Hpe & ->).
    cbn [pbucket_of positions snd] in I1, I2.
    now rewrite (HM pe p1 g1 Hpe I1 E1), (HM pe p2 g2 Hpe I2 E2).
  - intros EC. destruct (HC p1 g1 E1) as (pe1 & Hpe1 & I1). destruct (HC p2 g2 E2) as (pe2 & Hpe2 & I2).
    assert (pe1 = pe2) as <-.
    { rewrite map_map in H5N. apply (NoDup_map_inj_in (fun pe => ckey lvl (ghost gs pe)) pst); auto.
      rewrite <- (HM pe1 p1 g1 Hpe1 I1 E1), <- (HM pe2 p2 g2 Hpe2 I2 E2). exact EC. }
    exists (pbucket_of pe1). split; [apply in_pbs_of; eauto|]. split; assumption.
Qed.

(* ------------------------------------------------------------------ *)
(* the executable predicates of Spec/BucketSpecPos.v say the same      *)
(* ------------------------------------------------------------------ *)
Lemma memN_In x l : memN x l = true <-> In x l.
Proof.
  unfold memN. rewrite existsb_exists. split.
  - intros (y & Hy & E). apply Nat.eqb_eq in E. now subst.
  - intros H. exists x. split; [assumption | apply Nat.eqb_refl].
Qed.

Lemma count_pos_occ p l : count_pos p l = count_occ Nat.eq_dec l p.
Proof.
  unfold count_pos. induction l as [|a l IH]; cbn; [reflexivity|].
  destruct (Nat.eqb_spec p a) as [E|E], (Nat.eq_dec a p) as [E'|E']; cbn; congruence.
Qed.

Lemma partition_bool n l :
  Permutation l (seq 0 n) <->
  forallb (fun p => Nat.ltb p n) l = true /\ forallb (fun p => Nat.eqb (count_pos p l) 1) (seq 0 n) = true.
Proof.
  split.
  - intros HP. split; apply forallb_forall; intros p Hp.
    + apply (Permutation_in _ HP), in_seq in Hp. apply Nat.ltb_lt. lia.
    + apply Nat.eqb_eq. rewrite count_pos_occ.
      rewrite (proj1 (Permutation_count_occ Nat.eq_dec _ _) HP p).
      now apply (proj1 (NoDup_count_occ' Nat.eq_dec _) (seq_NoDup n 0)).
  - intros [HA HB]. rewrite forallb_forall in HA, HB.
    assert (HI : forall x, In x l <-> In x (seq 0 n)).
    { intros x. split; intros Hx.
      - apply HA, Nat.ltb_lt in Hx. apply in_seq. lia.
      - apply HB, Nat.eqb_eq in Hx. rewrite count_pos_occ in Hx.
        apply (count_occ_In Nat.eq_dec). lia. }
    apply NoDup_Permutation; [|apply seq_NoDup | exact HI].
    apply (NoDup_count_occ' Nat.eq_dec). intros x Hx. apply HI in Hx.
    apply HB, Nat.eqb_eq in Hx. now rewrite count_pos_occ in Hx.
Qed.

Theorem c04_pos_ok_iff gs pbs : c04_pos_ok gs pbs = true <-> pos_partition gs pbs.
Proof.
  unfold c04_pos_ok, pos_partition. cbv zeta. rewrite !andb_true_iff, <- partition_bool, forallb_forall.
  assert (HE : forall pb,
    negb (Nat.eqb (List.length (positions pb)) 0) && asc_from 0 (positions pb) &&
    list_eqb Z.eqb (IDs (forget pb)) (sortZ (map ID (members_at gs (positions pb)))) &&
    Bool.eqb (BFirst (forget pb)) (existsb First (members_at gs (positions pb))) = true <->
    positions pb <> [] /\ asc_from 0 (positions pb) = true /\
    IDs (forget pb) = sortZ (map ID (members_at gs (positions pb))) /\
    BFirst (forget pb) = existsb First (members_at gs (positions pb))).
  { intros pb. rewrite !andb_true_iff, (list_eqb_iff' Z.eqb Z.eqb_eq), bool_eqb_iff, negb_true_iff, Nat.eqb_neq.
    assert (HL : List.length (positions pb) <> 0 <-> positions pb <> []).
    { destruct (positions pb); cbn; split; intros H; congruence. }
    rewrite HL. tauto. }
  split.
  - intros [HP HC]. split; [exact HP|]. intros pb Hpb. apply HE. now apply HC.
  - intros [HP HC]. split; [exact HP|]. intros pb Hpb. apply HE. now apply HC.
Qed.

Lemma same_bucket_pos_iff pbs p1 p2 : same_bucket_pos pbs p1 p2 = true <-> share pbs p1 p2.
Proof.
  unfold same_bucket_pos, share. rewrite existsb_exists.
  split; intros (pb & Hpb & H); exists pb; (split; [exact Hpb|]).
  - apply andb_true_iff in H as [H1 H2]. now rewrite <- !memN_In.
  - destruct H as [H1 H2]. apply andb_true_iff. now rewrite !memN_In.
Qed.

Theorem c05_pos_ok_iff lvl gs pbs : c05_pos_ok lvl gs pbs = true <-> pos_classes lvl gs pbs.
Proof.
  unfold c05_pos_ok, pos_classes. split.
  - intros H p1 p2 g1 g2 E1 E2. rewrite forallb_forall in H.
    assert (I1 : In p1 (seq 0 (List.length gs))).
    { apply in_seq. assert (p1 < List.length gs) by (apply nth_error_Some; congruence). lia. }
    assert (I2 : In p2 (seq 0 (List.length gs))).
    { apply in_seq. assert (p2 < List.length gs) by (apply nth_error_Some; congruence). lia. }
    specialize (H p1 I1). rewrite forallb_forall in H. specialize (H p2 I2). rewrite E1, E2 in H.
    apply (proj1 (bool_eqb_iff _ _)) in H. rewrite <- same_bucket_pos_iff, <- canon_sig_eqb_iff. now rewrite H.
  - intros H. apply forallb_forall. intros p1 _. apply forallb_forall. intros p2 _.
    destruct (nth_error gs p1) as [g1|] eqn:E1; [|reflexivity].
    destruct (nth_error gs p2) as [g2|] eqn:E2; [|reflexivity].
    apply bool_eqb_iff, eq_iff_eq_true. rewrite same_bucket_pos_iff, canon_sig_eqb_iff. now apply H.
Qed.

Theorem c12_pos_ok_iff gs pbs : c12_pos_ok gs pbs = true <-> pos_truthful gs pbs.
Proof. unfold c12_pos_ok, pos_truthful. apply forallb_forall. Qed.

(* ------------------------------------------------------------------ *)
(* order independence                                                  *)
(* ------------------------------------------------------------------ *)
(* [f] sends a position of gs' to a position of gs holding the same goroutine *)
Theorem order_independent_pos :
  forall sh1 sh2 lvl gs gs' pbs pbs' (f : nat -> nat),
  (forall k l, Permutation (sh1 k l) l) -> (forall k l, Permutation (sh2 k l) l) ->
  wf_goroutines gs = true ->
  (forall j, j < List.length gs' -> nth_error gs' j = nth_error gs (f j)) ->
  aggregate_pos sh1 lvl gs = Ok pbs -> aggregate_pos sh2 lvl gs' = Ok pbs' ->
  forall j1 j2, j1 < List.length gs' -> j2 < List.length gs' ->
    (share pbs' j1 j2 <-> share pbs (f j1) (f j2)).
Proof.
  intros sh1 sh2 lvl gs gs' pbs pbs' f H1 H2 Hwf Hf HA HA' j1 j2 L1 L2.
  assert (Hwf' : wf_goroutines gs' = true).
  { unfold wf_goroutines in *. rewrite forallb_forall in *. intros g Hg.
    apply In_nth_error in Hg as (j & Hj).
    assert (Lj : j < List.length gs') by (apply nth_error_Some; congruence).
    rewrite (Hf j Lj) in Hj. apply Hwf. now apply nth_error_In in Hj. }
  destruct (nth_error gs' j1) as [g1|] eqn:E1; [|apply nth_error_None in E1; lia].
  destruct (nth_error gs' j2) as [g2|] eqn:E2; [|apply nth_error_None in E2; lia].
  rewrite (classes_pos sh2 lvl gs' pbs' H2 Hwf' HA' j1 j2 g1 g2 E1 E2).
  rewrite (Hf j1 L1) in E1. rewrite (Hf j2 L2) in E2.
  rewrite (classes_pos sh1 lvl gs pbs H1 Hwf HA (f j1) (f j2) g1 g2 E1 E2). reflexivity.
Qed.

(* every permutation of the snapshot is of that form *)
Theorem order_independent_perm :
  forall sh1 sh2 lvl gs gs' pbs pbs',
  (forall k l, Permutation (sh1 k l) l) -> (forall k l, Permutation (sh2 k l) l) ->
  wf_goroutines gs = true -> Permutation gs gs' ->
  aggregate_pos sh1 lvl gs = Ok pbs -> aggregate_pos sh2 lvl gs' = Ok pbs' ->
  exists f : nat -> nat,
    Injective f /\ bFun (List.length gs) f /\ (forall j, nth_error gs' j = nth_error gs (f j)) /\
    forall j1 j2, j1 < List.length gs' -> j2 < List.length gs' ->
      same_bucket_pos pbs' j1 j2 = same_bucket_pos pbs (f j1) (f j2).
Proof.
  intros sh1 sh2 lvl gs gs' pbs pbs' H1 H2 Hwf HP HA HA'.
  apply Permutation_nth_error_bis in HP as (f & Hi & Hb & Hf).
  exists f. split; [exact Hi|]. split; [exact Hb|]. split; [exact Hf|].
  intros j1 j2 L1 L2. apply eq_iff_eq_true. rewrite !same_bucket_pos_iff.
  apply (order_independent_pos sh1 sh2 lvl gs gs' pbs pbs' f H1 H2 Hwf); auto.
Qed.

(* ------------------------------------------------------------------ *)
(* nothing was lost: the id-based predicates of Spec/BucketSpec.v      *)
(* follow from the positional ones (c05, c12: when ids are distinct,   *)
(* the only case in which they say anything)                           *)
(* ------------------------------------------------------------------ *)
Lemma at_pos_nil p : at_pos [] p = [].
Proof. unfold at_pos. now destruct p. Qed.

Lemma members_at_seq gs : members_at gs (seq 0 (List.length gs)) = gs.
Proof.
  unfold members_at.
  enough (H : forall pre, flat_map (at_pos (pre ++ gs)) (seq (List.length pre) (List.length gs)) = gs)
    by (exact (H [])).
  induction gs as [|g gs IH]; intros pre; cbn [List.length seq flat_map]; [reflexivity|].
  unfold at_pos at 1. rewrite nth_error_app2, Nat.sub_diag by lia. cbn [nth_error app]. f_equal.
  specialize (IH (pre ++ [g])). rewrite <- app_assoc, app_length in IH. cbn [List.length app] in IH.
  now rewrite Nat.add_1_r in IH.
Qed.

Lemma flat_map_map' {A B C} (f : B -> list C) (g : A -> B) l : flat_map f (map g l) = flat_map (fun x => f (g x)) l.
Proof. induction l as [|x l IH]; cbn; [reflexivity|]. now rewrite IH. Qed.

Lemma ids_of_positions gs (pbs : list pbucket) :
  flat_map (fun pb => map ID (members_at gs (positions pb))) pbs = map ID (members_at gs (flat_map positions pbs)).
Proof.
  induction pbs as [|pb pbs IH]; cbn [flat_map]; [reflexivity|]. now rewrite members_at_app, map_app, IH.
Qed.

Lemma ids_perm gs pbs : pos_partition gs pbs -> Permutation (flat_map IDs (map forget pbs)) (map ID gs).
Proof.
  intros [HP HC]. rewrite flat_map_map'.
  transitivity (flat_map (fun pb => map ID (members_at gs (positions pb))) pbs).
  - apply Permutation_flat_map_ext. intros pb Hpb. destruct (HC pb Hpb) as (_ & _ & E & _).
    rewrite E. apply sortZ_perm'.
  - rewrite ids_of_positions. rewrite <- (members_at_seq gs) at 2.
    apply Permutation_map. unfold members_at. now apply Permutation_flat_map.
Qed.

(* goroutines at positions p-k, for the positions p >= k of the list *)
Definition mat (k : nat) (gs : list Goroutine) (ps : list nat) : list Goroutine :=
  flat_map (fun p => at_pos gs (p - k)) ps.

Lemma mat_0 gs ps : mat 0 gs ps = members_at gs ps.
Proof. unfold mat, members_at. apply flat_map_ext. intros p. now rewrite Nat.sub_0_r. Qed.

Lemma mat_nil k ps : mat k [] ps = [].
Proof. unfold mat. induction ps as [|p ps IH]; cbn; [reflexivity|]. now rewrite at_pos_nil. Qed.

Lemma mat_shift k g gs ps : asc_from (S k) ps = true -> mat k (g :: gs) ps = mat (S k) gs ps.
Proof.
  intros HA. apply asc_from_ge in HA. unfold mat.
  induction HA as [|p ps Hp HA IH]; cbn [flat_map]; [reflexivity|]. rewrite IH. f_equal.
  replace (p - k) with (S (p - S k)) by lia. reflexivity.
Qed.

Lemma mat_incl k gs ps g : In g (mat k gs ps) -> In g gs.
Proof.
  unfold mat. rewrite in_flat_map. intros (p & _ & H). unfold at_pos in H.
  destruct (nth_error gs (p - k)) as [g'|] eqn:E; [|contradiction]. destruct H as [<- | []].
  now apply nth_error_In in E.
Qed.

Lemma filter_none {A} (l : list A) : filter (fun _ => false) l = [].
Proof. induction l; cbn; auto. Qed.

Lemma members_nodup gs : NoDup (map ID gs) -> forall k ps, asc_from k ps = true ->
  filter (fun g => memZ (ID g) (map ID (mat k gs ps))) gs = mat k gs ps.
Proof.
  induction gs as [|g gs IH]; intros HN k ps HA; [now rewrite mat_nil|].
  cbn [map] in HN. inversion HN as [|? ? Hni HN']; subst.
  assert (Hout : forall M, (forall x, In x M -> In x gs) -> memZ (ID g) (map ID M) = false).
  { intros M HM. apply Truthful.memZ_false_notin. intros Hin. apply in_map_iff in Hin as (x & Ex & Hx).
    apply Hni. rewrite <- Ex. apply in_map. now apply HM. }
  destruct ps as [|p ps].
  - cbn. apply filter_none.
  - cbn [asc_from] in HA. apply andb_true_iff in HA as [H1 H2]. apply Nat.leb_le in H1.
    destruct (Nat.eq_dec p k) as [-> | Hne].
    + assert (E : mat k (g :: gs) (k :: ps) = g :: mat (S k) gs ps).
      { unfold mat at 1. cbn [flat_map]. rewrite Nat.sub_diag. cbn [at_pos nth_error app]. f_equal.
        now apply mat_shift. }
      rewrite E. cbn [filter map]. unfold memZ at 1. cbn [existsb]. rewrite Z.eqb_refl. cbn [orb]. f_equal.
      transitivity (filter (fun x => memZ (ID x) (map ID (mat (S k) gs ps))) gs); [|now apply IH].
      apply Truthful.filter_ext_in'. intros x Hx.
      unfold memZ. cbn [existsb]. replace (Z.eqb (ID x) (ID g)) with false; [reflexivity|].
      symmetry. apply Z.eqb_neq. intros Ex. apply Hni. rewrite <- Ex. now apply in_map.
    + assert (HA' : asc_from (S k) (p :: ps) = true).
      { cbn [asc_from]. rewrite H2, andb_true_r. apply Nat.leb_le. lia. }
      rewrite (mat_shift k g gs _ HA'). cbn [filter].
      rewrite (Hout _ (mat_incl (S k) gs (p :: ps))). now apply IH.
Qed.

Lemma memZ_sortZ x l : memZ x (sortZ l) = memZ x l.
Proof. rewrite <- sort_ints_sortZ. apply Truthful.memZ_sort_ints. Qed.

(* with distinct ids, the members "by id" are the members "by position" *)
Lemma members_of_positions gs b ps :
  NoDup (map ID gs) -> asc_from 0 ps = true -> IDs b = sortZ (map ID (members_at gs ps)) ->
  members gs b = members_at gs ps.
Proof.
  intros HN HA E. unfold members. rewrite E, <- mat_0.
  transitivity (filter (fun g => memZ (ID g) (map ID (mat 0 gs ps))) gs); [|now apply members_nodup].
  apply Truthful.filter_ext_in'. intros x _. apply memZ_sortZ.
Qed.

Lemma id_at_pos gs p g ps :
  NoDup (map ID gs) -> nth_error gs p = Some g -> (In (ID g) (map ID (members_at gs ps)) <-> In p ps).
Proof.
  intros HN EN. split.
  - intros H. apply in_map_iff in H as (g' & Ex & Hg'). apply in_members_at in Hg' as (p' & Hp' & EN').
    assert (p = p') as ->; [|exact Hp'].
    apply (proj1 (NoDup_nth_error (map ID gs)) HN).
    + rewrite map_length. apply nth_error_Some. congruence.
    + now rewrite (map_nth_error ID _ _ EN), (map_nth_error ID _ _ EN'), Ex.
  - intros Hp. apply in_map. apply in_members_at. eauto.
Qed.

Theorem pos_implies_c04 gs pbs : pos_partition gs pbs -> c04_ok gs (map forget pbs) = true.
Proof.
  intros HPP. pose proof HPP as [HP HC]. apply c04_ok_of_explicit.
  - intros b Hb. apply in_map_iff in Hb as (pb & <- & Hpb). destruct (HC pb Hpb) as (NE & _ & E & _).
    rewrite E. split; [|apply sortZ_sorted].
    intros E0. pose proof (sortZ_perm' (map ID (members_at gs (positions pb)))) as HS. rewrite E0 in HS.
    apply Permutation_nil, map_eq_nil in HS.
    destruct (positions pb) as [|p ps] eqn:EP; [now apply NE|].
    assert (Hp : In p (seq 0 (List.length gs))).
    { apply (Permutation_in _ HP). apply in_flat_map. exists pb. split; [exact Hpb|]. rewrite EP. now left. }
    apply in_seq in Hp. destruct (nth_error gs p) as [g|] eqn:EN; [|apply nth_error_None in EN; lia].
    assert (Hg : In g (members_at gs (p :: ps))) by (apply in_members_at; exists p; split; [now left | exact EN]).
    rewrite HS in Hg. contradiction.
  - now apply ids_perm.
  - intros HN b Hb. apply in_map_iff in Hb as (pb & <- & Hpb). destruct (HC pb Hpb) as (_ & HA & E & EF).
    now rewrite (members_of_positions gs (forget pb) (positions pb) HN HA E).
Qed.

Lemma bidx_share bs id1 id2 :
  NoDup (flat_map IDs bs) -> In id1 (flat_map IDs bs) -> In id2 (flat_map IDs bs) ->
  (opt_nat_eqb (bucket_index bs id1) (bucket_index bs id2) = true <->
   exists b, In b bs /\ In id1 (IDs b) /\ In id2 (IDs b)).
Proof.
  intros HN H1 H2. rewrite !bucket_index_bidx.
  destruct (bidx_found _ _ 0 H1) as (n1 & b1 & E1 & N1 & I1).
  destruct (bidx_found _ _ 0 H2) as (n2 & b2 & E2 & N2 & I2).
  rewrite E1, E2. cbn [opt_nat_eqb Nat.add]. rewrite Nat.eqb_eq. split.
  - intros ->. rewrite N1 in N2. injection N2 as <-. exists b1. split; [now apply nth_error_In in N1 | auto].
  - intros (b & Hb & J1 & J2). apply In_nth_error in Hb as (n & Hn).
    rewrite (bidx_unique _ id1 HN n1 n b1 b N1 Hn I1 J1).
    now rewrite (bidx_unique _ id2 HN n2 n b2 b N2 Hn I2 J2).
Qed.

Theorem pos_implies_c05 lvl gs pbs :
  pos_partition gs pbs -> pos_classes lvl gs pbs -> c05_ok lvl gs (map forget pbs) = true.
Proof.
  intros HPP HCL. unfold c05_ok.
  destruct (nodupZ (map ID gs)) eqn:E; cbn [negb]; [|reflexivity]. apply nodupZ_NoDup in E.
  pose proof (ids_perm gs pbs HPP) as HI. destruct HPP as [HP HC].
  assert (HNB : NoDup (flat_map IDs (map forget pbs))) by (apply (Permutation_NoDup (Permutation_sym HI)); exact E).
  assert (HIn : forall g, In g gs -> In (ID g) (flat_map IDs (map forget pbs))).
  { intros g Hg. apply (Permutation_in _ (Permutation_sym HI)). now apply in_map. }
  assert (HX : forall pb p g, In pb pbs -> nth_error gs p = Some g ->
                 (In (ID g) (IDs (forget pb)) <-> In p (positions pb))).
  { intros pb p g Hpb EN. destruct (HC pb Hpb) as (_ & _ & EI & _). rewrite EI.
    rewrite <- (id_at_pos gs p g (positions pb) E EN).
    split; apply Permutation_in; [apply sortZ_perm' | apply Permutation_sym, sortZ_perm']. }
  apply forallb_forall. intros g1 Hg1. apply forallb_forall. intros g2 Hg2.
  apply bool_eqb_iff, eq_iff_eq_true. rewrite canon_sig_eqb_iff.
  rewrite (bidx_share _ _ _ HNB (HIn g1 Hg1) (HIn g2 Hg2)).
  apply In_nth_error in Hg1 as (p1 & E1). apply In_nth_error in Hg2 as (p2 & E2).
  rewrite <- (HCL p1 p2 g1 g2 E1 E2). unfold share. split.
  - intros (b & Hb & J1 & J2). apply in_map_iff in Hb as (pb & <- & Hpb). exists pb.
    split; [exact Hpb|]. now rewrite <- (HX pb p1 g1 Hpb E1), <- (HX pb p2 g2 Hpb E2).
  - intros (pb & Hpb & J1 & J2). exists (forget pb). split; [now apply in_map|].
    now rewrite (HX pb p1 g1 Hpb E1), (HX pb p2 g2 Hpb E2).
Qed.

Lemma c12_bucket_sig gs b : c12_bucket gs b = c12_sig (BSig b) (map GSig (members gs b)).
Proof. reflexivity. Qed.

Theorem pos_implies_c12 gs pbs :
  pos_partition gs pbs -> pos_truthful gs pbs -> c12_ok gs (map forget pbs) = true.
Proof.
  intros [HP HC] HT. unfold c12_ok.
  destruct (nodupZ (map ID gs)) eqn:E; cbn [negb]; [|reflexivity]. apply nodupZ_NoDup in E.
  apply forallb_forall. intros b Hb. apply in_map_iff in Hb as (pb & <- & Hpb).
  destruct (HC pb Hpb) as (_ & HA & EI & _).
  rewrite c12_bucket_sig, (members_of_positions gs (forget pb) (positions pb) E HA EI). now apply HT.
Qed.

(* the theorems of Properties/C04.v, C05.v, C12.v, re-derived through the
   erasure theorem and the positional statements *)
Corollary partition_ok_again :
  forall shuffle lvl gs, exists bs, aggregate shuffle lvl gs = Ok bs /\ c04_ok gs bs = true.
Proof.
  intros shuffle lvl gs. destruct (aggregate_pos_ghostP shuffle lvl gs) as (pst & EA & _).
  exists (map forget (pbs_of pst)). split; [now apply aggregate_pos_forget|].
  apply pos_implies_c04. now apply (partition_pos shuffle lvl).
Qed.

Corollary buckets_are_classes_again :
  forall shuffle lvl gs bs,
  (forall k l, Permutation (shuffle k l) l) -> wf_goroutines gs = true ->
  aggregate shuffle lvl gs = Ok bs -> c05_ok lvl gs bs = true.
Proof.
  intros shuffle lvl gs bs Hsh Hwf HA.
  apply aggregate_pos_exists in HA as (pbs & HA & ->).
  apply pos_implies_c05; [now apply (partition_pos shuffle lvl) | now apply (classes_pos shuffle)].
Qed.

Corollary truthful_again :
  forall shuffle lvl gs bs, aggregate shuffle lvl gs = Ok bs -> c12_ok gs bs = true.
Proof.
  intros shuffle lvl gs bs HA.
  apply aggregate_pos_exists in HA as (pbs & HA & ->).
  apply pos_implies_c12; [now apply (partition_pos shuffle lvl) | now apply (truthful_pos shuffle lvl)].
Qed.

Corollary order_independent_again :
  forall sh1 sh2 lvl gs gs' bs bs',
  (forall k l, Permutation (sh1 k l) l) -> (forall k l, Permutation (sh2 k l) l) ->
  wf_goroutines gs = true -> NoDup (map ID gs) -> Permutation gs gs' ->
  aggregate sh1 lvl gs = Ok bs -> aggregate sh2 lvl gs' = Ok bs' ->
  forall g1 g2, In g1 gs -> In g2 gs ->
    opt_nat_eqb (bucket_index bs (ID g1)) (bucket_index bs (ID g2)) =
    opt_nat_eqb (bucket_index bs' (ID g1)) (bucket_index bs' (ID g2)).
Proof.
  intros sh1 sh2 lvl gs gs' bs bs' H1 H2 Hwf HND HP HA HA' g1 g2 Hg1 Hg2.
  assert (Hwf' : wf_goroutines gs' = true).
  { unfold wf_goroutines in *. rewrite forallb_forall in *. intros g Hg. apply Hwf.
    now apply (Permutation_in _ (Permutation_sym HP)). }
  assert (HND' : NoDup (map ID gs')) by (apply (Permutation_NoDup (Permutation_map ID HP)); exact HND).
  pose proof (buckets_are_classes_again sh1 lvl gs bs H1 Hwf HA) as C1.
  pose proof (buckets_are_classes_again sh2 lvl gs' bs' H2 Hwf' HA') as C2.
  unfold c05_ok in C1, C2.
  rewrite (proj2 (nodupZ_NoDup _) HND) in C1. rewrite (proj2 (nodupZ_NoDup _) HND') in C2.
  cbn [negb] in C1, C2. rewrite forallb_forall in C1, C2.
  specialize (C1 g1 Hg1). specialize (C2 g1 (Permutation_in _ HP Hg1)). rewrite forallb_forall in C1, C2.
  specialize (C1 g2 Hg2). specialize (C2 g2 (Permutation_in _ HP Hg2)).
  apply (proj1 (bool_eqb_iff _ _)) in C1. apply (proj1 (bool_eqb_iff _ _)) in C2. congruence.
Qed.

(* ------------------------------------------------------------------ *)
(* the positional specification pins the partition                     *)
(* ------------------------------------------------------------------ *)
Lemma flat_map_nodup_inj {A B} (f : A -> list B) (l : list A) a b x :
  NoDup (flat_map f l) -> In a l -> In b l -> In x (f a) -> In x (f b) -> a = b.
Proof.
  induction l as [|c l IH]; intros HN Ha Hb Xa Xb; [contradiction|].
  cbn [flat_map] in HN. destruct (NoDup_app_inv _ _ HN) as [HN' HD].
  assert (HF : forall d, In d l -> In x (f d) -> In x (flat_map f l)).
  { intros d Hd Xd. apply in_flat_map. eauto. }
  destruct Ha as [<- | Ha], Hb as [<- | Hb].
  - reflexivity.
  - exfalso. apply (HD x Xa). now apply (HF b).
  - exfalso. apply (HD x Xb). now apply (HF a).
  - now apply IH.
Qed.

Lemma asc_ext ps : forall k qs, asc_from k ps = true -> asc_from k qs = true ->
  (forall x, In x ps <-> In x qs) -> ps = qs.
Proof.
  induction ps as [|p ps IH]; intros k qs HA HB HI.
  - destruct qs as [|q qs]; [reflexivity|]. exfalso. apply (HI q). now left.
  - destruct qs as [|q qs]; [exfalso; apply (HI p); now left|].
    cbn [asc_from] in HA, HB. apply andb_true_iff in HA as [A1 A2]. apply andb_true_iff in HB as [B1 B2].
    pose proof (asc_from_ge _ _ A2) as GA. pose proof (asc_from_ge _ _ B2) as GB.
    rewrite Forall_forall in GA, GB.
    assert (p = q) as <-.
    { destruct (proj1 (HI p) (or_introl eq_refl)) as [E | Hp]; [now symmetry|].
      destruct (proj2 (HI q) (or_introl eq_refl)) as [E | Hq]; [exact E|].
      apply GB in Hp. apply GA in Hq. lia. }
    f_equal. apply (IH (S p)); [exact A2 | exact B2|]. intros x. split; intros Hx.
    + destruct (proj1 (HI x) (or_intror Hx)) as [E | Hx']; [|exact Hx']. apply GA in Hx. lia.
    + destruct (proj2 (HI x) (or_intror Hx)) as [E | Hx']; [|exact Hx']. apply GB in Hx. lia.
Qed.

Lemma share_same_bucket gs pbs pb p q :
  pos_partition gs pbs -> In pb pbs -> In p (positions pb) -> (share pbs p q <-> In q (positions pb)).
Proof.
  intros [HP _] Hpb Hp. split.
  - intros (pb' & Hpb' & Hp' & Hq').
    assert (HN : NoDup (flat_map positions pbs)).
    { apply (Permutation_NoDup (Permutation_sym HP)). apply seq_NoDup. }
    now rewrite (flat_map_nodup_inj positions pbs pb pb' p HN Hpb Hpb' Hp Hp').
  - intros Hq. exists pb. auto.
Qed.

(* two positioned bucket lists that both satisfy the positional C04 and C05
   for the same snapshot and level have the same member-position lists *)
Theorem pos_spec_unique lvl gs pbs pbs' :
  pos_partition gs pbs -> pos_classes lvl gs pbs ->
  pos_partition gs pbs' -> pos_classes lvl gs pbs' ->
  forall ps, In ps (map positions pbs) -> In ps (map positions pbs').
Proof.
  intros HPP HCL HPP' HCL' ps Hps. apply in_map_iff in Hps as (pb & <- & Hpb).
  pose proof HPP as [HP HC]. pose proof HPP' as [HP' HC'].
  destruct (HC pb Hpb) as (NE & HA & _).
  destruct (positions pb) as [|p ps] eqn:EP; [contradiction|].
  assert (Hp : In p (positions pb)) by (rewrite EP; now left).
  assert (HR : forall q pb0, In pb0 pbs -> In q (positions pb0) -> exists g, nth_error gs q = Some g).
  { intros q pb0 H0 Hq.
    assert (Hs : In q (seq 0 (List.length gs))).
    { apply (Permutation_in _ HP). apply in_flat_map. eauto. }
    apply in_seq in Hs. destruct (nth_error gs q) as [g|] eqn:EN; [eauto | apply nth_error_None in EN; lia]. }
  assert (HR' : forall q pb0, In pb0 pbs' -> In q (positions pb0) -> exists g, nth_error gs q = Some g).
  { intros q pb0 H0 Hq.
    assert (Hs : In q (seq 0 (List.length gs))).
    { apply (Permutation_in _ HP'). apply in_flat_map. eauto. }
    apply in_seq in Hs. destruct (nth_error gs q) as [g|] eqn:EN; [eauto | apply nth_error_None in EN; lia]. }
  destruct (HR p pb Hpb Hp) as (g & EN).
  assert (Hp' : In p (flat_map positions pbs')).
  { apply (Permutation_in _ (Permutation_sym HP')). apply in_seq.
    assert (p < List.length gs) by (apply nth_error_Some; congruence). lia. }
  apply in_flat_map in Hp' as (pb' & Hpb' & Hp').
  destruct (HC' pb' Hpb') as (_ & HA' & _).
  apply in_map_iff. exists pb'. split; [|exact Hpb']. rewrite <- EP in HA. rewrite <- EP.
  apply (asc_ext _ 0 _ HA' HA). intros q.
  rewrite <- (share_same_bucket gs pbs' pb' p q HPP' Hpb' Hp').
  rewrite <- (share_same_bucket gs pbs pb p q HPP Hpb Hp).
  split.
  - intros HS. pose proof HS as (pb0 & H0 & _ & Hq). destruct (HR' q pb0 H0 Hq) as (gq & ENq).
    now rewrite (HCL p q g gq EN ENq), <- (HCL' p q g gq EN ENq).
  - intros HS. pose proof HS as (pb0 & H0 & _ & Hq). destruct (HR q pb0 H0 Hq) as (gq & ENq).
    now rewrite (HCL' p q g gq EN ENq), <- (HCL p q g gq EN ENq).
Qed.

(* ------------------------------------------------------------------ *)
(* concrete witnesses                                                  *)
(* ------------------------------------------------------------------ *)
Definition okp_or_nil (r : GoResult (list pbucket)) : list pbucket := match r with Ok l => l | Panic _ => [] end.
(* an oracle that is not the identity *)
Definition rev_shuffle (k : nat) (l : list nat) : list nat := if Nat.even k then rev l else l.

Lemma rev_shuffle_perm k l : Permutation (rev_shuffle k l) l.
Proof. unfold rev_shuffle. destruct (Nat.even k); [apply Permutation_sym, Permutation_rev | apply Permutation_refl]. Qed.

(* five goroutines, the id 7 three times: positions 0 and 3 hold the same
   goroutine twice, position 1 a DIFFERENT goroutine with the same id *)
Definition dup_gs : list Goroutine :=
  [ Aggregate.ex_gor 7 false (s2b "main.f") [ex_ptr 824633786368];
    Aggregate.ex_gor 7 true (s2b "main.g") [ex_ptr 824633786368];
    Aggregate.ex_gor 3 false (s2b "main.f") [ex_ptr 824633790464];
    Aggregate.ex_gor 7 false (s2b "main.f") [ex_ptr 824633786368];
    Aggregate.ex_gor 9 false (s2b "main.g") [ex_ptr 1] ].

Theorem example_pos : exists gs pbs,
  wf_goroutines gs = true /\ List.length gs = 5 /\ nodupZ (map ID gs) = false /\
  aggregate_pos rev_shuffle AnyPointer gs = Ok pbs /\
  map positions pbs = [[1; 4]; [0; 2; 3]] /\ map (fun pb => IDs (forget pb)) pbs = [[7; 9]; [3; 7; 7]]%Z /\
  c04_pos_ok gs pbs = true /\ c05_pos_ok AnyPointer gs pbs = true /\ c12_pos_ok gs pbs = true.
Proof.
  exists dup_gs, (okp_or_nil (aggregate_pos rev_shuffle AnyPointer dup_gs)).
  repeat split; vm_compute; reflexivity.
Qed.

(* why ids are not enough.  Positions 0 and 1 hold two different goroutines
   (different function, never similar) with the same id 7.  The id-based
   predicates accept the WRONG answer "one bucket holding all three": c05_ok
   and c12_ok because they give up on a repeated id, c04_ok because only the
   multiset of ids is left to check.  The positional predicates reject it and
   accept the model's answer, whose partition {0,2} {1} they pin. *)
Definition vac_gs : list Goroutine :=
  [ Aggregate.ex_gor 7 false (s2b "main.f") [ex_ptr 824633786368];
    Aggregate.ex_gor 7 true (s2b "main.g") [ex_ptr 824633786368];
    Aggregate.ex_gor 3 false (s2b "main.f") [ex_ptr 824633790464] ].
Definition vac_wrong : list pbucket :=
  [ (mkBucket (GSig (Aggregate.ex_gor 7 false (s2b "main.f") [ex_ptr 824633786368])) [3; 7; 7]%Z true, [0; 1; 2]) ].

Theorem ids_not_enough_refuted : exists gs wrong pbs g0 g1,
  nth_error gs 0 = Some g0 /\ nth_error gs 1 = Some g1 /\ ID g0 = ID g1 /\
  canon_sig_eqb AnyValue (GSig g0) (GSig g1) = false /\
  wf_goroutines gs = true /\
  (* the wrong answer passes every id-based predicate *)
  c04_ok gs (map forget wrong) = true /\ c05_ok AnyPointer gs (map forget wrong) = true /\
  c12_ok gs (map forget wrong) = true /\
  (* but not the positional ones *)
  c04_pos_ok gs wrong = true /\ c05_pos_ok AnyPointer gs wrong = false /\ c12_pos_ok gs wrong = false /\
  (* which the model's answer satisfies *)
  aggregate_pos id_shuffle AnyPointer gs = Ok pbs /\ map positions pbs = [[1]; [0; 2]] /\
  c04_pos_ok gs pbs = true /\ c05_pos_ok AnyPointer gs pbs = true /\ c12_pos_ok gs pbs = true /\
  (* the id-based c05/c12 accept ANY bucket list for this snapshot *)
  (forall lvl bs, c05_ok lvl gs bs = true /\ c12_ok gs bs = true).
Proof.
  exists vac_gs, vac_wrong, (okp_or_nil (aggregate_pos id_shuffle AnyPointer vac_gs)).
  do 2 eexists. split; [reflexivity|]. split; [reflexivity|].
  repeat split; try (vm_compute; reflexivity).
Qed.

(* a permuted snapshot: position j of [rev dup_gs] holds the goroutine of
   position 4-j of [dup_gs]; the partitions correspond *)
Theorem example_order : exists gs gs' pbs pbs',
  Permutation gs gs' /\ gs' = rev gs /\ wf_goroutines gs = true /\
  aggregate_pos id_shuffle AnyPointer gs = Ok pbs /\ aggregate_pos rev_shuffle AnyPointer gs' = Ok pbs' /\
  map positions pbs = [[1; 4]; [0; 2; 3]] /\ map positions pbs' = [[0; 3]; [1; 2; 4]] /\
  forallb (fun j1 => forallb (fun j2 =>
     Bool.eqb (same_bucket_pos pbs' j1 j2) (same_bucket_pos pbs (4 - j1) (4 - j2))) (seq 0 5)) (seq 0 5) = true.
Proof.
  exists dup_gs, (rev dup_gs), (okp_or_nil (aggregate_pos id_shuffle AnyPointer dup_gs)),
         (okp_or_nil (aggregate_pos rev_shuffle AnyPointer (rev dup_gs))).
  split; [apply Permutation_rev|]. repeat split; vm_compute; reflexivity.
Qed.

(* ------------------------------------------------------------------ *)
(* the statements in terms of the executable predicates                *)
(* ------------------------------------------------------------------ *)
Theorem partition_pos_ok :
  forall shuffle lvl gs, exists pbs,
    aggregate_pos shuffle lvl gs = Ok pbs /\ aggregate shuffle lvl gs = Ok (map forget pbs) /\
    c04_pos_ok gs pbs = true.
Proof.
  intros shuffle lvl gs. destruct (aggregate_pos_ghostP shuffle lvl gs) as (pst & EA & _).
  exists (pbs_of pst). split; [exact EA|]. split; [now apply aggregate_pos_forget|].
  apply c04_pos_ok_iff. now apply (partition_pos shuffle lvl).
Qed.

Theorem classes_pos_ok :
  forall shuffle lvl gs pbs,
  (forall k l, Permutation (shuffle k l) l) -> wf_goroutines gs = true ->
  aggregate_pos shuffle lvl gs = Ok pbs -> c05_pos_ok lvl gs pbs = true.
Proof. intros shuffle lvl gs pbs Hsh Hwf HA. apply c05_pos_ok_iff. now apply (classes_pos shuffle). Qed.

Theorem truthful_pos_ok :
  forall shuffle lvl gs pbs, aggregate_pos shuffle lvl gs = Ok pbs -> c12_pos_ok gs pbs = true.
Proof. intros shuffle lvl gs pbs HA. apply c12_pos_ok_iff. now apply (truthful_pos shuffle lvl). Qed.

Theorem pos_spec_unique_ok :
  forall lvl gs pbs pbs',
  c04_pos_ok gs pbs = true -> c05_pos_ok lvl gs pbs = true ->
  c04_pos_ok gs pbs' = true -> c05_pos_ok lvl gs pbs' = true ->
  forall ps, In ps (map positions pbs) <-> In ps (map positions pbs').
Proof.
  intros lvl gs pbs pbs' H1 H2 H3 H4 ps.
  apply c04_pos_ok_iff in H1, H3. apply c05_pos_ok_iff in H2, H4.
  split; [now apply (pos_spec_unique lvl gs pbs pbs') | now apply (pos_spec_unique lvl gs pbs' pbs)].
Qed.

Theorem pos_ok_implies_ok :
  forall lvl gs pbs,
  c04_pos_ok gs pbs = true ->
  c04_ok gs (map forget pbs) = true /\
  (c05_pos_ok lvl gs pbs = true -> c05_ok lvl gs (map forget pbs) = true) /\
  (c12_pos_ok gs pbs = true -> c12_ok gs (map forget pbs) = true).
Proof.
  intros lvl gs pbs H1. apply c04_pos_ok_iff in H1. split; [now apply pos_implies_c04|]. split.
  - intros H2. apply c05_pos_ok_iff in H2. now apply pos_implies_c05.
  - intros H3. apply c12_pos_ok_iff in H3. now apply pos_implies_c12.
Qed.
