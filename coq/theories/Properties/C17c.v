(* Properties/C17c.v — the WHOLE HTML DOCUMENT is injection-safe, complete and deterministic.
   Statements only; proofs in Proofs/HtmlPageProofs.v, over the byte-exact model Model/HtmlPage.v of the
   complete output of Aggregated.ToHTML (render_page_buckets) and Snapshot.ToHTML (render_page_goroutines):

       page = head ++ content region (Model/HtmlDoc.v, C17b) ++ metadata list ++ legend ++ footer ++ tail

   The literal text outside the content region is Model/HtmlTpl.v, GENERATED from stack/goroutines.tpl
   (sh scripts/gen_html_tpl.sh; -check fails when the template has changed).  The model was compared byte for
   byte, nothing masked, with Go 1.23.5 (notes/htmldoc-validation: 436 samples) and is compared on every case
   of harness op html (flag corr:html-page).

   Parameters:
     page_env   pe_ver (runtime.Version()), pe_now (time.Now().Truncate(time.Second).String()),
                pe_maxprocs (runtime.GOMAXPROCS(0)), pe_footer (the footer argument of ToHTML, template.HTML)
     snap_meta  the fields of the Snapshot other than Goroutines: LocalGOROOT, LocalGOPATHs (a slice),
                RemoteGOROOT, RemoteGOPATHs and LocalGomods (maps, as association lists)

   Vocabulary (Proofs/HtmlPageProofs.v, no axioms):
     ppiece             Tpl p  (a piece of the template: Lit | Text | Href | Class | Num, see C17b)  |  Raw h
                        (a template.HTML value in a text node: copied verbatim; only the footer)
     is_phole pp        pp is Tpl of a hole (not a literal, not raw)
     ppiece_at ps i     the piece producing byte offset i, with the offset inside it (C17_ppiece_at_split)
     tpl_of ps          the template pieces of ps (raw pieces dropped)
     plit_bytes ps      the literal bytes of ps: template literals and raw pieces
     shape_ppiece       payload of the holes erased; Lit, Num and Raw kept
     hrefs_of, texts_of the payloads of the Href / Text holes, in document order
     page_lits          the finite list of all literals a page can contain
     kv_sort            insertion sort of an association list by key (bytewise), then value

   TRUSTED INPUT: the footer.  ToHTML takes it as template.HTML and html/template copies such a value into a
   text node unchanged; whatever markup (or script) the caller passes ends up in the page.  Every statement
   below treats it as such: delimiters are attributed to "a literal or the footer", counts are taken over the
   template pieces only.

   Findings:
   - all the holes outside the content region are strings in text nodes, escaped by html_escape; GOMAXPROCS is
     a number; the icon is a constant (base64) that goes through the href pipeline like every link;
   - the GOPATHs are NOT one list item each: the template joins them with ", " inside a single <li>
     (C17_page_li_per_gopath_refuted; the right statement is C17_page_gopaths_shown); a path that contains
     ", " is indistinguishable from two paths;
   - Snapshot.RemoteGOPATHs is not rendered at all (C17_page_remote_gopaths_ignored);
   - the modules are listed in ascending bytewise key order whatever the order of the map
     (C17_page_deterministic, C17_page_gomods_shown);
   - the runtime's limit of 100 frames has no counterpart in the template: a stack of any length is one table,
     with the single row  <tr><td>(...)</td><tr>  (two <tr> literals, see C17b) when Elided is set. *)
From PP Require Import Base.Bytes Base.BytesX Base.Num Base.GoResult Model.Types Model.Bucket Model.Html Model.UI
  Model.HtmlDoc Model.HtmlTpl Model.HtmlPage.
From PP Require Import Proofs.HtmlBase Proofs.HtmlProofs Proofs.HtmlDocProofs Proofs.HtmlPageProofs Properties.C17b.
From Coq Require Import Permutation Sorted.

(* ------------------------------------------------------------------ *)
(* 0. piece_at for pages                                               *)
(* ------------------------------------------------------------------ *)
Theorem C17_ppiece_at_spec : forall ps i c, nth_error (flatten_ppieces ps) i = Some c ->
  exists p k, ppiece_at ps i = Some (p, k) /\ nth_error (flatten_ppiece p) k = Some c.
Proof. exact HtmlPageProofs.ppiece_at_spec. Qed.
Print Assumptions C17_ppiece_at_spec.

Theorem C17_ppiece_at_split : forall ps i p k, ppiece_at ps i = Some (p, k) ->
  exists pre post, ps = pre ++ p :: post /\ i = (List.length (flatten_ppieces pre) + k)%nat /\
                   (k < List.length (flatten_ppiece p))%nat.
Proof. exact HtmlPageProofs.ppiece_at_split. Qed.
Print Assumptions C17_ppiece_at_split.

(* ------------------------------------------------------------------ *)
(* 1. C17_page_holes_escaped                                           *)
(* ------------------------------------------------------------------ *)
(* no byte of a hole is a delimiter *)
Theorem C17_page_hole_safe : forall pp c, is_phole pp = true -> In c (flatten_ppiece pp) -> delim c = false.
Proof. exact HtmlPageProofs.phole_no_delim. Qed.
Print Assumptions C17_page_hole_safe.

(* every <, >, double quote and single quote of the WHOLE document is a byte of a literal of the template
   or a byte of the trusted footer *)
Theorem C17_page_holes_escaped : forall env m bs i c,
  nth_error (render_page_buckets env m bs) i = Some c -> delim c = true ->
  (exists s k, ppiece_at (page_pieces_buckets env m bs) i = Some (Tpl (Lit s), k) /\ nth_error s k = Some c) \/
  (exists k, ppiece_at (page_pieces_buckets env m bs) i = Some (Raw (pe_footer env), k) /\
             nth_error (pe_footer env) k = Some c).
Proof. intros env m bs. exact (HtmlPageProofs.page_holes_escaped env m (content_pieces_buckets (pe_ver env) bs)). Qed.
Print Assumptions C17_page_holes_escaped.

Theorem C17_page_holes_escaped_goroutines : forall env m gs i c,
  nth_error (render_page_goroutines env m gs) i = Some c -> delim c = true ->
  (exists s k, ppiece_at (page_pieces_goroutines env m gs) i = Some (Tpl (Lit s), k) /\ nth_error s k = Some c) \/
  (exists k, ppiece_at (page_pieces_goroutines env m gs) i = Some (Raw (pe_footer env), k) /\
             nth_error (pe_footer env) k = Some c).
Proof. intros env m gs. exact (HtmlPageProofs.page_holes_escaped env m (content_pieces_goroutines (pe_ver env) gs)). Qed.
Print Assumptions C17_page_holes_escaped_goroutines.

(* an ampersand of the document is a byte of a literal, a byte of the footer, or the first byte of one of
   &#34; &amp; &#39; &#43; &lt; &gt; *)
Theorem C17_page_amp_entity : forall env m bs i,
  nth_error (render_page_buckets env m bs) i = Some 38%N ->
  (exists s k, ppiece_at (page_pieces_buckets env m bs) i = Some (Tpl (Lit s), k)) \/
  (exists h k, ppiece_at (page_pieces_buckets env m bs) i = Some (Raw h, k)) \/
  (exists e, In e entities6 /\ has_prefix (skipn i (render_page_buckets env m bs)) e = true).
Proof. intros env m bs. exact (HtmlPageProofs.pamp_origin (page_pieces_buckets env m bs)). Qed.
Print Assumptions C17_page_amp_entity.

Theorem C17_page_amp_entity_goroutines : forall env m gs i,
  nth_error (render_page_goroutines env m gs) i = Some 38%N ->
  (exists s k, ppiece_at (page_pieces_goroutines env m gs) i = Some (Tpl (Lit s), k)) \/
  (exists h k, ppiece_at (page_pieces_goroutines env m gs) i = Some (Raw h, k)) \/
  (exists e, In e entities6 /\ has_prefix (skipn i (render_page_goroutines env m gs)) e = true).
Proof. intros env m gs. exact (HtmlPageProofs.pamp_origin (page_pieces_goroutines env m gs)). Qed.
Print Assumptions C17_page_amp_entity_goroutines.

(* the only raw piece is the footer *)
Theorem C17_page_raw_is_footer : forall env m content h, In (Raw h) (page_of env m content) -> h = pe_footer env.
Proof. exact HtmlPageProofs.raw_of_page. Qed.
Print Assumptions C17_page_raw_is_footer.

(* counting formulation: as many delimiters in the document as in the template text and the footer *)
Theorem C17_page_delim_count : forall env m bs c, delim c = true ->
  count_byte (render_page_buckets env m bs) c = count_byte (plit_bytes (page_pieces_buckets env m bs)) c.
Proof. intros env m bs. exact (HtmlPageProofs.pdelim_count (page_pieces_buckets env m bs)). Qed.
Print Assumptions C17_page_delim_count.

(* "a literal of the template": every Lit of a page is one of the finitely many page_lits, and every one of
   those is a contiguous piece of the template text as embedded in stack/data.go *)
Theorem C17_page_literals_from_template : forall env m bs s,
  In (Tpl (Lit s)) (page_pieces_buckets env m bs) -> In s page_lits /\ contains tpl_index_html s = true.
Proof.
  intros env m bs s H. pose proof (HtmlPageProofs.page_lits_buckets env m bs s H) as I.
  exact (conj I (HtmlPageProofs.page_lit_from_template s I)).
Qed.
Print Assumptions C17_page_literals_from_template.

Theorem C17_page_literals_from_template_goroutines : forall env m gs s,
  In (Tpl (Lit s)) (page_pieces_goroutines env m gs) -> In s page_lits /\ contains tpl_index_html s = true.
Proof.
  intros env m gs s H. pose proof (HtmlPageProofs.page_lits_goroutines env m gs s H) as I.
  exact (conj I (HtmlPageProofs.page_lit_from_template s I)).
Qed.
Print Assumptions C17_page_literals_from_template_goroutines.

(* ------------------------------------------------------------------ *)
(* 2. C17_page_skeleton_shape_only                                     *)
(* ------------------------------------------------------------------ *)
(* same_shape / same_shape_goroutines: see C17b.
   same_shape_meta m1 m2 := two_goroots m1 = two_goroots m2 /\
                            length (LocalGOPATHs m1) = length (LocalGOPATHs m2) /\
                            length (LocalGomods m1) = length (LocalGomods m2)
     two_goroots m       := LocalGOROOT m non-empty && RemoteGOROOT m <> LocalGOROOT m
   same_shape_env e1 e2  := pe_maxprocs e1 = pe_maxprocs e2 /\ pe_footer e1 = pe_footer e2
   The creation time, the Go version, the roots, the paths, the module map and RemoteGOPATHs are arbitrary. *)
Theorem C17_page_skeleton_shape_only : forall e1 e2 m1 m2 bs1 bs2,
  same_shape_env e1 e2 -> same_shape_meta m1 m2 -> same_shape bs1 bs2 ->
  map shape_ppiece (page_pieces_buckets e1 m1 bs1) = map shape_ppiece (page_pieces_buckets e2 m2 bs2).
Proof. exact HtmlPageProofs.page_skeleton_shape_only. Qed.
Print Assumptions C17_page_skeleton_shape_only.

Theorem C17_page_skeleton_shape_only_goroutines : forall e1 e2 m1 m2 gs1 gs2,
  same_shape_env e1 e2 -> same_shape_meta m1 m2 -> same_shape_goroutines gs1 gs2 ->
  map shape_ppiece (page_pieces_goroutines e1 m1 gs1) = map shape_ppiece (page_pieces_goroutines e2 m2 gs2).
Proof. exact HtmlPageProofs.page_skeleton_shape_only_goroutines. Qed.
Print Assumptions C17_page_skeleton_shape_only_goroutines.

(* in particular the literal bytes (template text and footer) are the same *)
Theorem C17_page_literal_bytes_shape_only : forall e1 e2 m1 m2 bs1 bs2,
  same_shape_env e1 e2 -> same_shape_meta m1 m2 -> same_shape bs1 bs2 ->
  plit_bytes (page_pieces_buckets e1 m1 bs1) = plit_bytes (page_pieces_buckets e2 m2 bs2).
Proof. exact HtmlPageProofs.page_literal_bytes_shape_only. Qed.
Print Assumptions C17_page_literal_bytes_shape_only.

(* ------------------------------------------------------------------ *)
(* 3. C17_page_complete                                                *)
(* ------------------------------------------------------------------ *)
(* page_counts ps h1 tr li :=  in the template literals of ps there are
       h1 times <h1>,  tr times <tr>,  li times <li>,  once <!DOCTYPE,  once <div id="content">
   (the rows of the legend are <tr class=...>: they are not counted by <tr>).
   meta_items m = 5 + (1 if two_goroots m) + (0 if LocalGomods m is empty, else 1 + its length):
   creation time, version, GOROOT, [GOROOT (local)], GOPATH, [module list + one item per module], GOMAXPROCS. *)
Theorem C17_page_complete : forall env m bs,
  page_counts (page_pieces_buckets env m bs) (List.length bs)
              (total_calls (map BSig bs) + 2 * elided_stacks (map BSig bs)) (meta_items m).
Proof. exact HtmlPageProofs.page_complete_buckets. Qed.
Print Assumptions C17_page_complete.

Theorem C17_page_complete_goroutines : forall env m gs,
  page_counts (page_pieces_goroutines env m gs) (List.length gs)
              (total_calls (map GSig gs) + 2 * elided_stacks (map GSig gs)) (meta_items m).
Proof. exact HtmlPageProofs.page_complete_goroutines. Qed.
Print Assumptions C17_page_complete_goroutines.

(* "one <li> per GOPATH" is FALSE: the number of items does not depend on the number of GOPATHs *)
Example C17_page_li_per_gopath_refuted :
  let m0 := mkSnapMeta [] [] [] [] [] in
  let m3 := mkSnapMeta [] [s2b "/a"; s2b "/b"; s2b "/c"] [] [] [] in
  forall env bs,
    lit_count tag_li (tpl_of (page_pieces_buckets env m0 bs)) = 5%nat /\
    lit_count tag_li (tpl_of (page_pieces_buckets env m3 bs)) = 5%nat.
Proof.
  intros m0 m3 env bs.
  exact (conj (pc_li _ _ _ _ (HtmlPageProofs.page_complete_buckets env m0 bs)) (pc_li _ _ _ _ (HtmlPageProofs.page_complete_buckets env m3 bs))).
Qed.

(* what holds instead: the GOPATH item has one Text hole per path, in slice order, and len - 1 separators *)
Theorem C17_page_gopaths_shown : forall m,
  texts_of (gopath_pieces m) = LocalGOPATHs m /\
  lit_count tpl_join_sep (gopath_pieces m) = Nat.pred (List.length (LocalGOPATHs m)).
Proof. intros m. exact (conj (HtmlPageProofs.gopath_texts m) (HtmlPageProofs.gopath_separators m)). Qed.
Print Assumptions C17_page_gopaths_shown.

(* the module list shows path and import path of every entry, exactly once, in ascending key order *)
Theorem C17_page_gomods_shown : forall m,
  texts_of (gomods_pieces m) = flat_map (fun kv => [fst kv; snd kv]) (kv_sort (LocalGomods m)) /\
  Permutation (kv_sort (LocalGomods m)) (LocalGomods m) /\
  StronglySorted (fun a b => bcmp a b <> Gt) (map fst (kv_sort (LocalGomods m))).
Proof.
  intros m. exact (conj (HtmlPageProofs.gomods_texts m)
    (conj (HtmlPageProofs.kv_sort_permutation (LocalGomods m)) (HtmlPageProofs.kv_sort_keys_sorted (LocalGomods m)))).
Qed.
Print Assumptions C17_page_gomods_shown.

(* ------------------------------------------------------------------ *)
(* 4. C17_page_deterministic                                           *)
(* ------------------------------------------------------------------ *)
(* The page is a Coq function of (env, meta, goroutines / buckets): there is no other input.  Moreover it
   does not depend on the order in which the maps are enumerated:
   meta_equiv m1 m2 := LocalGOROOT, RemoteGOROOT, LocalGOPATHs equal /\ Permutation (LocalGomods m1) (LocalGomods m2)
   (RemoteGOPATHs arbitrary). *)
Theorem C17_page_map_order : forall l1 l2, Permutation l1 l2 -> kv_sort l1 = kv_sort l2.
Proof. exact HtmlPageProofs.kv_sort_perm. Qed.
Print Assumptions C17_page_map_order.

Theorem C17_page_deterministic : forall env m1 m2 bs, meta_equiv m1 m2 ->
  render_page_buckets env m1 bs = render_page_buckets env m2 bs.
Proof. exact HtmlPageProofs.page_deterministic_buckets. Qed.
Print Assumptions C17_page_deterministic.

Theorem C17_page_deterministic_goroutines : forall env m1 m2 gs, meta_equiv m1 m2 ->
  render_page_goroutines env m1 gs = render_page_goroutines env m2 gs.
Proof. exact HtmlPageProofs.page_deterministic_goroutines. Qed.
Print Assumptions C17_page_deterministic_goroutines.

(* snapshot.Aggregate(lvl).ToHTML *)
Theorem C17_page_deterministic_aggregate : forall shuffle env m1 m2 lvl gs, meta_equiv m1 m2 ->
  render_page_aggregate shuffle env m1 lvl gs = render_page_aggregate shuffle env m2 lvl gs.
Proof. exact HtmlPageProofs.page_deterministic_aggregate. Qed.
Print Assumptions C17_page_deterministic_aggregate.

(* RemoteGOPATHs does not reach the document *)
Theorem C17_page_remote_gopaths_ignored : forall env lroot lpaths rroot rp1 rp2 mods bs,
  render_page_buckets env (mkSnapMeta lroot lpaths rroot rp1 mods) bs =
  render_page_buckets env (mkSnapMeta lroot lpaths rroot rp2 mods) bs.
Proof. intros. apply HtmlPageProofs.page_deterministic_buckets. repeat split; apply Permutation_refl. Qed.
Print Assumptions C17_page_remote_gopaths_ignored.

(* ------------------------------------------------------------------ *)
(* 5. C17_page_links                                                   *)
(* ------------------------------------------------------------------ *)
(* the Href holes of the page: the icon, then those of the content region; none in the trailer *)
Theorem C17_page_hrefs : forall env m content,
  hrefs_of (tpl_of (page_of env m content)) = tpl_favicon :: hrefs_of content.
Proof. exact HtmlPageProofs.page_hrefs. Qed.
Print Assumptions C17_page_hrefs.

(* every Href hole is the icon or a link that is empty or starts with one of the five documented prefixes
   (fixed_prefixes = https://github.com/  file:///  https://golang.org/pkg/  https://godoc.org/
   https://pkg.go.dev/), before and after the final escaping, and contains no dangerous byte (href_ok, C17) *)
Theorem C17_page_links : forall env m bs u,
  In (Tpl (Href u)) (page_pieces_buckets env m bs) ->
  u = tpl_favicon \/
  (href_ok (url_normalize u) /\
   (href_attr u = [] \/ exists p, In p fixed_prefixes /\ has_prefix (href_attr u) p = true)).
Proof. exact HtmlPageProofs.page_links_buckets. Qed.
Print Assumptions C17_page_links.

Theorem C17_page_links_goroutines : forall env m gs u,
  In (Tpl (Href u)) (page_pieces_goroutines env m gs) ->
  u = tpl_favicon \/
  (href_ok (url_normalize u) /\
   (href_attr u = [] \/ exists p, In p fixed_prefixes /\ has_prefix (href_attr u) p = true)).
Proof. exact HtmlPageProofs.page_links_goroutines. Qed.
Print Assumptions C17_page_links_goroutines.

(* the icon: a constant base64 text between the literal  href=(dq)data:image/gif;base64,  and  (dq)/>  *)
Theorem C17_page_favicon :
  has_suffix tpl_head_a (s2b "href=""data:image/gif;base64,") = true /\
  has_prefix tpl_head_b (s2b """/>") = true /\
  forallb is_b64 tpl_favicon = true /\
  url_normalize tpl_favicon = tpl_favicon /\
  (forall c, In c (href_attr tpl_favicon) -> is_alnum c || memb c (s2b "/=&#;") = true).
Proof. exact HtmlPageProofs.favicon_link. Qed.
Print Assumptions C17_page_favicon.

(* ------------------------------------------------------------------ *)
(* Examples (checked against Go: sample ex_page_hostile of notes/htmldoc-validation) *)
(* ------------------------------------------------------------------ *)
Definition ex_env : page_env :=
  mkPageEnv (s2b "go1.23.5") (s2b "2026-10-02 05:49:42 +0000 UTC") 8 (s2b "<p>footer</p>").

(* every string of the metadata is hostile; the module map is given in descending key order *)
Definition ex_meta : snap_meta :=
  mkSnapMeta (s2b "/l<i>") [s2b "<b>"; s2b "'&"] (s2b """><script>") [(s2b "<x>", s2b "<y>")]
             [(s2b "</ul>", s2b "<svg onload=1>"); (s2b "'a'", s2b """b""")].

Example C17_example_page_hostile :
  render_page_buckets ex_env ex_meta ex_hostile =
  tpl_doctype ++ tpl_head_a ++ href_attr tpl_favicon ++ tpl_head_b ++ tpl_style_a ++ tpl_style_b ++
  render_content_buckets (s2b "go1.23.5") ex_hostile ++
  lines [""; "<h2>Metadata</h2>"; "<ul>";
         "<li>Created on 2026-10-02 05:49:42 &#43;0000 UTC</li>";
         "<li>go1.23.5</li><li>GOROOT (remote): &#34;&gt;&lt;script&gt;</li>";
         "<li>GOROOT (local): /l&lt;i&gt;</li><li>GOPATH: &lt;b&gt;, &#39;&amp;</li><li>go modules (local):";
         "<ul><li>&#39;a&#39;: &#34;b&#34;</li><li>&lt;/ul&gt;: &lt;svg onload=1&gt;</li></ul>";
         "</li><li>GOMAXPROCS: 8"]%string ++
  tpl_legend ++ s2b "<p>footer</p>" ++ tpl_tail.
Proof. vm_compute. reflexivity. Qed.

(* the same metadata with the module map in the other order and another RemoteGOPATHs: same bytes *)
Example C17_example_page_order :
  render_page_buckets ex_env ex_meta ex_hostile =
  render_page_buckets ex_env
    (mkSnapMeta (s2b "/l<i>") [s2b "<b>"; s2b "'&"] (s2b """><script>") []
                [(s2b "'a'", s2b """b"""); (s2b "</ul>", s2b "<svg onload=1>")]) ex_hostile.
Proof. vm_compute. reflexivity. Qed.

(* a harmless page of the same shape has the same skeleton *)
Definition ex_meta_harmless : snap_meta :=
  mkSnapMeta (s2b "/opt/go") [s2b "/g1"; s2b "/g2"] (s2b "/usr/local/go") [] [(s2b "/src/a", s2b "a"); (s2b "/src/b", s2b "b")].
Definition ex_env_harmless : page_env := mkPageEnv (s2b "go1.99") (s2b "never") 8 (s2b "<p>footer</p>").

Example C17_example_page_skeleton :
  map shape_ppiece (page_pieces_buckets ex_env ex_meta ex_hostile) =
  map shape_ppiece (page_pieces_buckets ex_env_harmless ex_meta_harmless ex_harmless).
Proof.
  apply C17_page_skeleton_shape_only; [split; reflexivity|repeat split|exact C17_example_same_shape].
Qed.

(* counts on the hostile page: 1 <h1>, 1 + 2 <tr>, 5 + 1 + (1 + 2) <li>; delimiters = those of the literals;
   every literal of the page is a piece of the template *)
Example C17_example_page_counts :
  page_counts (page_pieces_buckets ex_env ex_meta ex_hostile) 1 3 9 /\
  count_byte (render_page_buckets ex_env ex_meta ex_hostile) 60 =
    count_byte (plit_bytes (page_pieces_buckets ex_env ex_meta ex_hostile)) 60 /\
  forallb (fun s => contains tpl_index_html s) (lits_of (tpl_of (page_pieces_buckets ex_env ex_meta ex_hostile))) = true.
Proof. split; [exact (C17_page_complete ex_env ex_meta ex_hostile)|]. vm_compute. split; reflexivity. Qed.
