//go:build verif

// ops step (the scanner's state machine, one line at a time), sigops (the
// signature relations directly) and rlines (the line reader directly).  These
// use the hooks of /repo/stack/verif_hooks.go (build tag verif).
package main

import (
	"bytes"
	"fmt"
	"math/rand"
	"strings"

	"github.com/maruel/panicparse/v2/stack"
)

// splitLines cuts after every LF; the last piece may be unterminated.
func splitLines(b []byte) [][]byte {
	var out [][]byte
	for len(b) > 0 {
		i := bytes.IndexByte(b, '\n')
		if i < 0 {
			out = append(out, b)
			break
		}
		out = append(out, b[:i+1])
		b = b[i+1:]
	}
	return out
}

// runSteps follows ScanSnapshot's protocol on a line list: a session ends on
// an error, in state done, or on an unconsumed line outside looking; the next
// session starts on the unconsumed line (as pp re-scans the remainder), or
// after it when it was the session's only line.
// Per line: "<state>:<consumed>:<err>"; sessions separated by "|".
func runSteps(lines [][]byte) (steps string, snaps []string) {
	var b strings.Builder
	i := 0
	for i < len(lines) {
		st := stack.NewVerifStepper()
		fed := 0
		for i < len(lines) {
			l, err, panicked := stepOnce(st, lines[i])
			if panicked {
				b.WriteString("P")
				snaps = append(snaps, "PANIC")
				return b.String(), snaps
			}
			fed++
			if fed > 1 {
				b.WriteByte(';')
			}
			fmt.Fprintf(&b, "%d:%s:%s", st.State(), b2s(l), b2s(err != nil))
			handedBack := !l && st.State() != 0
			end := err != nil || st.State() == 1 || handedBack
			if !(handedBack && fed > 1) {
				i++
			}
			if end {
				break
			}
		}
		if gs := st.Goroutines(); gs == nil {
			snaps = append(snaps, "nil "+hexs(st.Prefix()))
		} else {
			snaps = append(snaps, sexpGoroutines(gs)+" "+hexs(st.Prefix()))
		}
		if i < len(lines) {
			b.WriteByte('|')
		}
	}
	return b.String(), snaps
}

func stepOnce(st *stack.VerifStepper, line []byte) (l bool, err error, panicked bool) {
	defer func() {
		if e := recover(); e != nil {
			panicked = true
		}
	}()
	l, err = st.Step(append([]byte{}, line...))
	return
}

func emitStep(id string, content []byte) {
	steps, snaps := runSteps(splitLines(content))
	if steps == "" {
		steps = "-"
	}
	emit(append([]string{"step", id, hexs(content), steps}, snaps...)...)
}

func genStepContent(r *rand.Rand, tier string) string {
	g := dgen{r}
	switch r.Intn(9) {
	case 8:
		return genJunk(r, r.Intn(2), false, false) + cutAfterLaterHeader(r, printDump(g.dump(2+r.Intn(3), 4), g.variant(), true))
	case 0, 1:
		k := 1 + r.Intn(10)
		var b strings.Builder
		for j := 0; j < k; j++ {
			b.WriteString(lineKinds[r.Intn(len(lineKinds))])
			if j != k-1 || r.Intn(6) != 0 {
				if r.Intn(12) == 0 {
					b.WriteString("\r")
				}
				b.WriteString("\n")
			}
		}
		return b.String()
	case 2:
		return mutate(r, printDump(g.dump(1+r.Intn(3), 5), g.variant(), r.Intn(2) == 0))
	case 3:
		return mutate(r, printRace(g.race()))
	case 4:
		return genJunk(r, r.Intn(3), false, false) + printDump(g.dump(1+r.Intn(3), 6), g.variant(), true) + genJunk(r, r.Intn(3), false, false) +
			printRace(g.race()) + genJunk(r, r.Intn(3), false, false)
	case 5:
		return printDump(g.dump(1+r.Intn(4), 12), g.variant(), r.Intn(2) == 0)
	case 6:
		return printRace(g.race()) + genJunk(r, r.Intn(2), false, false)
	default:
		return mutate(r, mutate(r, printDump(g.dump(1+r.Intn(2), 4), dVariant{FileIndent: "\t"}, true)+printRace(g.race())))
	}
}

func opStep(r *rand.Rand, n int, tier string) {
	for i := 0; i < n; i++ {
		emitStep(fmt.Sprintf("step-%d", i), []byte(genStepContent(r, tier)))
	}
}

// ---- sigops ----

// sigops id (sigs s0 s1 s2) | less9 equal9 similar36 merges...
// less9/equal9: row-major over (x,y) in 0..2; similar36: level-major then (x,y);
// merges: for every (level, x, y) with similar true, the merged signature.
func emitSigops(id, sigsSx string) {
	var sigs []stack.Signature
	for _, n := range parseSx(sigsSx).head("sigs") {
		sigs = append(sigs, readSig(n))
	}
	less, eq, sim := "", "", ""
	var merges []string
	call := func(f func() bool) (res string) {
		defer func() {
			if e := recover(); e != nil {
				res = "P"
			}
		}()
		return b2s(f())
	}
	before := make([]string, len(sigs))
	for k := range sigs {
		var b sb
		b.sig(&sigs[k])
		before[k] = b.String()
	}
	for x := range sigs {
		for y := range sigs {
			x, y := x, y
			less += call(func() bool { return stack.VerifLess(&sigs[x], &sigs[y]) })
			eq += call(func() bool { return stack.VerifEqual(&sigs[x], &sigs[y]) })
		}
	}
	for _, lvl := range levels {
		for x := range sigs {
			for y := range sigs {
				x, y, lvl := x, y, lvl
				s := call(func() bool { return stack.VerifSimilar(&sigs[x], &sigs[y], lvl) })
				sim += s
				if s == "1" {
					m := func() (res string) {
						defer func() {
							if e := recover(); e != nil {
								res = "PANIC"
							}
						}()
						var b sb
						b.sig(stack.VerifMerge(&sigs[x], &sigs[y]))
						return b.String()
					}()
					merges = append(merges, m)
				}
			}
		}
	}
	unchanged := "1"
	for k := range sigs {
		var b sb
		b.sig(&sigs[k])
		if b.String() != before[k] {
			unchanged = "0"
		}
	}
	emit(append([]string{"sigops", id, sigsSx, less, eq, sim, unchanged}, merges...)...)
}

func opSigops(r *rand.Rand, n int, tier string) {
	for i := 0; i < n; i++ {
		g := &argGen{r: r}
		base := g.signature()
		sigs := []stack.Signature{base}
		for k := 0; k < 2; k++ {
			src := sigs[r.Intn(len(sigs))]
			switch r.Intn(4) {
			case 0:
				sigs = append(sigs, g.lessVariant(src))
			case 1:
				sigs = append(sigs, g.variant(src))
			case 2:
				sigs = append(sigs, g.lessVariant(g.variant(src)))
			default:
				sigs = append(sigs, g.signature())
			}
		}
		r.Shuffle(len(sigs), func(a, b int) { sigs[a], sigs[b] = sigs[b], sigs[a] })
		var b sb
		b.WriteString("(sigs")
		for k := range sigs {
			b.sp()
			b.sig(&sigs[k])
		}
		b.WriteByte(')')
		emitSigops(fmt.Sprintf("sigops-%d", i), b.String())
	}
}

// ---- rlines ----

// rlines id content sched final | lines (hex, comma separated) err
func emitRlines(id string, content []byte, sched []schedStep, final string) {
	rd := &scriptedReader{rest: append([]byte{}, content...), sched: sched, final: finalOf(final), w: &recWriter{}}
	var lines [][]byte
	var err error
	panicked := false
	func() {
		defer func() {
			if e := recover(); e != nil {
				panicked = true
			}
		}()
		lines, err = stack.VerifReadLines(rd)
	}()
	var hs []string
	for _, l := range lines {
		hs = append(hs, hexs(l))
	}
	ls := strings.Join(hs, ",")
	if ls == "" {
		ls = "-"
	}
	ec := errClass(err, rd.final)
	if panicked {
		ec = "PANIC"
	}
	emit("rlines", id, hexs(content), fmtSched(sched), final, ls, ec)
}

func opRlines(r *rand.Rand, n int, tier string) {
	for i := 0; i < n; i++ {
		var txt string
		switch r.Intn(6) {
		case 0:
			k := []int{16382, 16383, 16384, 16385, 16386, 32767, 32768, 32769, 49152}[r.Intn(9)]
			txt = strings.Repeat("a", k-1) + "\n" + genJunk(r, r.Intn(3), false, r.Intn(3) == 0) + "z"
		case 4: // an unterminated last line of exactly k buffers
			txt = genJunk(r, r.Intn(2), false, false) + strings.Repeat("d", (1+r.Intn(3))*16384+[]int{0, 0, 0, -1, 1}[r.Intn(5)])
		case 1:
			txt = strings.Repeat("b", r.Intn(40000))
			if r.Intn(2) == 0 {
				txt += "\n" + strings.Repeat("c", r.Intn(20000))
			}
		case 2:
			txt = strings.Repeat("\n", r.Intn(5)) + genJunk(r, r.Intn(6), false, true)
		default:
			txt = genStepContent(r, tier)
		}
		emitRlines(fmt.Sprintf("rlines-%d", i), []byte(txt), genSched(r, len(txt)), genFinal(r))
	}
}

func init() {
	replayers["step"] = func(id string, in []string) { emitStep(id, unhexs(in[0])) }
	replayers["sigops"] = func(id string, in []string) { emitSigops(id, in[0]) }
	replayers["rlines"] = func(id string, in []string) { emitRlines(id, unhexs(in[0]), parseSched(in[1]), in[2]) }
}
