module verifharness

go 1.23.0

require github.com/maruel/panicparse/v2 v2.0.0

replace github.com/maruel/panicparse/v2 => /repo
