"""Per-property configuration of check.py.

ops: (op name, cases in quick, cases in thorough[, extra vh flags])
corr: correspondence projections whose mismatch breaks the tie for THIS property
prop: property predicates (evaluated by the extracted Coq spec on implementation output)
nontrivial: a case counts as non-trivial when one of these tags (prefix match) is present
"""

TRUSTED_BASE = [
    'Coq 8.16.1 kernel (coqc); vm_compute is used inside proofs only for closed witnesses/examples; native_compute is not used',
    'Print Assumptions of every property theorem must be "Closed under the global context" (no axioms, stdlib ones included)',
    'thorough tier: coqchk -o re-checks the compiled Properties closure',
    'hand-written Gallina model of the Go code (coq/theories/Model, Base): tied to /repo only by the correspondence check',
    'extraction: Coq Extraction with ExtrOcamlBasic only (Extract Inductive bool/option/unit/list/prod/sumbool/sumor, Extract Inlined Constant andb/orb/negb/fst/snd); nat, positive, N, Z stay extracted inductives; OCaml 4.13.1 ocamlopt',
    'ocaml/driver.ml (s-expression reader, comparison of projections) and harness/cmd/vh (Go generators, canonical printer)',
]

_AGG_RULE = ('op aggx: bounded-exhaustive - every sequence (every multiset in every arrival order) of 1..4 goroutines over a universe of 10 signature variants differing in exactly one attribute class each, at all four levels (quick: 600 sampled, thorough: all 44 440); op aggregate: hand-built snapshots: 1..80 goroutines (thorough: up to 2000) around 1..3 base signatures, variants differing in '
             'argument values/pointers/too-large/inaccurate/nesting, lock, sleep, state, line, elision, symbol; random level; '
             'each aggregated 8x in-process; non-trivial = at least two buckets or at least one merged bucket; distinct by input hash')

_SCAN_RULE = ('stack.ScanSnapshot under a scripted io.Reader (chunk schedule incl. zero-length reads, EOF with or after the last data, non-EOF failure) and a recording io.Writer; '
              'model = extracted scan_snapshot on the same (content, schedule, terminal error); distinct by input hash')

PROPS = {
    'C04': {
        'extra_props': ['C00_pipeline', 'C05b'],
        'ops': [('aggregate', 1500, 40000), ('aggx', 600, 44440, (), 'exact')],
        'corr': ['corr:ids', 'corr:panic'],
        'prop': ['C04'],
        'nontrivial': ['multi', 'merged'],
        'input_fields': 2,
        'rule': _AGG_RULE,
        'assumptions': ['Go sort.Ints / sort.SliceStable are stable sorts (modelled by insertion sort)'],
    },
    'C05': {
        'extra_props': ['C00_pipeline', 'C05b'],
        'ops': [('aggregate', 1500, 40000), ('sigops', 800, 40000), ('aggx', 600, 44440, (), 'exact')],
        'corr': ['corr:ids', 'corr:panic', 'corr:sig-similar', 'corr:sig-equal'],
        'prop': ['C05', 'C06:aggregate'],
        'nontrivial': ['multi', 'merged'],
        'input_fields': 2,
        'rule': _AGG_RULE + '; reference partition = classes of the extracted canonical key canon_sig',
        'assumptions': ['snapshots are well-formed (wf_goroutines): non-pointers carry no pseudo-name, too-large arguments are not pointers'],
    },
    'C12': {
        'extra_props': ['C00_pipeline', 'C05b'],
        'ops': [('aggregate', 1500, 40000), ('sigops', 800, 40000), ('aggx', 600, 44440, (), 'exact')],
        'corr': ['corr:sig', 'corr:panic', 'corr:sig-merge'],
        'prop': ['C12'],
        'nontrivial': ['merged'],
        'input_fields': 2,
        'rule': _AGG_RULE + '; the merged signature of every bucket is compared field by field with the model and checked against its members by the extracted c12_ok',
    },
    'C13': {
        'extra_props': ['C00_pipeline', 'C13b'],
        'ops': [('aggregate', 1000, 30000), ('less3', 5000, 200000), ('sigops', 1500, 60000)],
        'corr': ['corr:order', 'corr:less', 'corr:panic', 'corr:sig-less'],
        'prop': ['C13'],
        'nontrivial': ['multi', 'lt'],
        'input_fields': 2,
        'rule': _AGG_RULE + '; less3: triples of signatures varying stack length, per-frame location class, package main, function/file/line, lock, state; '
                'Signature.less observed through the order of two singleton buckets at ExactFlags in both arrival orders; the four order laws are checked on the observed relation; '
                'sigops (hook VerifLess): Signature.less called directly on all 9 ordered pairs of a triple, compared with sig_less, and irreflexivity, asymmetry, transitivity and transitivity of incomparability checked on the answers',
        'assumptions': ['at most one goroutine of a snapshot is First (true of parser output)'],
    },

    'C15': {
        'extra_props': ['C06b', 'C00_pipeline'],
        'ops': [('names', 1500, 40000)],
        'corr': ['corr:names', 'corr:panic'],
        'prop': ['C15'],
        'nontrivial': ['named'],
        'input_fields': 1,
        'rule': 'dumps printed from generated ASTs with pointer values drawn from a small pool (so that values recur within and across goroutines, '
                'in nested aggregates, only in non-first goroutines, once only) and values at the classification boundaries 512KiB-1/+0/+1, 2^63-2/-1/+0; '
                'scanned with NameArguments on and off; non-trivial = at least one argument named; distinct by input hash',
    },
    'C01': {
        'extra_props': ['C00_pipeline', 'C00_regex', 'C00_resume'],
        'regex_check': True,
        'ops': [('scan', 500, 30000, ('-mix', 'c01')), ('step', 200, 10000), ('regex', 3000, 60000)],
        'corr': ['corr:snap', 'corr:err', 'corr:panic', 'corr:rest', 'corr:fwd', 'corr:step-trace', 'corr:step-goroutines', 'corr:regex', 'corr:matcher'],
        'prop': ['C01'],
        'nontrivial': ['gs='],
        'input_fields': 1,
        'rule': _SCAN_RULE + '; mix c01: dumps printed from generated ASTs by an independent printer (runtime/traceback.go format): 1..35 goroutines, '
                '1..12 frames (thorough: up to 150), argument nesting 0..5, every wait reason, symbol shapes (methods, closures, generics, cgo, non-ASCII, dotted and '
                '%-needing package paths), file shapes (??, <autogenerated>, .s/.c, C:/, spaces), gp/m/mp and fp/sp/pc annotations, indentation x CRLF x space-indented '
                'file lines x indented blank lines; three-way comparison: implementation snapshot = model snapshot = the snapshot the AST denotes; non-trivial = a snapshot was returned',
    },
    'C08': {
        'extra_props': ['C00_regex', 'C00_resume'],
        'regex_check': True,
        'ops': [('scan', 400, 20000, ('-mix', 'c08')), ('step', 200, 10000), ('regex', 1500, 30000)],
        'corr': ['corr:snap', 'corr:err', 'corr:panic', 'corr:rest', 'corr:fwd', 'corr:step-trace', 'corr:step-goroutines', 'corr:regex', 'corr:matcher'],
        'prop': ['C08', 'C02:region'],
        'nontrivial': ['gs='],
        'input_fields': 1,
        'rule': _SCAN_RULE + '; mix c08: race reports printed from generated ASTs (tsan Go report format): 2..6 operations, stacks of 1..4 frames with arguments, '
                'creation sections for a non-empty subset of the goroutines in any order, running/finished, arbitrary text before and after; the snapshot must equal the one the AST denotes, '
                'the error must be nil, the text before must be forwarded and the text after handed back',
    },
    'C02': {
        'extra_props': ['C02b', 'C00_resume'],
        'ops': [('scan', 400, 20000, ('-mix', 'c02')), ('scan', 250, 10000, ('-mix', 'junk')), ('scan', 150, 5000, ('-mix', 'c08')), ('scan', 300, 20000, ('-mix', 'c03')), ('pp', 40, 2000)],
        'corr': ['corr:fwd', 'corr:rest', 'corr:suffix', 'corr:writes', 'corr:panic', 'corr:err', 'corr:pp:plain', 'corr:pp-exit:plain'],
        'prop': ['C02'],
        'nontrivial': ['kind='],
        'input_fields': 1,
        'rule': _SCAN_RULE + '; mixes: streams (junk incl. >16KiB lines, binary, CRLF, look-alike fragments, unterminated tail; 0..3 dumps / race reports), junk only, race reports with '
                'surrounding text, mutants; conservation is checked on the implementation output alone (forwarded lines in order, withheld region contiguous and = the generated dump, '
                'remainder = the rest), the known finding K1 matched narrowly',
    },
    'C03': {
        'extra_props': ['C02b', 'C00_pipeline'],
        'ops': [('scan', 1500, 150000, ('-mix', 'c03')), ('scan', 200, 10000, ('-mix', 'c02')), ('scanseq', 60, 3000), ('pp', 30, 2000), ('aggregate', 300, 20000), ('html', 100, 5000), ('scan', 1000, 25259, ('-mix', 'kinds')), ('step', 400, 20000), ('sigops', 300, 10000), ('ast', 40, 400), ('guess', 80, 2000), ('augment', 100, 3000), ('regex', 1500, 30000)],
        'regex_check': True,
        'corr': ['corr:panic', 'corr:snap', 'corr:err', 'corr:seq', 'corr:step-trace', 'corr:regex', 'corr:matcher'],
        'prop': ['C03'],
        'nontrivial': ['kind=', 'calls='],
        'input_fields': 1,
        'rule': _SCAN_RULE + '; mix c03: grammar-aware mutants of generated dumps and race reports (delete/duplicate/swap/move lines, splice look-alikes and whole reports, truncate, byte flips, '
                'token insertion: %-escapes, brackets, huge numbers, separators); every case runs under recover(); a panic is a violation',
    },
    'C09': {
        'ops': [('scan', 250, 8000, ('-mix', 'c09')), ('scan', 200, 8000, ('-mix', 'c02')), ('chunk', 6, 60), ('rlines', 300, 10000)],
        'corr': ['corr:reads', 'corr:writes', 'corr:rest', 'corr:snap', 'corr:fwd', 'corr:err', 'corr:panic', 'corr:rlines', 'corr:rlines-err'],
        'prop': ['C09'],
        'nontrivial': ['kind=', 'chunk', 'lines='],
        'input_fields': 2,
        'rule': _SCAN_RULE + '; every case is also delivered in one piece and the two outcomes (snapshot, forwarded bytes, error, remainder ++ unread) must be equal; the model must predict the exact sequence '
                'of Read sizes; mix c09: lines of 16382..16386 and multiples, dump lines longer than the buffer, chunk sizes 0/1/16383/16384/16385; op chunk: ALL 2^(n-1) chunkings of short inputs; rlines (hook VerifReadLines): reader.readLine alone under the scripted reader, the lines compared with the model read_line and with the LF-split of the content',
    },
    'C11': {
        'ops': [('scan', 250, 8000, ('-mix', 'c09')), ('scan', 300, 10000, ('-mix', 'c02')), ('scan', 200, 5000, ('-mix', 'junk')), ('pppipe', 10, 120)],
        'corr': ['corr:reads', 'corr:writes', 'corr:panic', 'corr:pp:pipe'],
        'prop': ['C11', 'C02:separator-run-withheld'],
        'nontrivial': ['kind='],
        'input_fields': 2,
        'rule': _SCAN_RULE + '; the scripted reader records, at every Read, len(p), the count returned and the bytes already written; the model must predict that sequence exactly, and on the '
                'implementation trace alone: every complete forwarded line within the delivered bytes is already written, no Read after the line that ends the dump',
    },
    'C07': {
        'extra_props': ['C07c', 'C00_regex', 'C07d', 'C00_resume'],
        'regex_check': True,
        'ops': [('scanseq', 200, 10000), ('scan', 200, 5000, ('-mix', 'c02')), ('pppipe', 10, 120), ('scan', 2200, 25259, ('-mix', 'kinds'), 'exact'), ('step', 600, 30000), ('pp', 40, 2000), ('regex', 1500, 30000)],
        'corr': ['corr:regex', 'corr:matcher', 'corr:seq', 'corr:seqrest', 'corr:panic', 'corr:snap', 'corr:rest', 'corr:pp:pipe', 'corr:pp-exit:pipe', 'corr:pp:plain', 'corr:pp-exit:plain', 'corr:step-trace', 'corr:step-sessions', 'corr:step-goroutines'],
        'prop': ['C07', 'C02:region', 'C02:pp', 'C11:pp'],
        'nontrivial': ['dumps=', 'kind=', 'sessions='],
        'input_fields': 1,
        'rule': 'streams J0 D1 J1 .. Dk Jk (k = 1..4 dumps / race reports, all variants, junk lines that can neither start a dump nor be swallowed), scanned with the documented resume protocol '
                '(MultiReader(suffix, rest), continuing after scan errors); one snapshot per dump equal to scanning the dump alone, all other bytes forwarded once and in order; '
                'mix kinds: sequences of 29 representative line kinds of both grammars (quick: 1500 random sequences of length <= 7; thorough: ALL sequences of length <= 3) through implementation and model; pppipe: the pp binary fed through a pipe that stays open; '
                'step (hook VerifStepper): scanningState.scan driven line by line under the ScanSnapshot/resume protocol, the state, consumed flag and error of EVERY line compared with the model scan (whose control is proved equal to the reference automaton Spec/RefGrammar.ref_step, C07c)',
    },
    'C10': {
        'extra_props': ['C10b'],
        'ops': [('cut', 8, 40, (), 'exact')],
        'corr': ['corr:snap', 'corr:fwd', 'corr:err', 'corr:rest', 'corr:panic'],
        'prop': ['C10'],
        'nontrivial': ['cgs='],
        'input_fields': 3,
        'rule': 'generated dumps and race reports with surrounding junk, cut at byte offsets (quick: ~150 offsets per input, thorough: every offset) x the cut signalled as EOF / '
                'as a failure after the data / as a failure together with the last data; compared with the uncut run: error class, goroutines complete before the cut identical, '
                'forwarded bytes a prefix (known finding K2 matched narrowly)',
    },
    'C16': {
        'ops': [('pp', 120, 5000)],
        'corr': ['corr:pp', 'corr:pp-exit'],
        'prop': ['C16'],
        'nontrivial': ['blocks=', 'pf='],
        'input_fields': 4,
        'rule': 'the real pp binary (built from /repo/cmd/pp) on generated dumps (similar goroutines so that buckets merge), race reports and streams x {base, full} paths x '
                '{-no-color, -force-color} x {default, -aggressive} x -f / -m with literal expressions drawn from the headers (regexp.QuoteMeta) x banner on/off; '
                'model = extracted pp_run (scan, aggregate, render) byte for byte; on the output alone: colour erasure, filter/match split of the blocks, counts add up, equal column widths',
    },
    'C17': {
        'tpl_check': True,
        'race_driver': True,
        'regex_check': True,
        'extra_props': ['C17b', 'C17c', 'C00_regex'],
        'ops': [('html', 300, 10000), ('regex', 1500, 30000)],
        'corr': ['corr:attrs', 'corr:html-region', 'corr:html-page', 'corr:panic', 'corr:regex', 'corr:matcher'],
        'prop': ['C17'],
        'nontrivial': ['attrs='],
        'input_fields': 3,
        'rule': 'hand-built snapshots whose every string field (state, symbol, package, file paths, argument names, processed arguments) carries markup / attribute / URL payloads, '
                'versioned module paths (github.com, golang.org/x, vendor, @version), race snapshots, elided stacks; ToHTML output tokenised with golang.org/x/net/html: '
                'the tag/attribute skeleton must equal that of a benign twin of the same shape, every href scheme must be https/file/data, one h1 per bucket and one row per frame; '
                'model = extracted src_url/pkg_url/func_class + url_normalize compared with every href/class of the content region; the WHOLE document (head, content, metadata list, legend, footer argument) '
                'is compared byte for byte with the extracted page model (Model/HtmlPage.v), whose template literals (Model/HtmlTpl.v) are generated from stack/goroutines.tpl and checked to be current on every run',
    },
    'C18': {
        'extra_props': ['C00_regex', 'C18b'],
        'regex_check': True,
        'ops': [('guess', 150, 5000), ('regex', 1500, 30000)],
        'corr': ['corr:guess', 'corr:panic', 'corr:regex', 'corr:matcher'],
        'prop': ['C18'],
        'nontrivial': ['resolved'],
        'input_fields': 4,
        'rule': 'generated file-system layouts materialised under /tmp/vhg (0..1 Go root, 0..3 GOPATHs with src and pkg/mod trees, go.mod modules incl. nested ones and CRLF/odd go.mod files, '
                'go-run files, files absent locally, files under no root) x remote-root renamings x dumps referencing them; ScanSnapshot with GuessPaths; model = extracted guess_paths on the '
                'same disk; oracle = the layout that generated the dump (local file, relative path, import path, class per frame)',
    },
    'C14': {
        'race_driver': True,
        'ops': [('alias', 400, 20000), ('aggregate', 500, 20000), ('guess', 60, 2000), ('sigops', 300, 10000), ('pp', 40, 1500)],
        'corr': ['corr:alias', 'corr:panic', 'corr:pp-internal-hook-unavailable'],
        'prop': ['C14'],
        'nontrivial': ['ops=', 'rendered-twice'],
        'trusted': ['/repo/internal/verif_hooks.go + /repo/internal/verifcmd (build tag verif, commit f60f6c1): the command that renders each snapshot repeatedly through processInner and compares it with a fresh parse '
                    '(reflect.DeepEqual); the rendering code of package internal is exercised by it, not modelled for this property (its text is modelled for C16: Model/UI.v)'],
        'input_fields': 3,
        'rule': 'hand-built snapshots (with spare capacity in Values/Calls/Processed slices and pre-rendered Processed strings) x random sequences of up to 8 operations among '
                'Aggregate at the four levels (+ Args.String of every bucket call), Aggregated.ToHTML, Snapshot.ToHTML, Args.String of every snapshot call; checked: deep equality of the snapshot before/after, '
                'len/cap of every reachable slice unchanged, re-aggregation equals the first aggregation; the alias graph (which bucket slices share a backing array with which snapshot slices, via unsafe.SliceData) '
                'must equal the one the tagged model predicts; thorough adds a go run -race driver; '
                'pp (hook internal/verif_hooks.go + internal/verifcmd, tag verif): the text renderer of the pp command (processInner: Aggregate + bucket rendering, or goroutine by goroutine for a race report) '
                'run three times on every snapshot of generated streams, with a filter, a match expression and none: the snapshot must stay deep-equal to a fresh parse of the same stream and later renderings '
                'must equal those of the fresh parse',
    },
    'C19': {
        'extra_props': ['C19b', 'C19c'],
        'ops': [('augment', 250, 10000), ('progs', 10, 150), ('ast', 60, 600)],
        'corr': ['corr:augment', 'corr:panic', 'corr:ast-select', 'corr:ast-types', 'corr:ast-match', 'corr:ast-wf'],
        'prop': ['C19'],
        'nontrivial': ['truth', 'found'],
        'input_fields': 3,
        'rule': 'generated Go source trees (functions and pointer-receiver methods with 0..5 parameters over bool, int*, uint*, float32/64, string, slices, pointers, maps, chans, funcs) + a synthetic traceback whose words encode '
                'known values (one/two/three words per kind, sub-word integers zero-extended); ScanSnapshot with GuessPaths+AnalyzeSources; every rendered argument must equal the value the generator chose; '
                'mismatching sources (missing, unparsable, line beyond the file, fewer / extra words) must leave Values and every other field identical to the run without source analysis; model = extracted augment_call; '
                'ast (hook VerifFuncTypes): generated Go files (one-line functions, closures, methods, generics, bad receiver lists, CRLF, no final newline) and standard-library files x lines x frame names '
                '(the enclosing declaration, closure names, neighbours, hostile names): getFuncAST + matchFuncDecl + extractArgumentsType compared with Model/Source.v; a selected declaration must be the one the frame names, '
                'a line inside a function queried with its traceback name must be augmented',
    },
    'C20': {
        'extra_props': ['C20b'],
        'race_driver': True,
        'ops': [('handler', 150, 5000), ('live', 25, 600), ('scan', 150, 5000, ('-mix', 'c01'))],
        'corr': ['corr:handler', 'corr:snap', 'corr:err', 'corr:panic', 'corr:ids', 'corr:sig', 'corr:order'],
        'prop': ['C20', 'C01', 'C04', 'C05', 'C12'],
        'nontrivial': ['status=', 'live'],
        'input_fields': 4,
        'rule': 'webstack.SnapshotHandler under httptest over method x maxmem x augment x similarity values (valid, invalid, signed, padded, overflowing): status class must equal the model decision table, a 200 page must tokenise, '
                'carry the metadata and account for runtime.NumGoroutine() goroutines; live: runtime.Stack(all) of this process under a churn workload (goroutines parked in chan receive / select / mutex / sleep / locked to thread / '
                'deep recursion, short-lived goroutines being created) scanned by implementation and model under random delivery: no error, one goroutine per header line (independent count), known goroutines with their states, frames and creator',
    },
    'C06': {
        'extra_props': ['C06b'],
        'ops': [('aggregate', 1200, 40000), ('guess', 80, 3000), ('pp', 40, 2000), ('html', 100, 3000), ('names', 300, 5000), ('scan', 250, 8000, ('-mix', 'c02'))],
        'tpl_check': True,
        'corr': ['corr:order', 'corr:sig', 'corr:ids', 'corr:guess', 'corr:pp:plain', 'corr:names', 'corr:panic', 'corr:html-page', 'corr:snap', 'corr:err'],
        'prop': ['C06', 'C09:delivery-dependent'],
        'nontrivial': ['multi', 'resolved', 'blocks=', 'attrs=', 'named', 'pf='],
        'input_fields': 2,
        'rule': 'every aggregate case is aggregated 8x in one process (Go randomises map iteration per range loop) and compared in full (bucket order, merged signatures); guess cases (nested modules, overlapping GOPATH roots) 7x; '
                'pp runs 3x in separate processes; ToHTML 4x with the creation time masked; the model (which has no hidden state and whose only oracle is proved irrelevant) must predict the same value each time',
    },
}
