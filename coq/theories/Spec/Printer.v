(* Spec/Printer.v — vocabulary of C01 (goroutine dump parse fidelity).

   A Gallina AST of goroutine dumps, a PRINTER for it and the snapshot each
   AST denotes, computed WITHOUT any parser code.  The printer mirrors the
   independent Go printer of the harness (harness/cmd/vh/gendump.go: dArg,
   dSym, dFrame, dCreator, dGoroutine, dVariant, pathToPrefix, printArgs,
   lines, printDump, expArgs, expFunc, expCall, expGoroutines), which in turn
   follows runtime/traceback.go and cmd/internal/objabi.PathToPrefix.

   Definitions only, plus the computable well-formedness predicates that the
   fidelity theorem needs, and an Example that a realistic dump satisfies
   them.  Nothing here mentions a matcher, func_init, parse_args or scan. *)
From PP Require Import Base.Bytes Base.BytesX Base.Num Model.Types.

Local Open Scope N_scope.

(* ------------------------------------------------------------------ *)
(* 1. the AST                                                          *)
(* ------------------------------------------------------------------ *)

(* dArg (values are always printed in hexadecimal here) *)
Inductive p_arg : Type :=
| PVal (v : N) (inacc : bool)
| PTooLarge
| PAgg (fields : list p_arg) (elided : bool).

(* dSym: a Go symbol (unescaped package path, name) or a bare (C) symbol *)
Inductive p_sym : Type :=
| SPkg (path name : bytes)
| SBare (name : bytes).

(* " fp=0x.. sp=0x..[ pc=0x..]" *)
Record p_regs := mkPRegs { r_fp : N; r_sp : N; r_pc : option N }.

Record p_frame := mkPFrame {
  pf_sym : p_sym;
  pf_args : list p_arg;
  pf_elided : bool;          (* "..." after the last argument *)
  pf_file : bytes;
  pf_line : N;
  pf_off : option N;         (* " +0x1b" *)
  pf_regs : option p_regs }.

Record p_creator := mkPCreator {
  pc_sym : p_sym;
  pc_gid : option N;         (* " in goroutine N" (go1.21+) *)
  pc_file : bytes;
  pc_line : N;
  pc_off : option N }.

(* " gp=X m=Y[ mp=Z]": X, Y, Z are opaque texts *)
Record p_annot := mkPAnnot { an_gp : bytes; an_m : bytes; an_mp : option bytes }.

(* the marker: old wording / go1.21 wording with a count *)
Inductive p_elide := ElideOld | ElideNew (n : N).

Inductive p_body : Type :=
| BUnavailable
| BFrames (frames : list p_frame) (elide : option (nat * p_elide)).
   (* Some (k, w): the marker is printed after the frame of index k *)

Record p_goroutine := mkPG {
  pg_id : N;
  pg_state : bytes;
  pg_minutes : N;            (* 0: not printed *)
  pg_locked : bool;
  pg_annot : option p_annot;
  pg_body : p_body;
  pg_creator : option p_creator }.

(* dVariant *)
Inductive p_findent := FITab | FISpaces (k : nat).
Record p_variant := mkPV {
  pv_indent : bytes;         (* every line is prefixed with it *)
  pv_crlf : bool;
  pv_findent : p_findent;    (* indentation of file lines *)
  pv_blank_indents : bool }. (* blank lines carry the indentation too *)

(* ------------------------------------------------------------------ *)
(* 2. the printer                                                      *)
(* ------------------------------------------------------------------ *)

Definition hexd (d : N) : N := hex_digit false d.

(* objabi.PathToPrefix: bytes <= ' ', '%', the double quote, >= 0x7F and every '.' after
   the last '/' become %xx (lower-case hex) *)
Definition must_escape (c : N) : bool :=
  (c <=? 32) || (c =? 37) || (c =? 34) || (127 <=? c).
Definition has_slash (s : bytes) : bool := existsb (N.eqb 47) s.
Fixpoint path_to_prefix (s : bytes) : bytes :=
  match s with
  | [] => []
  | c :: s' =>
      (if must_escape c || ((c =? 46) && negb (has_slash s'))
       then [37; hexd (c / 16); hexd (c mod 16)] else [c]) ++ path_to_prefix s'
  end.

(* dSym.raw *)
Definition sym_raw (s : p_sym) : bytes :=
  match s with
  | SPkg p n => path_to_prefix p ++ [46] ++ n
  | SBare n => n
  end.

Definition hex0x (v : N) : bytes := s2b "0x" ++ N_to_hex false v.

(* printArgs: the items separated by ", "; "..." is one more item *)
Fixpoint print_arg (a : p_arg) : bytes :=
  match a with
  | PVal v inacc => hex0x v ++ (if inacc then s2b "?" else [])
  | PTooLarge => s2b "_"
  | PAgg fs el =>
      s2b "{" ++ join (map print_arg fs ++ (if el then [s2b "..."] else [])) (s2b ", ") ++ s2b "}"
  end.
Definition print_args (args : list p_arg) (elided : bool) : bytes :=
  join (map print_arg args ++ (if elided then [s2b "..."] else [])) (s2b ", ").

Definition print_annot (a : option p_annot) : bytes :=
  match a with
  | None => []
  | Some a =>
      s2b " gp=" ++ an_gp a ++ s2b " m=" ++ an_m a ++
      (match an_mp a with Some z => s2b " mp=" ++ z | None => [] end)
  end.

Definition print_header (g : p_goroutine) : bytes :=
  s2b "goroutine " ++ N_to_dec (pg_id g) ++ print_annot (pg_annot g) ++ s2b " [" ++ pg_state g ++
  (if pg_minutes g =? 0 then [] else s2b ", " ++ N_to_dec (pg_minutes g) ++ s2b " minutes") ++
  (if pg_locked g then s2b ", locked to thread" else []) ++ s2b "]:".

Definition print_findent (fi : p_findent) : bytes :=
  match fi with FITab => [9] | FISpaces k => repeat 32 k end.

Definition print_off (o : option N) : bytes :=
  match o with Some n => s2b " +" ++ hex0x n | None => [] end.
Definition print_regs (r : option p_regs) : bytes :=
  match r with
  | None => []
  | Some r =>
      s2b " fp=" ++ hex0x (r_fp r) ++ s2b " sp=" ++ hex0x (r_sp r) ++
      (match r_pc r with Some pc => s2b " pc=" ++ hex0x pc | None => [] end)
  end.

Definition print_func_line (s : p_sym) (args : list p_arg) (elided : bool) : bytes :=
  sym_raw s ++ s2b "(" ++ print_args args elided ++ s2b ")".
Definition print_file_line (fi : p_findent) (file : bytes) (line : N) (off : option N) (regs : option p_regs) : bytes :=
  print_findent fi ++ file ++ s2b ":" ++ N_to_dec line ++ print_off off ++ print_regs regs.

Definition unavailable_text : bytes := s2b "goroutine running on other thread; stack unavailable".
Definition print_elide (e : p_elide) : bytes :=
  match e with
  | ElideOld => s2b "...additional frames elided..."
  | ElideNew n => s2b "..." ++ N_to_dec n ++ s2b " frames elided..."
  end.

Definition print_frame_lines (fi : p_findent) (f : p_frame) : list bytes :=
  [print_func_line (pf_sym f) (pf_args f) (pf_elided f);
   print_file_line fi (pf_file f) (pf_line f) (pf_off f) (pf_regs f)].

(* the frames from index i on *)
Fixpoint print_frames_lines (fi : p_findent) (i : nat) (fs : list p_frame) (elide : option (nat * p_elide)) : list bytes :=
  match fs with
  | [] => []
  | f :: fs' =>
      print_frame_lines fi f ++
      (match elide with
       | Some (k, e) => if Nat.eqb k i then [print_elide e] else []
       | None => []
       end) ++ print_frames_lines fi (S i) fs' elide
  end.

Definition in_goroutine_text (gid : option N) : bytes :=
  match gid with Some n => s2b " in goroutine " ++ N_to_dec n | None => [] end.

Definition print_creator_lines (fi : p_findent) (c : option p_creator) : list bytes :=
  match c with
  | None => []
  | Some c =>
      [s2b "created by " ++ sym_raw (pc_sym c) ++ in_goroutine_text (pc_gid c);
       print_file_line fi (pc_file c) (pc_line c) (pc_off c) None]
  end.

(* dGoroutine.lines: without the indentation and the end of line *)
Definition print_goroutine_lines (v : p_variant) (g : p_goroutine) : list bytes :=
  [print_header g] ++
  (match pg_body g with
   | BUnavailable => [print_findent (pv_findent v) ++ unavailable_text]
   | BFrames fs el => print_frames_lines (pv_findent v) 0 fs el
   end) ++
  print_creator_lines (pv_findent v) (pg_creator g).

Definition eol (v : p_variant) : bytes := if pv_crlf v then [CR; LF] else [LF].
Definition phys_line (v : p_variant) (l : bytes) : bytes := pv_indent v ++ l ++ eol v.
Definition blank_line (v : p_variant) : bytes :=
  (if pv_blank_indents v then pv_indent v else []) ++ eol v.

(* the physical lines of a dump: goroutines separated by one blank line *)
Fixpoint dump_lines (v : p_variant) (gs : list p_goroutine) : list bytes :=
  match gs with
  | [] => []
  | [g] => map (phys_line v) (print_goroutine_lines v g)
  | g :: gs' => map (phys_line v) (print_goroutine_lines v g) ++ [blank_line v] ++ dump_lines v gs'
  end.

(* printDump; [trailing]: the blank line the runtime prints after the last goroutine *)
Definition print_dump (v : p_variant) (gs : list p_goroutine) (trailing : bool) : bytes :=
  List.concat (dump_lines v gs ++ (if trailing then [blank_line v] else [])).

(* ------------------------------------------------------------------ *)
(* 3. the snapshot an AST denotes (expArgs, expFunc, expCall,          *)
(*    expGoroutines)                                                   *)
(* ------------------------------------------------------------------ *)

Definition ptr_floor : N := 524288.                  (* 512 KiB *)
Definition ptr_ceiling : N := 9223372036854775807.   (* 1<<63 - 1 *)

Fixpoint arg_of (a : p_arg) : Arg :=
  match a with
  | PVal v inacc => MkArg false [] v ((ptr_floor <? v) && (v <? ptr_ceiling)) false inacc [] [] false
  | PTooLarge => MkArg false [] 0 false true false [] [] false
  | PAgg fs el => MkArg true [] 0 false false false (map arg_of fs) [] el
  end.
Definition args_of (args : list p_arg) (elided : bool) : Args := mkArgs (map arg_of args) [] elided.

(* unicode.ToUpper(r) == r for the first rune of [part] — the same model of
   the Unicode tables as Model/FuncInit.first_rune_upper_fixed (exact for
   ASCII and Latin-1, "exported" beyond), restated here so that this file does
   not depend on the code under test. *)
Definition rune_upper_fixed (part : bytes) : bool :=
  match part with
  | [] => true
  | c :: t =>
      if c <? 128 then negb ((97 <=? c) && (c <=? 122)) else
      match t with
      | c1 :: _ =>
          if c =? 194 then negb (c1 =? 181)
          else if c =? 195 then negb ((160 <=? c1) && (c1 <=? 191) && negb (c1 =? 183))
          else true
      | [] => true
      end
  end.

Definition after_last (c : N) (s : bytes) : bytes :=
  match last_index_byte s c with Some i => skipn (S i) s | None => s end.

(* expFunc; [suffix] is the " in goroutine N" text of a creator *)
Definition func_of (s : p_sym) (suffix : bytes) : Func :=
  let '(complete, ip, name) :=
    match s with
    | SPkg p n => (p ++ [46] ++ n ++ suffix, p, n)
    | SBare n =>
        match index_byte n 46 with
        | Some i => (n ++ suffix, firstn i n, skipn (S i) n)
        | None => (n ++ suffix, [], n)
        end
    end in
  let is_main := beq ip (s2b "main") in
  mkFunc complete ip (after_last 47 ip) name
         (if is_main then beq name (s2b "main") else rune_upper_fixed (after_last 46 name))
         is_main.

(* expCall *)
Definition call_of (f : Func) (a : Args) (file : bytes) (line : N) : Call :=
  let '(srcname, dirsrc) :=
    match last_index_byte file 47 with
    | Some i =>
        (skipn (S i) file,
         match last_index_byte (firstn i file) 47 with Some j => skipn (S j) file | None => [] end)
    | None => ([], [])
    end in
  mkCall f a file (Z.of_N line) srcname dirsrc [] [] (FImportPath f)
         (if beq dirsrc (s2b "_test/_testmain.go") then Stdlib else LocationUnknown).

Definition call_of_frame (f : p_frame) : Call :=
  call_of (func_of (pf_sym f) []) (args_of (pf_args f) (pf_elided f)) (pf_file f) (pf_line f).
Definition call_of_creator (c : p_creator) : Call :=
  call_of (func_of (pc_sym c) (in_goroutine_text (pc_gid c))) emptyArgs (pc_file c) (pc_line c).

Definition unavailable_call : Call :=
  mkCall emptyFunc emptyArgs (s2b "<unavailable>") 0 [] [] [] [] [] LocationUnknown.

Definition goroutine_of (first : bool) (g : p_goroutine) : Goroutine :=
  let stack :=
    match pg_body g with
    | BUnavailable => mkStack [unavailable_call] false
    | BFrames fs el => mkStack (map call_of_frame fs) (match el with Some _ => true | None => false end)
    end in
  let created :=
    match pg_creator g with
    | Some c => mkStack [call_of_creator c] false
    | None => emptyStack
    end in
  mkGoroutine (mkSig (pg_state g) created (Z.of_N (pg_minutes g)) (Z.of_N (pg_minutes g)) stack (pg_locked g))
              (Z.of_N (pg_id g)) first false 0.

(* expGoroutines: First = (index = 0) *)
Definition snapshot_of (gs : list p_goroutine) : list Goroutine :=
  match gs with
  | [] => []
  | g :: gs' => goroutine_of true g :: map (goroutine_of false) gs'
  end.

(* ------------------------------------------------------------------ *)
(* 4. well-formedness: exactly what the fidelity theorem assumes       *)
(* ------------------------------------------------------------------ *)

Definition no_byte (c : N) (s : bytes) : bool := negb (existsb (N.eqb c) s).

(* ids, lines, minutes: atou accepts 1..18 digits *)
Definition dec_limit : N := 1000000000000000000.   (* 10^18 *)
Definition wf_num (n : N) : bool := n <? dec_limit.

(* uint64 values; aggregates nested at most [d] deep (the parser has 6
   levels, the top level included) *)
Fixpoint wf_arg (d : nat) (a : p_arg) : bool :=
  match a with
  | PVal v _ => v <? 18446744073709551616
  | PTooLarge => true
  | PAgg fs _ => match d with O => false | S d' => forallb (wf_arg d') fs end
  end.
Definition wf_args (args : list p_arg) : bool := forallb (wf_arg 5) args.

(* symbol names: no control/space byte that the line protocol uses, no '/'
   and no '%' (a name is neither escaped nor unescaped); package paths are
   arbitrary byte strings (everything dangerous is escaped) *)
Definition name_byte_ok (c : N) : bool :=
  negb ((c =? 9) || (c =? 10) || (c =? 13) || (c =? 32) || (c =? 37) || (c =? 47)).
Definition wf_name (n : bytes) : bool := forallb name_byte_ok n.
Definition wf_sym (s : p_sym) : bool :=
  match s with
  | SPkg p n => forallb (fun c => c <? 256) p && wf_name n
  | SBare n => wf_name n && (match n with [] => false | _ => true end)
  end.

(* files: "??", "<autogenerated>" or a non-empty stem followed by .go/.c/.s;
   no LF; not starting with a space when file lines are indented with spaces
   (the leading spaces would be taken for indentation) *)
Definition has_ext (f ext : bytes) : bool :=
  has_suffix f ext && Nat.ltb (List.length ext) (List.length f).
Definition wf_file (fi : p_findent) (f : bytes) : bool :=
  no_byte LF f &&
  (beq f (s2b "??") || beq f (s2b "<autogenerated>") ||
   has_ext f (s2b ".go") || has_ext f (s2b ".c") || has_ext f (s2b ".s")) &&
  (match fi with FITab => true | FISpaces _ => negb (has_prefix f [32]) end).

Definition wf_frame (fi : p_findent) (f : p_frame) : bool :=
  wf_sym (pf_sym f) && wf_args (pf_args f) && wf_file fi (pf_file f) && wf_num (pf_line f).

Definition wf_creator (fi : p_findent) (c : p_creator) : bool :=
  wf_sym (pc_sym c) && wf_file fi (pc_file c) && wf_num (pc_line c).

(* the header: the state is non-empty, has no ']' and no LF and does not
   contain ", " (the separator of the header items) *)
Definition wf_state (s : bytes) : bool :=
  (match s with [] => false | _ => true end) &&
  no_byte 93 s && no_byte LF s && negb (contains s (s2b ", ")).

Definition wf_opaque (s : bytes) : bool :=
  (match s with [] => false | _ => true end) && no_byte 32 s && no_byte LF s.
Definition wf_annot (a : option p_annot) : bool :=
  match a with
  | None => true
  | Some a => wf_opaque (an_gp a) && wf_opaque (an_m a) &&
              (match an_mp a with Some z => wf_opaque z | None => true end)
  end.

Definition wf_body (fi : p_findent) (b : p_body) : bool :=
  match b with
  | BUnavailable => true
  | BFrames fs el =>
      (match fs with [] => false | _ => true end) && forallb (wf_frame fi) fs &&
      (match el with Some (k, _) => Nat.ltb k (List.length fs) | None => true end)
  end.

Definition wf_goroutine (fi : p_findent) (g : p_goroutine) : bool :=
  wf_num (pg_id g) && wf_state (pg_state g) && wf_num (pg_minutes g) && wf_annot (pg_annot g) &&
  wf_body fi (pg_body g) &&
  (match pg_creator g with Some c => wf_creator fi c | None => true end).

Definition wf_variant (v : p_variant) : bool :=
  forallb is_space_tab (pv_indent v) &&
  (match pv_findent v with FITab => true | FISpaces k => Nat.ltb 0 k end).

Definition wf_dump (v : p_variant) (gs : list p_goroutine) : bool :=
  wf_variant v && (match gs with [] => false | _ => true end) && forallb (wf_goroutine (pv_findent v)) gs.

(* ------------------------------------------------------------------ *)
(* 5. a realistic dump is well-formed                                  *)
(* ------------------------------------------------------------------ *)

Definition ex_variant : p_variant := mkPV (s2b "    ") true FITab true.

Definition ex_dump : list p_goroutine :=
  [ mkPG 1 (s2b "chan receive (nil chan)") 12 true None
      (BFrames
         [ mkPFrame (SPkg (s2b "gopkg.in/yaml.v2") (s2b "(*decoder).unmarshal"))
             [PVal 824633819136 false; PAgg [PVal 1 false; PAgg [PVal 2 true; PTooLarge] true] false; PVal 0 false] true
             (s2b "/gopath/pkg/mod/gopkg.in/yaml.v2@v2.4.0/decode.go") 312 (Some 27) None;
           mkPFrame (SPkg (s2b "main") (s2b "main")) [] false
             (s2b "/home/u/src/proj/main.go") 14 (Some 591) (Some (mkPRegs 824634769408 824634769000 (Some 4200000))) ]
         (Some (0%nat, ElideNew 7)))
      None;
    mkPG 18 (s2b "select") 0 false (Some (mkPAnnot (s2b "0xc000002000") (s2b "3") (Some (s2b "0xc000050000"))))
      (BFrames
         [ mkPFrame (SPkg (s2b "net/http") (s2b "(*persistConn).readLoop")) [PVal 824635318272 false] false
             (s2b "/usr/local/go/src/net/http/transport.go") 2210 (Some 3350) None;
           mkPFrame (SBare (s2b "runtime.goexit")) [PAgg [] false] false
             (s2b "/usr/local/go/src/runtime/asm_amd64.s") 1650 (Some 1) None ]
         None)
      (Some (mkPCreator (SPkg (s2b "net/http") (s2b "(*Transport).dialConn")) (Some 5)
               (s2b "/usr/local/go/src/net/http/transport.go") 1751 (Some 5946)));
    mkPG 100000000000000042 (s2b "running") 0 false None BUnavailable
      (Some (mkPCreator (SPkg (s2b "example.com/a b/c++lib") (s2b "Start.func1")) None
               (s2b "_test/_testmain.go") 48 None)) ].

Example ex_dump_wf : wf_dump ex_variant ex_dump = true.
Proof. vm_compute. reflexivity. Qed.
