// op augment (C19): ScanSnapshot with GuessPaths+AnalyzeSources on a generated
// source tree and a synthetic dump whose argument words encode known values
// (the encoding of Spec/Abi: one word per scalar/pointer/map/chan/func, two per
// string, three per slice; sub-word integers zero-extended from their size).
// augment id content fs frames floats | snap
//
//	frames = per frame "types;extra;expected" : types "t1,t2" (hex each) as extractArgumentsType would give for the
//	         function that contains the frame's line, "none" if no function / file is found; expected = the rendering
//	         of the values the generator chose ("-" when the frame is a deliberate mismatch)
//	floats = "bits32=str,..|bits64=str,.." formatting oracle (strconv.FormatFloat)
package main

import (
	"fmt"
	"math"
	"math/rand"
	"os"
	"runtime"
	"strconv"
	"strings"

	"github.com/maruel/panicparse/v2/stack"
)

type aparam struct {
	typ   string   // as written in the source
	words []uint64 // traceback words
	show  string   // truthful rendering
}

func genParam(r *rand.Rand, f32, f64 map[uint64]string) aparam {
	ptr := func() uint64 { return 0xc000000000 + uint64(r.Intn(1<<16))*8 }
	hexp := func(v uint64) string { return "0x" + strconv.FormatUint(v, 16) }
	switch r.Intn(18) {
	case 0:
		v := r.Intn(2) == 0
		w := uint64(0)
		if v {
			w = 1
		}
		return aparam{"bool", []uint64{w}, strconv.FormatBool(v)}
	case 1:
		v := int64(r.Uint64())
		if r.Intn(2) == 0 {
			v = int64(r.Intn(200) - 100)
		}
		return aparam{"int", []uint64{uint64(v)}, strconv.FormatInt(v, 10)}
	case 2:
		v := int8(r.Intn(256))
		if r.Intn(4) == 0 {
			v = []int8{-128, 127, -1, 0}[r.Intn(4)]
		}
		return aparam{"int8", []uint64{uint64(uint8(v))}, strconv.FormatInt(int64(v), 10)}
	case 3:
		v := int16(r.Intn(65536))
		if r.Intn(4) == 0 {
			v = []int16{-32768, 32767, -1, 0}[r.Intn(4)]
		}
		return aparam{"int16", []uint64{uint64(uint16(v))}, strconv.FormatInt(int64(v), 10)}
	case 4:
		v := int32(r.Uint32())
		if r.Intn(4) == 0 {
			v = []int32{-2147483648, 2147483647, -1, 0}[r.Intn(4)]
		}
		return aparam{"int32", []uint64{uint64(uint32(v))}, strconv.FormatInt(int64(v), 10)}
	case 5:
		v := int64(r.Uint64())
		return aparam{"int64", []uint64{uint64(v)}, strconv.FormatInt(v, 10)}
	case 6:
		v := r.Uint64()
		return aparam{"uint", []uint64{v}, strconv.FormatUint(v, 10)}
	case 7:
		v := uint8(r.Intn(256))
		return aparam{"uint8", []uint64{uint64(v)}, strconv.FormatUint(uint64(v), 10)}
	case 8:
		v := uint16(r.Intn(65536))
		return aparam{"uint16", []uint64{uint64(v)}, strconv.FormatUint(uint64(v), 10)}
	case 9:
		v := r.Uint32()
		return aparam{"uint32", []uint64{uint64(v)}, strconv.FormatUint(uint64(v), 10)}
	case 10:
		v := float32(r.NormFloat64() * 100)
		if r.Intn(4) == 0 {
			v = []float32{0, 1, -1, 0.5, float32(math.Inf(1)), 3.4e38}[r.Intn(6)]
		}
		b := uint64(math.Float32bits(v))
		s := strconv.FormatFloat(float64(v), 'g', -1, 32)
		f32[b] = s
		return aparam{"float32", []uint64{b}, s}
	case 11:
		v := r.NormFloat64() * 1e6
		if r.Intn(4) == 0 {
			v = []float64{0, 1, -1, 0.5, math.Inf(-1), 1e308, math.NaN()}[r.Intn(7)]
		}
		b := math.Float64bits(v)
		s := strconv.FormatFloat(v, 'g', -1, 64)
		f64[b] = s
		return aparam{"float64", []uint64{b}, s}
	case 12:
		p, l := ptr(), uint64(r.Intn(100))
		return aparam{"string", []uint64{p, l}, fmt.Sprintf("string(%s, len=%d)", hexp(p), l)}
	case 13:
		p, l := ptr(), uint64(r.Intn(100))
		c := l + uint64(r.Intn(10))
		t := []string{"[]int", "[]byte", "[]string", "[]*T"}[r.Intn(4)]
		return aparam{t, []uint64{p, l, c}, fmt.Sprintf("%s(%s len=%d cap=%d)", t, hexp(p), l, c)}
	case 14:
		p := ptr()
		t := []string{"*T", "*int", "*string"}[r.Intn(3)]
		return aparam{t, []uint64{p}, fmt.Sprintf("%s(%s)", t, hexp(p))}
	case 15:
		p := ptr()
		t := []string{"map[int]string", "map[string]*T"}[r.Intn(2)]
		return aparam{t, []uint64{p}, fmt.Sprintf("%s(%s)", t, hexp(p))}
	case 16:
		p := ptr()
		t := []string{"chan int", "chan *T"}[r.Intn(2)]
		// directional channels: one word like any channel; fieldToType names them without the direction
		src := []string{"", "", "<-", "chan<-"}[r.Intn(4)]
		switch src {
		case "<-":
			src = "<-" + t
		case "chan<-":
			src = "chan<- " + strings.TrimPrefix(t, "chan ")
		default:
			src = t
		}
		return aparam{src, []uint64{p}, fmt.Sprintf("%s(%s)", t, hexp(p))}
	default:
		p := ptr()
		return aparam{"func()", []uint64{p}, fmt.Sprintf("func(%s)", hexp(p))}
	}
}

// typeName is what fieldToType yields for the types generated above
func typeName(t string) string {
	if strings.HasPrefix(t, "func") {
		return "func"
	}
	if strings.HasPrefix(t, "<-chan ") {
		return t[2:]
	}
	if strings.HasPrefix(t, "chan<- ") {
		return "chan " + t[7:]
	}
	return t
}

type afunc struct {
	name     string // symbol name part: "f3" or "(*T).m3"
	params   []aparam
	ptrRecv  bool
	bodyLine int
}

func emitAugment(id string, content []byte, files map[string]string, base string, frames, floats string) {
	emitAugmentOpts(id, content, files, base, frames, floats, false)
}

// realGoroot: use the installed GOROOT (real tracebacks contain runtime frames)
func emitAugmentOpts(id string, content []byte, files map[string]string, base string, frames, floats string, realGoroot bool) {
	l := &layout{base: base, files: files}
	if err := l.materialise(); err != nil {
		panic(err)
	}
	defer os.RemoveAll(base)
	snap := ""
	rendered := true
	func() {
		defer func() {
			if e := recover(); e != nil {
				snap = "PANIC:" + strings.ReplaceAll(fmt.Sprint(e), "\t", " ")
			}
		}()
		opts := &stack.Opts{LocalGOROOT: base + "/nogoroot", GuessPaths: true, AnalyzeSources: true}
		if realGoroot {
			opts.LocalGOROOT = runtime.GOROOT()
		}
		rd := &scriptedReader{rest: append([]byte{}, content...), final: finalOf("eof"), w: &recWriter{}}
		s, _, _ := stack.ScanSnapshot(rd, rd.w, opts)
		if s == nil {
			snap = "nil"
		} else {
			snap = sexpGoroutines(s.Goroutines)
			// rendering the arguments (what pp does for every frame, in order) must not change any of them
			for _, g := range s.Goroutines {
				for i := range g.Stack.Calls {
					_ = g.Stack.Calls[i].Args.String()
				}
			}
			if sexpGoroutines(s.Goroutines) != snap {
				rendered = false
			}
		}
	}()
	// the same dump without source analysis: Values must be identical (C19: raw values never change)
	plain := ""
	func() {
		defer func() { recover() }()
		opts := &stack.Opts{LocalGOROOT: base + "/nogoroot", GuessPaths: true}
		if realGoroot {
			opts.LocalGOROOT = runtime.GOROOT()
		}
		rd := &scriptedReader{rest: append([]byte{}, content...), final: finalOf("eof"), w: &recWriter{}}
		if s, _, _ := stack.ScanSnapshot(rd, rd.w, opts); s != nil {
			plain = sexpGoroutines(s.Goroutines)
		}
	}()
	// the same with pointer pseudo-names on (the default of pp): only renderings that show a pointer may change
	named := "1"
	func() {
		defer func() {
			if e := recover(); e != nil {
				named = "P"
			}
		}()
		mk := func(names bool) *stack.Snapshot {
			opts := &stack.Opts{LocalGOROOT: base + "/nogoroot", GuessPaths: true, AnalyzeSources: true, NameArguments: names}
			if realGoroot {
				opts.LocalGOROOT = runtime.GOROOT()
			}
			rd := &scriptedReader{rest: append([]byte{}, content...), final: finalOf("eof"), w: &recWriter{}}
			s, _, _ := stack.ScanSnapshot(rd, rd.w, opts)
			return s
		}
		a, b := mk(false), mk(true)
		if a == nil || b == nil {
			return
		}
		for gi := range a.Goroutines {
			for ci := range a.Goroutines[gi].Stack.Calls {
				pa, pb := a.Goroutines[gi].Stack.Calls[ci].Args.Processed, b.Goroutines[gi].Stack.Calls[ci].Args.Processed
				if len(pa) != len(pb) {
					named = "0"
					continue
				}
				for k := range pa {
					if pa[k] != pb[k] && !strings.Contains(pa[k], "0x") {
						named = "0" // a value that shows no pointer was replaced
					}
				}
			}
		}
	}()
	if !rendered && named == "1" {
		named = "S"
	}
	emit("augment", id, hexs(content), fmtFS(files), frames, floats, snap, plain, named)
}

func init() {
	replayers["augment"] = func(id string, in []string) {
		files := map[string]string{}
		base := "/tmp/vhg/replay-augment"
		if in[1] != "-" {
			for _, kv := range strings.Split(in[1], ";") {
				p := strings.SplitN(kv, "=", 2)
				k := string(unhexs(p[0]))
				files[k] = string(unhexs(p[1]))
				if strings.HasPrefix(k, "/tmp/vhg/") {
					rest := k[len("/tmp/vhg/"):]
					base = "/tmp/vhg/" + rest[:strings.IndexByte(rest, '/')]
				}
			}
		}
		emitAugment(id, unhexs(in[0]), files, base, in[2], in[3])
	}
}

func opAugment(r *rand.Rand, n int, tier string, seed int64) {
	for i := 0; i < n; i++ {
		base := fmt.Sprintf("/tmp/vhg/a%d-%d", seed, i)
		f32, f64 := map[uint64]string{}, map[uint64]string{}
		var src strings.Builder
		src.WriteString("package main\n\ntype T struct{ x int }\n\nfunc mark() {}\n\n")
		line := 7
		nf := 2 + r.Intn(4)
		var fs []afunc
		for k := 0; k < nf; k++ {
			f := afunc{}
			np := r.Intn(6)
			var decl []string
			for p := 0; p < np; p++ {
				ap := genParam(r, f32, f64)
				f.params = append(f.params, ap)
				decl = append(decl, fmt.Sprintf("p%d %s", p, ap.typ))
			}
			switch r.Intn(4) {
			case 0:
				f.ptrRecv = true
				f.name = fmt.Sprintf("(*T).m%d", k)
				fmt.Fprintf(&src, "func (t *T) m%d(%s) {\n", k, strings.Join(decl, ", "))
			default:
				f.name = fmt.Sprintf("f%d", k)
				fmt.Fprintf(&src, "func f%d(%s) {\n", k, strings.Join(decl, ", "))
			}
			line++
			f.bodyLine = line
			src.WriteString("\tmark()\n}\n\n")
			line += 3
			fs = append(fs, f)
		}
		file := base + "/proj/main.go"
		files := map[string]string{base + "/proj/go.mod": "module example.com/aug\n", file: src.String()}
		// a second package declaring functions with the SAME unqualified names but other signatures
		var src2 strings.Builder
		src2.WriteString("package other\n\ntype T struct{ x int }\n\nfunc mark() {}\n\n")
		line2 := 7
		var fs2 []afunc
		for k := 0; k < nf; k++ {
			f := afunc{name: fs[k].name, ptrRecv: fs[k].ptrRecv}
			np := 1 + r.Intn(4)
			var decl []string
			for p := 0; p < np; p++ {
				ap := genParam(r, f32, f64)
				f.params = append(f.params, ap)
				decl = append(decl, fmt.Sprintf("q%d %s", p, ap.typ))
			}
			if f.ptrRecv {
				fmt.Fprintf(&src2, "func (t *T) m%d(%s) {\n", k, strings.Join(decl, ", "))
			} else {
				fmt.Fprintf(&src2, "func f%d(%s) {\n", k, strings.Join(decl, ", "))
			}
			line2++
			f.bodyLine = line2
			src2.WriteString("\tmark()\n}\n\n")
			line2 += 3
			fs2 = append(fs2, f)
		}
		file2 := base + "/proj/other/o.go"
		files[file2] = src2.String()
		mismatch := r.Intn(5)
		switch mismatch {
		case 0: // sources missing
			delete(files, file)
		case 1: // unparsable
			files[file] = "package main\nfunc {{{\n"
			if r.Intn(2) == 0 {
				// a syntax error from which go/parser recovers a partial AST: a closing brace removed inside the
				// first function (same line numbers); the file still does not parse, so nothing may be augmented
				files[file] = strings.Replace(src.String(), "\tmark()\n}\n", "\tmark()\n\n", 1)
			}
		}
		// one goroutine, one frame per function
		gr := dGoroutine{ID: 1, State: "running", ElideAfter: -1}
		var fr []string
		type fr2 struct {
			f    afunc
			file string
			pkg  string
			main bool
		}
		var all []fr2
		for _, f := range fs {
			all = append(all, fr2{f, file, "main", true})
		}
		for _, f := range fs2 {
			if r.Intn(2) == 0 {
				all = append(all, fr2{f, file2, "example.com/aug/other", false})
			}
		}
		// recursion: the same function or method in several frames of the stack
		for rep := r.Intn(3); rep > 0; rep-- {
			all = append(all, all[r.Intn(len(all))])
		}
		for k, x := range all {
			f := x.f
			var words []uint64
			var types, shows []string
			if f.ptrRecv {
				p := 0xc000100000 + uint64(k)*16
				words = append(words, p)
				types = append(types, "*T")
				shows = append(shows, fmt.Sprintf("*T(0x%x)", p))
			}
			for _, ap := range f.params {
				words = append(words, ap.words...)
				types = append(types, typeName(ap.typ))
				shows = append(shows, ap.show)
			}
			ln := f.bodyLine
			lastOfFile := (x.main && f.bodyLine == fs[len(fs)-1].bodyLine) || (!x.main && f.bodyLine == fs2[len(fs2)-1].bodyLine)
			if r.Intn(4) == 0 && !lastOfFile {
				// the closing brace of the function: what the runtime reports for a deferred call at return
				// (for the last declaration of a file no node follows and the frame stays unaugmented)
				ln++
			}
			expected := strings.Join(shows, "\x00")
			tdesc := types
			noFunc := false
			switch {
			case mismatch == 2 && k == 0: // line beyond the end of the file
				ln = line + line2 + 50
				tdesc, expected, noFunc = nil, "-", true
			case mismatch == 3 && k == 0 && len(words) > 0: // arity differs: one word fewer
				words = words[:len(words)-1]
				expected = "-"
			case mismatch == 3 && k == 1: // arity differs: two extra words
				words = append(words, 7, 8)
				expected = "-"
			}
			if (mismatch == 0 || mismatch == 1) && x.main {
				tdesc, expected, noFunc = nil, "-", true
			}
			var args []dArg
			for _, w := range words {
				args = append(args, dArg{V: w})
			}
			// (the runtime elides the words beyond the tenth: the marker after the printed ones)
			gr.Frames = append(gr.Frames, dFrame{Sym: dSym{Pkg: x.pkg, Name: f.name}, Args: args, ArgsElided: len(args) > 0 && r.Intn(5) == 0, File: x.file, Line: ln, Off: " +0x1d"})
			td := "none"
			if !noFunc {
				var hx []string
				for _, t := range tdesc {
					hx = append(hx, hexs([]byte(t)))
				}
				td = strings.Join(hx, ",")
				if td == "" {
					td = "-"
				}
			}
			fr = append(fr, td+";0;"+hexs([]byte(expected)))
		}
		txt := printDump([]dGoroutine{gr}, dVariant{FileIndent: "\t"}, true)
		var a, b []string
		for k, v := range f32 {
			a = append(a, fmt.Sprintf("%d=%s", k, hexs([]byte(v))))
		}
		for k, v := range f64 {
			b = append(b, fmt.Sprintf("%d=%s", k, hexs([]byte(v))))
		}
		emitAugment(fmt.Sprintf("aug-%d", i), []byte(txt), files, base, strings.Join(fr, "|"), strings.Join(a, ",")+"|"+strings.Join(b, ","))
	}
}
