(* Proofs/NamesBase.v — list / sorted-set / numbering lemmas used by Proofs/NamesProofs.v (C15). *)
From PP Require Import Base.Bytes Base.Num Model.Types Model.Names Spec.Eqb Spec.NamesSpec Spec.Wf.
From Coq Require Import Sorting.Sorted.

(* ------------------------------------------------------------------ *)
(* N_to_dec is injective: a left inverse                                *)
(* ------------------------------------------------------------------ *)
Definition dstep (acc c : N) : N := (acc * 10 + (c - 48))%N.
Definition dval (s : bytes) (n : N) : N := fold_left dstep s n.

Lemma dec_go_val (fuel : nat) : forall (n : N) (acc : bytes),
  (n < 2 ^ N.of_nat fuel)%N -> dval (dec_go fuel n acc) 0 = dval acc n.
Proof.
  induction fuel as [|f IH]; intros n acc Hn.
  - simpl in Hn. assert (Hz : n = 0%N) by lia. subst n. reflexivity.
  - cbn [dec_go]. destruct (n <? 10)%N eqn:E.
    + apply N.ltb_lt in E.
      assert (Hd : dstep 0 (48 + n mod 10) = n).
      { unfold dstep. rewrite N.mod_small by lia. lia. }
      unfold dval. cbn [fold_left]. rewrite Hd. reflexivity.
    + apply N.ltb_ge in E.
      assert (Hd : dstep (n / 10) (48 + n mod 10) = n).
      { unfold dstep. pose proof (N.div_mod n 10 ltac:(discriminate)) as Hdm.
        remember (n / 10)%N as q eqn:Hq. remember (n mod 10)%N as r eqn:Hr. clear Hq Hr. lia. }
      rewrite IH.
      * unfold dval. cbn [fold_left]. rewrite Hd. reflexivity.
      * rewrite Nat2N.inj_succ, N.pow_succ_r' in Hn.
        apply N.div_lt_upper_bound; [lia|]. lia.
Qed.

Lemma pos_size_nat_bound (p : positive) : (N.pos p < 2 ^ N.of_nat (Pos.size_nat p))%N.
Proof.
  induction p as [p IH|p IH|]; cbn [Pos.size_nat];
    rewrite ?Nat2N.inj_succ, ?N.pow_succ_r'; lia.
Qed.

Lemma size_nat_bound (n : N) : (n < 2 ^ N.of_nat (N.size_nat n))%N.
Proof.
  destruct n as [|p]; [simpl; lia|]. apply pos_size_nat_bound.
Qed.

Lemma N_to_dec_val (n : N) : dval (N_to_dec n) 0 = n.
Proof.
  unfold N_to_dec. rewrite dec_go_val; [reflexivity|].
  rewrite Nat2N.inj_succ, N.pow_succ_r'. pose proof (size_nat_bound n) as Hb. lia.
Qed.

Lemma N_to_dec_inj (a b : N) : N_to_dec a = N_to_dec b -> a = b.
Proof.
  intros H. rewrite <- (N_to_dec_val a), <- (N_to_dec_val b), H. reflexivity.
Qed.

Lemma label_inj (i j : nat) : label i = label j -> i = j.
Proof.
  unfold label. intros H. injection H as H. apply N_to_dec_inj in H. lia.
Qed.

Lemma label_nonempty (i : nat) : label i <> [].
Proof. unfold label. discriminate. Qed.

(* ------------------------------------------------------------------ *)
(* the model's helpers are the spec's helpers                          *)
(* ------------------------------------------------------------------ *)
Lemma insert_uniq_eq (v : N) (l : list N) : insert_uniq v l = ins_uniq v l.
Proof. reflexivity. Qed.
Lemma sort_uniq_eq (l : list N) : sort_uniq l = sorted_set l.
Proof. induction l as [|x l IH]; simpl; [reflexivity|]. rewrite IH. reflexivity. Qed.
Lemma memN_eq (v : N) (l : list N) : memN v l = memNb v l.
Proof. reflexivity. Qed.
Lemma countN_eq (v : N) (l : list N) : countN v l = count_val v l.
Proof. reflexivity. Qed.

(* ------------------------------------------------------------------ *)
(* membership, counting                                                 *)
(* ------------------------------------------------------------------ *)
Lemma memNb_In (v : N) (l : list N) : memNb v l = true <-> In v l.
Proof.
  unfold memNb. rewrite existsb_exists. split.
  - intros (x & Hx & E). apply N.eqb_eq in E. subst x. exact Hx.
  - intros H. exists v. split; [exact H|apply N.eqb_refl].
Qed.

Lemma memNb_false (v : N) (l : list N) : memNb v l = false <-> ~ In v l.
Proof.
  rewrite <- memNb_In. destruct (memNb v l); split; intros H.
  - discriminate H.
  - exfalso. apply H. reflexivity.
  - discriminate.
  - reflexivity.
Qed.

Lemma count_val_pos (v : N) (l : list N) : 0 < count_val v l -> In v l.
Proof.
  induction l as [|x l IH]; simpl; intros H; [lia|].
  destruct (N.eqb v x) eqn:E.
  - apply N.eqb_eq in E. left. congruence.
  - right. apply IH. simpl in H. exact H.
Qed.

(* ------------------------------------------------------------------ *)
(* sorted duplicate-free lists                                          *)
(* ------------------------------------------------------------------ *)
Notation ssorted := (StronglySorted N.lt).

Lemma In_ins_uniq (x v : N) (l : list N) : In x (ins_uniq v l) <-> x = v \/ In x l.
Proof.
  induction l as [|y l IH]; simpl.
  - intuition congruence.
  - destruct (N.ltb v y) eqn:E1; [simpl; intuition congruence|].
    destruct (N.eqb v y) eqn:E2.
    + apply N.eqb_eq in E2. subst y. simpl. intuition congruence.
    + simpl. rewrite IH. intuition congruence.
Qed.

Lemma ins_uniq_sorted (v : N) (l : list N) : ssorted l -> ssorted (ins_uniq v l).
Proof.
  induction l as [|y l IH]; intros Hs; simpl.
  - constructor; constructor.
  - inversion Hs as [|y' l' Hs' Hall]; subst.
    destruct (N.ltb v y) eqn:E1.
    + apply N.ltb_lt in E1. constructor; [exact Hs|].
      constructor; [exact E1|].
      eapply Forall_impl; [|exact Hall]. intros z Hz. simpl in Hz. lia.
    + destruct (N.eqb v y) eqn:E2; [exact Hs|].
      apply N.ltb_ge in E1. apply N.eqb_neq in E2.
      constructor; [apply IH; exact Hs'|].
      apply Forall_forall. intros z Hz. apply In_ins_uniq in Hz. destruct Hz as [Hz|Hz].
      * subst z. lia.
      * rewrite Forall_forall in Hall. apply Hall. exact Hz.
Qed.

Lemma sorted_set_sorted (l : list N) : ssorted (sorted_set l).
Proof.
  induction l as [|x l IH]; simpl; [constructor|]. apply ins_uniq_sorted. exact IH.
Qed.

Lemma In_sorted_set (x : N) (l : list N) : In x (sorted_set l) <-> In x l.
Proof.
  induction l as [|y l IH]; simpl; [tauto|].
  rewrite In_ins_uniq, IH. intuition congruence.
Qed.

Lemma filter_sorted (f : N -> bool) (l : list N) : ssorted l -> ssorted (filter f l).
Proof.
  induction l as [|y l IH]; intros Hs; simpl; [constructor|].
  inversion Hs as [|y' l' Hs' Hall]; subst.
  destruct (f y); [|apply IH; exact Hs'].
  constructor; [apply IH; exact Hs'|].
  apply Forall_forall. intros z Hz. apply filter_In in Hz. destruct Hz as [Hz _].
  rewrite Forall_forall in Hall. apply Hall. exact Hz.
Qed.

Lemma sorted_ext (l1 : list N) : forall l2 : list N,
  ssorted l1 -> ssorted l2 -> (forall x, In x l1 <-> In x l2) -> l1 = l2.
Proof.
  induction l1 as [|a l1 IH]; intros [|b l2] H1 H2 Hext.
  - reflexivity.
  - exfalso. apply (Hext b). left. reflexivity.
  - exfalso. apply (Hext a). left. reflexivity.
  - inversion H1 as [|a' l1' H1' Ha]; subst. inversion H2 as [|b' l2' H2' Hb]; subst.
    rewrite Forall_forall in Ha, Hb.
    assert (Hab : a = b).
    { destruct (proj1 (Hext a) (or_introl eq_refl)) as [E|Hin]; [congruence|].
      destruct (proj2 (Hext b) (or_introl eq_refl)) as [E|Hin']; [congruence|].
      apply Hb in Hin. apply Ha in Hin'. lia. }
    subst b. f_equal. apply IH; [exact H1'|exact H2'|].
    intros x. split; intros Hx.
    + destruct (proj1 (Hext x) (or_intror Hx)) as [E|Hin]; [|exact Hin].
      apply Ha in Hx. lia.
    + destruct (proj2 (Hext x) (or_intror Hx)) as [E|Hin]; [|exact Hin].
      apply Hb in Hx. lia.
Qed.

Lemma sorted_NoDup (l : list N) : ssorted l -> NoDup l.
Proof.
  induction l as [|y l IH]; intros Hs; [constructor|].
  inversion Hs as [|y' l' Hs' Hall]; subst. constructor; [|apply IH; exact Hs'].
  intros Hin. rewrite Forall_forall in Hall. apply Hall in Hin. lia.
Qed.

(* ------------------------------------------------------------------ *)
(* index_of                                                             *)
(* ------------------------------------------------------------------ *)
Lemma index_of_Some (v : N) (l : list N) : forall i : nat,
  index_of v l = Some i -> i < List.length l /\ nth i l 0%N = v.
Proof.
  induction l as [|x l IH]; intros i H; simpl in H; [discriminate|].
  destruct (N.eqb v x) eqn:E.
  - injection H as <-. apply N.eqb_eq in E. simpl. split; [lia|congruence].
  - destruct (index_of v l) as [j|] eqn:Ej; simpl in H; [|discriminate].
    injection H as <-. destruct (IH j eq_refl) as [Hlt Hn]. simpl. split; [lia|exact Hn].
Qed.

Lemma index_of_Some_In (v : N) (l : list N) (i : nat) : index_of v l = Some i -> In v l.
Proof.
  intros H. apply index_of_Some in H. destruct H as [Hlt Hn]. rewrite <- Hn. apply nth_In. exact Hlt.
Qed.

Lemma index_of_In (v : N) (l : list N) : In v l -> exists i, index_of v l = Some i.
Proof.
  induction l as [|x l IH]; intros H; [destruct H|]. simpl.
  destruct (N.eqb v x) eqn:E; [exists 0; reflexivity|].
  destruct H as [H|H]; [subst x; rewrite N.eqb_refl in E; discriminate|].
  destruct (IH H) as [i Hi]. rewrite Hi. exists (S i). reflexivity.
Qed.

Lemma index_of_None (v : N) (l : list N) : index_of v l = None -> ~ In v l.
Proof.
  intros H Hin. apply index_of_In in Hin. destruct Hin as [i Hi]. congruence.
Qed.

Lemma index_of_inj (v w : N) (l : list N) (i : nat) :
  index_of v l = Some i -> index_of w l = Some i -> v = w.
Proof.
  intros Hv Hw. apply index_of_Some in Hv. apply index_of_Some in Hw.
  destruct Hv as [_ Hv]. destruct Hw as [_ Hw]. congruence.
Qed.

Lemma index_of_nth (l : list N) : forall i : nat,
  NoDup l -> i < List.length l -> index_of (nth i l 0%N) l = Some i.
Proof.
  induction l as [|x l IH]; intros i Hnd Hi; simpl in Hi; [lia|].
  inversion Hnd as [|x' l' Hnotin Hnd']; subst.
  destruct i as [|i]; simpl.
  - rewrite N.eqb_refl. reflexivity.
  - assert (Hlt : i < List.length l) by lia.
    destruct (N.eqb (nth i l 0%N) x) eqn:E.
    + apply N.eqb_eq in E. exfalso. apply Hnotin. rewrite <- E. apply nth_In. exact Hlt.
    + rewrite IH; [reflexivity|exact Hnd'|exact Hlt].
Qed.

Lemma index_of_app (v : N) (l1 l2 : list N) :
  index_of v (l1 ++ l2) =
  match index_of v l1 with
  | Some i => Some i
  | None => option_map (fun j => List.length l1 + j) (index_of v l2)
  end.
Proof.
  induction l1 as [|x l1 IH]; simpl.
  - destruct (index_of v l2); reflexivity.
  - destruct (N.eqb v x); [reflexivity|]. rewrite IH.
    destruct (index_of v l1); simpl; [reflexivity|].
    destruct (index_of v l2); reflexivity.
Qed.

(* ------------------------------------------------------------------ *)
(* number_from / lookupN                                                *)
(* ------------------------------------------------------------------ *)
Lemma number_from_app (l1 l2 : list N) : forall n : N,
  number_from n (l1 ++ l2) = number_from n l1 ++ number_from (n + N.of_nat (List.length l1)) l2.
Proof.
  induction l1 as [|x l1 IH]; intros n; cbn [number_from app List.length].
  - f_equal. simpl. lia.
  - f_equal. rewrite IH. f_equal. f_equal. rewrite Nat2N.inj_succ. lia.
Qed.

Lemma lookupN_number_from (v : N) (l : list N) : forall n : N,
  lookupN v (number_from n l) =
  option_map (fun i => 35%N :: N_to_dec (n + N.of_nat i)) (index_of v l).
Proof.
  induction l as [|x l IH]; intros n; cbn [number_from lookupN index_of]; [reflexivity|].
  destruct (N.eqb v x).
  - cbn [option_map]. do 3 f_equal. simpl. lia.
  - rewrite IH. destruct (index_of v l) as [i|]; cbn [option_map]; [|reflexivity].
    do 3 f_equal. rewrite Nat2N.inj_succ. lia.
Qed.

Lemma lookupN_number_from_1 (v : N) (l : list N) :
  lookupN v (number_from 1 l) = option_map (fun i => label (S i)) (index_of v l).
Proof.
  rewrite lookupN_number_from. destruct (index_of v l) as [i|]; cbn [option_map]; [|reflexivity].
  unfold label. do 3 f_equal. rewrite Nat2N.inj_succ. lia.
Qed.

(* ------------------------------------------------------------------ *)
(* generic list lemmas                                                  *)
(* ------------------------------------------------------------------ *)
Lemma flat_map_map {A B C} (f : B -> list C) (g : A -> B) (l : list A) :
  flat_map f (map g l) = flat_map (fun x => f (g x)) l.
Proof. induction l as [|x l IH]; simpl; [reflexivity|]. rewrite IH. reflexivity. Qed.

Lemma map_flat_map {A B C} (h : B -> C) (f : A -> list B) (l : list A) :
  map h (flat_map f l) = flat_map (fun x => map h (f x)) l.
Proof. induction l as [|x l IH]; simpl; [reflexivity|]. rewrite map_app, IH. reflexivity. Qed.

Lemma filter_flat_map {A B} (p : B -> bool) (f : A -> list B) (l : list A) :
  filter p (flat_map f l) = flat_map (fun x => filter p (f x)) l.
Proof. induction l as [|x l IH]; simpl; [reflexivity|]. rewrite filter_app, IH. reflexivity. Qed.

Lemma forallb_flat_map {A B} (p : B -> bool) (f : A -> list B) (l : list A) :
  forallb p (flat_map f l) = forallb (fun x => forallb p (f x)) l.
Proof. induction l as [|x l IH]; simpl; [reflexivity|]. rewrite forallb_app, IH. reflexivity. Qed.

Lemma flat_map_flat_map {A B C} (f : B -> list C) (g : A -> list B) (l : list A) :
  flat_map f (flat_map g l) = flat_map (fun x => flat_map f (g x)) l.
Proof. induction l as [|x l IH]; simpl; [reflexivity|]. rewrite flat_map_app, IH. reflexivity. Qed.

Lemma filter_map_comm {A B} (p : B -> bool) (g : A -> B) (l : list A) :
  filter p (map g l) = map g (filter (fun x => p (g x)) l).
Proof.
  induction l as [|x l IH]; simpl; [reflexivity|]. destruct (p (g x)); simpl; rewrite IH; reflexivity.
Qed.
