(* Proofs/LoopBase.v — reader-level facts for the proofs about the
   ScanSnapshot loop (C02, C03 totality of the loop, C11); the vocabulary is in
   Spec/LoopSpec.v:
     - list helpers, count_lf, the measures on traces and append,
     - the Read events issued by one call of read_line ([reads_ok],
       [read_line_trace]): every Read is issued while the bytes already
       obtained for the current line contain no LF, and returns a prefix of
       what the source holds,
     - the lines of a byte string ([lines]). *)
From PP Require Import Base.Bytes Base.GoResult Model.Reader Spec.ReaderSpec Spec.LoopSpec Proofs.ReaderBase.
From Coq Require Import String.

(* ------------------------------------------------------------------ *)
(* lists                                                                *)

Lemma firstn_add {A} (a b : nat) : forall l : list A,
  firstn (a + b) l = firstn a l ++ firstn b (skipn a l).
Proof.
  induction a as [|a IH]; intros l; [reflexivity|].
  destruct l as [|x l]; cbn [Nat.add firstn skipn app].
  - now rewrite firstn_nil.
  - now rewrite IH.
Qed.

Lemma skipn_add {A} (a b : nat) : forall l : list A,
  skipn (a + b) l = skipn b (skipn a l).
Proof.
  induction a as [|a IH]; intros l; [reflexivity|].
  destruct l as [|x l]; cbn [Nat.add skipn].
  - now rewrite skipn_nil.
  - apply IH.
Qed.

Lemma firstn_length_app {A} (l t : list A) : firstn (List.length l) (l ++ t) = l.
Proof. induction l as [|x l IH]; [reflexivity|]. cbn [List.length app firstn]. now rewrite IH. Qed.

Lemma skipn_length_app' {A} (l t : list A) : skipn (List.length l) (l ++ t) = t.
Proof. induction l as [|x l IH]; [reflexivity|]. cbn [List.length app skipn]. exact IH. Qed.

Lemma app_split_eq {A} (d s t : list A) : d ++ t = s ->
  d = firstn (List.length d) s /\ t = skipn (List.length d) s.
Proof. intros <-. now rewrite firstn_length_app, skipn_length_app'. Qed.


Lemma count_lf_app a b : count_lf (a ++ b) = count_lf a + count_lf b.
Proof.
  unfold count_lf. induction a as [|x a IH]; [reflexivity|].
  cbn [app count_byte]. rewrite IH. lia.
Qed.

Lemma count_lf_nolf a : ~ In LF a -> count_lf a = 0.
Proof.
  unfold count_lf. induction a as [|x a IH]; intros H; [reflexivity|].
  cbn [count_byte]. destruct (N.eqb_spec x LF) as [E|E].
  - exfalso. apply H. left. exact E.
  - rewrite IH; [reflexivity|]. intros F. apply H. now right.
Qed.

Lemma count_lf_line a : ~ In LF a -> count_lf (a ++ [LF]) = 1.
Proof. intros H. rewrite count_lf_app, (count_lf_nolf _ H). reflexivity. Qed.

Lemma count_lf_le_length b : count_lf b <= List.length b.
Proof.
  unfold count_lf. induction b as [|x b IH]; [apply le_n|].
  cbn [count_byte List.length]. destruct (N.eqb x LF); lia.
Qed.

(* ------------------------------------------------------------------ *)
(* measures on traces                                                   *)

Lemma delivered_app a b : delivered (a ++ b) = delivered a + delivered b.
Proof. induction a as [|[lp n|d|d] a IH]; cbn [app delivered]; lia. Qed.

Lemma lines_of_app a b : lines_of (a ++ b) = lines_of a ++ lines_of b.
Proof. induction a as [|[lp n|d|d] a IH]; cbn [app lines_of]; [reflexivity|exact IH| |exact IH]. now rewrite IH. Qed.

Lemma handed_app a b : handed (a ++ b) = handed a + handed b.
Proof. unfold handed. now rewrite lines_of_app, app_length. Qed.

Lemma written_app a b : written (a ++ b) = written a ++ written b.
Proof.
  induction a as [|[lp n|d|d] a IH]; cbn [app written]; [reflexivity|exact IH|exact IH|].
  now rewrite IH, app_assoc.
Qed.

(* ------------------------------------------------------------------ *)
(* the Read events of one read_line call                                *)

(* [seen]: the bytes obtained so far for the current line (buffer at the
   start of the call, then what the Reads delivered); [content]: what the
   source still holds.  Each Read is issued while [seen] has no LF, and
   returns a prefix of [content]. *)
Fixpoint reads_ok (seen content : bytes) (evs : list event) : Prop :=
  match evs with
  | [] => True
  | EvRead _ n :: evs' =>
      ~ In LF seen /\ n <= List.length content /\
      reads_ok (seen ++ firstn n content) (skipn n content) evs'
  | _ => False
  end.

Lemma reads_ok_app seen content a : forall b,
  reads_ok seen content a ->
  reads_ok (seen ++ firstn (delivered a) content) (skipn (delivered a) content) b ->
  reads_ok seen content (a ++ b).
Proof.
  revert seen content. induction a as [|[lp n|d|d] a IH]; intros seen content b Ha Hb.
  - cbn [delivered firstn skipn app] in *. now rewrite app_nil_r in Hb.
  - cbn [app reads_ok delivered] in *. destruct Ha as (H1 & H2 & H3).
    split; [exact H1|]. split; [exact H2|]. apply IH; [exact H3|].
    rewrite firstn_add, skipn_add, app_assoc in Hb. exact Hb.
  - contradiction.
  - contradiction.
Qed.

Lemma reads_ok_prepend p seen content evs :
  ~ In LF p -> reads_ok seen content evs -> reads_ok (p ++ seen) content evs.
Proof.
  intros Hp. revert seen content. induction evs as [|[lp n|d|d] evs IH]; intros seen content H;
    cbn [reads_ok] in *; try exact H.
  destruct H as (H1 & H2 & H3). split; [|split; [exact H2|]].
  - intros F. apply in_app_or in F. tauto.
  - rewrite <- app_assoc. now apply IH.
Qed.

Lemma reads_ok_delivered seen content evs :
  reads_ok seen content evs -> delivered evs <= List.length content.
Proof.
  revert seen content. induction evs as [|[lp n|d|d] evs IH]; intros seen content H;
    cbn [reads_ok delivered] in *; try contradiction; [lia|].
  destruct H as (_ & H2 & H3). apply IH in H3. rewrite skipn_length in H3. lia.
Qed.

(* fill: Reads of zero bytes, then possibly one that delivers *)
Lemma fill_try_trace i : forall pend src evs r' src' evs',
  fill_try i pend src evs = (r', src', evs') -> ~ In LF pend ->
  exists new, evs' = evs ++ new /\ reads_ok pend (rest src) new /\
    rest src' = skipn (delivered new) (rest src) /\
    pending r' = pend ++ firstn (delivered new) (rest src).
Proof.
  induction i as [|i IH]; intros pend src evs r' src' evs' H Hno.
  - rewrite fill_try_0 in H. injection H as <- <- <-. exists [].
    cbn [reads_ok delivered firstn skipn pending]. now rewrite !app_nil_r.
  - rewrite fill_try_S in H. cbv zeta in H.
    destruct (src_read src (buf_cap - List.length pend)) as [[data e] src1] eqn:Hr.
    destruct (src_read_spec _ _ _ _ _ Hr) as (S1 & _).
    destruct (app_split_eq _ _ _ S1) as [D1 D2].
    assert (Hle : List.length data <= List.length (rest src)).
    { rewrite <- S1, app_length. lia. }
    assert (Hone : forall r0, pending r0 = pend ++ data ->
              exists new, (evs ++ [EvRead (buf_cap - List.length pend) (List.length data)]) = evs ++ new /\
                reads_ok pend (rest src) new /\
                rest src1 = skipn (delivered new) (rest src) /\
                pending r0 = pend ++ firstn (delivered new) (rest src)).
    { intros r0 Hr0. exists [EvRead (buf_cap - List.length pend) (List.length data)].
      cbn [reads_ok delivered]. rewrite Nat.add_0_r, <- D1, <- D2. tauto. }
    destruct e as [err|].
    + injection H as <- <- <-. apply Hone. reflexivity.
    + destruct data as [|c cs].
      * rewrite app_nil_r in H. cbn [app] in S1.
        destruct (IH _ _ _ _ _ _ H Hno) as (new & I1 & I2 & I3 & I4).
        exists (EvRead (buf_cap - List.length pend) 0 :: new).
        cbn [List.length] in I1. rewrite I1, <- app_assoc. cbn [app reads_ok delivered firstn skipn Nat.add].
        rewrite app_nil_r, <- S1. split; [reflexivity|]. split; [|split; assumption].
        split; [exact Hno|]. split; [lia|exact I2].
      * injection H as <- <- <-. apply Hone. reflexivity.
Qed.

(* readSlice *)
Lemma read_slice_go_trace fuel : forall s r src evs piece e r' src' evs',
  read_slice_go fuel s r src evs = Ok (piece, e, r', src', evs') ->
  s <= List.length (pending r) -> ~ In LF (firstn s (pending r)) ->
  exists new, evs' = evs ++ new /\ reads_ok (pending r) (rest src) new /\
    rest src' = skipn (delivered new) (rest src) /\
    piece ++ pending r' = pending r ++ firstn (delivered new) (rest src) /\
    (e = SBufferFull -> ~ In LF piece /\ pending r' = []).
Proof.
  induction fuel as [|f IH]; intros s r src evs piece e r' src' evs' H Hs Hno; [discriminate H|].
  rewrite read_slice_go_S in H.
  assert (Hbase : forall (pc : bytes) (rr : reader), pc ++ pending rr = pending r ->
            exists new, evs = evs ++ new /\ reads_ok (pending r) (rest src) new /\
              rest src = skipn (delivered new) (rest src) /\
              pc ++ pending rr = pending r ++ firstn (delivered new) (rest src)).
  { intros pc rr Hpc. exists []. cbn [reads_ok delivered firstn skipn]. rewrite !app_nil_r. tauto. }
  destruct (find_lf_from s (pending r)) as [j|] eqn:Hfind.
  - injection H as <- <- <- <- <-.
    destruct (Hbase (firstn (S j) (pending r)) (mkReader (skipn (S j) (pending r)) (rerr r)))
      as (new & B1 & B2 & B3 & B4); [cbn [pending]; apply firstn_skipn|].
    exists new. split; [exact B1|]. split; [exact B2|]. split; [exact B3|]. split; [exact B4|]. discriminate.
  - pose proof (find_lf_from_none _ _ Hno Hfind) as Hnolf.
    destruct (rerr r) as [e0|] eqn:Hre.
    + injection H as <- <- <- <- <-.
      destruct (Hbase (pending r) (mkReader [] None)) as (new & B1 & B2 & B3 & B4);
        [cbn [pending]; apply app_nil_r|].
      exists new. split; [exact B1|]. split; [exact B2|]. split; [exact B3|]. split; [exact B4|]. discriminate.
    + destruct (Nat.eqb (List.length (pending r)) buf_cap).
      * injection H as <- <- <- <- <-.
        destruct (Hbase (pending r) (mkReader [] None)) as (new & B1 & B2 & B3 & B4);
          [cbn [pending]; apply app_nil_r|].
        exists new. split; [exact B1|]. split; [exact B2|]. split; [exact B3|]. split; [exact B4|].
        intros _. split; [exact Hnolf|reflexivity].
      * unfold fill in H. destruct (Nat.leb buf_cap (List.length (pending r))); [discriminate H|].
        destruct (fill_try 100 (pending r) src []) as [[r1 src1] evs1] eqn:Hft.
        destruct (fill_try_trace _ _ _ _ _ _ _ Hft Hnolf) as (new1 & F1 & F2 & F3 & F4).
        cbn [app] in F1. subst evs1.
        assert (Hs1 : List.length (pending r) <= List.length (pending r1)).
        { rewrite F4, app_length. lia. }
        assert (Hno1 : ~ In LF (firstn (List.length (pending r)) (pending r1))).
        { rewrite F4, firstn_length_app. exact Hnolf. }
        destruct (IH _ _ _ _ _ _ _ _ _ H Hs1 Hno1) as (new2 & I1 & I2 & I3 & I4 & I5).
        exists (new1 ++ new2). split; [now rewrite app_assoc|]. split; [|split; [|split]].
        -- apply reads_ok_app; [exact F2|]. rewrite <- F4, <- F3. exact I2.
        -- rewrite delivered_app, skipn_add, <- F3. exact I3.
        -- rewrite delivered_app, firstn_add, app_assoc, <- F4, <- F3. exact I4.
        -- exact I5.
Qed.

Lemma read_slice_trace r src piece e r' src' evs' :
  read_slice r src = Ok (piece, e, r', src', evs') ->
  reads_ok (pending r) (rest src) evs' /\
  rest src' = skipn (delivered evs') (rest src) /\
  piece ++ pending r' = pending r ++ firstn (delivered evs') (rest src) /\
  (e = SBufferFull -> ~ In LF piece /\ pending r' = []).
Proof.
  intros H. unfold read_slice in H.
  destruct (read_slice_go_trace _ _ _ _ _ _ _ _ _ _ H) as (new & E & Q); [lia|intros []|].
  cbn [app] in E. subst new. exact Q.
Qed.

(* readLine *)
Lemma read_line_go_trace fuel : forall acc r src evs d e r' src' evs',
  read_line_go fuel acc r src evs = Ok (d, e, r', src', evs') ->
  exists l new, d = acc ++ l /\ evs' = evs ++ new /\ reads_ok (pending r) (rest src) new /\
    rest src' = skipn (delivered new) (rest src) /\
    l ++ pending r' = pending r ++ firstn (delivered new) (rest src).
Proof.
  induction fuel as [|f IH]; intros acc r src evs d e r' src' evs' H; [discriminate H|].
  rewrite read_line_go_S in H.
  destruct (read_slice r src) as [[[[[piece se] r1] src1] evs1]|m] eqn:Hsl; [|discriminate H].
  destruct (read_slice_trace _ _ _ _ _ _ _ Hsl) as (T1 & T2 & T3 & T4).
  destruct se as [| |err].
  - injection H as <- <- <- <- <-. exists piece, evs1. tauto.
  - destruct (T4 eq_refl) as [Hnp Hpe].
    destruct (IH _ _ _ _ _ _ _ _ _ H) as (l & new & I1 & I2 & I3 & I4 & I5).
    exists (piece ++ l), (evs1 ++ new).
    split; [now rewrite I1, app_assoc|]. split; [now rewrite I2, app_assoc|].
    rewrite Hpe in *. rewrite app_nil_r in T3. cbn [app] in I5.
    split; [|split].
    + apply reads_ok_app; [exact T1|]. rewrite <- T3, <- T2.
      rewrite <- (app_nil_r piece). apply reads_ok_prepend; assumption.
    + rewrite delivered_app, skipn_add, <- T2. exact I4.
    + rewrite delivered_app, firstn_add, app_assoc, <- T3, <- T2, <- app_assoc. now rewrite I5.
  - injection H as <- <- <- <- <-. exists piece, evs1. tauto.
Qed.

Theorem read_line_trace r src d e r' src' evs :
  read_line r src = Ok (d, e, r', src', evs) ->
  reads_ok (pending r) (rest src) evs /\
  rest src' = skipn (delivered evs) (rest src) /\
  d ++ pending r' = pending r ++ firstn (delivered evs) (rest src).
Proof.
  intros H. unfold read_line in H.
  destruct (read_line_go_trace _ _ _ _ _ _ _ _ _ _ H) as (l & new & E1 & E2 & Q).
  cbn [app] in E1, E2. subst l new. exact Q.
Qed.

Lemma reads_ok_only seen content evs :
  reads_ok seen content evs -> lines_of evs = [] /\ written evs = [].
Proof.
  revert seen content. induction evs as [|[lp n|d|d] evs IH]; intros seen content H;
    cbn [reads_ok lines_of written] in *; try contradiction; [split; reflexivity|].
  destruct H as (_ & _ & H). exact (IH _ _ H).
Qed.

(* ------------------------------------------------------------------ *)
(* the lines of a byte string: cut after each LF; the last piece may be
   unterminated; no empty piece *)


Lemma lines_lf a t : ~ In LF a -> lines (a ++ LF :: t) = (a ++ [LF]) :: lines t.
Proof.
  induction a as [|x a IH]; intros H.
  - cbn [app lines]. now rewrite N.eqb_refl.
  - cbn [app lines]. destruct (N.eqb_spec x LF) as [E|E].
    + exfalso. apply H. now left.
    + rewrite IH; [reflexivity|]. intros F. apply H. now right.
Qed.

Lemma lines_nolf a : ~ In LF a -> a <> [] -> lines a = [a].
Proof.
  induction a as [|x a IH]; intros H Hne; [contradiction|].
  cbn [lines]. destruct (N.eqb_spec x LF) as [E|E].
  - exfalso. apply H. now left.
  - destruct a as [|y a]; [reflexivity|].
    rewrite IH; [reflexivity| |discriminate]. intros F. apply H. now right.
Qed.

Lemma concat_lines b : List.concat (lines b) = b.
Proof.
  induction b as [|x b IH]; [reflexivity|].
  cbn [lines]. destruct (N.eqb x LF).
  - cbn [List.concat app]. now rewrite IH.
  - destruct (lines b) as [|l ls]; cbn [List.concat app] in *.
    + now rewrite <- IH.
    + now rewrite <- IH.
Qed.

Lemma lines_count b : count_lf b <= List.length (lines b) <= S (count_lf b).
Proof.
  unfold count_lf. induction b as [|x b IH]; [cbn; lia|].
  cbn [lines count_byte]. destruct (N.eqb x LF) eqn:E.
  - cbn [List.length]. lia.
  - destruct b as [|y b]; [cbn; lia|].
    assert (Hne : lines (y :: b) <> []).
    { cbn [lines]. destruct (N.eqb y LF); [discriminate|]. destruct (lines b); discriminate. }
    destruct (lines (y :: b)) as [|l ls]; [contradiction|]. cbn [List.length] in *. lia.
Qed.
