(* Spec/RefGrammar.v — the documented line grammar of goroutine dumps and
   race-detector reports as a small reference automaton over line KINDS.

   A line is first classified, independently of the automaton state, by
   [kinds_of]: the answers of all the line tests (is it a goroutine header, a
   function line, a file line, "created by", blank, ...), each reduced to what
   matters for control.  Then [ref_step] - a table, one arm per state - says
   what the line does to the dump: it belongs to it (Consume), it is passed
   through while no dump is open (Forward), the dump ends before it without
   error (EndHere), or it is rejected with a scan error (Fail).

   Nothing here mentions the scanner [Model.Scan.scan]; only its type of state
   names [state] is shared.  Data extraction (names, numbers, arguments) is not
   part of the reference automaton.  Proofs/GrammarProofs.v shows that the
   control behaviour of [scan] IS this automaton (Properties/C07c.v). *)
From PP Require Import Base.Bytes Base.BytesX Base.Num Base.GoResult Model.Types Model.Lines Model.FuncInit Model.ParseArgs.
From PP Require Import Model.Scan.   (* for the 19 state names only *)

(* ------------------------------------------------------------------ *)
(* 1. line kinds                                                       *)
(* ------------------------------------------------------------------ *)

Inductive funcres := FNo | FOk | FErr.              (* no match / parsed / matched, but symbol or arguments invalid *)
Inductive fileres := FileNo | FileOk | FileBadNumber.
Inductive createdres := CNo | COk | CBadSymbol.
Inductive opres := OpNo | OpOk | OpBadAddr | OpBadId.
Inductive racegorres := RgNo | RgKnown | RgUnknown | RgBadId.
  (* "Goroutine N (running|finished) created at:"; Known = N is the id of a
     goroutine already seen in this report *)

Record kinds := mkKinds {
  k_indent_ok : bool;      (* the line starts with the indentation of the first header (or is blank) *)
  k_header : bool;         (* "goroutine N [...]:" with a parsable N *)
  k_func : funcres;        (* "sym(args)" *)
  k_func_lt : funcres;     (* the same, leading blanks removed first (race report stacks) *)
  k_file : fileres;        (* TAB or spaces, "path.go:N ..." *)
  k_created : createdres;  (* "created by sym" *)
  k_blank : bool;
  k_elided : bool;         (* "...additional frames elided..." *)
  k_unavail : bool;        (* "goroutine running on other thread; stack unavailable" *)
  k_separator : bool;      (* "==================" *)
  k_warning : bool;        (* "WARNING: DATA RACE" *)
  k_op : opres;            (* "Read at 0x.. by goroutine N:" / "Write at ..." *)
  k_prev : opres;          (* "Previous read at ..." / "Previous write at ..." *)
  k_racegor : racegorres }.

Definition valid_symbol (sym : bytes) : bool :=
  match func_init sym with Ok (Some _) => true | _ => false end.

Definition func_kind (t : bytes) : funcres :=
  match match_func t with
  | None => FNo
  | Some (sym, args) =>
      if valid_symbol sym then match parse_args args with inl _ => FOk | inr _ => FErr end else FErr
  end.

Definition file_kind (t : bytes) : fileres :=
  match match_file t with
  | None => FileNo
  | Some (_, ds) => match atou ds with Some _ => FileOk | None => FileBadNumber end
  end.

Definition created_kind (t : bytes) : createdres :=
  match match_created t with
  | None => CNo
  | Some sym => if valid_symbol sym then COk else CBadSymbol
  end.

Definition op_kind (m : option (bool * bytes * bytes)) : opres :=
  match m with
  | None => OpNo
  | Some (_, addr, ds) =>
      match parse_uint addr, atou ds with
      | None, _ => OpBadAddr
      | Some _, None => OpBadId
      | Some _, Some _ => OpOk
      end
  end.

Definition racegor_kind (ids : list Z) (t : bytes) : racegorres :=
  match match_race_goroutine t with
  | None => RgNo
  | Some (ds, _) =>
      match atou ds with
      | None => RgBadId
      | Some id => if existsb (fun i => Z.eqb i (Z.of_N id)) ids then RgKnown else RgUnknown
      end
  end.

Definition header_kind (t : bytes) : bool :=
  match match_routine_header t with
  | Some (_, ds, _) => match atou ds with Some _ => true | None => false end
  | None => false
  end.

(* all the tests, on the text [t] of a line (EOL and indentation removed);
   [ids] = the ids of the goroutines seen so far *)
Definition line_kinds (ids : list Z) (t : bytes) : kinds :=
  {| k_indent_ok := true;
     k_header := header_kind t;
     k_func := func_kind t;
     k_func_lt := func_kind (trim_left_space t);
     k_file := file_kind t;
     k_created := created_kind t;
     k_blank := match t with [] => true | _ => false end;
     k_elided := is_frames_elided t;
     k_unavail := match_unavail t;
     k_separator := beq t race_header_footer;
     k_warning := beq t race_header;
     k_op := op_kind (match_race_op t);
     k_prev := op_kind (match_race_prev t);
     k_racegor := racegor_kind ids t |}.

(* a line that does not start with the indentation prefix: nothing else is looked at *)
Definition bad_indent : kinds :=
  mkKinds false false FNo FNo FileNo CNo false false false false false OpNo OpNo RgNo.

(* EOL trimming: CRLF, else LF, else the unterminated last line - which is
   examined only inside a dump *)
Definition trim_eol (in_dump : bool) (line : bytes) : option bytes :=
  match strip_suffix [CR; LF] line with
  | Some t => Some t
  | None =>
      match strip_suffix [LF] line with
      | Some t => Some t
      | None => if in_dump then Some line else None
      end
  end.

(* the indentation of the first goroutine header must start every non-blank line *)
Definition strip_indent (prefix t0 : bytes) : option bytes :=
  match t0, prefix with
  | _ :: _, _ :: _ => strip_prefix prefix t0
  | _, _ => Some t0
  end.

Definition kinds_of (in_dump : bool) (prefix : bytes) (ids : list Z) (line : bytes) : option kinds :=
  match trim_eol in_dump line with
  | None => None
  | Some t0 =>
      match strip_indent prefix t0 with
      | None => Some bad_indent
      | Some t => Some (line_kinds ids t)
      end
  end.

(* "inside a dump": every state but looking and done *)
Definition in_dump (st : state) : bool :=
  match st with looking | done => false | _ => true end.

(* ------------------------------------------------------------------ *)
(* 2. the automaton                                                    *)
(* ------------------------------------------------------------------ *)

Inductive verdict :=
| Consume    (* the line belongs to the dump *)
| Forward    (* no dump open: the line is passed through *)
| EndHere    (* the dump ends before this line, no error *)
| Fail.      (* the line is rejected with a scan error *)

(* a function line: on success go to [next]; when the symbol or the arguments
   are invalid the call is recorded all the same and the state moves on, but
   the line is rejected *)
Definition on_func (f : funcres) (next : state) (otherwise : state * verdict) : state * verdict :=
  match f with FOk => (next, Consume) | FErr => (next, Fail) | FNo => otherwise end.

Definition on_file (f : fileres) (here next : state) : state * verdict :=
  match f with FileOk => (next, Consume) | _ => (here, Fail) end.

Definition on_racegor (r : racegorres) (here : state) : state * verdict :=
  match r with RgKnown => (gotRaceGoroutineHeader, Consume) | _ => (here, Fail) end.

Definition ref_step (st : state) (k : kinds) : state * verdict :=
  if negb (k_indent_ok k) then (done, Fail) else
  match st with
  (* ---- goroutine dumps ---- *)
  | looking =>
      if k_header k then (gotRoutineHeader, Consume)
      else if k_separator k then (gotRaceHeader1, Consume)
      else (looking, Forward)
  | betweenRoutine =>
      if k_header k then (gotRoutineHeader, Consume) else (done, EndHere)
  | gotRoutineHeader =>
      if k_unavail k then (gotUnavail, Consume)
      else on_func (k_func k) gotFunc (gotRoutineHeader, Fail)
  | gotFunc => on_file (k_file k) gotFunc gotFileFunc
  | gotFileFunc =>
      match k_created k with
      | COk => (gotCreated, Consume)
      | CBadSymbol => (gotFileFunc, Fail)
      | CNo =>
          if k_elided k then (gotFileFunc, Consume)
          else on_func (k_func k) gotFunc
                 (if k_blank k then (betweenRoutine, Consume) else (done, EndHere))
      end
  | gotCreated => on_file (k_file k) gotCreated gotFileCreated
  | gotFileCreated =>
      if k_blank k then (betweenRoutine, Consume) else (done, EndHere)
  | gotUnavail =>
      if k_blank k then (betweenRoutine, Consume)
      else match k_created k with COk => (gotCreated, Consume) | _ => (gotUnavail, Fail) end
  (* ---- race detector reports ---- *)
  | gotRaceHeader1 =>
      if k_warning k then (gotRaceHeader2, Consume) else (looking, Forward)
  | gotRaceHeader2 =>
      match k_op k with OpOk => (gotRaceOperationHeader, Consume) | _ => (gotRaceHeader2, Fail) end
  | gotRaceOperationHeader =>
      on_func (k_func_lt k) gotRaceOperationFunc (gotRaceOperationHeader, Fail)
  | gotRaceOperationFunc => on_file (k_file k) gotRaceOperationFunc gotRaceOperationFile
  | gotRaceOperationFile =>
      if k_blank k then (betweenRaceOperations, Consume)
      else on_func (k_func_lt k) gotRaceOperationFunc (gotRaceOperationFile, Fail)
  | betweenRaceOperations =>
      match k_prev k with
      | OpOk => (gotRaceOperationHeader, Consume)
      | OpNo => on_racegor (k_racegor k) betweenRaceOperations
      | _ => (betweenRaceOperations, Fail)
      end
  | betweenRaceGoroutines => on_racegor (k_racegor k) betweenRaceGoroutines
  | gotRaceGoroutineHeader =>
      on_func (k_func_lt k) gotRaceGoroutineFunc (gotRaceGoroutineHeader, Fail)
  | gotRaceGoroutineFunc => on_file (k_file k) gotRaceGoroutineFunc gotRaceGoroutineFile
  | gotRaceGoroutineFile =>
      if k_blank k then (betweenRaceGoroutines, Consume)
      else if k_separator k then (done, Consume)
      else on_func (k_func_lt k) gotRaceGoroutineFunc (gotRaceGoroutineFile, Fail)
  (* ---- after the dump ---- *)
  | done => (done, EndHere)
  end.

(* a line together with the one case in which it is not examined at all (the
   unterminated last line outside a dump): nothing moves *)
Definition ref_line (st : state) (ok : option kinds) : state * verdict :=
  match ok with
  | Some k => ref_step st k
  | None => (st, match st with looking => Forward | _ => EndHere end)
  end.

(* the automaton run over a list of lines, the indentation prefix and the
   known ids being given *)
Fixpoint ref_trace (prefix : bytes) (ids : list Z) (st : state) (lines : list bytes) : list (state * verdict) :=
  match lines with
  | [] => []
  | ln :: rest =>
      let r := ref_line st (kinds_of (in_dump st) prefix ids ln) in
      r :: ref_trace prefix ids (fst r) rest
  end.
