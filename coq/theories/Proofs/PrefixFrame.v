(* Proofs/PrefixFrame.v — what one call of scan may do to the goroutine list:
   outside the five "race goroutine" states it leaves the list alone, appends
   one goroutine, or replaces the last one ([frame], Spec/SeqSpec.v).  In
   particular every goroutine but the last is final. *)
From PP Require Import Base.Bytes Base.BytesX Base.Num Base.GoResult Model.Types Model.Lines Model.Reader Model.FuncInit Model.ParseArgs Model.Scan Model.Names Model.ScanSnapshot Model.ScanSeq.
From PP Require Import Proofs.ScanInv Spec.SeqSpec.
From Coq Require Import String.

Definition FrameR (s : sstate) (r : result) : Prop :=
  forall s' l e, r = Ok (s', l, e) -> frame (goroutines s) (goroutines s').

Lemma frame_refl gs : frame gs gs.
Proof. now left. Qed.

Lemma frameR_ret s s' l e : frame (goroutines s) (goroutines s') -> FrameR s (ret s' l e).
Proof. intros H s1 l1 e1 E. injection E as <- _ _. exact H. Qed.

Lemma frameR_same s s' l e : goroutines s' = goroutines s -> FrameR s (ret s' l e).
Proof. intros H. apply frameR_ret. rewrite H. apply frame_refl. Qed.

Lemma frameR_panic s m : FrameR s (Panic m).
Proof. intros s1 l1 e1 E. discriminate E. Qed.

Lemma frame_set_cur s g : frame (goroutines s) (goroutines (set_cur s g)).
Proof. right. right. exists g. reflexivity. Qed.

Lemma func_step_frame s line next upd notfound :
  (forall c s1, upd c s = Ok s1 -> frame (goroutines s) (goroutines s1)) ->
  FrameR s notfound -> FrameR s (func_step s line next upd notfound).
Proof.
  intros Hupd Hnf. unfold func_step.
  destruct (parse_func line) as [[[c e]|]|m]; unfold bind; [|exact Hnf|apply frameR_panic].
  destruct (upd c s) as [s1|m] eqn:E; [|apply frameR_panic].
  apply frameR_ret. change (goroutines (with_state s1 next)) with (goroutines s1). now apply (Hupd c).
Qed.

Lemma add_call_cur_frame s c s1 : add_call_cur c s = Ok s1 -> frame (goroutines s) (goroutines s1).
Proof.
  unfold add_call_cur. destruct (last_opt (goroutines s)) as [g|]; [|discriminate].
  intros E. injection E as <-. apply frame_set_cur.
Qed.

Lemma file_step_frame s line calls store next what :
  (forall cs, frame (goroutines s) (goroutines (store cs))) ->
  FrameR s (file_step s line calls store next what).
Proof.
  intros Hst. unfold file_step. destruct (last_opt calls) as [c|]; [|apply frameR_panic].
  destruct (parse_file c line) as [[c' [e|]]|].
  - apply frameR_same. reflexivity.
  - apply frameR_ret. change (goroutines (with_state ?x _)) with (goroutines x). apply Hst.
  - apply frameR_same. reflexivity.
Qed.

Lemma created_step_frame s g sym b : FrameR s (created_step s g sym b).
Proof.
  unfold created_step. destruct (func_init sym) as [[f|]|m]; unfold bind; [| |apply frameR_panic].
  - apply frameR_ret. change (goroutines (with_state ?x _)) with (goroutines x). apply frame_set_cur.
  - apply frameR_ret. apply frame_set_cur.
Qed.

Lemma race_op_header_frame s m first t r :
  race_op_header s m first t = Some r -> FrameR s r.
Proof.
  unfold race_op_header. destruct m as [[[w addr] ds]|]; [|discriminate].
  intros E. injection E as <-.
  destruct (parse_uint addr); [|apply frameR_same; reflexivity].
  destruct (atou ds); [|apply frameR_same; reflexivity].
  destruct (first && _); [apply frameR_panic|].
  apply frameR_ret. right. left. eexists. reflexivity.
Qed.

Lemma header_or_end_frame t s : FrameR s (header_or_end t s).
Proof.
  unfold header_or_end. destruct (try_header s t) as [s'|] eqn:Hh.
  - destruct (try_header_shape _ _ _ Hh) as (g & ind & -> & _).
    apply frameR_ret. right. left. exists g. reflexivity.
  - destruct (state_eqb (st s) looking && beq t race_header_footer).
    + apply frameR_same. reflexivity.
    + apply frameR_same. destruct (state_eqb (st s) looking); reflexivity.
Qed.

Lemma with_cur_frame s k : (forall g, FrameR s (k g)) -> FrameR s (with_cur s k).
Proof. intros H. unfold with_cur. destruct (last_opt (goroutines s)); [apply H|apply frameR_panic]. Qed.

Lemma scan_body_frame s t : race_goroutine_state (st s) = false -> FrameR s (scan_body s t).
Proof.
  intros Hnr. unfold scan_body.
  assert (Hfs : forall line next nf, FrameR s nf -> FrameR s (func_step s line next add_call_cur nf)).
  { intros line next nf Hnf. apply func_step_frame; [|exact Hnf]. intros c s1. apply add_call_cur_frame. }
  assert (Hsame : forall x l e, FrameR s (ret (with_state s x) l e)).
  { intros. apply frameR_same. reflexivity. }
  assert (Hself : forall l e, FrameR s (ret s l e)).
  { intros. apply frameR_same. reflexivity. }
  destruct (st s) eqn:Hst; try discriminate Hnr.
  - apply header_or_end_frame.
  - apply Hself.
  - apply header_or_end_frame.
  - apply with_cur_frame. intros cur. destruct (match_unavail t).
    + apply frameR_ret. change (goroutines (with_state ?x _)) with (goroutines x). apply frame_set_cur.
    + apply Hfs, Hself.
  - apply with_cur_frame. intros cur. apply file_step_frame. intros cs. apply frame_set_cur.
  - apply with_cur_frame. intros cur.
    destruct (Calls (CreatedBy (GSig cur))) as [|c rest]; [apply frameR_panic|].
    destruct (parse_file c t) as [[c' [e|]]|]; try apply Hself.
    apply frameR_ret. change (goroutines (with_state ?x _)) with (goroutines x). apply frame_set_cur.
  - apply with_cur_frame. intros cur. destruct (match_created t) as [sym|].
    + apply created_step_frame.
    + destruct (is_frames_elided t); [apply frameR_ret, frame_set_cur|].
      apply Hfs. destruct t; apply Hsame.
  - destruct t; apply Hsame.
  - destruct t as [|x t']; [apply Hsame|].
    apply with_cur_frame. intros cur. destruct (match_created (x :: t')) as [sym|].
    + apply created_step_frame.
    + apply Hself.
  - destruct (beq t race_header); [apply Hsame|]. apply frameR_same. reflexivity.
  - destruct (race_op_header s (match_race_op t) true t) as [r|] eqn:Hr.
    + apply (race_op_header_frame _ _ _ _ _ Hr).
    + apply Hself.
  - apply Hfs, Hself.
  - apply with_cur_frame. intros cur. apply file_step_frame. intros cs. apply frame_set_cur.
  - destruct t as [|x t']; [apply Hsame|]. apply Hfs, Hself.
Qed.

(* C10 C3: one scan step, outside the race-goroutine states *)
Theorem scan_step_frame : forall s line s' l e,
  race_goroutine_state (st s) = false ->
  scan s line = Ok (s', l, e) -> frame (goroutines s) (goroutines s').
Proof.
  intros s line s' l e Hnr H. rewrite scan_unfold in H.
  destruct (scan_tr s line) as [t0|].
  - destruct (scan_pre_cases s t0) as [(t & Ht)|(Ht & _)]; rewrite Ht in H.
    + apply (scan_body_frame s t Hnr _ _ _ H).
    + injection H as <- _ _. apply frame_refl.
  - injection H as <- _ _. apply frame_refl.
Qed.

(* consequences: every goroutine but the last is untouched, at most one is added *)
Lemma upd_last_nth {A} (f : A -> A) : forall (l : list A) i,
  S i < List.length l -> nth_error (upd_last f l) i = nth_error l i.
Proof.
  induction l as [|x l IH]; intros i Hi; [reflexivity|].
  destruct l as [|y l]; [cbn in Hi; lia|].
  change (upd_last f (x :: y :: l)) with (x :: upd_last f (y :: l)).
  destruct i as [|i]; [reflexivity|]. cbn [nth_error]. apply IH. cbn [List.length] in *. lia.
Qed.

Theorem frame_stable : forall gs gs', frame gs gs' ->
  List.length gs <= List.length gs' <= S (List.length gs) /\
  forall i, S i < List.length gs -> nth_error gs' i = nth_error gs i.
Proof.
  intros gs gs' [->|[(g & ->)|(g & ->)]].
  - split; [lia|reflexivity].
  - rewrite app_length. cbn [List.length]. split; [lia|]. intros i Hi. apply nth_error_app1. lia.
  - rewrite upd_last_length. split; [lia|]. intros i Hi. now apply upd_last_nth.
Qed.

(* ------------------------------------------------------------------ *)
(* a line that is neither processed nor an error leaves the goroutines alone
   (in every state): the goroutine clause of [delimits] is automatic when the
   rejection carries no scan error *)

Definition CleanR (s : sstate) (r : result) : Prop :=
  forall s', r = Ok (s', false, None) -> goroutines s' = goroutines s.

Lemma clean_true s s' e : CleanR s (ret s' true e).
Proof. intros s1 E. discriminate E. Qed.

Lemma clean_err s s' l x : CleanR s (ret s' l (Some x)).
Proof. intros s1 E. discriminate E. Qed.

Lemma clean_same s s' l e : goroutines s' = goroutines s -> CleanR s (ret s' l e).
Proof. intros H s1 E. injection E as <- _ _. exact H. Qed.

Lemma clean_panic s m : CleanR s (Panic m).
Proof. intros s1 E. discriminate E. Qed.

Lemma func_step_clean s line next upd notfound :
  CleanR s notfound -> CleanR s (func_step s line next upd notfound).
Proof.
  intros Hnf. unfold func_step.
  destruct (parse_func line) as [[[c e]|]|m]; unfold bind; [|exact Hnf|apply clean_panic].
  destruct (upd c s) as [s1|m]; [|apply clean_panic].
  destruct e; [apply clean_err|apply clean_true].
Qed.

Lemma file_step_clean s line calls store next what :
  CleanR s (file_step s line calls store next what).
Proof.
  unfold file_step. destruct (last_opt calls) as [c|]; [|apply clean_panic].
  destruct (parse_file c line) as [[c' [e|]]|]; [apply clean_err|apply clean_true|apply clean_err].
Qed.

Lemma created_step_clean s g sym b : CleanR s (created_step s g sym b).
Proof.
  unfold created_step. destruct (func_init sym) as [[f|]|m]; unfold bind;
    [apply clean_true|apply clean_err|apply clean_panic].
Qed.

Lemma race_op_header_clean s m first t r :
  race_op_header s m first t = Some r -> CleanR s r.
Proof.
  unfold race_op_header. destruct m as [[[w addr] ds]|]; [|discriminate].
  intros E. injection E as <-.
  destruct (parse_uint addr); [|apply clean_err].
  destruct (atou ds); [|apply clean_err].
  destruct (first && _); [apply clean_panic|apply clean_true].
Qed.

Lemma race_goroutine_step_clean s t : CleanR s (race_goroutine_step s t).
Proof.
  rewrite race_goroutine_step_unfold.
  destruct (match_race_goroutine t) as [[ds stt]|]; [|apply clean_err].
  destruct (atou ds) as [id|]; [|apply clean_err].
  destruct (find_id id 0 (goroutines s)); [apply clean_true|apply clean_err].
Qed.

Lemma race_goroutine_func_step_clean s t : CleanR s (race_goroutine_func_step s t).
Proof. unfold race_goroutine_func_step. apply func_step_clean, clean_err. Qed.

Lemma header_or_end_clean t s : CleanR s (header_or_end t s).
Proof.
  unfold header_or_end. destruct (try_header s t); [apply clean_true|].
  destruct (state_eqb (st s) looking && beq t race_header_footer); [apply clean_true|].
  apply clean_same. destruct (state_eqb (st s) looking); reflexivity.
Qed.

Lemma with_cur_clean s k : (forall g, CleanR s (k g)) -> CleanR s (with_cur s k).
Proof. intros H. unfold with_cur. destruct (last_opt (goroutines s)); [apply H|apply clean_panic]. Qed.

Lemma scan_body_clean s t : CleanR s (scan_body s t).
Proof.
  unfold scan_body.
  assert (Hsame : forall x l e, CleanR s (ret (with_state s x) l e)).
  { intros. apply clean_same. reflexivity. }
  assert (Hself : forall l e, CleanR s (ret s l e)).
  { intros. apply clean_same. reflexivity. }
  destruct (st s).
  - apply header_or_end_clean.
  - apply Hself.
  - apply header_or_end_clean.
  - apply with_cur_clean. intros cur. destruct (match_unavail t); [apply clean_true|].
    apply func_step_clean, clean_err.
  - apply with_cur_clean. intros cur. apply file_step_clean.
  - apply with_cur_clean. intros cur.
    destruct (Calls (CreatedBy (GSig cur))) as [|c rest]; [apply clean_panic|].
    destruct (parse_file c t) as [[c' [e|]]|]; [apply clean_err|apply clean_true|apply clean_err].
  - apply with_cur_clean. intros cur. destruct (match_created t) as [sym|]; [apply created_step_clean|].
    destruct (is_frames_elided t); [apply clean_true|].
    apply func_step_clean. destruct t; apply Hsame.
  - destruct t; apply Hsame.
  - destruct t as [|x t']; [apply Hsame|].
    apply with_cur_clean. intros cur. destruct (match_created (x :: t')); [apply created_step_clean|apply clean_err].
  - destruct (beq t race_header); [apply Hsame|]. apply clean_same. reflexivity.
  - destruct (race_op_header s (match_race_op t) true t) as [r|] eqn:Hr;
      [apply (race_op_header_clean _ _ _ _ _ Hr)|apply clean_err].
  - apply func_step_clean, clean_err.
  - apply with_cur_clean. intros cur. apply file_step_clean.
  - destruct t as [|x t']; [apply Hsame|]. apply func_step_clean, clean_err.
  - destruct (race_op_header s (match_race_prev t) false t) as [r|] eqn:Hr;
      [apply (race_op_header_clean _ _ _ _ _ Hr)|apply race_goroutine_step_clean].
  - apply race_goroutine_func_step_clean.
  - destruct (nth_error (goroutines s) (gindex s)); [apply file_step_clean|apply clean_panic].
  - destruct t as [|x t']; [apply Hsame|].
    destruct (beq (x :: t') race_header_footer); [apply clean_true|apply race_goroutine_func_step_clean].
  - apply race_goroutine_step_clean.
Qed.

Theorem scan_reject_clean : forall s line s',
  scan s line = Ok (s', false, None) -> goroutines s' = goroutines s.
Proof.
  intros s line s' H. rewrite scan_unfold in H.
  destruct (scan_tr s line) as [t0|].
  - destruct (scan_pre_cases s t0) as [(t & Ht)|(Ht & _)]; rewrite Ht in H.
    + apply (scan_body_clean s t _ H).
    + discriminate H.
  - injection H as <-. reflexivity.
Qed.

(* hence: *)
Corollary rejects_clean : forall s d s', rejects s d s' None -> goroutines s' = goroutines s.
Proof. intros s d s' (_ & H & _). apply (scan_reject_clean _ _ _ H). Qed.
