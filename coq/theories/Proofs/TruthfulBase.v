(* Proofs/TruthfulBase.v — C12 (truthful generalisation), element level:
   generic column lemmas, unfolding equations for the nested fixpoints of the
   model, and the step lemmas "key generalises ms, new member m similar to key
   => merged key generalises ms ++ [m]" for Arg / Args / Call / Stack. *)
From PP Require Import Base.Bytes Base.GoResult Model.Types Model.Stack Model.Bucket Spec.BucketSpec.

(* ------------------------------------------------------------------ *)
(* induction principle of the nested inductive Arg                     *)
Lemma Arg_ind' (P : Arg -> Prop)
  (H : forall ag n v p t i fv fp fe, Forall P fv -> P (MkArg ag n v p t i fv fp fe)) :
  forall a, P a.
Proof.
  exact (fix IH (a : Arg) : P a :=
    match a with
    | MkArg ag n v p t i fv fp fe =>
        H ag n v p t i fv fp fe
          ((fix go (l : list Arg) : Forall P l :=
              match l with
              | [] => Forall_nil P
              | x :: l' => Forall_cons x (IH x) (go l')
              end) fv)
    end).
Qed.

(* ------------------------------------------------------------------ *)
(* small boolean helpers                                               *)
Ltac split_andb :=
  repeat match goal with
  | H : _ && _ = true |- _ => apply andb_true_iff in H; destruct H
  end.

Lemma beqb_true (a b : bool) : Bool.eqb a b = true -> a = b.
Proof. apply Bool.eqb_prop. Qed.

Lemma length_app1_nz {A} (l : list A) (x : A) : Nat.eqb (List.length (l ++ [x])) 0 = false.
Proof. rewrite app_length. simpl. apply Nat.eqb_neq. lia. Qed.

Lemma length_nz {A} (l : list A) : l <> [] -> Nat.eqb (List.length l) 0 = false.
Proof. destruct l as [|x l]; [congruence|reflexivity]. Qed.

Lemma forallb_snoc {A} (f : A -> bool) l x : forallb f (l ++ [x]) = forallb f l && f x.
Proof. rewrite forallb_app. simpl. now rewrite andb_true_r. Qed.

Lemma forallb_ext' {A} (f g : A -> bool) l : (forall x, f x = g x) -> forallb f l = forallb g l.
Proof. intros H. induction l as [|x l IH]; simpl; [reflexivity|]. now rewrite H, IH. Qed.

Lemma existsb_snoc {A} (f : A -> bool) l x : existsb f (l ++ [x]) = existsb f l || f x.
Proof. rewrite existsb_app. simpl. now rewrite orb_false_r. Qed.

(* ------------------------------------------------------------------ *)
(* generic pairwise list test and pairwise list merge                  *)
Fixpoint lsim {B} (sim : B -> B -> bool) (l1 l2 : list B) : bool :=
  match l1, l2 with
  | [], [] => true
  | x :: l1', y :: l2' => sim x y && lsim sim l1' l2'
  | _, _ => false
  end.

Fixpoint lmrg {B} (mrg : B -> B -> B) (l1 l2 : list B) : list B :=
  match l1, l2 with
  | x :: l1', y :: l2' => mrg x y :: lmrg mrg l1' l2'
  | _, _ => []
  end.

Lemma lsim_length {B} (sim : B -> B -> bool) l1 : forall l2, lsim sim l1 l2 = true -> List.length l1 = List.length l2.
Proof.
  induction l1 as [|x l1 IH]; intros [|y l2] H; simpl in *; try discriminate; [reflexivity|].
  split_andb. f_equal. now apply IH.
Qed.

Lemma lsim_nth {B} (sim : B -> B -> bool) l1 : forall l2 j x y, lsim sim l1 l2 = true ->
  nth_error l1 j = Some x -> nth_error l2 j = Some y -> sim x y = true.
Proof.
  induction l1 as [|a l1 IH]; intros [|b l2] j x y H Hx Hy; simpl in *; try discriminate.
  - destruct j; discriminate.
  - split_andb. destruct j as [|j]; simpl in *.
    + congruence.
    + eapply IH; eauto.
Qed.

Lemma lmrg_nth {B} (mrg : B -> B -> B) l1 : forall l2 j z, nth_error (lmrg mrg l1 l2) j = Some z ->
  exists x y, nth_error l1 j = Some x /\ nth_error l2 j = Some y /\ z = mrg x y.
Proof.
  induction l1 as [|a l1 IH]; intros [|b l2] j z H; simpl in *; try (destruct j; discriminate).
  destruct j as [|j]; simpl in *.
  - exists a, b. repeat split; congruence.
  - now apply IH.
Qed.

Lemma lmrg_length {B} (mrg : B -> B -> B) l1 : forall l2, List.length l1 = List.length l2 ->
  List.length (lmrg mrg l1 l2) = List.length l1.
Proof.
  induction l1 as [|a l1 IH]; intros [|b l2] H; simpl in *; try discriminate; [reflexivity|].
  f_equal. apply IH. congruence.
Qed.

Lemma lmrg_fst {B} l1 : forall l2 : list B, List.length l1 = List.length l2 -> lmrg (fun x _ => x) l1 l2 = l1.
Proof.
  induction l1 as [|a l1 IH]; intros [|b l2] H; simpl in *; try discriminate; [reflexivity|].
  f_equal. apply IH. congruence.
Qed.

(* ------------------------------------------------------------------ *)
(* columns: the transposition used by c12_arg / c12_args / c12_stack   *)
Section Cols.
  Variables (M B : Type) (P : B -> list B -> bool) (proj : M -> list B).

  Definition pick (i : nat) (m : M) : list B :=
    match nth_error (proj m) i with Some y => [y] | None => [] end.
  Definition col (i : nat) (ms : list M) : list B := flat_map (pick i) ms.

  Fixpoint cols (l : list B) (i : nat) (ms : list M) : bool :=
    match l with
    | [] => true
    | x :: l' => P x (col i ms) && cols l' (S i) ms
    end.

  Lemma col_snoc i ms m : col i (ms ++ [m]) = col i ms ++ pick i m.
  Proof. unfold col. rewrite flat_map_app. simpl. now rewrite app_nil_r. Qed.

  Lemma cols_nth l : forall i ms,
    cols l i ms = true <-> (forall j x, nth_error l j = Some x -> P x (col (i + j) ms) = true).
  Proof.
    induction l as [|a l IH]; intros i ms; simpl.
    - split; [|reflexivity]. intros _ j x H. destruct j; discriminate.
    - rewrite andb_true_iff, IH. split.
      + intros [H0 HS] j x Hj. destruct j as [|j]; simpl in Hj.
        * inversion Hj; subst. now rewrite Nat.add_0_r.
        * rewrite Nat.add_succ_r. now apply HS.
      + intros H. split.
        * specialize (H 0 a eq_refl). now rewrite Nat.add_0_r in H.
        * intros j x Hj. specialize (H (S j) x Hj). now rewrite Nat.add_succ_r in H.
  Qed.

  Lemma col_nonempty n j ms : ms <> [] -> (forall m, In m ms -> List.length (proj m) = n) -> j < n -> col j ms <> [].
  Proof.
    intros Hne Hlen Hj. destruct ms as [|m1 ms]; [congruence|].
    unfold col. simpl. unfold pick at 1.
    destruct (nth_error (proj m1) j) eqn:E; [discriminate|].
    apply nth_error_None in E. rewrite (Hlen m1 (or_introl eq_refl)) in E. lia.
  Qed.

  Lemma pick_some i m y : nth_error (proj m) i = Some y -> pick i m = [y].
  Proof. unfold pick. now intros ->. Qed.

  (* one member, whose own list is the key list *)
  Lemma cols_init l m : proj m = l -> Forall (fun x => P x [x] = true) l -> cols l 0 [m] = true.
  Proof.
    intros Hp HF. apply cols_nth. intros j x Hj. simpl.
    unfold col. simpl. rewrite app_nil_r, (pick_some j m x); [|now rewrite Hp].
    rewrite Forall_forall in HF. apply HF. eapply nth_error_In; eauto.
  Qed.

  Variables (sim : B -> B -> bool) (mrg : B -> B -> B).

  Lemma cols_step l ms m :
    Forall (fun x => forall X y, P x X = true -> X <> [] -> sim x y = true -> P (mrg x y) (X ++ [y]) = true) l ->
    ms <> [] -> (forall m', In m' ms -> List.length (proj m') = List.length l) ->
    cols l 0 ms = true -> lsim sim l (proj m) = true ->
    cols (lmrg mrg l (proj m)) 0 (ms ++ [m]) = true.
  Proof.
    intros HF Hne Hlen Hc Hs. rewrite cols_nth in Hc. apply cols_nth. intros j z Hz. simpl in *.
    apply lmrg_nth in Hz. destruct Hz as (x & y & Hx & Hy & ->).
    rewrite col_snoc, (pick_some j m y Hy).
    rewrite Forall_forall in HF. apply HF.
    - eapply nth_error_In; eauto.
    - now apply Hc.
    - eapply col_nonempty; eauto. apply nth_error_Some. congruence.
    - eapply lsim_nth; eauto.
  Qed.
End Cols.

Arguments pick {M B} proj i m.
Arguments col {M B} proj i ms.
Arguments cols {M B} P proj l i ms.

(* ------------------------------------------------------------------ *)
(* unfolding equations: the nested fixpoints as lsim / lmrg / cols     *)
Definition afields (m : Arg) : list Arg := Values (Fields m).

Lemma args_list_similar_lsim lvl l1 : forall l2, args_list_similar lvl l1 l2 = lsim (arg_similar lvl) l1 l2.
Proof. induction l1 as [|x l1 IH]; intros [|y l2]; simpl; try reflexivity. now rewrite IH. Qed.

Lemma args_list_merge_lmrg l1 : forall l2, args_list_merge l1 l2 = lmrg arg_merge l1 l2.
Proof. induction l1 as [|x l1 IH]; intros [|y l2]; simpl; try reflexivity. now rewrite IH. Qed.

Lemma calls_similar_lsim lvl l1 : forall l2, calls_similar lvl l1 l2 = lsim (call_similar lvl) l1 l2.
Proof. induction l1 as [|x l1 IH]; intros [|y l2]; simpl; try reflexivity. now rewrite IH. Qed.

Lemma calls_equal_lsim l1 : forall l2, calls_equal l1 l2 = lsim call_equal l1 l2.
Proof. induction l1 as [|x l1 IH]; intros [|y l2]; simpl; try reflexivity. now rewrite IH. Qed.

Lemma calls_merge_lmrg l1 : forall l2, calls_merge l1 l2 = lmrg call_merge l1 l2.
Proof. induction l1 as [|x l1 IH]; intros [|y l2]; simpl; try reflexivity. now rewrite IH. Qed.

Lemma arg_similar_eq lvl ag an av ap at_ ai afv afp afe rg rn rv rp rt ri rfv rfp rfe :
  arg_similar lvl (MkArg ag an av ap at_ ai afv afp afe) (MkArg rg rn rv rp rt ri rfv rfp rfe) =
  if negb (Bool.eqb ag rg) then false else
  if ag then Bool.eqb afe rfe && lsim (arg_similar lvl) afv rfv
  else match lvl with
       | ExactFlags | ExactLines => beq an rn && Bool.eqb at_ rt && Bool.eqb ap rp && N.eqb av rv
       | AnyValue => true
       | AnyPointer => Bool.eqb at_ rt && Bool.eqb ap rp && (ap || N.eqb av rv)
       end.
Proof.
  simpl. destruct (negb (Bool.eqb ag rg)); [reflexivity|]. destruct ag; [|reflexivity]. f_equal.
  revert rfv. induction afv as [|x l IH]; intros [|y l2]; simpl; try reflexivity. now rewrite IH.
Qed.

Lemma arg_merge_eq lg ln lv lp lt li lfv lfp lfe rg rn rv rp rt ri rfv rfp rfe :
  arg_merge (MkArg lg ln lv lp lt li lfv lfp lfe) (MkArg rg rn rv rp rt ri rfv rfp rfe) =
  if lg then MkArg true [] 0 false false false (lmrg arg_merge lfv rfv) [] lfe
  else if negb (arg_equal (MkArg lg ln lv lp lt li lfv lfp lfe) (MkArg rg rn rv rp rt ri rfv rfp rfe))
       then MkArg false (s2b "*") lv lp false false [] [] false
       else MkArg lg ln lv lp lt li lfv lfp lfe.
Proof.
  cbn [arg_merge]. destruct lg; [|reflexivity]. f_equal.
  revert rfv. induction lfv as [|x l IH]; intros [|y l2]; simpl; try reflexivity. now rewrite IH.
Qed.

Definition c12_shape (bfv : list Arg) (bfe : bool) (m : Arg) : bool :=
  Bool.eqb (Elided (Fields m)) bfe && Nat.eqb (List.length (Values (Fields m))) (List.length bfv).

Definition c12_scalar (b : Arg) (ms : list Arg) : bool :=
  match ms with
  | [] => true
  | m1 :: _ =>
      negb (IsAggregate b) && negb (existsb IsAggregate ms) &&
      if forallb (fun m => cval_eqb (canon_arg ExactLines m) (canon_arg ExactLines m1)) ms
      then cval_eqb (canon_arg ExactLines b) (canon_arg ExactLines m1)
      else beq (Name b) (s2b "*")
  end.

Lemma c12_arg_eq bag bn bv bp bt bi bfv bfp bfe ms :
  c12_arg (MkArg bag bn bv bp bt bi bfv bfp bfe) ms =
  if forallb IsAggregate ms && negb (Nat.eqb (List.length ms) 0) then
    bag && forallb (c12_shape bfv bfe) ms && cols c12_arg afields bfv 0 ms
  else c12_scalar (MkArg bag bn bv bp bt bi bfv bfp bfe) ms.
Proof.
  cbn [c12_arg]. destruct (forallb IsAggregate ms && negb (Nat.eqb (List.length ms) 0)); [|reflexivity].
  f_equal. generalize 0.
  induction bfv as [|x l IH]; intros i; simpl; [reflexivity|]. now rewrite IH.
Qed.

(* ------------------------------------------------------------------ *)
(* scalars: canon(ExactLines) equality = Arg.equal = equality of skey   *)
Definition skey (a : Arg) : bytes * bool * bool * N := (Name a, IsOffsetTooLarge a, IsPtr a, Value a).

Lemma scalar_canon_eq a b : IsAggregate a = false -> IsAggregate b = false ->
  (cval_eqb (canon_arg ExactLines a) (canon_arg ExactLines b) = true <-> skey a = skey b).
Proof.
  destruct a as [ag an av ap at_ ai afv afp afe], b as [bg bn bv bp bt bi bfv bfp bfe]; simpl.
  intros -> ->. unfold skey; simpl. split.
  - intros H. split_andb.
    apply beq_eq in H. apply beqb_true in H2. apply beqb_true in H1. apply N.eqb_eq in H0. congruence.
  - intros H. inversion H; subst. now rewrite beq_refl, !Bool.eqb_reflx, N.eqb_refl.
Qed.

Lemma scalar_equal_eq a b : IsAggregate a = false -> IsAggregate b = false ->
  (arg_equal a b = true <-> skey a = skey b).
Proof.
  destruct a as [ag an av ap at_ ai afv afp afe], b as [bg bn bv bp bt bi bfv bfp bfe]; simpl.
  intros -> ->. unfold skey, arg_equal; simpl. split.
  - intros H. split_andb.
    apply beq_eq in H. apply beqb_true in H2. apply beqb_true in H1. apply N.eqb_eq in H0. congruence.
  - intros H. inversion H; subst. now rewrite beq_refl, !Bool.eqb_reflx, N.eqb_refl.
Qed.

Lemma similar_same_kind lvl a b : arg_similar lvl a b = true -> IsAggregate a = IsAggregate b.
Proof.
  destruct a as [ag an av ap at_ ai afv afp afe], b as [bg bn bv bp bt bi bfv bfp bfe].
  rewrite arg_similar_eq. simpl. destruct ag, bg; simpl; congruence.
Qed.

(* the scalar step: k' is k itself when Arg.equal, else any scalar named "*" *)
Lemma scalar_step k k' X y :
  X <> [] -> IsAggregate k = false -> IsAggregate y = false -> IsAggregate k' = false ->
  (arg_equal k y = true -> k' = k) ->
  (arg_equal k y = false -> Name k' = s2b "*") ->
  c12_scalar k X = true -> c12_scalar k' (X ++ [y]) = true.
Proof.
  intros Hne Hk Hy Hk' Heq Hneq Hc.
  destruct X as [|m1 X]; [congruence|]. unfold c12_scalar in Hc |- *.
  cbn [app]. change (m1 :: X ++ [y]) with ((m1 :: X) ++ [y]).
  set (E := fun m => cval_eqb (canon_arg ExactLines m) (canon_arg ExactLines m1)) in *.
  rewrite Hk in Hc. rewrite Hk'. change (negb false) with true in *.
  rewrite andb_true_l in Hc. rewrite andb_true_l.
  apply andb_true_iff in Hc. destruct Hc as [Hagg Hc].
  rewrite existsb_snoc, Hy, orb_false_r, Hagg, andb_true_l, forallb_snoc.
  assert (Hm1 : IsAggregate m1 = false).
  { apply negb_true_iff in Hagg. simpl in Hagg. apply orb_false_iff in Hagg. tauto. }
  destruct (forallb E (m1 :: X)) eqn:Hall.
  - (* all previous members agree, key is canon-equal to them *)
    apply (scalar_canon_eq k m1 Hk Hm1) in Hc. rewrite andb_true_l.
    destruct (arg_equal k y) eqn:Heqb.
    + rewrite (Heq eq_refl).
      assert (HEy : E y = true).
      { unfold E. apply scalar_canon_eq; trivial. apply scalar_equal_eq in Heqb; trivial. congruence. }
      rewrite HEy. apply scalar_canon_eq; trivial.
    + assert (HEy : E y = false).
      { destruct (E y) eqn:HE; [|reflexivity]. unfold E in HE. apply scalar_canon_eq in HE; trivial.
        assert (Hky : arg_equal k y = true) by (apply scalar_equal_eq; trivial; congruence). congruence. }
      rewrite HEy, (Hneq eq_refl). apply beq_refl.
  - rewrite andb_false_l.
    destruct (arg_equal k y) eqn:Heqb.
    + now rewrite (Heq eq_refl).
    + rewrite (Hneq eq_refl). apply beq_refl.
Qed.

(* ------------------------------------------------------------------ *)
(* Arg: init and step                                                  *)
Lemma cval_scalar_refl a : IsAggregate a = false ->
  cval_eqb (canon_arg ExactLines a) (canon_arg ExactLines a) = true.
Proof. intros H. now apply scalar_canon_eq. Qed.

Lemma c12_arg_init : forall a, c12_arg a [a] = true.
Proof.
  apply (Arg_ind' (fun a => c12_arg a [a] = true)).
  intros ag n v p t i fv fp fe IH. rewrite c12_arg_eq.
  destruct ag.
  - simpl forallb at 1. simpl List.length at 1. simpl negb. simpl andb at 1.
    cbv iota. unfold c12_shape. simpl forallb.
    rewrite Bool.eqb_reflx, Nat.eqb_refl. simpl.
    apply cols_init; [reflexivity|exact IH].
  - simpl. rewrite beq_refl, Bool.eqb_reflx, Bool.eqb_reflx, N.eqb_refl. reflexivity.
Qed.

(* what c12_arg says for an aggregate key and a non-empty member list *)
Lemma c12_arg_agg_inv n v p t i fv fp fe X :
  X <> [] -> c12_arg (MkArg true n v p t i fv fp fe) X = true ->
  forallb IsAggregate X = true /\ forallb (c12_shape fv fe) X = true /\ cols c12_arg afields fv 0 X = true.
Proof.
  intros Hne H. rewrite c12_arg_eq in H. rewrite (length_nz X Hne) in H.
  destruct (forallb IsAggregate X) eqn:HA; simpl in H.
  - split_andb. auto.
  - destruct X; [congruence|discriminate].
Qed.

Lemma c12_arg_scalar_inv n v p t i fv fp fe X :
  X <> [] -> c12_arg (MkArg false n v p t i fv fp fe) X = true ->
  forallb IsAggregate X = false /\ c12_scalar (MkArg false n v p t i fv fp fe) X = true.
Proof.
  intros Hne H. rewrite c12_arg_eq in H. rewrite (length_nz X Hne) in H.
  destruct (forallb IsAggregate X) eqn:HA; simpl in H; [discriminate|]. auto.
Qed.

Lemma shape_lengths fv fe X : forallb (c12_shape fv fe) X = true ->
  forall m', In m' X -> List.length (afields m') = List.length fv.
Proof.
  intros H m' Hin. rewrite forallb_forall in H. specialize (H m' Hin). unfold c12_shape in H.
  split_andb. now apply Nat.eqb_eq.
Qed.

Lemma arg_step_merge lvl : forall k X y,
  c12_arg k X = true -> X <> [] -> arg_similar lvl k y = true -> c12_arg (arg_merge k y) (X ++ [y]) = true.
Proof.
  apply (Arg_ind' (fun k => forall X y, c12_arg k X = true -> X <> [] -> arg_similar lvl k y = true ->
                                        c12_arg (arg_merge k y) (X ++ [y]) = true)).
  intros ag n v p t i fv fp fe IH X y Hc Hne Hs.
  pose proof (similar_same_kind _ _ _ Hs) as Hkind.
  destruct y as [rg rn rv rp rt ri rfv rfp rfe]. simpl in Hkind. subst rg.
  rewrite arg_similar_eq in Hs. rewrite Bool.eqb_reflx in Hs. simpl negb in Hs. cbv iota in Hs.
  rewrite arg_merge_eq.
  destruct ag.
  - apply andb_true_iff in Hs. destruct Hs as [Hfe Hl]. apply beqb_true in Hfe. subst rfe.
    destruct (c12_arg_agg_inv _ _ _ _ _ _ _ _ _ Hne Hc) as (HA & Hsh & Hcols).
    rewrite c12_arg_eq, forallb_snoc, HA, length_app1_nz. simpl andb at 1. cbv iota.
    pose proof (lsim_length _ _ _ Hl) as Hlen.
    apply andb_true_iff. split.
    + simpl andb. rewrite forallb_snoc. apply andb_true_iff. split.
      * erewrite forallb_ext'; [exact Hsh|]. intros m. unfold c12_shape. now rewrite lmrg_length.
      * unfold c12_shape. simpl. rewrite Bool.eqb_reflx, lmrg_length by trivial. simpl. apply Nat.eqb_eq. auto.
    + apply (cols_step Arg Arg c12_arg afields (arg_similar lvl) arg_merge fv X
               (MkArg true rn rv rp rt ri rfv rfp fe)); trivial.
      eapply shape_lengths; eauto.
  - destruct (c12_arg_scalar_inv _ _ _ _ _ _ _ _ _ Hne Hc) as (HA & Hsc).
    set (k := MkArg false n v p t i fv fp fe) in *.
    set (y := MkArg false rn rv rp rt ri rfv rfp rfe) in *.
    assert (HA' : forallb IsAggregate (X ++ [y]) && negb (Nat.eqb (List.length (X ++ [y])) 0) = false).
    { now rewrite forallb_snoc, HA. }
    assert (Hgoal : forall k', IsAggregate k' = false -> c12_scalar k' (X ++ [y]) = true -> c12_arg k' (X ++ [y]) = true).
    { intros [g' n' v' p' t' i' fv' fp' fe'] Hg Hk'. rewrite c12_arg_eq, HA'. exact Hk'. }
    apply Hgoal.
    + destruct (negb (arg_equal k y)); reflexivity.
    + apply (scalar_step k); trivial.
      * destruct (negb (arg_equal k y)); reflexivity.
      * intros ->. reflexivity.
      * intros ->. reflexivity.
Qed.

Lemma arg_step_equal : forall k X y,
  c12_arg k X = true -> X <> [] -> arg_equal k y = true -> c12_arg k (X ++ [y]) = true.
Proof.
  apply (Arg_ind' (fun k => forall X y, c12_arg k X = true -> X <> [] -> arg_equal k y = true ->
                                        c12_arg k (X ++ [y]) = true)).
  intros ag n v p t i fv fp fe IH X y Hc Hne Hs.
  pose proof (similar_same_kind _ _ _ Hs) as Hkind.
  destruct y as [rg rn rv rp rt ri rfv rfp rfe]. simpl in Hkind. subst rg.
  pose proof Hs as Hs0.
  unfold arg_equal in Hs. rewrite arg_similar_eq in Hs. rewrite Bool.eqb_reflx in Hs. simpl negb in Hs. cbv iota in Hs.
  destruct ag.
  - apply andb_true_iff in Hs. destruct Hs as [Hfe Hl]. apply beqb_true in Hfe. subst rfe.
    destruct (c12_arg_agg_inv _ _ _ _ _ _ _ _ _ Hne Hc) as (HA & Hsh & Hcols).
    rewrite c12_arg_eq, forallb_snoc, HA, length_app1_nz. simpl andb at 1. cbv iota.
    pose proof (lsim_length _ _ _ Hl) as Hlen.
    apply andb_true_iff. split.
    + simpl andb. rewrite forallb_snoc. apply andb_true_iff. split; [exact Hsh|].
      unfold c12_shape. simpl. rewrite Bool.eqb_reflx. simpl. apply Nat.eqb_eq. auto.
    + rewrite <- (lmrg_fst fv rfv Hlen) at 1.
      apply (cols_step Arg Arg c12_arg afields arg_equal (fun x _ => x) fv X
               (MkArg true rn rv rp rt ri rfv rfp fe)); trivial.
      eapply shape_lengths; eauto.
  - destruct (c12_arg_scalar_inv _ _ _ _ _ _ _ _ _ Hne Hc) as (HA & Hsc).
    rewrite c12_arg_eq, forallb_snoc, HA. simpl andb. cbv iota.
    set (k := MkArg false n v p t i fv fp fe) in *.
    set (y := MkArg false rn rv rp rt ri rfv rfp rfe) in *.
    apply (scalar_step k); trivial.
    intros Hf. congruence.
Qed.

(* ------------------------------------------------------------------ *)
(* Args                                                                *)
Definition args_shape (b : Args) (m : Args) : bool :=
  Bool.eqb (Elided m) (Elided b) && Nat.eqb (List.length (Values m)) (List.length (Values b)).

Lemma c12_args_eq b ms : c12_args b ms = forallb (args_shape b) ms && cols c12_arg Values (Values b) 0 ms.
Proof.
  unfold c12_args. f_equal. generalize 0.
  induction (Values b) as [|x l IH]; intros i; simpl; [reflexivity|]. now rewrite IH.
Qed.

Lemma args_shape_lengths b X : forallb (args_shape b) X = true ->
  forall m', In m' X -> List.length (Values m') = List.length (Values b).
Proof.
  intros H m' Hin. rewrite forallb_forall in H. specialize (H m' Hin). unfold args_shape in H.
  split_andb. now apply Nat.eqb_eq.
Qed.

Lemma c12_args_init a : c12_args a [a] = true.
Proof.
  rewrite c12_args_eq. unfold args_shape. simpl. rewrite Bool.eqb_reflx, Nat.eqb_refl. simpl.
  apply cols_init; [reflexivity|]. apply Forall_forall. intros x _. apply c12_arg_init.
Qed.

Lemma args_step_merge lvl b X y :
  c12_args b X = true -> X <> [] -> args_similar lvl b y = true -> c12_args (args_merge b y) (X ++ [y]) = true.
Proof.
  intros Hc Hne Hs. rewrite c12_args_eq in Hc. apply andb_true_iff in Hc. destruct Hc as [Hsh Hcols].
  unfold args_similar in Hs. apply andb_true_iff in Hs. destruct Hs as [He Hl].
  rewrite args_list_similar_lsim in Hl. apply beqb_true in He.
  pose proof (lsim_length _ _ _ Hl) as Hlen.
  rewrite c12_args_eq. unfold args_merge. simpl Values. rewrite args_list_merge_lmrg.
  apply andb_true_iff. split.
  - rewrite forallb_snoc. apply andb_true_iff. split.
    + erewrite forallb_ext'; [exact Hsh|]. intros m. unfold args_shape. simpl. now rewrite lmrg_length.
    + unfold args_shape. simpl. rewrite lmrg_length by trivial. rewrite He, Bool.eqb_reflx. simpl.
      apply Nat.eqb_eq. auto.
  - apply (cols_step Args Arg c12_arg Values (arg_similar lvl) arg_merge); trivial.
    + apply Forall_forall. intros x _ X0 y0. apply arg_step_merge.
    + now apply args_shape_lengths.
Qed.

Lemma args_step_equal b X y :
  c12_args b X = true -> X <> [] -> args_equal b y = true -> c12_args b (X ++ [y]) = true.
Proof.
  intros Hc Hne Hs. rewrite c12_args_eq in Hc. apply andb_true_iff in Hc. destruct Hc as [Hsh Hcols].
  unfold args_equal, args_similar in Hs. apply andb_true_iff in Hs. destruct Hs as [He Hl].
  rewrite args_list_similar_lsim in Hl. apply beqb_true in He.
  pose proof (lsim_length _ _ _ Hl) as Hlen.
  rewrite c12_args_eq.
  apply andb_true_iff. split.
  - rewrite forallb_snoc. apply andb_true_iff. split; [exact Hsh|].
    unfold args_shape. rewrite He, Bool.eqb_reflx. simpl. apply Nat.eqb_eq. auto.
  - rewrite <- (lmrg_fst (Values b) (Values y) Hlen) at 1.
    apply (cols_step Args Arg c12_arg Values arg_equal (fun x _ => x)); trivial.
    + apply Forall_forall. intros x _ X0 y0. apply arg_step_equal.
    + now apply args_shape_lengths.
Qed.

(* ------------------------------------------------------------------ *)
(* Call                                                                *)
Definition call_hdr (b : Call) (m : Call) : bool :=
  Z.eqb (Line m) (Line b) && beq (Complete (CFunc m)) (Complete (CFunc b)) && beq (RemoteSrcPath m) (RemoteSrcPath b).

Lemma c12_call_eq b ms : c12_call b ms = forallb (call_hdr b) ms && c12_args (CArgs b) (map CArgs ms).
Proof. reflexivity. Qed.

Lemma call_hdr_refl b : call_hdr b b = true.
Proof. unfold call_hdr. now rewrite Z.eqb_refl, !beq_refl. Qed.

Lemma call_hdr_of_similar b y :
  Z.eqb (Line b) (Line y) && beq (Complete (CFunc b)) (Complete (CFunc y)) && beq (RemoteSrcPath b) (RemoteSrcPath y) = true ->
  call_hdr b y = true.
Proof. intros H. unfold call_hdr. now rewrite Z.eqb_sym, (beq_sym (Complete _)), (beq_sym (RemoteSrcPath _)). Qed.

Lemma c12_call_init c : c12_call c [c] = true.
Proof. rewrite c12_call_eq. simpl. now rewrite call_hdr_refl, c12_args_init. Qed.

Lemma map_nonempty {A B} (f : A -> B) l : l <> [] -> map f l <> [].
Proof. destruct l; simpl; congruence. Qed.

Lemma call_step_merge lvl b X y :
  c12_call b X = true -> X <> [] -> call_similar lvl b y = true -> c12_call (call_merge b y) (X ++ [y]) = true.
Proof.
  intros Hc Hne Hs. rewrite c12_call_eq in *. apply andb_true_iff in Hc. destruct Hc as [Hh Ha].
  unfold call_similar in Hs. apply andb_true_iff in Hs. destruct Hs as [Hs1 Hs2].
  apply andb_true_iff. split.
  - rewrite forallb_snoc. apply andb_true_iff. split.
    + exact Hh.
    + now apply call_hdr_of_similar.
  - rewrite map_app. simpl. apply args_step_merge with (lvl := lvl); trivial. now apply map_nonempty.
Qed.

Lemma call_step_equal b X y :
  c12_call b X = true -> X <> [] -> call_equal b y = true -> c12_call b (X ++ [y]) = true.
Proof.
  intros Hc Hne Hs. rewrite c12_call_eq in *. apply andb_true_iff in Hc. destruct Hc as [Hh Ha].
  unfold call_equal in Hs. apply andb_true_iff in Hs. destruct Hs as [Hs1 Hs2].
  apply andb_true_iff. split.
  - rewrite forallb_snoc. apply andb_true_iff. split.
    + exact Hh.
    + now apply call_hdr_of_similar.
  - rewrite map_app. simpl. apply args_step_equal; trivial. now apply map_nonempty.
Qed.

(* ------------------------------------------------------------------ *)
(* Stack                                                               *)
Definition stack_shape (b : Stack) (m : Stack) : bool :=
  Bool.eqb (SElided m) (SElided b) && Nat.eqb (List.length (Calls m)) (List.length (Calls b)).

Lemma c12_stack_eq b ms : c12_stack b ms = forallb (stack_shape b) ms && cols c12_call Calls (Calls b) 0 ms.
Proof.
  unfold c12_stack. f_equal. generalize 0.
  induction (Calls b) as [|x l IH]; intros i; simpl; [reflexivity|]. now rewrite IH.
Qed.

Lemma stack_shape_lengths b X : forallb (stack_shape b) X = true ->
  forall m', In m' X -> List.length (Calls m') = List.length (Calls b).
Proof.
  intros H m' Hin. rewrite forallb_forall in H. specialize (H m' Hin). unfold stack_shape in H.
  split_andb. now apply Nat.eqb_eq.
Qed.

Lemma c12_stack_init s : c12_stack s [s] = true.
Proof.
  rewrite c12_stack_eq. unfold stack_shape. simpl. rewrite Bool.eqb_reflx, Nat.eqb_refl. simpl.
  apply cols_init; [reflexivity|]. apply Forall_forall. intros x _. apply c12_call_init.
Qed.

Lemma stack_step_merge lvl b X y :
  c12_stack b X = true -> X <> [] -> stack_similar lvl b y = true -> c12_stack (stack_merge b y) (X ++ [y]) = true.
Proof.
  intros Hc Hne Hs. rewrite c12_stack_eq in Hc. apply andb_true_iff in Hc. destruct Hc as [Hsh Hcols].
  unfold stack_similar in Hs. apply andb_true_iff in Hs. destruct Hs as [He Hl].
  rewrite calls_similar_lsim in Hl. apply beqb_true in He.
  pose proof (lsim_length _ _ _ Hl) as Hlen.
  rewrite c12_stack_eq. unfold stack_merge. simpl Calls. rewrite calls_merge_lmrg.
  apply andb_true_iff. split.
  - rewrite forallb_snoc. apply andb_true_iff. split.
    + erewrite forallb_ext'; [exact Hsh|]. intros m. unfold stack_shape. simpl. now rewrite lmrg_length.
    + unfold stack_shape. simpl. rewrite lmrg_length by trivial. rewrite He, Bool.eqb_reflx. simpl.
      apply Nat.eqb_eq. auto.
  - apply (cols_step Stack Call c12_call Calls (call_similar lvl) call_merge); trivial.
    + apply Forall_forall. intros x _ X0 y0. apply call_step_merge.
    + now apply stack_shape_lengths.
Qed.

Lemma stack_step_equal b X y :
  c12_stack b X = true -> X <> [] -> stack_equal b y = true -> c12_stack b (X ++ [y]) = true.
Proof.
  intros Hc Hne Hs. rewrite c12_stack_eq in Hc. apply andb_true_iff in Hc. destruct Hc as [Hsh Hcols].
  unfold stack_equal in Hs. apply andb_true_iff in Hs. destruct Hs as [He Hl].
  rewrite calls_equal_lsim in Hl. apply beqb_true in He.
  pose proof (lsim_length _ _ _ Hl) as Hlen.
  rewrite c12_stack_eq.
  apply andb_true_iff. split.
  - rewrite forallb_snoc. apply andb_true_iff. split; [exact Hsh|].
    unfold stack_shape. rewrite He, Bool.eqb_reflx. simpl. apply Nat.eqb_eq. auto.
  - rewrite <- (lmrg_fst (Calls b) (Calls y) Hlen) at 1.
    apply (cols_step Stack Call c12_call Calls call_equal (fun x _ => x)); trivial.
    + apply Forall_forall. intros x _ X0 y0. apply call_step_equal.
    + now apply stack_shape_lengths.
Qed.
