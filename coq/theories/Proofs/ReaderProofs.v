(* Proofs/ReaderProofs.v — C09: reader delivery independence. *)
From PP Require Import Base.Bytes Base.GoResult Model.Types Model.Reader Model.FuncInit Model.Scan Model.Names Model.ScanSnapshot.
From PP Require Import Spec.ReaderSpec Proofs.ReaderBase Proofs.ScanErrShape.

(* ------------------------------------------------------------------ *)
(* 1. read_line is total and conserves bytes, for every schedule        *)

Theorem read_line_total : forall r src, rinv r src ->
  exists line e r' src' evs,
    read_line r src = Ok (line, e, r', src', evs) /\
    rinv r' src' /\ line ++ stream r' src' = stream r src /\ final src' = final src.
Proof.
  intros r src Hinv.
  destruct (read_line_post r src Hinv) as (l & e & r' & src' & evs & Q1 & (P1 & P2 & P3 & P4) & _).
  exists l, e, r', src', evs. tauto.
Qed.

Lemma rinv_reader0 src : rinv reader0 src.
Proof. apply rinv_empty. Qed.

Lemma rinv_s_reader0 src : rinv_s reader0 src.
Proof. apply rinv_s_empty. Qed.

Lemma rinv_strengthen r src : rinv r src -> rerr r <> Some NoProgress -> rinv_s r src.
Proof.
  intros [H1 H2] Hn. split; [exact H1|]. intros e He.
  destruct (H2 e He) as [->|H]; [contradiction|exact H].
Qed.

(* ------------------------------------------------------------------ *)
(* 2. on a stall-free schedule the result is a function of the stream   *)

Lemma skipn_length_app {A} (l t : list A) : skipn (List.length l) (l ++ t) = t.
Proof. induction l as [|x l IH]; [reflexivity|]. cbn [List.length app]. now rewrite skipn_cons. Qed.

Theorem read_line_spec : forall r src, rinv_s r src -> stall_free (sched src) ->
  let s := stream r src in
  exists r' src' evs,
    read_line r src = Ok (first_line s, line_err s (final src), r', src', evs) /\
    rinv_s r' src' /\ stall_free (sched src') /\ final src' = final src /\
    first_line s ++ stream r' src' = s /\
    (has_lf s = false -> stream r' src' = []).
Proof.
  intros r src Hrs Hsf s.
  destruct (read_line_post r src (rinv_s_rinv _ _ Hrs))
    as (l & e & r' & src' & evs & Q1 & (P1 & P2 & P3 & P4) & Q3 & Q4).
  destruct (Q4 Hsf Hrs) as [R1 R2].
  exists r', src', evs. fold s in P3.
  destruct e as [x|]; cbn [line_shape] in Q3.
  - destruct Q3 as (K1 & K2 & K3). destruct (R2 x eq_refl) as [E1 E2].
    rewrite E1, app_nil_r in P3.
    assert (Hl : first_line s = l) by (rewrite <- P3; now apply first_line_nolf).
    assert (He : line_err s (final src) = Some x).
    { unfold line_err. rewrite <- P3, (has_lf_nolf _ K1). now rewrite E2, P2. }
    rewrite Hl, He. split; [exact Q1|]. split; [exact R1|]. split; [now apply P4|].
    split; [exact P2|]. split; [now rewrite E1, app_nil_r|]. intros _. exact E1.
  - destruct Q3 as (a & K1 & K2).
    assert (Hs : s = a ++ LF :: stream r' src').
    { rewrite <- P3, K1, <- app_assoc. reflexivity. }
    assert (Hl : first_line s = l) by (rewrite Hs, K1; now apply first_line_lf).
    assert (Hh : has_lf s = true) by (rewrite Hs; now apply has_lf_split).
    unfold line_err. rewrite Hl, Hh. split; [exact Q1|]. split; [exact R1|]. split; [now apply P4|].
    split; [exact P2|]. split; [exact P3|]. discriminate.
Qed.

(* the same in the vocabulary of the task statement *)
Theorem read_line_spec' : forall r src,
  rinv r src -> rerr r <> Some NoProgress -> stall_free (sched src) ->
  let s := stream r src in
  exists line e r' src' evs,
    read_line r src = Ok (line, e, r', src', evs) /\
    line = first_line s /\
    (e = None <-> In LF s) /\
    (~ In LF s -> e = Some (final src) /\ line = s /\ stream r' src' = []) /\
    (s = [] -> line = [] /\ e = Some (final src)) /\
    line ++ stream r' src' = s /\
    rinv_s r' src' /\ stall_free (sched src') /\ final src' = final src.
Proof.
  intros r src Hinv Hn Hsf s.
  destruct (read_line_spec r src (rinv_strengthen _ _ Hinv Hn) Hsf)
    as (r' & src' & evs & Q1 & Q2 & Q3 & Q4 & Q5 & Q6). fold s in Q1, Q5, Q6.
  exists (first_line s), (line_err s (final src)), r', src', evs.
  split; [exact Q1|]. split; [reflexivity|].
  assert (Hnl : ~ In LF s -> line_err s (final src) = Some (final src) /\ first_line s = s /\ stream r' src' = []).
  { intros H. assert (Hh : has_lf s = false).
    { destruct (has_lf s) eqn:E; [|reflexivity]. apply has_lf_in in E. contradiction. }
    unfold line_err. rewrite Hh. split; [reflexivity|]. split; [now apply has_lf_false|now apply Q6]. }
  split; [|split; [exact Hnl|split]].
  - unfold line_err. destruct (has_lf s) eqn:E.
    + split; [intros _; now apply has_lf_in|reflexivity].
    + split; [discriminate|]. intros H. apply has_lf_in in H. congruence.
  - intros E. rewrite E. split; [reflexivity|]. unfold line_err. reflexivity.
  - tauto.
Qed.

(* ------------------------------------------------------------------ *)
(* 3. iterating read_line yields the lines of the content              *)

Theorem lines_from : forall n r src, rinv_s r src -> stall_free (sched src) ->
  let s := stream r src in
  exists r' src' evs,
    nth_read_line n r src =
      Ok (first_line (drop_lines n s), line_err (drop_lines n s) (final src), r', src', evs) /\
    stream r' src' = drop_lines (S n) s /\
    rinv_s r' src' /\ stall_free (sched src') /\ final src' = final src.
Proof.
  induction n as [|n IH]; intros r src Hrs Hsf s;
    destruct (read_line_spec r src Hrs Hsf) as (r1 & src1 & evs1 & Q1 & Q2 & Q3 & Q4 & Q5 & Q6);
    fold s in Q1, Q5, Q6;
    assert (Hst : stream r1 src1 = skipn (List.length (first_line s)) s)
      by (rewrite <- Q5 at 2; now rewrite skipn_length_app).
  - exists r1, src1, evs1. cbn [nth_read_line drop_lines]. tauto.
  - cbn [nth_read_line]. rewrite Q1.
    destruct (IH r1 src1 Q2 Q3) as (r' & src' & evs & I1 & I2 & I3 & I4 & I5).
    cbv zeta in I1, I2. rewrite Hst, Q4 in I1. rewrite Hst in I2.
    exists r', src', evs. split; [exact I1|]. split; [exact I2|]. split; [exact I3|].
    split; [exact I4|]. now rewrite I5.
Qed.

Theorem lines : forall n B sc f, stall_free sc ->
  exists r' src' evs,
    nth_read_line n reader0 (mkSource B sc f) =
      Ok (first_line (drop_lines n B), line_err (drop_lines n B) f, r', src', evs) /\
    stream r' src' = drop_lines (S n) B.
Proof.
  intros n B sc f Hsf.
  destruct (lines_from n reader0 (mkSource B sc f) (rinv_s_reader0 _) Hsf)
    as (r' & src' & evs & Q1 & Q2 & _).
  exists r', src', evs. split; [exact Q1|exact Q2].
Qed.

(* the pieces [first_line (drop_lines k B)], k < n, followed by what remains, are B *)
Lemma first_line_skipn b : first_line b ++ skipn (List.length (first_line b)) b = b.
Proof.
  induction b as [|x b IH]; [reflexivity|].
  cbn [first_line]. destruct (N.eqb x LF); cbn [List.length app skipn]; [reflexivity|].
  now rewrite IH.
Qed.

Lemma drop_lines_S_r n : forall b,
  drop_lines (S n) b = skipn (List.length (first_line (drop_lines n b))) (drop_lines n b).
Proof.
  induction n as [|n IH]; intros b; [reflexivity|].
  change (drop_lines (S (S n)) b) with (drop_lines (S n) (skipn (List.length (first_line b)) b)).
  rewrite IH. reflexivity.
Qed.

Lemma lines_cover n B :
  List.concat (map (fun k => first_line (drop_lines k B)) (seq 0 n)) ++ drop_lines n B = B.
Proof.
  induction n as [|n IH]; [reflexivity|].
  rewrite seq_S, map_app, concat_app. cbn [map List.concat Nat.add]. rewrite app_nil_r, <- app_assoc.
  rewrite drop_lines_S_r, first_line_skipn. exact IH.
Qed.

(* ------------------------------------------------------------------ *)
(* 6. the buffer stays bounded and nothing panics, for every schedule   *)

Theorem buffer_bounded : forall n r src, rinv r src ->
  exists line e r' src' evs,
    nth_read_line n r src = Ok (line, e, r', src', evs) /\
    rinv r' src' /\ List.length (pending r') <= buf_cap /\ final src' = final src.
Proof.
  induction n as [|n IH]; intros r src Hinv;
    destruct (read_line_total r src Hinv) as (l & e & r1 & src1 & evs1 & Q1 & Q2 & Q3 & Q4).
  - exists l, e, r1, src1, evs1. cbn [nth_read_line]. split; [exact Q1|]. split; [exact Q2|].
    split; [apply Q2|exact Q4].
  - cbn [nth_read_line]. rewrite Q1.
    destruct (IH r1 src1 Q2) as (l' & e' & r' & src' & evs' & I1 & I2 & I3 & I4).
    exists l', e', r', src', evs'. split; [exact I1|]. split; [exact I2|]. split; [exact I3|].
    now rewrite I4.
Qed.

(* ------------------------------------------------------------------ *)
(* 4. io.ErrNoProgress                                                  *)

Lemma fill_try_zeros i : forall zs sc pend src evs,
  List.length zs = i -> Forall (fun s => fst s = 0) zs -> sched src = zs ++ sc -> rest src <> [] ->
  exists evs', fill_try i pend src evs =
               (mkReader pend (Some NoProgress), mkSource (rest src) sc (final src), evs').
Proof.
  induction i as [|i IH]; intros zs sc pend src evs Hlen Hz Hs Hne.
  - destruct zs; [|discriminate]. cbn [app] in Hs. rewrite fill_try_0.
    exists evs. destruct src as [rs sc0 f]. cbn [sched rest final] in *. now subst.
  - destruct zs as [|[k we] zs]; [discriminate|]. injection Hlen as Hlen.
    inversion Hz as [|? ? Hk Hz']. subst. cbn [fst] in Hk. subst k.
    rewrite fill_try_S. cbv zeta.
    assert (Hr : src_read src (buf_cap - List.length pend) =
                 ([], None, mkSource (rest src) (zs ++ sc) (final src))).
    { unfold src_read. rewrite Hs. cbn [app]. destruct (rest src) as [|c cs]; [contradiction|].
      cbn [Nat.min firstn skipn]. reflexivity. }
    rewrite Hr. rewrite app_nil_r.
    destruct (IH zs sc pend (mkSource (rest src) (zs ++ sc) (final src))
                (evs ++ [EvRead (buf_cap - List.length pend) (List.length (@nil N))]) eq_refl Hz' eq_refl Hne)
      as (evs' & E).
    exists evs'. exact E.
Qed.

Theorem noprogress : forall r src zs sc,
  List.length (pending r) <= buf_cap -> rerr r = None -> ~ In LF (pending r) ->
  rest src <> [] ->
  sched src = zs ++ sc -> List.length zs = 100 -> Forall (fun s => fst s = 0) zs ->
  exists evs,
    read_line r src =
      Ok (pending r, Some NoProgress, mkReader [] None, mkSource (rest src) sc (final src), evs).
Proof.
  intros r src zs sc Hcap Hre Hno Hne Hs Hlen Hz.
  (* a reader with room, no LF, no error: one fill, which fails *)
  assert (Hslice : forall r0 f s evs0, List.length (pending r0) < buf_cap -> rerr r0 = None ->
            ~ In LF (pending r0) ->
            exists evs1, read_slice_go (S (S f)) s r0 src evs0 =
              Ok (pending r0, SIo NoProgress, mkReader [] None, mkSource (rest src) sc (final src), evs1)).
  { intros r0 f s evs0 Hlt Hre0 Hno0.
    assert (Hfind : forall s' , find_lf_from s' (pending r0) = None).
    { intros s'. unfold find_lf_from. rewrite index_byte_not_in; [reflexivity|].
      intros F. apply Hno0. rewrite <- (firstn_skipn s' (pending r0)). apply in_or_app. now right. }
    rewrite read_slice_go_S, Hfind, Hre0.
    destruct (Nat.eqb_spec (List.length (pending r0)) buf_cap) as [F|_]; [lia|].
    rewrite (fill_ok _ _ Hlt).
    destruct (fill_try_zeros 100 zs sc (pending r0) src [] Hlen Hz Hs Hne) as (evs' & E).
    rewrite E. rewrite read_slice_go_S. cbn [pending rerr]. rewrite Hfind.
    eexists. reflexivity. }
  unfold read_line. rewrite read_line_go_S. unfold read_slice.
  replace (buf_cap + 2) with (S (S buf_cap)) by lia.
  destruct (Nat.eq_dec (List.length (pending r)) buf_cap) as [Hfull|Hnf].
  - (* full buffer: a buffer-full piece first, then the failing fill *)
    assert (Hfind : find_lf_from 0 (pending r) = None).
    { unfold find_lf_from. cbn [skipn]. now rewrite index_byte_not_in. }
    rewrite read_slice_go_S, Hfind, Hre.
    destruct (Nat.eqb_spec (List.length (pending r)) buf_cap) as [_|F]; [|contradiction].
    rewrite read_line_go_S. unfold read_slice.
    replace (buf_cap + 2) with (S (S buf_cap)) by lia.
    destruct (Hslice (mkReader [] None) buf_cap 0 []) as (evs1 & E).
    + cbn [pending List.length]. apply buf_cap_pos.
    + reflexivity.
    + intros [].
    + rewrite E. cbn [pending]. rewrite app_nil_r. eexists. reflexivity.
  - destruct (Hslice r buf_cap 0 []) as (evs1 & E); [lia|exact Hre|exact Hno|].
    rewrite E. cbn [app]. eexists. reflexivity.
Qed.

(* ------------------------------------------------------------------ *)
(* 5. ScanSnapshot: simulation between two runs of scan_loop            *)

Lemma scan_loop_S f ls :
  scan_loop (S f) ls =
      if state_eqb (st (l_ss ls)) done then Ok (ls, ENil, None) else
      match read_line (l_r ls) (l_src ls) with
      | Panic m => Panic m
      | Ok (d, e, r', src', evs) =>
          let tr := l_trace ls ++ evs in
          let err0 := match e with None => ENil | Some x => EIo x end in
          match d with
          | [] =>
              let ls' := mkLoop (l_ss ls) r' src' (l_fwd ls) tr (l_lines ls) in
              match e with
              | None => scan_loop f ls'
              | Some _ => Ok (ls', err0, None)
              end
          | _ =>
              let tr := tr ++ [EvLine d] in
              match scan (l_ss ls) d with
              | Panic m => Panic m
              | Ok (ss', l, e1) =>
                  let err := match e1 with
                             | Some x => if io_is_nil_or_eof e then EScan x else err0
                             | None => err0
                             end in
                  if l then
                    let ls' := mkLoop ss' r' src' (l_fwd ls) tr (S (l_lines ls)) in
                    match err with
                    | ENil => scan_loop f ls'
                    | _ => Ok (ls', err, None)
                    end
                  else if negb (state_eqb (st ss') looking) then
                    Ok (mkLoop ss' r' src' (l_fwd ls) tr (S (l_lines ls)), err, Some (d ++ pending r'))
                  else
                    let ls' := mkLoop ss' r' src' (l_fwd ls ++ d) (tr ++ [EvWrite d]) (S (l_lines ls)) in
                    match err with
                    | ENil => scan_loop f ls'
                    | _ => Ok (ls', err, None)
                    end
              end
          end
      end.
Proof. reflexivity. Qed.

Definition good (a : loop_state) : Prop :=
  rinv_s (l_r a) (l_src a) /\ stall_free (sched (l_src a)).

Definition lstream (a : loop_state) : bytes := stream (l_r a) (l_src a).

Definition rel (a b : loop_state) : Prop :=
  l_ss a = l_ss b /\ l_fwd a = l_fwd b /\ l_lines a = l_lines b /\
  lstream a = lstream b /\ final (l_src a) = final (l_src b) /\ good a /\ good b.

Definition out_rel (o1 o2 : loop_state * go_err * option bytes) : Prop :=
  match o1, o2 with
  | (a, e1, s1), (b, e2, s2) =>
      l_ss a = l_ss b /\ l_fwd a = l_fwd b /\ l_lines a = l_lines b /\ e1 = e2 /\
      match s1, s2 with
      | Some x, Some y => x ++ rest (l_src a) = y ++ rest (l_src b)
      | None, None =>
          lstream a = lstream b /\
          (state_eqb (st (l_ss a)) done = false -> rest (l_src a) = rest (l_src b))
      | _, _ => False
      end
  end.

Definition res_rel {T} (R : T -> T -> Prop) (x y : GoResult T) : Prop :=
  match x, y with
  | Ok a, Ok b => R a b
  | Panic _, Panic _ => True
  | _, _ => False
  end.

Lemma stream_nil_rest r src : stream r src = [] -> rest src = [].
Proof. unfold stream. intros H. apply app_eq_nil in H. tauto. Qed.

Lemma sim : forall fuel a b, rel a b -> res_rel out_rel (scan_loop fuel a) (scan_loop fuel b).
Proof.
  induction fuel as [|fuel IH]; intros a b Hrel; [exact I|].
  rewrite !scan_loop_S.
  destruct Hrel as (Hss & Hfwd & Hln & Hst & Hfin & [Ga1 Ga2] & [Gb1 Gb2]).
  rewrite <- Hss, <- Hfwd, <- Hln.
  destruct (state_eqb (st (l_ss a)) done) eqn:Hdone.
  { cbn [res_rel out_rel]. repeat split; try assumption. intros F. congruence. }
  destruct (read_line_spec _ _ Ga1 Ga2) as (ra & sa & eva & A1 & A2 & A3 & A4 & A5 & A6).
  destruct (read_line_spec _ _ Gb1 Gb2) as (rb & sb & evb & B1 & B2 & B3 & B4 & B5 & B6).
  cbv zeta in A1, A5, A6, B1, B5, B6.
  unfold lstream in Hst. rewrite <- Hst in B1, B5, B6. rewrite <- Hfin in B1.
  rewrite A1, B1. clear A1 B1.
  set (s := stream (l_r a) (l_src a)) in *.
  assert (Hst' : stream ra sa = stream rb sb).
  { apply (app_inv_head (first_line s)). now rewrite A5, B5. }
  assert (Hfin' : final sa = final sb) by (rewrite A4, B4; exact Hfin).
  (* the next pair of states is related, whatever the scanner state etc. *)
  assert (Hnext : forall ss fw t1 t2 n,
            rel (mkLoop ss ra sa fw t1 n) (mkLoop ss rb sb fw t2 n)).
  { intros. unfold rel, good, lstream. cbn [l_ss l_r l_src l_fwd l_lines]. tauto. }
  (* a pair of final states without suffix *)
  assert (Hend : forall ss fw t1 t2 n e,
            (state_eqb (st ss) done = false -> rest sa = rest sb) ->
            out_rel (mkLoop ss ra sa fw t1 n, e, None) (mkLoop ss rb sb fw t2 n, e, None)).
  { intros. unfold out_rel, lstream. cbn [l_ss l_r l_src l_fwd l_lines]. tauto. }
  (* ... and with the line and the buffer as suffix *)
  assert (Hsfx : forall ss fw t1 t2 n e d,
            out_rel (mkLoop ss ra sa fw t1 n, e, Some (d ++ pending ra))
                    (mkLoop ss rb sb fw t2 n, e, Some (d ++ pending rb))).
  { intros. unfold out_rel. cbn [l_ss l_r l_src l_fwd l_lines]. repeat split.
    rewrite <- !app_assoc. unfold stream in Hst'. now rewrite Hst'. }
  assert (Hnil : has_lf s = false -> rest sa = rest sb).
  { intros H. rewrite (stream_nil_rest _ _ (A6 H)), (stream_nil_rest _ _ (B6 H)). reflexivity. }
  unfold line_err. destruct (has_lf s) eqn:Hlf; cbv beta iota zeta.
  - (* a complete line: no reader error *)
    destruct (first_line s) as [|c d0] eqn:Hd.
    { apply IH. apply Hnext. }
    set (d := c :: d0) in *.
    destruct (scan (l_ss a) d) as [[[ss' l] e1]|m] eqn:Hscan; [|exact I].
    cbn [io_is_nil_or_eof].
    destruct e1 as [x|].
    + destruct (scan_error_suffix _ _ _ _ _ Hscan) as [-> Hlook]. rewrite Hlook.
      cbn [negb res_rel]. apply Hsfx.
    + destruct l.
      * apply IH. apply Hnext.
      * destruct (negb (state_eqb (st ss') looking)).
        -- cbn [res_rel]. apply Hsfx.
        -- apply IH. apply Hnext.
  - (* the unterminated tail, with the terminal error *)
    specialize (Hnil eq_refl).
    destruct (first_line s) as [|c d0] eqn:Hd.
    { cbn [res_rel]. apply Hend. intros _. exact Hnil. }
    set (d := c :: d0) in *.
    destruct (scan (l_ss a) d) as [[[ss' l] e1]|m] eqn:Hscan; [|exact I].
    destruct e1 as [x|].
    + destruct (scan_error_suffix _ _ _ _ _ Hscan) as [-> Hlook]. rewrite Hlook.
      cbn [negb res_rel]. apply Hsfx.
    + destruct l.
      * cbn [res_rel]. apply Hend. intros _. exact Hnil.
      * destruct (negb (state_eqb (st ss') looking)).
        -- cbn [res_rel]. apply Hsfx.
        -- cbn [res_rel]. apply Hend. intros _. exact Hnil.
Qed.

Theorem scan_independent : forall na B f sc1 sc2,
  stall_free sc1 -> stall_free sc2 ->
  scan_proj (scan_snapshot na (mkSource B sc1 f)) = scan_proj (scan_snapshot na (mkSource B sc2 f)).
Proof.
  intros na B f sc1 sc2 H1 H2. unfold scan_snapshot. cbn [rest].
  assert (Hrel : rel (mkLoop ss0 reader0 (mkSource B sc1 f) [] [] 0)
                     (mkLoop ss0 reader0 (mkSource B sc2 f) [] [] 0)).
  { unfold rel, good, lstream. cbn [l_ss l_r l_src l_fwd l_lines sched final].
    split; [reflexivity|]. split; [reflexivity|]. split; [reflexivity|]. split; [reflexivity|].
    split; [reflexivity|]. split; (split; [apply rinv_s_reader0|assumption]). }
  pose proof (sim (S (S (List.length B))) _ _ Hrel) as Hsim.
  destruct (scan_loop (S (S (List.length B))) (mkLoop ss0 reader0 (mkSource B sc1 f) [] [] 0))
    as [[[a e1] s1]|m1];
  destruct (scan_loop (S (S (List.length B))) (mkLoop ss0 reader0 (mkSource B sc2 f) [] [] 0))
    as [[[b e2] s2]|m2]; cbn [res_rel] in Hsim; try contradiction; [|reflexivity].
  destruct Hsim as (Q1 & Q2 & Q3 & Q4 & Q5).
  unfold scan_proj. cbn [snap fwd rerr_out suffix unread final_state lines_read].
  rewrite <- Q1, <- Q2, <- Q3, <- Q4.
  assert (Hs : (match s1 with
                | Some x => x
                | None => if state_eqb (st (l_ss a)) done then pending (l_r a) else []
                end) ++ rest (l_src a) =
               (match s2 with
                | Some x => x
                | None => if state_eqb (st (l_ss a)) done then pending (l_r b) else []
                end) ++ rest (l_src b)).
  { destruct s1 as [x|], s2 as [y|]; try contradiction; [exact Q5|].
    destruct Q5 as [Q5 Q6]. destruct (state_eqb (st (l_ss a)) done).
    - exact Q5.
    - cbn [app]. now apply Q6. }
  do 4 f_equal. exact Hs.
Qed.
