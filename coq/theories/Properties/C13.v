(* Properties/C13.v — Bucket ordering contract.  Statements only. *)
From PP Require Import Base.Bytes Base.GoResult Model.Types Model.Stack Model.Bucket Spec.BucketSpec Spec.Wf.
From PP Require Import Proofs.Order.
From Coq Require Import Permutation Sorted.

(* The four strict-weak-order laws of a boolean relation. *)
Definition strict_weak_order {A} (lt : A -> A -> bool) : Prop :=
  (forall a, lt a a = false) /\
  (forall a b, lt a b = true -> lt b a = false) /\
  (forall a b c, lt a b = true -> lt b c = true -> lt a c = true) /\
  (forall a b c, lt a b = false -> lt b a = false -> lt b c = false -> lt c b = false ->
                 lt a c = false /\ lt c a = false).

(* Stack.less and Signature.less are strict weak orders on ALL stacks / signatures. *)
Theorem C13_stack_less_swo : strict_weak_order stack_less.
Proof. exact Order.stack_less_swo. Qed.
Print Assumptions C13_stack_less_swo.

Theorem C13_sig_less_swo : strict_weak_order sig_less.
Proof. exact Order.sig_less_swo. Qed.
Print Assumptions C13_sig_less_swo.

(* r.Calls[x] in the per-frame loop never indexes out of range. *)
Theorem C13_less_never_panics : forall s r, sig_less_safe s r = true.
Proof. exact Order.sig_less_safe_all. Qed.
Print Assumptions C13_less_never_panics.

(* The closure handed to sort.SliceStable is a strict weak order on any set of
   buckets of which at most one is First (two First buckets compare "before"
   both ways: C13_two_first_refuted). *)
Theorem C13_bucket_before_swo :
  forall bs, count_bfirst bs <= 1 ->
  forall i j k a b c, nth_error bs i = Some a -> nth_error bs j = Some b -> nth_error bs k = Some c ->
  i <> j -> j <> k -> i <> k ->
  (bucket_before a b = true -> bucket_before b a = false) /\
  (bucket_before a b = true -> bucket_before b c = true -> bucket_before a c = true) /\
  (bucket_before a b = false -> bucket_before b a = false -> bucket_before b c = false -> bucket_before c b = false ->
     bucket_before a c = false /\ bucket_before c a = false).
Proof. exact Order.bucket_before_swo. Qed.
Print Assumptions C13_bucket_before_swo.

Theorem C13_two_first_refuted :
  exists a b, BFirst a = true /\ BFirst b = true /\ bucket_before a b = true /\ bucket_before b a = true.
Proof. exact Order.two_first_refuted. Qed.

(* The sort returns a permutation in which no bucket is strictly before an
   earlier one, the First bucket leads, and no bucket made only of
   standard-library frames (and none in package main) precedes a bucket with a
   frame in package main, a module, GOPATH or the module cache. *)
Theorem C13_sorted :
  forall bs, count_bfirst bs <= 1 ->
  let out := sort_stable bucket_before bs in
  Permutation out bs /\
  (forall i j a b, i < j -> nth_error out i = Some a -> nth_error out j = Some b -> bucket_before b a = false) /\
  c13_ok out = true.
Proof. exact Order.sorted_ok. Qed.
Print Assumptions C13_sorted.

(* Any stable sort gives this very list: a permutation of bs that has no
   inversion and keeps the original order of incomparable buckets is unique. *)
Theorem C13_sorted_unique :
  forall bs out1 out2, count_bfirst bs <= 1 ->
  Order.stable_sorted_of bucket_before bs out1 -> Order.stable_sorted_of bucket_before bs out2 -> out1 = out2.
Proof. exact Order.stable_sorted_unique. Qed.
Print Assumptions C13_sorted_unique.

(* Applied to Aggregate: for every map-iteration oracle, level and snapshot
   with at most one First goroutine. *)
Theorem C13_aggregate_order :
  forall shuffle lvl gs bs, count_first gs <= 1 ->
  aggregate shuffle lvl gs = Ok bs -> c13_ok bs = true.
Proof. exact Order.aggregate_order_ok. Qed.
Print Assumptions C13_aggregate_order.

(* Non-vacuity: a three-bucket list with one First, a stdlib-only and a main bucket. *)
Example C13_example : exists bs, count_bfirst bs = 1 /\ List.length bs = 3 /\
  c13_ok (sort_stable bucket_before bs) = true /\ sort_stable bucket_before bs <> bs.
Proof. exact Order.example_sorted. Qed.
