// racedrv: N goroutines scanning, aggregating and rendering shared and
// private snapshots (and a shared *Opts) concurrently; meant to be run under
// the race detector (`go run -race ./cmd/racedrv`).  Prints "results-differ"
// if a concurrent result differs from the sequential one.
package main

import (
	"bytes"
	"fmt"
	"io"
	"log"
	"os"
	"strings"
	"sync"
	"sync/atomic"
	"time"

	"net/http/httptest"

	"github.com/maruel/panicparse/v2/stack"
	"github.com/maruel/panicparse/v2/stack/webstack"
)

const dump = `panic: boom

goroutine 1 [running]:
main.crash(0xc000012340, {0xc000010000, 0x3, 0x4}, 0x7)
	/home/u/src/proj/main.go:17 +0x1b
main.main()
	/home/u/src/proj/main.go:8 +0x25

goroutine 6 [chan receive, 3 minutes]:
main.worker(0xc000012348, {0x1, 0x2, ...}, ...)
	/home/u/src/proj/worker.go:33 +0x45
created by main.main in goroutine 1
	/home/u/src/proj/main.go:7 +0x1a

goroutine 7 [chan receive, 5 minutes]:
main.worker(0xc000012350, {0x1, 0x2, ...}, ...)
	/home/u/src/proj/worker.go:33 +0x45
created by main.main in goroutine 1
	/home/u/src/proj/main.go:7 +0x1a

goroutine 8 [select, locked to thread]:
main.worker(0xc000012340, {0x1, 0x2, ...})
	/home/u/src/proj/worker.go:35 +0x45
created by main.main in goroutine 1
	/home/u/src/proj/main.go:7 +0x1a

`

// eofWithData is an io.Reader that reports io.EOF together with its last bytes.
type eofWithData struct{ b []byte }

func (r *eofWithData) Read(p []byte) (int, error) {
	n := copy(p, r.b)
	r.b = r.b[n:]
	if len(r.b) == 0 {
		return n, io.EOF
	}
	return n, nil
}

var scans int64

func scan(opts *stack.Opts) *stack.Snapshot {
	// every other scan: trailing text after the dump (the scan stops before the end of its input) from a
	// reader that delivers EOF with the data
	var in io.Reader = strings.NewReader(dump)
	if atomic.AddInt64(&scans, 1)%2 == 0 {
		in = &eofWithData{b: []byte(dump + "exit status 2\n")}
	}
	s, _, err := stack.ScanSnapshot(in, io.Discard, opts)
	if s == nil || (err != nil && err != io.EOF) {
		panic(fmt.Sprint("scan failed: ", err))
	}
	decorate(s)
	return s
}

var fresh int64

// decorate sets what GuessPaths would have found, so that every branch of the
// HTML link helpers runs (well-formed, vendored, versioned and malformed
// github.com / golang.org paths, the standard library).
func decorate(s *stack.Snapshot) {
	rels := []struct {
		rel string
		loc stack.Location
		imp string
	}{
		{"github.com/user/file.go", stack.GOPATH, "github.com/user"},
		{"golang.org/x/file.go", stack.GOPATH, "golang.org/x"},
		{"github.com/u/r/p/f.go", stack.GOPATH, "github.com/u/r/p"},
		{"github.com/u/r@v1.2.3/p/f.go", stack.GoPkg, "github.com/u/r@v1.2.3/p"},
		{"example.com/a/vendor/github.com/p/q/f.go", stack.GOPATH, "example.com/a/vendor/github.com/p/q"},
		{"fmt/print.go", stack.Stdlib, "fmt"},
		{"golang.org/x/sys@v0.1.0/unix/f.go", stack.GoPkg, "golang.org/x/sys@v0.1.0/unix"},
	}
	k := 0
	set := func(c *stack.Call) {
		x := rels[k%len(rels)]
		k++
		c.RelSrcPath, c.Location, c.ImportPath = x.rel, x.loc, x.imp
		if strings.HasSuffix(x.rel, "/file.go") {
			// a malformed path no rendering has met before (no link is produced for it, the page is the same)
			c.RelSrcPath = strings.TrimSuffix(x.rel, "file.go") + fmt.Sprintf("file%d.go", atomic.AddInt64(&fresh, 1))
		}
	}
	for _, g := range s.Goroutines {
		for i := range g.Stack.Calls {
			set(&g.Stack.Calls[i])
		}
		for i := range g.CreatedBy.Calls {
			set(&g.CreatedBy.Calls[i])
		}
	}
}

func render(s *stack.Snapshot, lvl stack.Similarity) string {
	var b bytes.Buffer
	a := s.Aggregate(lvl)
	for _, bk := range a.Buckets {
		fmt.Fprintf(&b, "%d %s %v\n", len(bk.IDs), bk.State, bk.IDs)
		for i := range bk.Stack.Calls {
			fmt.Fprintf(&b, "  %s(%s)\n", bk.Stack.Calls[i].Func.Name, &bk.Stack.Calls[i].Args)
		}
	}
	for _, g := range s.Goroutines {
		for i := range g.Stack.Calls {
			b.WriteString(g.Stack.Calls[i].Args.String())
		}
	}
	var h bytes.Buffer
	if err := a.ToHTML(&h, ""); err != nil {
		panic(err)
	}
	// the creation time differs between renderings
	hs := h.String()
	if i := strings.Index(hs, "<li>Created on "); i >= 0 {
		if j := strings.Index(hs[i:], "</li>"); j >= 0 {
			hs = hs[:i] + hs[i+j:]
		}
	}
	return b.String() + hs
}

func main() {
	log.SetOutput(io.Discard) // the library logs "problematic URL" lines
	dur := 3 * time.Second
	if len(os.Args) > 1 {
		if d, err := time.ParseDuration(os.Args[1]); err == nil {
			dur = d
		}
	}
	opts := &stack.Opts{NameArguments: true} // shared by every goroutine
	shared := scan(opts)
	// what source analysis leaves behind: pre-rendered arguments in a slice with spare capacity
	for _, g := range shared.Goroutines {
		for i := range g.Stack.Calls {
			a := &g.Stack.Calls[i].Args
			if len(a.Values) != 0 {
				p := make([]string, 0, len(a.Values)+4)
				for k := range a.Values {
					p = append(p, fmt.Sprintf("arg%d", k))
				}
				a.Processed = p
			}
		}
	}
	levels := []stack.Similarity{stack.ExactFlags, stack.ExactLines, stack.AnyPointer, stack.AnyValue}
	want := map[stack.Similarity]string{}
	wantPriv := map[stack.Similarity]string{}
	for _, l := range levels {
		want[l] = render(shared, l)
		wantPriv[l] = render(scan(opts), l)
	}
	var wg sync.WaitGroup
	bad := make(chan string, 64)
	deadline := time.Now().Add(dur)
	for w := 0; w < 16; w++ {
		wg.Add(1)
		go func(w int) {
			defer wg.Done()
			for k := 0; time.Now().Before(deadline); k++ {
				l := levels[(w+k)%4]
				s, w0 := shared, want[l]
				if k%3 == 0 {
					s, w0 = scan(opts), wantPriv[l] // private snapshot, shared options
				}
				if got := render(s, l); got != w0 {
					select {
					case bad <- fmt.Sprintf("worker %d level %d", w, l):
					default:
					}
				}
			}
		}(w)
	}
	// the web handler under concurrent requests with different parameters while goroutines come and go
	for w := 0; w < 4; w++ {
		wg.Add(1)
		go func(w int) {
			defer wg.Done()
			qs := []string{"augment=0", "augment=1", "similarity=anyvalue&augment=0", "maxmem=2097152"}
			for k := 0; time.Now().Before(deadline); k++ {
				go func() { time.Sleep(time.Millisecond) }()
				req := httptest.NewRequest("GET", "/debug?"+qs[(w+k)%len(qs)], nil)
				rec := httptest.NewRecorder()
				webstack.SnapshotHandler(rec, req)
				if rec.Code != 200 {
					select {
					case bad <- fmt.Sprintf("handler status %d for %s", rec.Code, qs[(w+k)%len(qs)]):
					default:
					}
				}
			}
		}(w)
	}
	wg.Wait()
	close(bad)
	n := 0
	for b := range bad {
		if n == 0 {
			fmt.Println("results-differ:", b)
		}
		n++
	}
	fmt.Println("racedrv done; differing results:", n)
}
