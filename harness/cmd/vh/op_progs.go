// op progs (C19): generated Go programs compiled with the installed toolchain
// (-gcflags '-N -l'), crashed, and their REAL traceback parsed with the
// sources present.  Emitted in the format of op augment (the traceback is the
// content, the program's directory the file system); pointer values, which
// the generator cannot know, are the wildcard byte 0x01 in the expectations.
package main

import (
	"bytes"
	"fmt"
	"math"
	"math/rand"
	"os"
	"os/exec"
	"strconv"
	"strings"
)

type pparam struct {
	typ     string // source type
	literal string // Go expression passed by the caller
	tname   string // what fieldToType yields
	show    string // truthful rendering, \x01 = some pointer in hex
}

func genProgParam(r *rand.Rand, f32, f64 map[uint64]string) pparam {
	const P = "\x01"
	switch r.Intn(18) {
	case 0:
		v := r.Intn(2) == 0
		return pparam{"bool", strconv.FormatBool(v), "bool", strconv.FormatBool(v)}
	case 1:
		v := int64(r.Uint64())
		if r.Intn(2) == 0 {
			v = int64(r.Intn(2000) - 1000)
		}
		return pparam{"int", fmt.Sprintf("int(%d)", v), "int", strconv.FormatInt(v, 10)}
	case 2:
		v := int8(r.Intn(256))
		return pparam{"int8", fmt.Sprintf("int8(%d)", v), "int8", strconv.FormatInt(int64(v), 10)}
	case 3:
		v := int16(r.Intn(65536))
		return pparam{"int16", fmt.Sprintf("int16(%d)", v), "int16", strconv.FormatInt(int64(v), 10)}
	case 4:
		v := int32(r.Uint32())
		return pparam{"int32", fmt.Sprintf("int32(%d)", v), "int32", strconv.FormatInt(int64(v), 10)}
	case 5:
		v := int64(r.Uint64())
		return pparam{"int64", fmt.Sprintf("int64(%d)", v), "int64", strconv.FormatInt(v, 10)}
	case 6:
		v := r.Uint64()
		return pparam{"uint", fmt.Sprintf("uint(%d)", v), "uint", strconv.FormatUint(v, 10)}
	case 7:
		v := uint8(r.Intn(256))
		return pparam{"uint8", fmt.Sprintf("uint8(%d)", v), "uint8", strconv.FormatUint(uint64(v), 10)}
	case 8:
		v := uint16(r.Intn(65536))
		return pparam{"uint16", fmt.Sprintf("uint16(%d)", v), "uint16", strconv.FormatUint(uint64(v), 10)}
	case 9:
		v := r.Uint32()
		return pparam{"uint32", fmt.Sprintf("uint32(%d)", v), "uint32", strconv.FormatUint(uint64(v), 10)}
	case 10:
		v := float32(r.NormFloat64() * 100)
		s := strconv.FormatFloat(float64(v), 'g', -1, 32)
		f32[uint64(math.Float32bits(v))] = s
		return pparam{"float32", fmt.Sprintf("math.Float32frombits(%d)", math.Float32bits(v)), "float32", s}
	case 11:
		v := r.NormFloat64() * 1e6
		s := strconv.FormatFloat(v, 'g', -1, 64)
		f64[math.Float64bits(v)] = s
		return pparam{"float64", fmt.Sprintf("math.Float64frombits(%d)", math.Float64bits(v)), "float64", s}
	case 12:
		n := r.Intn(12)
		return pparam{"string", strconv.Quote(strings.Repeat("s", n)) + "+sfx", "string", fmt.Sprintf("string(%s, len=%d)", P, n+1)}
	case 13:
		l := r.Intn(6)
		c := l + r.Intn(5)
		if c == 0 {
			c = 1
		}
		return pparam{"[]int", fmt.Sprintf("make([]int, %d, %d)", l, c), "[]int", fmt.Sprintf("[]int(%s len=%d cap=%d)", P, l, c)}
	case 14:
		return pparam{"*T", "&T{x: 7}", "*T", fmt.Sprintf("*T(%s)", P)}
	case 15:
		return pparam{"map[int]string", "map[int]string{1: \"a\"}", "map[int]string", fmt.Sprintf("map[int]string(%s)", P)}
	case 16:
		return pparam{"chan int", "make(chan int, 1)", "chan int", fmt.Sprintf("chan int(%s)", P)}
	default:
		return pparam{"func()", "func() { sink++ }", "func", fmt.Sprintf("func(%s)", P)}
	}
}

func opProgs(r *rand.Rand, n int, tier string, seed int64) {
	for i := 0; i < n; i++ {
		base := fmt.Sprintf("/tmp/vhg/p%d-%d", seed, i)
		f32, f64 := map[uint64]string{}, map[uint64]string{}
		nf := 2 + r.Intn(4)
		type pfunc struct {
			name   string // symbol name part
			decl   string
			call   string // how the previous function calls it
			params []pparam
			recv   bool
		}
		var fs []pfunc
		for k := 0; k < nf; k++ {
			f := pfunc{}
			np := r.Intn(6)
			var decl, lits []string
			for p := 0; p < np; p++ {
				ap := genProgParam(r, f32, f64)
				f.params = append(f.params, ap)
				decl = append(decl, fmt.Sprintf("p%d %s", p, ap.typ))
				lits = append(lits, ap.literal)
			}
			if r.Intn(4) == 0 {
				f.recv = true
				f.name = fmt.Sprintf("(*T).m%d", k)
				f.decl = fmt.Sprintf("func (t *T) m%d(%s)", k, strings.Join(decl, ", "))
				f.call = fmt.Sprintf("(&T{x: %d}).m%d(%s)", k, k, strings.Join(lits, ", "))
			} else {
				f.name = fmt.Sprintf("f%d", k)
				f.decl = fmt.Sprintf("func f%d(%s)", k, strings.Join(decl, ", "))
				f.call = fmt.Sprintf("f%d(%s)", k, strings.Join(lits, ", "))
			}
			fs = append(fs, f)
		}
		var src strings.Builder
		src.WriteString("package main\n\nimport \"math\"\n\nvar sink int\nvar sfx = \"x\"\nvar _ = math.Pi\n\ntype T struct{ x int }\n\n")
		for k, f := range fs {
			src.WriteString("//go:noinline\n" + f.decl + " {\n")
			if k+1 < len(fs) {
				src.WriteString("\t" + fs[k+1].call + "\n")
			} else {
				src.WriteString("\tpanic(\"boom\")\n")
			}
			src.WriteString("\tsink++\n}\n\n")
		}
		src.WriteString("func main() {\n\t" + fs[0].call + "\n}\n")
		files := map[string]string{base + "/go.mod": "module example.com/prog\n\ngo 1.21\n", base + "/main.go": src.String()}
		l := &layout{base: base, files: files}
		if err := l.materialise(); err != nil {
			panic(err)
		}
		build := exec.Command("go", "build", "-gcflags", "-N -l", "-o", base+"/prog", ".")
		build.Dir = base
		build.Env = append(os.Environ(), "GOFLAGS=-mod=mod", "GOPROXY=off", "GOTOOLCHAIN=local", "CGO_ENABLED=0")
		if out, err := build.CombinedOutput(); err != nil {
			os.RemoveAll(base)
			fmt.Fprintf(os.Stderr, "progs: build failed: %v\n%s\n%s\n", err, out, src.String())
			os.Exit(2)
		}
		run := exec.Command(base + "/prog")
		run.Env = []string{"GOTRACEBACK=all"}
		var stderr bytes.Buffer
		run.Stderr = &stderr
		_ = run.Run()
		os.Remove(base + "/prog")
		// frame descriptions in traceback order: panic, f_last .. f_0, main.main, then whatever follows (skipped)
		var fr []string
		if strings.Contains(stderr.String(), "]:\npanic(") {
			fr = append(fr, "skip") // some toolchains print the panic frame first
		}
		for k := len(fs) - 1; k >= 0; k-- {
			f := fs[k]
			var types, shows []string
			if f.recv {
				types = append(types, hexs([]byte("*T")))
				shows = append(shows, "*T(\x01)")
			}
			for _, ap := range f.params {
				types = append(types, hexs([]byte(ap.tname)))
				shows = append(shows, ap.show)
			}
			td := strings.Join(types, ",")
			if td == "" {
				td = "-"
			}
			fr = append(fr, td+";0;"+hexs([]byte(strings.Join(shows, "\x00"))))
		}
		var a, b []string
		for k, v := range f32 {
			a = append(a, fmt.Sprintf("%d=%s", k, hexs([]byte(v))))
		}
		for k, v := range f64 {
			b = append(b, fmt.Sprintf("%d=%s", k, hexs([]byte(v))))
		}
		fr = append(fr, "skip") // main.main (further frames are padded by the driver)
		emitAugmentOpts(fmt.Sprintf("prog-%d", i), stderr.Bytes(), files, base, strings.Join(fr, "|"), strings.Join(a, ",")+"|"+strings.Join(b, ","), true)
	}
}
