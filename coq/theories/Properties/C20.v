(* Properties/C20.v — The web handler maps every request to the right status:
   2xx only for a GET with valid parameters, 4xx for every invalid parameter
   or method; and the snapshot capture loop is bounded by maxmem.
   Statements only.  Vocabulary (Proofs/WebProofs.v):
     maxmem_is s m    : s = "" and m = 64 MiB, or s <> "" and Atoi s = m
     maxmem_bad s     : s <> "" and Atoi s fails
     augment_is s a   : s = "" (a = true), or Atoi s = 0 (false) / 1 (true)
     augment_bad s    : s <> "" and Atoi s is neither 0 nor 1
     similarity_is s l: s in {exactflags, exactlines, anypointer | "", anyvalue}
     similarity_bad s : none of those. *)
From PP Require Import Base.Bytes Base.BytesX Base.Num Base.GoResult Model.Types Model.Web.
From PP Require Import Proofs.WebProofs.
From Coq Require Import String.

(* the parameters are decided, exclusively and functionally *)
Theorem C20_params_decided : forall mm au sim,
  (maxmem_bad mm \/ exists m, maxmem_is mm m) /\
  (augment_bad au \/ exists a, augment_is au a) /\
  (similarity_bad sim \/ exists l, similarity_is sim l) /\
  (forall m, maxmem_is mm m -> maxmem_bad mm -> False) /\
  (forall a, augment_is au a -> augment_bad au -> False) /\
  (forall l, similarity_is sim l -> similarity_bad sim -> False) /\
  (forall m1 m2, maxmem_is mm m1 -> maxmem_is mm m2 -> m1 = m2) /\
  (forall a1 a2, augment_is au a1 -> augment_is au a2 -> a1 = a2) /\
  (forall l1 l2, similarity_is sim l1 -> similarity_is sim l2 -> l1 = l2).
Proof. exact WebProofs.params_decided. Qed.
Print Assumptions C20_params_decided.

(* the decision table: each status characterised exactly *)
Theorem C20_handler_table : forall method mm au sim sf,
  let st := handler method mm au sim sf in
  (st = S405 <-> method <> GET) /\
  (st = S500 <-> method = GET /\ exists m a, maxmem_is mm m /\ augment_is au a /\ sf m a = true) /\
  (forall l a m, st = S200 l a m <->
     method = GET /\ maxmem_is mm m /\ augment_is au a /\ sf m a = false /\ similarity_is sim l) /\
  (st = S400 <->
     method = GET /\
     (maxmem_bad mm \/ augment_bad au \/
      exists m a, maxmem_is mm m /\ augment_is au a /\ sf m a = false /\ similarity_bad sim)).
Proof. exact WebProofs.handler_table. Qed.
Print Assumptions C20_handler_table.

Theorem C20_2xx_only_if_valid : forall method mm au sim sf l a m,
  handler method mm au sim sf = S200 l a m ->
  method = GET /\ maxmem_is mm m /\ augment_is au a /\ similarity_is sim l /\ sf m a = false.
Proof. exact WebProofs.ok_only_if_valid. Qed.
Print Assumptions C20_2xx_only_if_valid.

Theorem C20_invalid_is_4xx : forall method mm au sim sf,
  (forall m a, sf m a = false) ->
  (method <> GET \/ maxmem_bad mm \/ augment_bad au \/ similarity_bad sim) ->
  status_class (handler method mm au sim sf) = 405 \/ status_class (handler method mm au sim sf) = 400.
Proof. exact WebProofs.invalid_is_4xx. Qed.
Print Assumptions C20_invalid_is_4xx.

Theorem C20_invalid_status : forall method mm au sim sf,
  (forall m a, sf m a = false) ->
  (method <> GET -> handler method mm au sim sf = S405) /\
  (method = GET -> maxmem_bad mm \/ augment_bad au \/ similarity_bad sim -> handler method mm au sim sf = S400).
Proof. exact WebProofs.invalid_status. Qed.
Print Assumptions C20_invalid_status.

Theorem C20_valid_get_ok : forall method mm au sim sf m a l,
  method = GET -> maxmem_is mm m -> augment_is au a -> similarity_is sim l -> sf m a = false ->
  handler method mm au sim sf = S200 l a m.
Proof. exact WebProofs.valid_get_ok. Qed.
Print Assumptions C20_valid_get_ok.

(* the scan (500) is decided before the similarity value is looked at *)
Theorem C20_scan_failure_is_500 : forall method mm au sim sf m a,
  method = GET -> maxmem_is mm m -> augment_is au a -> sf m a = true ->
  handler method mm au sim sf = S500.
Proof. exact WebProofs.scan_failure_is_500. Qed.
Print Assumptions C20_scan_failure_is_500.

(* ---- Atoi ---- *)
Theorem C20_atoi_roundtrip : forall z, (min_int64 <= z <= max_int64)%Z -> atoi (Z_to_dec z) = Some z.
Proof. exact WebProofs.atoi_Z_to_dec. Qed.
Print Assumptions C20_atoi_roundtrip.

Theorem C20_atoi_accepts_only : forall s z, atoi s = Some z ->
  (min_int64 <= z <= max_int64)%Z /\
  exists neg ds, (s = ds /\ neg = false \/ s = 43%N :: ds /\ neg = false \/ s = 45%N :: ds /\ neg = true) /\
                 ds <> [] /\ forallb is_digit ds = true /\
                 z = if neg then Z.opp (Z.of_N (dec_value ds)) else Z.of_N (dec_value ds).
Proof. exact WebProofs.atoi_some. Qed.
Print Assumptions C20_atoi_accepts_only.

Theorem C20_atoi_rejects_empty_and_lone_sign :
  atoi [] = None /\ atoi (s2b "-") = None /\ atoi (s2b "+") = None.
Proof. exact WebProofs.atoi_rejects_empty_and_lone_sign. Qed.
Print Assumptions C20_atoi_rejects_empty_and_lone_sign.

Theorem C20_atoi_rejects_nondigit : forall s c,
  is_digit c = false ->
  (In c (tl s) \/ (exists r, s = c :: r /\ c <> 45%N /\ c <> 43%N)) -> atoi s = None.
Proof. exact WebProofs.atoi_rejects_nondigit. Qed.
Print Assumptions C20_atoi_rejects_nondigit.

Theorem C20_atoi_rejects_overflow : forall ds, forallb is_digit ds = true ->
  ((max_int64 < Z.of_N (dec_value ds))%Z -> atoi ds = None /\ atoi (43%N :: ds) = None) /\
  ((- min_int64 < Z.of_N (dec_value ds))%Z -> atoi (45%N :: ds) = None).
Proof. exact WebProofs.atoi_rejects_overflow. Qed.
Print Assumptions C20_atoi_rejects_overflow.

(* ---- snapshot(): the grow-and-retry loop ---- *)
Theorem C20_capture : forall maxmem dlen, (maxmem <= max_capture_mem)%Z ->
  exists buflen n, capture maxmem dlen = Some (buflen, n) /\
    (mib <= buflen <= Z.max maxmem mib)%Z /\
    n = Z.min dlen buflen /\
    (n = dlen <-> dlen <= buflen)%Z /\
    (n < buflen <-> dlen < buflen)%Z /\
    (dlen < Z.max maxmem mib -> n = dlen /\ n < buflen)%Z /\
    (n < buflen \/ buflen = Z.max maxmem mib)%Z /\
    (buflen = mib \/ buflen <= 2 * dlen)%Z.
Proof. exact WebProofs.capture_spec. Qed.
Print Assumptions C20_capture.

Theorem C20_capture_int64 : forall maxmem dlen, (maxmem <= max_int64)%Z ->
  exists buflen n, capture maxmem dlen = Some (buflen, n).
Proof. exact WebProofs.capture_int64. Qed.
Print Assumptions C20_capture_int64.

(* ---- examples ---- *)
Definition never (_ : Z) (_ : bool) : bool := false.
Definition always (_ : Z) (_ : bool) : bool := true.
Definition h m mm au sim sf := handler (s2b m) (s2b mm) (s2b au) (s2b sim) sf.

Example C20_ex_default : h "GET" "" "" "" never = S200 AnyPointer true 67108864.
Proof. vm_compute. reflexivity. Qed.
Example C20_ex_all : h "GET" "2097152" "0" "anyvalue" never = S200 AnyValue false 2097152.
Proof. vm_compute. reflexivity. Qed.
Example C20_ex_post : h "POST" "" "" "" never = S405 /\ h "get" "" "" "" never = S405 /\ h "" "" "" "" never = S405.
Proof. vm_compute. repeat split; reflexivity. Qed.
Example C20_ex_bad_maxmem : h "GET" "1e6" "" "" never = S400 /\ h "GET" "9223372036854775808" "" "" never = S400 /\
                            h "GET" "1_000" "" "" never = S400 /\ h "GET" " 1" "" "" never = S400.
Proof. vm_compute. repeat split; reflexivity. Qed.
Example C20_ex_bad_augment : h "GET" "" "2" "" never = S400 /\ h "GET" "" "-1" "" never = S400 /\
                             h "GET" "" "true" "" never = S400 /\ h "GET" "" "+1" "" never = S200 AnyPointer true 67108864.
Proof. vm_compute. repeat split; reflexivity. Qed.
Example C20_ex_bad_similarity : h "GET" "" "" "AnyValue" never = S400 /\ h "GET" "" "" "exact" never = S400.
Proof. vm_compute. repeat split; reflexivity. Qed.
Example C20_ex_scan_fails : h "GET" "" "" "bogus" always = S500 /\ h "GET" "x" "" "" always = S400.
Proof. vm_compute. repeat split; reflexivity. Qed.
(* a negative maxmem is a valid integer: snapshot() clamps it to 1 MiB *)
Example C20_ex_negative_maxmem : h "GET" "-5" "" "" never = S200 AnyPointer true (-5) /\
                                 capture (-5) 100 = Some (mib, 100%Z).
Proof. vm_compute. split; reflexivity. Qed.

Example C20_ex_atoi : atoi (s2b "-9223372036854775808") = Some min_int64 /\
                      atoi (s2b "-9223372036854775809") = None /\
                      atoi (s2b "9223372036854775807") = Some max_int64 /\
                      atoi (s2b "9223372036854775808") = None /\
                      atoi (s2b "+007") = Some 7%Z /\ atoi (s2b "-0") = Some 0%Z /\
                      atoi (s2b "--1") = None /\ atoi (s2b "0x10") = None /\ atoi (s2b "1 ") = None.
Proof. vm_compute. repeat split; reflexivity. Qed.

(* 3 MiB dump, 64 MiB limit: 1 -> 2 -> 4 MiB, whole dump *)
Example C20_ex_capture_grow : capture 67108864 3145728 = Some (4194304, 3145728)%Z.
Proof. vm_compute. reflexivity. Qed.
(* 100 MiB dump, 64 MiB limit: truncated at the limit *)
Example C20_ex_capture_trunc : capture 67108864 104857600 = Some (67108864, 67108864)%Z.
Proof. vm_compute. reflexivity. Qed.
(* limit not a power of two *)
Example C20_ex_capture_odd : capture 3000000 2999999 = Some (3000000, 2999999)%Z /\
                             capture 3000000 3000000 = Some (3000000, 3000000)%Z.
Proof. vm_compute. split; reflexivity. Qed.
(* the bound of C20_capture is tight for the model's 64 rounds *)
Example C20_ex_capture_fuel : capture (max_capture_mem + 1) (max_capture_mem + 1) = None /\
                              capture max_capture_mem max_capture_mem = Some (max_capture_mem, max_capture_mem).
Proof. vm_compute. split; reflexivity. Qed.
