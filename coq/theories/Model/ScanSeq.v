(* Model/ScanSeq.v — the documented resume protocol (stack/example_test.go
   Example_stream, internal/main.go:149): call ScanSnapshot again on
   MultiReader(suffix, rest) until EOF or a reader failure; scan errors do not
   stop the iteration (lenient protocol, DESIGN.md C07). Delivery is one-shot
   here: by C09 the schedule does not matter. *)
From PP Require Import Base.Bytes Base.GoResult Model.Types Model.Reader Model.Scan Model.ScanSnapshot.

Definition seq_item := (option (list Goroutine) * bytes * go_err)%type.

Fixpoint scan_seq (fuel : nat) (content : bytes) (fin : io_err) : GoResult (list seq_item * bytes) :=
  match fuel with
  | O => Ok ([], content)
  | S f =>
      match scan_snapshot false (mkSource content [] fin) with
      | Panic m => Panic m
      | Ok res =>
          let item := (snap res, fwd res, rerr_out res) in
          match rerr_out res with
          | EIo _ => Ok ([item], suffix res)
          | _ =>
              match scan_seq f (suffix res ++ rest (unread res)) fin with
              | Panic m => Panic m
              | Ok (l, r) => Ok (item :: l, r)
              end
          end
      end
  end.
