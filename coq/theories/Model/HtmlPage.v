(* Model/HtmlPage.v — byte-exact model of the WHOLE HTML document written by
   Aggregated.ToHTML / Snapshot.ToHTML (stack/html.go, template
   stack/goroutines.tpl as embedded in stack/data.go).

     page = head  ++  content region  ++  metadata list  ++  legend  ++  footer  ++  tail

   head      <!DOCTYPE html> <meta>s <title> <link rel="shortcut icon" href="data:image/gif;base64,{{.Favicon}}"/>
             <style> ... </style>: literal text (Model/HtmlTpl.v, GENERATED from the template) around one hole,
             the constant favicon of stack/data.go.  It stands in a URL attribute after a non-empty literal prefix:
             html/template applies urlnormalizer then attrescaper — the pipeline of every other href, an Href piece
             (every '+' of the base64 text becomes  &#43; ).
   content   <div id="content"> ... </div>: Model/HtmlDoc.v.
   metadata  <li>Created on {{.Now.String}}</li> <li>{{.Version}}</li>, one or two GOROOT items
             ({{if and .Snapshot.LocalGOROOT (ne .Snapshot.RemoteGOROOT .Snapshot.LocalGOROOT)}}),
             ONE item  GOPATH: {{template "Join" .Snapshot.LocalGOPATHs}}  (the paths joined with ", "),
             {{if .Snapshot.LocalGomods}} a nested list with one item  path: import  per entry of the map, ranged over
             in SORTED KEY ORDER (text/template sorts map keys; strings compare bytewise), and <li>GOMAXPROCS: n</li>.
             Every hole is a string in a text node: html/template applies htmlEscaper (html_escape), a Text piece;
             GOMAXPROCS is an int, a Num piece.  Snapshot.RemoteGOPATHs is NOT rendered at all.
   legend    literal.
   footer    {{.Footer}}: the [footer] argument of ToHTML, of type template.HTML: in a text node html/template
             passes a template.HTML value through UNCHANGED.  It is TRUSTED INPUT of the API (the caller's own
             markup), modelled as the piece  Raw h.
   tail      <div class="bottom-padding"></div> LF, literal.

   toHTML reads three values from the process: runtime.Version(), runtime.GOMAXPROCS(0) and
   time.Now().Truncate(time.Second) (rendered with Time.String).  They are the parameters pe_ver, pe_maxprocs
   and pe_now of [page_env], together with the footer.  The fields of the Snapshot other than Goroutines are
   [snap_meta]; Go maps are association lists, sorted here before they are ranged over.

   Definitions only; theorems in Proofs/HtmlPageProofs.v.  Validated byte for byte against the real output
   (Go 1.23.5), see notes/htmldoc-validation. *)
From PP Require Import Base.Bytes Base.BytesX Base.Num Base.GoResult Model.Types Model.Bucket Model.Html Model.UI Model.HtmlDoc Model.HtmlTpl.

(* what toHTML takes from the process and from its caller *)
Record page_env := mkPageEnv {
  pe_ver : bytes;        (* runtime.Version(): the {{.Version}} item AND the tag of the stdlib links of the content region *)
  pe_now : bytes;        (* time.Now().Truncate(time.Second).String() *)
  pe_maxprocs : Z;       (* runtime.GOMAXPROCS(0) *)
  pe_footer : bytes      (* the footer argument, template.HTML: trusted, copied verbatim *)
}.

(* the Snapshot without its goroutines (stack/context.go) *)
Record snap_meta := mkSnapMeta {
  LocalGOROOT : bytes;
  LocalGOPATHs : list bytes;                 (* []string: rendered in slice order *)
  RemoteGOROOT : bytes;
  RemoteGOPATHs : list (bytes * bytes);      (* map[string]string: NOT rendered *)
  LocalGomods : list (bytes * bytes)         (* map[string]string: root directory -> import path *)
}.

Definition empty_meta : snap_meta := mkSnapMeta [] [] [] [] [].

(* a piece of the page: a piece of the template (literal or escaped hole) or trusted raw HTML *)
Inductive ppiece :=
| Tpl (p : piece)
| Raw (h : bytes).

Definition flatten_ppiece (pp : ppiece) : bytes :=
  match pp with
  | Tpl p => flatten_piece p
  | Raw h => h
  end.

Definition flatten_ppieces (l : list ppiece) : bytes := flat_map flatten_ppiece l.

(* ------------------------------------------------------------------ *)
(* ranging over a map: sorted by key                                   *)
(* ------------------------------------------------------------------ *)
(* Keys of a Go map are unique, so the order of the keys decides.  The value is
   used as a tie-break only to make the function total on arbitrary association
   lists (then it does not depend on the order of the list at all). *)
Definition kv_le (a b : bytes * bytes) : bool :=
  match bcmp (fst a) (fst b) with
  | Lt => true
  | Gt => false
  | Eq => match bcmp (snd a) (snd b) with Gt => false | _ => true end
  end.

Fixpoint kv_insert (x : bytes * bytes) (l : list (bytes * bytes)) : list (bytes * bytes) :=
  match l with
  | [] => [x]
  | y :: r => if kv_le x y then x :: y :: r else y :: kv_insert x r
  end.

Fixpoint kv_sort (l : list (bytes * bytes)) : list (bytes * bytes) :=
  match l with
  | [] => []
  | x :: r => kv_insert x (kv_sort r)
  end.

(* ------------------------------------------------------------------ *)
(* the head                                                            *)
(* ------------------------------------------------------------------ *)
Definition head_pieces : list piece :=
  [Lit tpl_doctype; Lit tpl_head_a; Href tpl_favicon; Lit tpl_head_b; Lit tpl_style_a; Lit tpl_style_b].

(* ------------------------------------------------------------------ *)
(* the metadata list                                                   *)
(* ------------------------------------------------------------------ *)
(* and .Snapshot.LocalGOROOT (ne .Snapshot.RemoteGOROOT .Snapshot.LocalGOROOT) *)
Definition two_goroots (m : snap_meta) : bool :=
  nonempty (LocalGOROOT m) && negb (beq (RemoteGOROOT m) (LocalGOROOT m)).

Definition goroot_pieces (m : snap_meta) : list piece :=
  if two_goroots m then
    [Lit tpl_goroot_remote; Text (RemoteGOROOT m); Lit tpl_goroot_local; Text (LocalGOROOT m); Lit tpl_li_end_goroot2]
  else
    [Lit tpl_goroot; Text (RemoteGOROOT m); Lit tpl_li_end_goroot1].

(* {{template "Join" l}}: the items, ", " between two of them *)
Fixpoint join_pieces (l : list bytes) : list piece :=
  match l with
  | [] => []
  | x :: r => Text x :: (if nonempty r then [Lit tpl_join_sep] else []) ++ join_pieces r
  end.

Definition gopath_pieces (m : snap_meta) : list piece :=
  [Lit tpl_gopath] ++ join_pieces (LocalGOPATHs m) ++ [Lit tpl_li_end_gopath].

Definition gomod_pieces (kv : bytes * bytes) : list piece :=
  [Lit tpl_gomod_li; Text (fst kv); Lit tpl_gomod_sep; Text (snd kv); Lit tpl_gomod_end].

(* {{if .Snapshot.LocalGomods}}: a non-empty map *)
Definition gomods_pieces (m : snap_meta) : list piece :=
  match kv_sort (LocalGomods m) with
  | [] => []
  | l => [Lit tpl_gomods_open] ++ flat_map gomod_pieces l ++ [Lit tpl_gomods_close]
  end.

Definition meta_pieces (env : page_env) (m : snap_meta) : list piece :=
  [Lit tpl_meta_open; Text (pe_now env); Lit tpl_li_next; Text (pe_ver env); Lit tpl_li_end_version] ++
  goroot_pieces m ++
  gopath_pieces m ++
  gomods_pieces m ++
  [Lit tpl_maxprocs; Num (pe_maxprocs env); Lit tpl_legend].

(* ------------------------------------------------------------------ *)
(* the page                                                            *)
(* ------------------------------------------------------------------ *)
(* [content] is the content region, <div id="content"> ... </div> *)
Definition page_of (env : page_env) (m : snap_meta) (content : list piece) : list ppiece :=
  map Tpl (head_pieces ++ content ++ meta_pieces env m) ++
  [Raw (pe_footer env); Tpl (Lit tpl_tail)].

(* Aggregated.ToHTML *)
Definition page_pieces_buckets (env : page_env) (m : snap_meta) (bs : list Bucket) : list ppiece :=
  page_of env m (content_pieces_buckets (pe_ver env) bs).

(* Snapshot.ToHTML *)
Definition page_pieces_goroutines (env : page_env) (m : snap_meta) (gs : list Goroutine) : list ppiece :=
  page_of env m (content_pieces_goroutines (pe_ver env) gs).

Definition render_page_buckets (env : page_env) (m : snap_meta) (bs : list Bucket) : bytes :=
  flatten_ppieces (page_pieces_buckets env m bs).

Definition render_page_goroutines (env : page_env) (m : snap_meta) (gs : list Goroutine) : bytes :=
  flatten_ppieces (page_pieces_goroutines env m gs).

(* snapshot.Aggregate(lvl).ToHTML: the page as a function of the snapshot, the level and the environment
   (Aggregate copies the Snapshot pointer into the Aggregated, so the metadata is the snapshot's).
   [shuffle] is the iteration order of the map inside Aggregate (Model/Bucket.v): C06 proves that the
   buckets do not depend on it. *)
Definition render_page_aggregate (shuffle : nat -> list nat -> list nat) (env : page_env) (m : snap_meta)
    (lvl : Similarity) (gs : list Goroutine) : GoResult bytes :=
  match aggregate shuffle lvl gs with
  | Ok bs => Ok (render_page_buckets env m bs)
  | Panic e => Panic e
  end.
