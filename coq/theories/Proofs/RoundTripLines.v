(* Proofs/RoundTripLines.v — C01, lines: every kind of line written by the
   printer of Spec/Printer.v is recognised by the matcher the scanner applies
   to it, with the submatches the printer put in (and is NOT recognised by the
   matchers the scanner tries before). *)
From PP Require Import Base.Bytes Base.BytesX Base.Num Base.GoResult Model.Types Model.Lines
  Model.FuncInit Model.ParseArgs Spec.Printer Proofs.RoundTripNum.

Local Open Scope N_scope.

(* ------------------------------------------------------------------ *)
(* 0. generic facts on byte strings                                    *)
(* ------------------------------------------------------------------ *)

Lemma no_byte_app : forall c a b, no_byte c (a ++ b) = no_byte c a && no_byte c b.
Proof.
  intros c a b. unfold no_byte. rewrite existsb_app, negb_orb. reflexivity.
Qed.

Lemma no_byte_cons : forall c x s, no_byte c (x :: s) = negb (N.eqb c x) && no_byte c s.
Proof. intros c x s. unfold no_byte. cbn [existsb]. rewrite negb_orb. reflexivity. Qed.

Lemma no_byte_forallb : forall c s, no_byte c s = forallb (fun x => negb (N.eqb c x)) s.
Proof.
  intros c s. induction s as [|x s IH]; [reflexivity|].
  rewrite no_byte_cons, IH. reflexivity.
Qed.

Lemma forallb_impl : forall (p q : N -> bool) s,
  (forall x, p x = true -> q x = true) -> forallb p s = true -> forallb q s = true.
Proof.
  intros p q s Hpq. induction s as [|x s IH]; [reflexivity|]. cbn [forallb].
  intros H. apply andb_true_iff in H as [H1 H2]. rewrite (Hpq _ H1), (IH H2). reflexivity.
Qed.

Lemma forallb_no_byte : forall p c s,
  p c = false -> forallb p s = true -> no_byte c s = true.
Proof.
  intros p c s Hc H. rewrite no_byte_forallb. revert H. apply forallb_impl.
  intros x Hx. destruct (N.eqb c x) eqn:E; [|reflexivity].
  apply N.eqb_eq in E. subst x. congruence.
Qed.

Lemma no_byte_In : forall c s, no_byte c s = true -> ~ In c s.
Proof.
  intros c s H Hin. unfold no_byte in H. apply negb_true_iff in H.
  assert (existsb (N.eqb c) s = true).
  { apply existsb_exists. exists c. split; [exact Hin|apply N.eqb_refl]. }
  congruence.
Qed.

(* what [span] returns when the run and its end are known *)
Definition hd_fails (p : N -> bool) (t : bytes) : Prop :=
  match t with [] => True | x :: _ => p x = false end.

Lemma span_app : forall p a t, forallb p a = true -> hd_fails p t -> span p (a ++ t) = (a, t).
Proof.
  intros p a t Ha Ht. induction a as [|x a IH].
  - cbn [app]. destruct t as [|y t]; [reflexivity|]. cbn [span]. cbn in Ht. rewrite Ht. reflexivity.
  - cbn [forallb] in Ha. apply andb_true_iff in Ha as [Hx Ha].
    cbn [app span]. rewrite Hx, (IH Ha). reflexivity.
Qed.

Lemma span_spec : forall p s a b, span p s = (a, b) -> s = a ++ b /\ forallb p a = true.
Proof.
  intros p s. induction s as [|x s IH]; intros a b H.
  - cbn in H. injection H as <- <-. split; reflexivity.
  - cbn [span] in H. destruct (p x) eqn:Hx.
    + destruct (span p s) as [a' b'] eqn:E. injection H as <- <-.
      destruct (IH a' b' eq_refl) as [-> Hf]. split; [reflexivity|].
      cbn [forallb]. rewrite Hx, Hf. reflexivity.
    + injection H as <- <-. split; reflexivity.
Qed.

Lemma strip_prefix_app : forall lit s, strip_prefix lit (lit ++ s) = Some s.
Proof.
  intros lit s. induction lit as [|y lit IH]; [reflexivity|].
  cbn [app strip_prefix]. rewrite N.eqb_refl. exact IH.
Qed.

Lemma strip_prefix_spec : forall lit s t, strip_prefix lit s = Some t -> s = lit ++ t.
Proof.
  induction lit as [|y lit IH]; intros s t H.
  - cbn in H. injection H as <-. reflexivity.
  - destruct s as [|x s]; [discriminate|]. cbn [strip_prefix] in H.
    destruct (N.eqb x y) eqn:E; [|discriminate]. apply N.eqb_eq in E. subst y.
    cbn [app]. f_equal. apply IH. exact H.
Qed.

Lemma has_prefix_app : forall p s, has_prefix (p ++ s) p = true.
Proof.
  intros p s. induction p as [|y p IH]; [destruct s; reflexivity|].
  cbn [app has_prefix]. rewrite N.eqb_refl. exact IH.
Qed.

Lemma skipn_app_exact : forall (A : Type) (a b : list A), skipn (List.length a) (a ++ b) = b.
Proof. intros A a b. induction a as [|x a IH]; [reflexivity|]. cbn [List.length app skipn]. exact IH. Qed.

Lemma firstn_app_exact' : forall (A : Type) (a b : list A), firstn (List.length a) (a ++ b) = a.
Proof.
  intros A a b. induction a as [|x a IH]; [destruct b; reflexivity|].
  cbn [List.length app firstn]. f_equal. exact IH.
Qed.

Lemma has_suffix_app : forall a p, has_suffix (a ++ p) p = true.
Proof.
  intros a p. unfold has_suffix. rewrite app_length.
  replace (List.length a + List.length p - List.length p)%nat with (List.length a) by lia.
  rewrite skipn_app_exact, beq_refl.
  replace (Nat.leb (List.length p) (List.length a + List.length p)) with true
    by (symmetry; apply Nat.leb_le; lia).
  reflexivity.
Qed.

Lemma strip_suffix_app : forall a p, strip_suffix p (a ++ p) = Some a.
Proof.
  intros a p. unfold strip_suffix. rewrite has_suffix_app, app_length.
  replace (List.length a + List.length p - List.length p)%nat with (List.length a) by lia.
  rewrite firstn_app_exact'. reflexivity.
Qed.

Lemma has_suffix_spec : forall s p, has_suffix s p = true ->
  s = firstn (List.length s - List.length p) s ++ p.
Proof.
  intros s p H. unfold has_suffix in H. apply andb_true_iff in H as [_ H].
  apply beq_eq in H.
  pose proof (firstn_skipn (List.length s - List.length p) s) as E. rewrite H in E.
  symmetry. exact E.
Qed.

Lemma last_opt_app_cons : forall (A : Type) (l : list A) x, last_opt (l ++ [x]) = Some x.
Proof.
  intros A l x. induction l as [|y l IH]; [reflexivity|].
  cbn [app]. destruct (l ++ [x]) eqn:E; [destruct l; discriminate|]. exact IH.
Qed.

Lemma removelast_app1 : forall (A : Type) (l : list A) x, removelast (l ++ [x]) = l.
Proof. intros A l x. rewrite removelast_app by discriminate. cbn. apply app_nil_r. Qed.

(* the last occurrence of c is where the c-free tail begins *)
Lemma last_index_byte_app : forall a c b,
  no_byte c b = true -> last_index_byte (a ++ c :: b) c = Some (List.length a).
Proof.
  intros a c b Hb.
  assert (Hnone : last_index_byte b c = None).
  { induction b as [|x b IH]; [reflexivity|]. rewrite no_byte_cons in Hb.
    apply andb_true_iff in Hb as [Hx Hb]. cbn [last_index_byte]. rewrite (IH Hb).
    apply negb_true_iff in Hx. rewrite N.eqb_sym, Hx. reflexivity. }
  induction a as [|x a IH].
  - cbn [app last_index_byte List.length]. rewrite Hnone, N.eqb_refl. reflexivity.
  - cbn [app last_index_byte List.length]. rewrite IH. reflexivity.
Qed.

Lemma last_index_byte_none : forall c b, no_byte c b = true -> last_index_byte b c = None.
Proof.
  intros c b Hb. induction b as [|x b IH]; [reflexivity|]. rewrite no_byte_cons in Hb.
  apply andb_true_iff in Hb as [Hx Hb]. cbn [last_index_byte]. rewrite (IH Hb).
  apply negb_true_iff in Hx. rewrite N.eqb_sym, Hx. reflexivity.
Qed.

(* ------------------------------------------------------------------ *)
(* 1. digits and hex digits                                            *)
(* ------------------------------------------------------------------ *)

Lemma dec_no_byte : forall c n, is_digit c = false -> no_byte c (N_to_dec n) = true.
Proof. intros c n Hc. apply (forallb_no_byte is_digit); [exact Hc|apply N_to_dec_digits]. Qed.

Lemma hex_no_byte : forall c n, is_lower_hex c = false -> no_byte c (N_to_hex false n) = true.
Proof. intros c n Hc. apply (forallb_no_byte is_lower_hex); [exact Hc|apply N_to_hex_lower]. Qed.

Lemma dec_nonempty_b : forall n, nonempty (N_to_dec n) = true.
Proof. intros n. pose proof (N_to_dec_nonempty n) as H. destruct (N_to_dec n); [congruence|reflexivity]. Qed.

Lemma hex_nonempty_b : forall n, nonempty (N_to_hex false n) = true.
Proof. intros n. pose proof (N_to_hex_nonempty n) as H. destruct (N_to_hex false n); [congruence|reflexivity]. Qed.

(* ------------------------------------------------------------------ *)
(* 2. the header line                                                  *)
(* ------------------------------------------------------------------ *)

Lemma wf_opaque_spec : forall s, wf_opaque s = true ->
  nonempty s = true /\ forallb is_nonspace s = true.
Proof.
  intros s H. unfold wf_opaque in H.
  apply andb_true_iff in H as [H H3]. apply andb_true_iff in H as [H1 H2].
  split; [destruct s; [discriminate|reflexivity]|].
  rewrite no_byte_forallb in H2. revert H2. apply forallb_impl.
  intros x Hx. unfold is_nonspace. rewrite N.eqb_sym. exact Hx.
Qed.

Lemma match_bracket_print : forall text,
  text <> [] -> no_byte 93 text = true ->
  match_bracket (s2b " [" ++ text ++ s2b "]:") = Some text.
Proof.
  intros text Hne H93. unfold match_bracket. rewrite strip_prefix_app.
  rewrite (span_app (fun c => negb (N.eqb c 93)) text (s2b "]:")).
  - destruct text; [congruence|]. reflexivity.
  - rewrite no_byte_forallb in H93. revert H93. apply forallb_impl.
    intros x Hx. rewrite N.eqb_sym. exact Hx.
  - reflexivity.
Qed.

Lemma match_gp_print : forall a rest,
  wf_annot (Some a) = true -> hd_fails is_nonspace rest ->
  strip_prefix (s2b " mp=") rest = None ->
  match_gp (print_annot (Some a) ++ rest) = Some rest.
Proof.
  intros [gp m mp] rest Hwf Hrest Hnomp. cbn [wf_annot an_gp an_m an_mp] in Hwf.
  apply andb_true_iff in Hwf as [Hwf Hmp]. apply andb_true_iff in Hwf as [Hgp Hm].
  apply wf_opaque_spec in Hgp as [Hgp1 Hgp2]. apply wf_opaque_spec in Hm as [Hm1 Hm2].
  unfold match_gp, print_annot. cbn [an_gp an_m an_mp].
  rewrite <- !app_assoc. rewrite strip_prefix_app.
  rewrite (span_app is_nonspace gp); [|exact Hgp2|reflexivity].
  rewrite Hgp1. cbn [negb]. rewrite strip_prefix_app.
  destruct mp as [z|].
  - apply wf_opaque_spec in Hmp as [Hz1 Hz2].
    rewrite <- !app_assoc.
    rewrite (span_app is_nonspace m); [|exact Hm2|reflexivity].
    rewrite Hm1. cbn [negb]. rewrite strip_prefix_app.
    rewrite (span_app is_nonspace z); [|exact Hz2|exact Hrest].
    rewrite Hz1. reflexivity.
  - cbn [app].
    rewrite (span_app is_nonspace m); [|exact Hm2|exact Hrest].
    rewrite Hm1. cbn [negb]. rewrite Hnomp. reflexivity.
Qed.

Theorem match_routine_header_print : forall ind id annot text,
  forallb is_space_tab ind = true -> wf_annot annot = true ->
  text <> [] -> no_byte 93 text = true ->
  match_routine_header
    (ind ++ s2b "goroutine " ++ N_to_dec id ++ print_annot annot ++ s2b " [" ++ text ++ s2b "]:")
  = Some (ind, N_to_dec id, text).
Proof.
  intros ind id annot text Hind Hannot Hne H93. unfold match_routine_header.
  rewrite (span_app is_space_tab ind); [|exact Hind|reflexivity].
  rewrite strip_prefix_app.
  assert (Hhd : hd_fails is_digit (print_annot annot ++ s2b " [" ++ text ++ s2b "]:")).
  { destruct annot as [a|]; reflexivity. }
  rewrite (span_app is_digit (N_to_dec id)); [|apply N_to_dec_digits|exact Hhd].
  rewrite dec_nonempty_b. cbn [negb].
  destruct annot as [a|].
  - rewrite match_gp_print; [|exact Hannot|reflexivity|reflexivity].
    rewrite match_bracket_print; [reflexivity|exact Hne|exact H93].
  - cbn [print_annot app].
    replace (match_gp (s2b " [" ++ text ++ s2b "]:")) with (@None bytes) by reflexivity.
    rewrite match_bracket_print; [reflexivity|exact Hne|exact H93].
Qed.
