(* Base/Bytes.v — byte strings as [list N] and the bytes/strings helpers of Go
   that the modelled code uses.  Definitions only (plus decidable equality
   lemmas that every later file needs). *)
From Coq Require Export List NArith ZArith Bool Lia Arith.
From Coq Require Export String Ascii.
Export ListNotations.

Definition byte := N.
Definition bytes := list N.

Definition s2b (s : string) : bytes := List.map N_of_ascii (list_ascii_of_string s).
Arguments s2b s%string_scope.

(* ---- equality and ordering (Go: ==, <, on strings; bytes.Equal) ---- *)
Fixpoint beq (a b : bytes) : bool :=
  match a, b with
  | [], [] => true
  | x :: a', y :: b' => N.eqb x y && beq a' b'
  | _, _ => false
  end.

Fixpoint bcmp (a b : bytes) : comparison :=
  match a, b with
  | [], [] => Eq
  | [], _ :: _ => Lt
  | _ :: _, [] => Gt
  | x :: a', y :: b' => match N.compare x y with Eq => bcmp a' b' | c => c end
  end.

Definition bltb (a b : bytes) : bool := match bcmp a b with Lt => true | _ => false end.

Lemma beq_refl a : beq a a = true.
Proof. induction a as [|x a IH]; simpl; [reflexivity|]. now rewrite N.eqb_refl, IH. Qed.

Lemma beq_eq a b : beq a b = true <-> a = b.
Proof.
  split.
  - revert b; induction a as [|x a IH]; intros [|y b]; simpl; intros H; try discriminate; [reflexivity|].
    apply andb_true_iff in H as [H1 H2]. apply N.eqb_eq in H1. subst. f_equal. now apply IH.
  - intros ->. apply beq_refl.
Qed.

Lemma beq_neq a b : beq a b = false <-> a <> b.
Proof.
  split.
  - intros H E. apply beq_eq in E. congruence.
  - intros H. destruct (beq a b) eqn:E; [|reflexivity]. apply beq_eq in E. contradiction.
Qed.

Lemma beq_sym a b : beq a b = beq b a.
Proof.
  destruct (beq a b) eqn:E.
  - apply beq_eq in E. subst. symmetry. apply beq_refl.
  - symmetry. apply beq_neq. apply beq_neq in E. congruence.
Qed.

(* ---- prefixes, suffixes, searching ---- *)
Fixpoint has_prefix (s p : bytes) : bool :=
  match p, s with
  | [], _ => true
  | y :: p', x :: s' => N.eqb x y && has_prefix s' p'
  | _ :: _, [] => false
  end.

Definition has_suffix (s p : bytes) : bool :=
  Nat.leb (List.length p) (List.length s) && beq (skipn (List.length s - List.length p) s) p.

(* strings.IndexByte: index of the first occurrence *)
Fixpoint index_byte (s : bytes) (c : N) : option nat :=
  match s with
  | [] => None
  | x :: s' => if N.eqb x c then Some 0 else option_map S (index_byte s' c)
  end.

(* strings.LastIndexByte *)
Fixpoint last_index_byte (s : bytes) (c : N) : option nat :=
  match s with
  | [] => None
  | x :: s' =>
      match last_index_byte s' c with
      | Some i => Some (S i)
      | None => if N.eqb x c then Some 0 else None
      end
  end.

(* strings.Index: first occurrence of a non-empty separator *)
Fixpoint index_sub (s sep : bytes) : option nat :=
  if has_prefix s sep then Some 0 else
  match s with
  | [] => None
  | _ :: s' => option_map S (index_sub s' sep)
  end.

Definition contains (s sep : bytes) : bool := match index_sub s sep with Some _ => true | None => false end.

Fixpoint count_byte (s : bytes) (c : N) : nat :=
  match s with [] => 0 | x :: s' => (if N.eqb x c then 1 else 0) + count_byte s' c end.

(* bytes.Split(s, sep) for a NON-EMPTY separator: never returns [] *)
Fixpoint split_go (fuel : nat) (s sep cur : bytes) : list bytes :=
  match fuel with
  | 0 => [rev cur]
  | S f =>
    match s with
    | [] => [rev cur]
    | x :: s' =>
        if has_prefix s sep then rev cur :: split_go f (skipn (List.length sep) s) sep []
        else split_go f s' sep (x :: cur)
    end
  end.
Definition split (s sep : bytes) : list bytes := split_go (S (List.length s)) s sep [].

Fixpoint join (l : list bytes) (sep : bytes) : bytes :=
  match l with
  | [] => []
  | [x] => x
  | x :: l' => x ++ sep ++ join l' sep
  end.

(* slicing helpers: total versions; the Go-panicking variants are in GoResult.v *)
Definition slice_from (s : bytes) (i : nat) : bytes := skipn i s.
Definition slice_to (s : bytes) (i : nat) : bytes := firstn i s.

Definition is_digit (c : N) : bool := N.leb 48 c && N.leb c 57.
Definition is_lower_hex (c : N) : bool := is_digit c || (N.leb 97 c && N.leb c 102).
Definition is_hex (c : N) : bool := is_lower_hex c || (N.leb 65 c && N.leb c 70).
Definition is_space_tab (c : N) : bool := N.eqb c 32 || N.eqb c 9.

Definition LF : N := 10.
Definition CR : N := 13.

Fixpoint last_opt {A} (l : list A) : option A :=
  match l with [] => None | [x] => Some x | _ :: l' => last_opt l' end.

(* replace the last element *)
Fixpoint upd_last {A} (f : A -> A) (l : list A) : list A :=
  match l with [] => [] | [x] => [f x] | x :: l' => x :: upd_last f l' end.

Fixpoint upd_nth {A} (n : nat) (f : A -> A) (l : list A) : list A :=
  match l, n with
  | [], _ => []
  | x :: l', 0 => f x :: l'
  | x :: l', S n' => x :: upd_nth n' f l'
  end.
