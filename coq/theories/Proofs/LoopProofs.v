(* Proofs/LoopProofs.v — the ScanSnapshot loop: totality (C03), stream
   conservation (C02), streaming progress (C11).

   Method: [Run ls log out] is the big-step relation of scan_loop started in
   [ls], instrumented with the log of the lines handed to the scanner (one
   [item] per line: the line, the reader error that came with it, the Read
   events that produced it, the scanner state before and after, the result of
   scan, the classification consumed / forwarded / rejected).  [loop_run]
   shows that scan_loop with enough fuel returns a result related by Run
   (ghost instrumentation proved faithful once); every property is then an
   induction on Run. *)
From PP Require Import Base.Bytes Base.BytesX Base.Num Base.GoResult Model.Types Model.Lines Model.Reader Model.FuncInit Model.Scan Model.Names Model.ScanSnapshot.
From PP Require Import Spec.ReaderSpec Spec.LoopSpec Proofs.ReaderBase Proofs.ScanErrShape Proofs.ReaderProofs Proofs.ScanInv Proofs.LoopBase.
From Coq Require Import String.

(* ------------------------------------------------------------------ *)
(* 1. the post-condition of read_line, with its Read events            *)

Definition RL (r : reader) (src : source) (d : bytes) (e : option io_err)
              (r' : reader) (src' : source) (evs : list event) : Prop :=
  read_line r src = Ok (d, e, r', src', evs) /\
  step_post r src d r' src' /\ line_shape d e r' src' /\
  (stall_free (sched src) -> rinv_s r src ->
     rinv_s r' src' /\ forall x, e = Some x -> stream r' src' = [] /\ x = final src') /\
  reads_ok (pending r) (rest src) evs /\
  rest src' = skipn (delivered evs) (rest src) /\
  d ++ pending r' = pending r ++ firstn (delivered evs) (rest src).

Lemma RL_intro r src : rinv r src -> exists d e r' src' evs, RL r src d e r' src' evs.
Proof.
  intros Hinv.
  destruct (read_line_post r src Hinv) as (d & e & r' & src' & evs & Q1 & Q2 & Q3 & Q4).
  destruct (read_line_trace _ _ _ _ _ _ _ Q1) as (T1 & T2 & T3).
  exists d, e, r', src', evs. unfold RL. tauto.
Qed.

(* ------------------------------------------------------------------ *)
(* 2. the instrumented big-step relation                                *)


Definition classify (l : bool) (ss' : sstate) : kind :=
  if l then KConsumed else if state_eqb (st ss') looking then KForwarded else KRejected.

Record item := mkItem {
  it_line : bytes;              (* the line handed to scan *)
  it_rerr : option io_err;      (* the reader error that came with it *)
  it_reads : list event;        (* the Read events issued to obtain it *)
  it_pre : sstate;              (* scanner state before *)
  it_post : sstate;             (* ... and after *)
  it_flag : bool;               (* scan's "line processed" result *)
  it_serr : option scan_err;    (* scan's error *)
  it_kind : kind }.

Definition is_fwd (it : item) : bool := match it_kind it with KForwarded => true | _ => false end.
Definition is_rej (it : item) : bool := match it_kind it with KRejected => true | _ => false end.
Definition not_rej (it : item) : bool := negb (is_rej it).

(* facts about one handled line, independent of the loop state *)
Definition item_ok (it : item) : Prop :=
  it_line it <> [] /\
  match it_rerr it with
  | None => exists a, it_line it = a ++ [LF] /\ ~ In LF a
  | Some _ => ~ In LF (it_line it)
  end /\
  Inv (it_pre it) /\
  scan (it_pre it) (it_line it) = Ok (it_post it, it_flag it, it_serr it) /\
  Post (it_pre it) (it_post it) (it_flag it) (it_serr it) /\
  (it_serr it <> None -> state_eqb (st (it_post it)) looking = false) /\
  it_kind it = classify (it_flag it) (it_post it).

(* the error returned by the loop for a line *)
Definition line_err_of (e : option io_err) (e1 : option scan_err) : go_err :=
  let err0 := match e with None => ENil | Some x => EIo x end in
  match e1 with
  | Some x => if io_is_nil_or_eof e then EScan x else err0
  | None => err0
  end.

Definition next_ls (ls : loop_state) (it : item) (r' : reader) (src' : source) : loop_state :=
  match it_kind it with
  | KForwarded =>
      mkLoop (it_post it) r' src' (l_fwd ls ++ it_line it)
             (((l_trace ls ++ it_reads it) ++ [EvLine (it_line it)]) ++ [EvWrite (it_line it)])
             (S (l_lines ls))
  | _ =>
      mkLoop (it_post it) r' src' (l_fwd ls)
             ((l_trace ls ++ it_reads it) ++ [EvLine (it_line it)])
             (S (l_lines ls))
  end.

Definition line_step (ls : loop_state) (it : item) (r' : reader) (src' : source) : Prop :=
  state_eqb (st (l_ss ls)) done = false /\
  it_pre it = l_ss ls /\
  RL (l_r ls) (l_src ls) (it_line it) (it_rerr it) r' src' (it_reads it) /\
  item_ok it.

Definition outcome := (loop_state * go_err * option bytes)%type.

Inductive Run : loop_state -> list item -> outcome -> Prop :=
| R_done ls :
    state_eqb (st (l_ss ls)) done = true ->
    Run ls [] (ls, ENil, None)
| R_eof ls x r' src' evs :
    state_eqb (st (l_ss ls)) done = false ->
    RL (l_r ls) (l_src ls) [] (Some x) r' src' evs ->
    Run ls [] (mkLoop (l_ss ls) r' src' (l_fwd ls) (l_trace ls ++ evs) (l_lines ls), EIo x, None)
| R_rej ls it r' src' :
    line_step ls it r' src' -> it_kind it = KRejected ->
    Run ls [it] (next_ls ls it r' src', line_err_of (it_rerr it) (it_serr it),
                 Some (it_line it ++ pending r'))
| R_stop ls it r' src' x :
    line_step ls it r' src' -> it_kind it <> KRejected -> it_serr it = None ->
    it_rerr it = Some x ->
    Run ls [it] (next_ls ls it r' src', EIo x, None)
| R_cont ls it r' src' log out :
    line_step ls it r' src' -> it_kind it <> KRejected -> it_serr it = None ->
    it_rerr it = None ->
    Run (next_ls ls it r' src') log out ->
    Run ls (it :: log) out.

Definition lgood (ls : loop_state) : Prop := rinv (l_r ls) (l_src ls) /\ Inv (l_ss ls).
Definition lstream (ls : loop_state) : bytes := stream (l_r ls) (l_src ls).

(* scan_loop never panics, never runs out of fuel, and its result is a Run *)
Theorem loop_run : forall fuel ls,
  lgood ls -> List.length (lstream ls) < fuel ->
  exists out log, scan_loop fuel ls = Ok out /\ Run ls log out.
Proof.
  induction fuel as [|fuel IH]; intros ls [Hr Hi] Hfuel; [lia|].
  rewrite scan_loop_S.
  destruct (state_eqb (st (l_ss ls)) done) eqn:Hdone.
  { do 2 eexists. split; [reflexivity|]. now apply R_done. }
  destruct (RL_intro _ _ Hr) as (d & e & r' & src' & evs & HRL).
  pose proof HRL as (Q1 & (P1 & P2 & P3 & P4) & Q3 & _).
  rewrite Q1. cbv zeta.
  destruct d as [|c d0].
  { destruct e as [x|].
    - do 2 eexists. split; [reflexivity|]. now apply R_eof.
    - exfalso. destruct Q3 as (a & E & _). destruct a; discriminate E. }
  set (d := c :: d0) in *.
  destruct (scan_post (l_ss ls) d Hi) as (ss' & l & e1 & Hscan & HPost).
  rewrite Hscan.
  pose proof HPost as (Hi' & Hel & _ & _).
  set (it := mkItem d e evs (l_ss ls) ss' l e1 (classify l ss')).
  assert (Hok : item_ok it).
  { unfold item_ok, it. cbn [it_line it_rerr it_pre it_post it_flag it_serr it_kind].
    split; [discriminate|]. split; [|split; [exact Hi|split; [exact Hscan|split; [exact HPost|split; [|reflexivity]]]]].
    - destruct e as [x|]; cbn [line_shape] in Q3; [apply Q3|exact Q3].
    - intros Hne. destruct e1 as [x|]; [|contradiction].
      apply (scan_error_suffix _ _ _ _ _ Hscan). }
  assert (Hstep : line_step ls it r' src').
  { unfold line_step. cbn [it_line it_rerr it_reads it_pre]. tauto. }
  assert (Hgood' : lgood (next_ls ls it r' src')).
  { unfold lgood, next_ls. destruct (it_kind it); cbn [l_r l_src l_ss it_post it]; tauto. }
  assert (Hlt : e = None -> List.length (lstream (next_ls ls it r' src')) < fuel).
  { intros ->. destruct Q3 as (a & E & _).
    assert (Hl : lstream (next_ls ls it r' src') = stream r' src').
    { unfold lstream, next_ls. destruct (it_kind it); reflexivity. }
    rewrite Hl. unfold lstream in Hfuel. rewrite <- P3, E, !app_length in Hfuel.
    cbn [List.length] in Hfuel. lia. }
  (* the continuing / stopping cases when the line is not rejected *)
  assert (Hgo : e1 = None -> it_kind it <> KRejected ->
            exists out log,
              match (match e with None => ENil | Some x => EIo x end) with
              | ENil => scan_loop fuel (next_ls ls it r' src')
              | err => Ok (next_ls ls it r' src', err, None)
              end = Ok out /\ Run ls log out).
  { intros He1 Hk. destruct e as [x|].
    - do 2 eexists. split; [reflexivity|]. apply R_stop; try assumption; reflexivity.
    - destruct (IH _ Hgood' (Hlt eq_refl)) as (out & log & I1 & I2).
      exists out, (it :: log). split; [exact I1|].
      eapply R_cont; try eassumption; reflexivity. }
  destruct l.
  - assert (He1 : e1 = None).
    { destruct e1 as [x|]; [|reflexivity]. assert (F : true = false) by (apply Hel; discriminate). discriminate F. }
    subst e1.
    assert (Hk : it_kind it = KConsumed) by reflexivity.
    assert (Hnk : it_kind it <> KRejected) by (rewrite Hk; discriminate).
    destruct (Hgo eq_refl Hnk) as (out & log & G1 & G2).
    exists out, log. split; [|exact G2].
    unfold next_ls in G1. rewrite Hk in G1. cbn [it_post it_line it_reads it] in G1.
    destruct e; exact G1.
  - destruct (state_eqb (st ss') looking) eqn:Hlook; cbn [negb].
    + assert (He1 : e1 = None).
      { destruct e1 as [x|]; [|reflexivity].
        destruct (scan_error_suffix _ _ _ _ _ Hscan) as [_ F]. congruence. }
      subst e1.
      assert (Hk : it_kind it = KForwarded) by (unfold it, classify; cbn [it_kind]; now rewrite Hlook).
      assert (Hnk : it_kind it <> KRejected) by (rewrite Hk; discriminate).
      destruct (Hgo eq_refl Hnk) as (out & log & G1 & G2).
      exists out, log. split; [|exact G2].
      unfold next_ls in G1. rewrite Hk in G1. cbn [it_post it_line it_reads it] in G1.
      destruct e; exact G1.
    + assert (Hk : it_kind it = KRejected) by (unfold it, classify; cbn [it_kind]; now rewrite Hlook).
      do 2 eexists. split; [reflexivity|].
      pose proof (R_rej ls it r' src' Hstep Hk) as HR.
      unfold next_ls in HR. rewrite Hk in HR. cbn [it_post it_line it_reads it_rerr it_serr it] in HR.
      exact HR.
Qed.

(* ------------------------------------------------------------------ *)
(* 3. ScanSnapshot                                                     *)

Definition init_ls (src : source) : loop_state := mkLoop ss0 reader0 src [] [] 0.

Definition result_of (na : bool) (o : outcome) : scan_result :=
  match o with
  | (ls, err, sfx) =>
      let sfx' :=
        match sfx with
        | Some x => x
        | None => if state_eqb (st (l_ss ls)) done then pending (l_r ls) else []
        end in
      let gs := goroutines (l_ss ls) in
      mkResult (match gs with [] => None | _ => Some (if na then name_arguments gs else gs) end)
               (l_fwd ls) sfx' err (l_src ls) (l_trace ls) (st (l_ss ls)) (l_lines ls)
  end.

Theorem snapshot_run : forall na src,
  exists out log, scan_snapshot na src = Ok (result_of na out) /\ Run (init_ls src) log out.
Proof.
  intros na src.
  destruct (loop_run (S (S (List.length (rest src)))) (init_ls src)) as (out & log & H1 & H2).
  - split; [apply rinv_reader0|exact Inv_ss0].
  - unfold lstream, stream, init_ls. cbn [l_r l_src reader0 pending app]. lia.
  - exists out, log. split; [|exact H2].
    unfold scan_snapshot. fold (init_ls src). rewrite H1. destruct out as [[a err] sfx]. reflexivity.
Qed.

(* A. totality *)
Theorem scan_snapshot_total : forall na src, exists res, scan_snapshot na src = Ok res.
Proof.
  intros na src. destruct (snapshot_run na src) as (out & log & H & _). eexists. exact H.
Qed.

(* ------------------------------------------------------------------ *)
(* 4. projections and the fields of the next loop state                 *)

Definition o_ls (o : outcome) : loop_state := fst (fst o).
Definition o_err (o : outcome) : go_err := snd (fst o).
Definition o_sfx (o : outcome) : option bytes := snd o.

Definition fwd_bytes (it : item) : bytes := if is_fwd it then it_line it else [].
Definition item_events (it : item) : list event :=
  EvLine (it_line it) :: (if is_fwd it then [EvWrite (it_line it)] else []).

Lemma next_ss ls it r' src' : l_ss (next_ls ls it r' src') = it_post it.
Proof. unfold next_ls. destruct (it_kind it); reflexivity. Qed.
Lemma next_r ls it r' src' : l_r (next_ls ls it r' src') = r'.
Proof. unfold next_ls. destruct (it_kind it); reflexivity. Qed.
Lemma next_src ls it r' src' : l_src (next_ls ls it r' src') = src'.
Proof. unfold next_ls. destruct (it_kind it); reflexivity. Qed.
Lemma next_lines ls it r' src' : l_lines (next_ls ls it r' src') = S (l_lines ls).
Proof. unfold next_ls. destruct (it_kind it); reflexivity. Qed.
Lemma next_fwd ls it r' src' : l_fwd (next_ls ls it r' src') = l_fwd ls ++ fwd_bytes it.
Proof.
  unfold next_ls, fwd_bytes, is_fwd. destruct (it_kind it); cbn [l_fwd]; try reflexivity;
    now rewrite app_nil_r.
Qed.
Lemma next_trace ls it r' src' :
  l_trace (next_ls ls it r' src') = l_trace ls ++ it_reads it ++ item_events it.
Proof.
  unfold next_ls, item_events, is_fwd. destruct (it_kind it); cbn [l_trace];
    rewrite <- ?app_assoc; reflexivity.
Qed.
Lemma next_stream ls it r' src' : lstream (next_ls ls it r' src') = stream r' src'.
Proof. unfold lstream. now rewrite next_r, next_src. Qed.

Lemma line_step_stream ls it r' src' :
  line_step ls it r' src' -> it_line it ++ stream r' src' = lstream ls.
Proof. intros (_ & _ & (_ & (_ & _ & P3 & _) & _) & _). exact P3. Qed.

Lemma line_step_reads ls it r' src' :
  line_step ls it r' src' -> reads_ok (pending (l_r ls)) (rest (l_src ls)) (it_reads it).
Proof. intros (_ & _ & (_ & _ & _ & _ & T & _) & _). exact T. Qed.

Lemma line_step_err_nobuf ls it r' src' x :
  line_step ls it r' src' -> it_rerr it = Some x -> pending r' = [].
Proof.
  intros (_ & _ & (_ & _ & Q3 & _) & _) E. rewrite E in Q3. cbn [line_shape] in Q3. apply Q3.
Qed.

Lemma item_events_lines it : lines_of (item_events it) = [it_line it].
Proof. unfold item_events. destruct (is_fwd it); reflexivity. Qed.
Lemma item_events_written it : written (item_events it) = fwd_bytes it.
Proof. unfold item_events, fwd_bytes. destruct (is_fwd it); cbn [written]; now rewrite ?app_nil_r. Qed.
Lemma item_events_delivered it : delivered (item_events it) = 0.
Proof. unfold item_events. destruct (is_fwd it); reflexivity. Qed.

(* ------------------------------------------------------------------ *)
(* 5. bookkeeping along a run                                           *)

(* what is handed back: the suffix if there is one, else the buffer *)
Definition tail_of (o : outcome) : bytes :=
  match o_sfx o with Some x => x | None => pending (l_r (o_ls o)) end.

(* every byte is in exactly one of: a line that was consumed or forwarded,
   the bytes handed back, the unread part of the source *)
Lemma run_partition ls log out : Run ls log out ->
  List.concat (map it_line (filter not_rej log)) ++ tail_of out ++ rest (l_src (o_ls out)) = lstream ls.
Proof.
  induction 1 as [ls Hd|ls x r' src' evs Hd HRL|ls it r' src' Hst Hk|ls it r' src' x Hst Hk He1 He
                 |ls it r' src' log out Hst Hk He1 He Hrun IH];
    unfold tail_of, o_sfx, o_ls; cbn [fst snd filter map List.concat app].
  - reflexivity.
  - destruct HRL as (_ & (_ & _ & P3 & _) & _). cbn [l_r l_src]. exact P3.
  - unfold not_rej, is_rej. rewrite Hk. cbn [negb map List.concat app].
    rewrite next_src, <- app_assoc. apply (line_step_stream _ _ _ _ Hst).
  - assert (Hn : not_rej it = true) by (unfold not_rej, is_rej; destruct (it_kind it); try reflexivity; contradiction).
    rewrite Hn. cbn [map List.concat]. rewrite app_nil_r, next_r, next_src.
    apply (line_step_stream _ _ _ _ Hst).
  - assert (Hn : not_rej it = true) by (unfold not_rej, is_rej; destruct (it_kind it); try reflexivity; contradiction).
    rewrite Hn. cbn [map List.concat]. rewrite <- app_assoc.
    unfold tail_of, o_sfx, o_ls in IH. rewrite IH, next_stream.
    apply (line_step_stream _ _ _ _ Hst).
Qed.

(* without a suffix and outside [done], nothing is left in the buffer *)
Lemma run_nobuf ls log out : Run ls log out ->
  o_sfx out = None -> state_eqb (st (l_ss (o_ls out))) done = false -> pending (l_r (o_ls out)) = [].
Proof.
  induction 1 as [ls Hd|ls x r' src' evs Hd HRL|ls it r' src' Hst Hk|ls it r' src' x Hst Hk He1 He
                 |ls it r' src' log out Hst Hk He1 He Hrun IH];
    unfold o_sfx, o_ls; cbn [fst snd]; intros Hs Hnd.
  - congruence.
  - destruct HRL as (_ & _ & Q3 & _). cbn [line_shape] in Q3. cbn [l_r]. apply Q3.
  - discriminate Hs.
  - rewrite next_r. apply (line_step_err_nobuf _ _ _ _ _ Hst He).
  - now apply IH.
Qed.

Lemma run_fwd ls log out : Run ls log out ->
  l_fwd (o_ls out) = l_fwd ls ++ List.concat (map fwd_bytes log).
Proof.
  induction 1 as [ls Hd|ls x r' src' evs Hd HRL|ls it r' src' Hst Hk|ls it r' src' x Hst Hk He1 He
                 |ls it r' src' log out Hst Hk He1 He Hrun IH];
    unfold o_ls; cbn [fst snd map List.concat l_fwd]; rewrite ?app_nil_r; try reflexivity.
  - apply next_fwd.
  - apply next_fwd.
  - unfold o_ls in IH. rewrite IH, next_fwd, app_assoc. reflexivity.
Qed.

Lemma run_lines ls log out : Run ls log out -> l_lines (o_ls out) = l_lines ls + List.length log.
Proof.
  induction 1 as [ls Hd|ls x r' src' evs Hd HRL|ls it r' src' Hst Hk|ls it r' src' x Hst Hk He1 He
                 |ls it r' src' log out Hst Hk He1 He Hrun IH];
    unfold o_ls; cbn [fst snd List.length l_lines]; rewrite ?next_lines; try lia.
  unfold o_ls in IH. rewrite IH, next_lines. lia.
Qed.


Lemma noreads_app a b : noreads (a ++ b) = noreads a ++ noreads b.
Proof. apply filter_app. Qed.

Lemma reads_ok_noreads seen content evs : reads_ok seen content evs -> noreads evs = [].
Proof.
  revert seen content. induction evs as [|[lp n|d|d] evs IH]; intros seen content H;
    cbn [reads_ok] in *; try contradiction; [reflexivity|].
  destruct H as (_ & _ & H). cbn [noreads filter]. exact (IH _ _ H).
Qed.

Lemma item_events_noreads it : noreads (item_events it) = item_events it.
Proof. unfold item_events. destruct (is_fwd it); reflexivity. Qed.

(* the trace without its Read events is the log *)
Lemma run_events ls log out : Run ls log out ->
  noreads (l_trace (o_ls out)) = noreads (l_trace ls) ++ flat_map item_events log.
Proof.
  assert (Hstep : forall ls0 it r' src', line_step ls0 it r' src' ->
            noreads (l_trace (next_ls ls0 it r' src')) = noreads (l_trace ls0) ++ item_events it).
  { clear. intros ls it r' src' Hst. rewrite next_trace, !noreads_app.
    rewrite (reads_ok_noreads _ _ _ (line_step_reads _ _ _ _ Hst)), item_events_noreads. reflexivity. }
  induction 1 as [ls Hd|ls x r' src' evs Hd HRL|ls it r' src' Hst Hk|ls it r' src' x Hst Hk He1 He
                 |ls it r' src' log out Hst Hk He1 He Hrun IH];
    unfold o_ls; cbn [fst snd flat_map l_trace]; rewrite ?app_nil_r; try reflexivity.
  - destruct HRL as (_ & _ & _ & _ & T & _). rewrite noreads_app, (reads_ok_noreads _ _ _ T).
    now rewrite app_nil_r.
  - now apply Hstep.
  - now apply Hstep.
  - unfold o_ls in IH. rewrite IH, (Hstep _ _ _ _ Hst), app_assoc. reflexivity.
Qed.

Lemma lines_of_noreads t : lines_of (noreads t) = lines_of t.
Proof. induction t as [|[lp n|d|d] t IH]; cbn [noreads filter lines_of]; [reflexivity|exact IH| |exact IH]. unfold noreads in IH. now rewrite IH. Qed.

Lemma written_noreads t : written (noreads t) = written t.
Proof. induction t as [|[lp n|d|d] t IH]; cbn [noreads filter written]; [reflexivity|exact IH|exact IH|]. unfold noreads in IH. now rewrite IH. Qed.

Lemma lines_of_flat log : lines_of (flat_map item_events log) = map it_line log.
Proof.
  induction log as [|it log IH]; [reflexivity|].
  cbn [flat_map map]. now rewrite lines_of_app, item_events_lines, IH.
Qed.

Lemma written_flat log : written (flat_map item_events log) = List.concat (map fwd_bytes log).
Proof.
  induction log as [|it log IH]; [reflexivity|].
  cbn [flat_map map List.concat]. now rewrite written_app, item_events_written, IH.
Qed.

Lemma run_items ls log out : Run ls log out -> Forall item_ok log.
Proof.
  induction 1 as [ls Hd|ls x r' src' evs Hd HRL|ls it r' src' Hst Hk|ls it r' src' x Hst Hk He1 He
                 |ls it r' src' log out Hst Hk He1 He Hrun IH];
    try (constructor; [apply Hst|]); try constructor. exact IH.
Qed.

(* the scanner states are threaded through the log *)
Fixpoint linked (s : sstate) (log : list item) : Prop :=
  match log with
  | [] => True
  | it :: log' => it_pre it = s /\ linked (it_post it) log'
  end.
Fixpoint last_state (s : sstate) (log : list item) : sstate :=
  match log with
  | [] => s
  | it :: log' => last_state (it_post it) log'
  end.

Lemma run_linked ls log out : Run ls log out ->
  linked (l_ss ls) log /\ l_ss (o_ls out) = last_state (l_ss ls) log.
Proof.
  induction 1 as [ls Hd|ls x r' src' evs Hd HRL|ls it r' src' Hst Hk|ls it r' src' x Hst Hk He1 He
                 |ls it r' src' log out Hst Hk He1 He Hrun IH];
    unfold o_ls; cbn [fst snd linked last_state l_ss]; rewrite ?next_ss.
  - split; [exact I|reflexivity].
  - split; [exact I|reflexivity].
  - split; [|reflexivity]. split; [apply Hst|exact I].
  - split; [|reflexivity]. split; [apply Hst|exact I].
  - rewrite next_ss in IH. destruct IH as [I1 I2]. split; [|exact I2]. split; [apply Hst|exact I1].
Qed.

(* only the last line can be rejected, come with a reader error or a scan
   error; a rejected line ends the loop with the suffix *)
Definition cont_item (it : item) : Prop :=
  it_kind it <> KRejected /\ it_serr it = None /\ it_rerr it = None.

Lemma run_shape ls log out : Run ls log out ->
  match o_sfx out with
  | Some x => exists log' it, log = log' ++ [it] /\ Forall cont_item log' /\ it_kind it = KRejected /\
                              x = it_line it ++ pending (l_r (o_ls out)) /\
                              o_err out = line_err_of (it_rerr it) (it_serr it)
  | None => (Forall cont_item log /\ (o_err out = ENil \/ exists x, o_err out = EIo x /\ pending (l_r (o_ls out)) = [])) \/
            (exists log' it x, log = log' ++ [it] /\ Forall cont_item log' /\ it_kind it <> KRejected /\
                               it_serr it = None /\ it_rerr it = Some x /\ o_err out = EIo x)
  end.
Proof.
  induction 1 as [ls Hd|ls x r' src' evs Hd HRL|ls it r' src' Hst Hk|ls it r' src' x Hst Hk He1 He
                 |ls it r' src' log out Hst Hk He1 He Hrun IH];
    unfold o_sfx, o_ls, o_err in *; cbn [fst snd] in *.
  - left. split; [constructor|]. now left.
  - left. split; [constructor|]. right. exists x. split; [reflexivity|].
    destruct HRL as (_ & _ & Q3 & _). cbn [line_shape] in Q3. cbn [l_r]. apply Q3.
  - exists [], it. rewrite next_r. repeat split; try assumption; constructor.
  - right. exists [], it, x. repeat split; try assumption; constructor.
  - assert (Hc : cont_item it) by (unfold cont_item; tauto).
    destruct (snd out) as [sx|].
    + destruct IH as (log' & it' & E & F & K & X & Er). exists (it :: log'), it'.
      rewrite E. split; [reflexivity|]. split; [now constructor|]. tauto.
    + destruct IH as [[F Er]|(log' & it' & x & E & F & K)].
      * left. split; [now constructor|exact Er].
      * right. exists (it :: log'), it', x. rewrite E. split; [reflexivity|]. split; [now constructor|exact K].
Qed.

(* work: at most one line per LF, plus the unterminated tail *)
Lemma run_work ls log out : Run ls log out ->
  List.length log <= S (count_lf (lstream ls)) /\ List.length log <= List.length (lstream ls).
Proof.
  induction 1 as [ls Hd|ls x r' src' evs Hd HRL|ls it r' src' Hst Hk|ls it r' src' x Hst Hk He1 He
                 |ls it r' src' log out Hst Hk He1 He Hrun IH]; cbn [List.length].
  - split; lia.
  - split; lia.
  - split; [lia|]. rewrite <- (line_step_stream _ _ _ _ Hst), app_length.
    destruct Hst as (_ & _ & _ & Hne & _). destruct (it_line it); [contradiction|cbn [List.length]; lia].
  - split; [lia|]. rewrite <- (line_step_stream _ _ _ _ Hst), app_length.
    destruct Hst as (_ & _ & _ & Hne & _). destruct (it_line it); [contradiction|cbn [List.length]; lia].
  - rewrite next_stream in IH. rewrite <- (line_step_stream _ _ _ _ Hst), app_length, count_lf_app.
    destruct Hst as (_ & _ & _ & Hne & Hsh & _). rewrite He in Hsh. destruct Hsh as (a & E & Hno).
    rewrite E, (count_lf_line _ Hno), app_length. cbn [List.length]. lia.
Qed.

(* ------------------------------------------------------------------ *)
(* 6. result-level vocabulary: the handled lines with their kind        *)


Definition hl_of (log : list item) : list (bytes * kind) := map (fun it => (it_line it, it_kind it)) log.

Lemma hl_of_app a b : hl_of (a ++ b) = hl_of a ++ hl_of b.
Proof. apply map_app. Qed.

Lemma hl_events_of log : flat_map hl_events (hl_of log) = flat_map item_events log.
Proof.
  induction log as [|it log IH]; [reflexivity|]. cbn [hl_of map flat_map]. fold (hl_of log). rewrite IH.
  reflexivity.
Qed.

Lemma hl_fwd_of log : bytes_of (filter k_fwd (hl_of log)) = List.concat (map fwd_bytes log).
Proof.
  unfold bytes_of. induction log as [|it log IH]; [reflexivity|].
  cbn [hl_of map filter List.concat]. fold (hl_of log).
  unfold k_fwd at 1, fwd_bytes at 1, is_fwd. cbn [snd].
  destruct (it_kind it); cbn [map List.concat fst app]; now rewrite IH.
Qed.

Lemma hl_handled_of log :
  bytes_of (filter k_handled (hl_of log)) = List.concat (map it_line (filter not_rej log)).
Proof.
  unfold bytes_of. induction log as [|it log IH]; [reflexivity|].
  cbn [hl_of map filter List.concat]. fold (hl_of log).
  unfold k_handled at 1, not_rej at 1, is_rej. cbn [snd].
  destruct (it_kind it); cbn [negb map List.concat fst app]; now rewrite IH.
Qed.

Lemma hl_handled_body body :
  Forall (fun x : bytes * kind => complete_line (fst x) /\ snd x <> KRejected) body ->
  filter k_handled body = body.
Proof.
  induction 1 as [|x body [_ Hx] _ IH]; [reflexivity|].
  cbn [filter]. unfold k_handled at 1. destruct (snd x); try contradiction; now rewrite IH.
Qed.

Lemma cont_items_body log : Forall item_ok log -> Forall cont_item log ->
  Forall (fun x : bytes * kind => complete_line (fst x) /\ snd x <> KRejected) (hl_of log).
Proof.
  induction 1 as [|it log Hok _ IH]; intros Hc; [constructor|].
  inversion Hc as [|? ? (C1 & C2 & C3) Hc']. subst.
  cbn [hl_of map]. constructor; [|now apply IH]. cbn [fst snd]. split; [|exact C1].
  destruct Hok as (_ & Hsh & _). rewrite C3 in Hsh. exact Hsh.
Qed.

Lemma Forall_app_l {A} (P : A -> Prop) a b : Forall P (a ++ b) -> Forall P a.
Proof. intros H. apply Forall_app in H. tauto. Qed.
Lemma Forall_app_r {A} (P : A -> Prop) a b : Forall P (a ++ b) -> Forall P b.
Proof. intros H. apply Forall_app in H. tauto. Qed.

Lemma suffix_tail na ls log out : Run ls log out -> suffix (result_of na out) = tail_of out.
Proof.
  intros Hrun. pose proof (run_nobuf _ _ _ Hrun) as Hnb.
  destruct out as [[a err] sfx]. unfold tail_of, o_sfx, o_ls in *. cbn [result_of suffix fst snd] in *.
  destruct sfx as [x|]; [reflexivity|].
  destruct (state_eqb (st (l_ss a)) done); [reflexivity|]. symmetry. now apply Hnb.
Qed.

Lemma snapshot_inv na src res : scan_snapshot na src = Ok res ->
  exists out log, res = result_of na out /\ Run (init_ls src) log out.
Proof.
  intros H. destruct (snapshot_run na src) as (out & log & H1 & H2).
  exists out, log. split; [congruence|exact H2].
Qed.

(* B1. the partition of the input *)
Theorem partition : forall na B sc f res,
  scan_snapshot na (mkSource B sc f) = Ok res ->
  exists body last : list (bytes * kind),
    noreads (trace res) = flat_map hl_events (body ++ last) /\
    lines_read res = List.length (body ++ last) /\
    fwd res = bytes_of (filter k_fwd (body ++ last)) /\
    bytes_of body ++ bytes_of (filter k_handled last) ++ suffix res ++ rest (unread res) = B /\
    Forall (fun x => complete_line (fst x) /\ snd x <> KRejected) body /\
    (last = [] \/
     exists d k, last = [(d, k)] /\ d <> [] /\
       (k = KRejected -> exists buffered, suffix res = d ++ buffered)).
Proof.
  intros na B sc f res H.
  destruct (snapshot_inv _ _ _ H) as (out & log & -> & Hrun).
  pose proof (run_partition _ _ _ Hrun) as Hp.
  pose proof (run_fwd _ _ _ Hrun) as Hf.
  pose proof (run_lines _ _ _ Hrun) as Hl.
  pose proof (run_events _ _ _ Hrun) as He.
  pose proof (run_items _ _ _ Hrun) as Hi.
  pose proof (run_shape _ _ _ Hrun) as Hs.
  pose proof (suffix_tail na _ _ _ Hrun) as Hsfx.
  unfold lstream, stream, init_ls in Hp. cbn [l_r l_src l_fwd l_lines l_trace reader0 pending rest app noreads filter] in *.
  assert (Hcommon : forall body last, hl_of log = body ++ last ->
            noreads (trace (result_of na out)) = flat_map hl_events (body ++ last) /\
            lines_read (result_of na out) = List.length (body ++ last) /\
            fwd (result_of na out) = bytes_of (filter k_fwd (body ++ last))).
  { intros body last E. rewrite <- E, hl_events_of, hl_fwd_of. unfold hl_of. rewrite map_length.
    destruct out as [[a err] sfx]. unfold o_ls in *. cbn [fst snd result_of trace lines_read fwd] in *.
    tauto. }
  assert (Hpart : forall body last, hl_of log = body ++ last ->
            Forall (fun x : bytes * kind => complete_line (fst x) /\ snd x <> KRejected) body ->
            bytes_of body ++ bytes_of (filter k_handled last) ++
              suffix (result_of na out) ++ rest (unread (result_of na out)) = B).
  { intros body last E Hb. rewrite Hsfx.
    rewrite <- hl_handled_of, E, filter_app, (hl_handled_body _ Hb) in Hp.
    unfold bytes_of in *. rewrite map_app, concat_app, <- app_assoc in Hp.
    destruct out as [[a err] sfx]. exact Hp. }
  destruct (o_sfx out) as [x|] eqn:Hox.
  - destruct Hs as (log' & it & E & Hc & Hk & Hx & _).
    assert (Eh : hl_of log = hl_of log' ++ [(it_line it, KRejected)]).
    { rewrite E, hl_of_app. cbn [hl_of map]. now rewrite Hk. }
    assert (Hb := cont_items_body log' (Forall_app_l _ _ _ (eq_ind _ _ Hi _ E)) Hc).
    exists (hl_of log'), [(it_line it, KRejected)].
    destruct (Hcommon _ _ Eh) as (C1 & C2 & C3).
    split; [exact C1|]. split; [exact C2|]. split; [exact C3|]. split; [now apply Hpart|].
    split; [exact Hb|]. right. exists (it_line it), KRejected. split; [reflexivity|]. split.
    + rewrite E in Hi. apply Forall_app_r in Hi. inversion Hi as [|? ? Hok _]. apply Hok.
    + intros _. exists (pending (l_r (o_ls out))). rewrite Hsfx. unfold tail_of. rewrite Hox. exact Hx.
  - destruct Hs as [[Hc _]|(log' & it & x & E & Hc & Hk & _)].
    + assert (Eh : hl_of log = hl_of log ++ []) by now rewrite app_nil_r.
      assert (Hb := cont_items_body log Hi Hc).
      exists (hl_of log), []. destruct (Hcommon _ _ Eh) as (C1 & C2 & C3).
      split; [exact C1|]. split; [exact C2|]. split; [exact C3|]. split; [now apply Hpart|].
      split; [exact Hb|]. now left.
    + assert (Eh : hl_of log = hl_of log' ++ [(it_line it, it_kind it)]).
      { rewrite E, hl_of_app. reflexivity. }
      assert (Hb := cont_items_body log' (Forall_app_l _ _ _ (eq_ind _ _ Hi _ E)) Hc).
      exists (hl_of log'), [(it_line it, it_kind it)].
      destruct (Hcommon _ _ Eh) as (C1 & C2 & C3).
      split; [exact C1|]. split; [exact C2|]. split; [exact C3|]. split; [now apply Hpart|].
      split; [exact Hb|]. right. exists (it_line it), (it_kind it). split; [reflexivity|]. split.
      * rewrite E in Hi. apply Forall_app_r in Hi. inversion Hi as [|? ? Hok _]. apply Hok.
      * intros F. contradiction.
Qed.

Lemma lines_of_hl hl : lines_of (flat_map hl_events hl) = map fst hl.
Proof.
  induction hl as [|x hl IH]; [reflexivity|]. cbn [flat_map map]. rewrite lines_of_app, IH.
  unfold hl_events. destruct (k_fwd x); reflexivity.
Qed.

Lemma written_hl hl : written (flat_map hl_events hl) = bytes_of (filter k_fwd hl).
Proof.
  unfold bytes_of. induction hl as [|x hl IH]; [reflexivity|]. cbn [flat_map filter]. rewrite written_app, IH.
  unfold hl_events. destruct (k_fwd x); cbn [written map List.concat app]; now rewrite ?app_nil_r.
Qed.

Lemma handled_split hl :
  List.length (bytes_of (filter k_handled hl)) =
  List.length (bytes_of (filter k_fwd hl)) + List.length (bytes_of (filter k_consumed hl)).
Proof.
  unfold bytes_of. induction hl as [|[d k] hl IH]; [reflexivity|].
  cbn [filter]. unfold k_handled at 1, k_fwd at 1, k_consumed at 1. cbn [snd].
  destruct k; cbn [map List.concat fst]; rewrite ?app_length; lia.
Qed.

(* the ordered and the flat form of conservation *)
Theorem conservation : forall na B sc f res,
  scan_snapshot na (mkSource B sc f) = Ok res ->
  exists hl : list (bytes * kind),
    lines_of (trace res) = map fst hl /\
    fwd res = bytes_of (filter k_fwd hl) /\
    written (trace res) = fwd res /\
    bytes_of (filter k_handled hl) ++ suffix res ++ rest (unread res) = B /\
    List.length (fwd res) + List.length (bytes_of (filter k_consumed hl)) +
      List.length (suffix res) + List.length (rest (unread res)) = List.length B.
Proof.
  intros na B sc f res H.
  destruct (partition _ _ _ _ _ H) as (body & last & P1 & P2 & P3 & P4 & P5 & P6).
  exists (body ++ last).
  assert (E : bytes_of (filter k_handled (body ++ last)) ++ suffix res ++ rest (unread res) = B).
  { rewrite filter_app, (hl_handled_body _ P5). unfold bytes_of in *.
    rewrite map_app, concat_app, <- app_assoc. exact P4. }
  split; [now rewrite <- lines_of_noreads, P1, lines_of_hl|]. split; [exact P3|].
  split; [now rewrite <- written_noreads, P1, written_hl|]. split; [exact E|].
  apply (f_equal (@List.length N)) in E. rewrite !app_length, handled_split, <- P3 in E. lia.
Qed.

(* A. work: one call of scan per line of the input *)
Theorem work_bounded : forall na src res,
  scan_snapshot na src = Ok res ->
  lines_read res = handed (trace res) /\
  lines_read res <= S (count_lf (rest src)) /\
  lines_read res <= List.length (rest src).
Proof.
  intros na src res H.
  destruct (snapshot_inv _ _ _ H) as (out & log & -> & Hrun).
  pose proof (run_lines _ _ _ Hrun) as Hl.
  pose proof (run_events _ _ _ Hrun) as He.
  pose proof (run_work _ _ _ Hrun) as [W1 W2].
  unfold lstream, stream, init_ls in *. cbn [l_r l_src l_lines l_trace reader0 pending app noreads filter] in *.
  destruct out as [[a err] sfx]. unfold o_ls in *. cbn [fst snd result_of trace lines_read] in *.
  split; [|split; lia].
  unfold handed. rewrite <- lines_of_noreads, He, lines_of_flat, map_length. exact Hl.
Qed.

(* ------------------------------------------------------------------ *)
(* 7. B2: no dump, no race report: the identity                         *)


Lemma not_start_scan line : not_start_line line = true -> scan ss0 line = Ok (ss0, false, None).
Proof.
  unfold not_start_line, eol_trim. intros H. rewrite scan_unfold. unfold scan_tr.
  change (state_eqb (st ss0) looking || state_eqb (st ss0) done) with true.
  assert (Hbody : forall t, match try_header ss0 t with Some _ => false | None => negb (beq t race_header_footer) end = true ->
            match scan_pre ss0 t with
            | (s', None) => ret s' false (Some ErrIndent)
            | (_, Some trimmed) => scan_body ss0 trimmed
            end = Ok (ss0, false, None)).
  { intros t Ht. rewrite scan_pre_noprefix by reflexivity.
    unfold scan_body. change (st ss0) with looking. cbv iota. unfold header_or_end.
    destruct (try_header ss0 t); [discriminate Ht|].
    change (state_eqb (st ss0) looking) with true. cbn [andb].
    destruct (beq t race_header_footer); [discriminate Ht|reflexivity]. }
  destruct (strip_suffix [CR; LF] line) as [t|]; [now apply Hbody|].
  destruct (strip_suffix [LF] line) as [t|]; [now apply Hbody|reflexivity].
Qed.


Lemma step_nodump ls it r' src' :
  line_step ls it r' src' -> l_ss ls = ss0 ->
  rinv_s (l_r ls) (l_src ls) -> stall_free (sched (l_src ls)) -> no_start (lstream ls) ->
  it_post it = ss0 /\ it_kind it = KForwarded /\
  no_start (stream r' src') /\ rinv_s r' src' /\ stall_free (sched src') /\
  final src' = final (l_src ls) /\
  (forall x, it_rerr it = Some x -> stream r' src' = [] /\ x = final (l_src ls)).
Proof.
  intros (_ & Hpre & (_ & (_ & P2 & P3 & P4) & Q3 & Q4 & _) & Hne & Hsh & _ & Hscan & _ & _ & Hk) Hss Hrs Hsf Hns.
  destruct (Q4 Hsf Hrs) as [R1 R2].
  assert (Hsplit : not_start_line (it_line it) = true /\ no_start (stream r' src')).
  { unfold no_start in *. unfold lstream in Hns. rewrite <- P3 in Hns.
    destruct (it_rerr it) as [x|].
    - destruct (R2 x eq_refl) as [E _]. rewrite E, app_nil_r in Hns. rewrite E.
      rewrite (lines_nolf _ Hsh Hne) in Hns. cbn [forallb] in Hns.
      apply andb_prop in Hns. split; [apply Hns|reflexivity].
    - destruct Hsh as (a & E & Hno). rewrite E, <- app_assoc in Hns. cbn [app] in Hns.
      rewrite (lines_lf _ _ Hno) in Hns. cbn [forallb] in Hns. apply andb_prop in Hns.
      rewrite E. exact Hns. }
  destruct Hsplit as [Hnl Hns'].
  rewrite Hpre, Hss, (not_start_scan _ Hnl) in Hscan. injection Hscan as E1 E2 E3.
  split; [now symmetry|]. split; [rewrite Hk, <- E1, <- E2; reflexivity|].
  split; [exact Hns'|]. split; [exact R1|]. split; [now apply P4|]. split; [exact P2|].
  intros x Hx. destruct (R2 x Hx) as [F1 F2]. split; [exact F1|]. now rewrite F2.
Qed.

Lemma run_nodump ls log out : Run ls log out ->
  l_ss ls = ss0 -> rinv_s (l_r ls) (l_src ls) -> stall_free (sched (l_src ls)) -> no_start (lstream ls) ->
  l_ss (o_ls out) = ss0 /\ l_fwd (o_ls out) = l_fwd ls ++ lstream ls /\ o_sfx out = None /\
  rest (l_src (o_ls out)) = [] /\ o_err out = EIo (final (l_src ls)).
Proof.
  induction 1 as [ls Hd|ls x r' src' evs Hd HRL|ls it r' src' Hst Hk|ls it r' src' x Hst Hk He1 He
                 |ls it r' src' log out Hst Hk He1 He Hrun IH];
    intros Hss Hrs Hsf Hns; unfold o_ls, o_sfx, o_err in *; cbn [fst snd] in *.
  - rewrite Hss in Hd. discriminate Hd.
  - destruct HRL as (_ & (_ & P2 & P3 & _) & _ & Q4 & _). destruct (Q4 Hsf Hrs) as [_ R2].
    destruct (R2 x eq_refl) as [F1 F2]. cbn [l_ss l_fwd l_src].
    cbn [app] in P3. unfold lstream. rewrite <- P3, F1, app_nil_r.
    split; [exact Hss|]. split; [reflexivity|]. split; [reflexivity|].
    split; [apply (stream_nil_rest _ _ F1)|]. now rewrite F2, P2.
  - destruct (step_nodump _ _ _ _ Hst Hss Hrs Hsf Hns) as (_ & K & _). congruence.
  - destruct (step_nodump _ _ _ _ Hst Hss Hrs Hsf Hns) as (S1 & S2 & S3 & S4 & S5 & S6 & S7).
    destruct (S7 x He) as [F1 F2].
    rewrite next_ss, next_fwd, next_src. unfold fwd_bytes, is_fwd. rewrite S2.
    rewrite <- (line_step_stream _ _ _ _ Hst), F1, app_nil_r.
    split; [exact S1|]. split; [reflexivity|]. split; [reflexivity|].
    split; [apply (stream_nil_rest _ _ F1)|]. now rewrite F2.
  - destruct (step_nodump _ _ _ _ Hst Hss Hrs Hsf Hns) as (S1 & S2 & S3 & S4 & S5 & S6 & S7).
    rewrite next_ss, next_r, next_src, next_stream, next_fwd in IH.
    destruct (IH S1 S4 S5 S3) as (I1 & I2 & I3 & I4 & I5).
    split; [exact I1|]. split; [|split; [exact I3|split; [exact I4|now rewrite I5, S6]]].
    rewrite I2. unfold fwd_bytes, is_fwd. rewrite S2, <- app_assoc.
    now rewrite (line_step_stream _ _ _ _ Hst).
Qed.

Theorem no_dump_identity : forall na B sc f res,
  stall_free sc -> no_start B ->
  scan_snapshot na (mkSource B sc f) = Ok res ->
  fwd res = B /\ snap res = None /\ suffix res = [] /\ rest (unread res) = [] /\
  rerr_out res = EIo f /\ final_state res = looking.
Proof.
  intros na B sc f res Hsf Hns H.
  destruct (snapshot_inv _ _ _ H) as (out & log & -> & Hrun).
  destruct (run_nodump _ _ _ Hrun) as (I1 & I2 & I3 & I4 & I5).
  - reflexivity.
  - apply rinv_s_reader0.
  - exact Hsf.
  - exact Hns.
  - destruct out as [[a err] sfx]. unfold o_ls, o_sfx, o_err in *. cbn [fst snd] in *.
    cbn [result_of fwd snap suffix unread rerr_out final_state]. rewrite I1, I3.
    cbn [goroutines ss0 st]. change (state_eqb looking done) with false.
    unfold init_ls, lstream, stream in I2. cbn [l_fwd l_r l_src reader0 pending rest app final] in *.
    tauto.
Qed.

(* ------------------------------------------------------------------ *)
(* 8. C11: streaming progress                                           *)

(* [walk P h dl t]: P holds of (lines handed, bytes delivered) at each Read of t,
   counting from h and dl *)
Fixpoint walk (P : nat -> nat -> Prop) (h dl : nat) (t : list event) : Prop :=
  match t with
  | [] => True
  | EvRead _ n :: t' => P h dl /\ walk P h (dl + n) t'
  | EvLine _ :: t' => walk P (S h) dl t'
  | EvWrite _ :: t' => walk P h dl t'
  end.

Lemma walk_app P a : forall h dl b,
  walk P h dl (a ++ b) <-> walk P h dl a /\ walk P (h + handed a) (dl + delivered a) b.
Proof.
  induction a as [|[lp n|d|d] a IH]; intros h dl b; cbn [app walk delivered].
  - unfold handed. cbn [lines_of List.length]. rewrite !Nat.add_0_r. tauto.
  - rewrite IH. unfold handed. cbn [lines_of]. rewrite Nat.add_assoc. tauto.
  - rewrite IH. unfold handed. cbn [lines_of List.length]. rewrite Nat.add_succ_r. tauto.
  - rewrite IH. unfold handed. cbn [lines_of]. tauto.
Qed.

Lemma walk_split P t : walk P 0 0 t ->
  forall t1 lp n t2, t = t1 ++ EvRead lp n :: t2 -> P (handed t1) (delivered t1).
Proof.
  intros H t1 lp n t2 ->. apply walk_app in H. destruct H as [_ H]. cbn [walk Nat.add] in H. apply H.
Qed.

(* every complete line delivered so far has been handed to the scanner *)
Definition prompt (B : bytes) (h dl : nat) : Prop := h = count_lf (firstn dl B).

Lemma reads_walk evs : forall seen c, reads_ok seen c evs ->
  forall B K, B = K ++ seen ++ c ->
  walk (prompt B) (count_lf K) (List.length K + List.length seen) evs.
Proof.
  induction evs as [|[lp n|d|d] evs IH]; intros seen c H B K HB; cbn [reads_ok walk] in *;
    try contradiction; [exact I|].
  destruct H as (H1 & H2 & H3). split.
  - unfold prompt. rewrite HB, app_assoc, <- app_length, firstn_length_app, count_lf_app.
    rewrite (count_lf_nolf _ H1). lia.
  - replace (List.length K + List.length seen + n) with (List.length K + List.length (seen ++ firstn n c)).
    + apply (IH _ _ H3). rewrite HB, <- app_assoc, firstn_skipn. reflexivity.
    + rewrite app_length, firstn_length. lia.
Qed.

Lemma item_events_walk P h dl it : walk P h dl (item_events it).
Proof. unfold item_events. destruct (is_fwd it); exact I. Qed.

Lemma run_progress B ls log out : Run ls log out ->
  forall K, K ++ lstream ls = B -> count_lf K = handed (l_trace ls) ->
    delivered (l_trace ls) = List.length K + List.length (pending (l_r ls)) ->
    walk (prompt B) 0 0 (l_trace ls) -> walk (prompt B) 0 0 (l_trace (o_ls out)).
Proof.
  assert (Hreads : forall ls0 K evs, K ++ lstream ls0 = B -> count_lf K = handed (l_trace ls0) ->
            delivered (l_trace ls0) = List.length K + List.length (pending (l_r ls0)) ->
            reads_ok (pending (l_r ls0)) (rest (l_src ls0)) evs ->
            walk (prompt B) 0 0 (l_trace ls0) -> walk (prompt B) 0 0 (l_trace ls0 ++ evs)).
  { clear. intros ls K evs HK Hc Hd Hr Hw. apply walk_app. split; [exact Hw|].
    cbn [Nat.add]. rewrite <- Hc, Hd. apply (reads_walk _ _ _ Hr). now rewrite <- HK. }
  induction 1 as [ls Hd|ls x r' src' evs Hd HRL|ls it r' src' Hst Hk|ls it r' src' x Hst Hk He1 He
                 |ls it r' src' log out Hst Hk He1 He Hrun IH];
    intros K HK Hc Hdl Hw; unfold o_ls in *; cbn [fst snd l_trace] in *.
  - exact Hw.
  - destruct HRL as (_ & _ & _ & _ & T & _). now apply (Hreads ls K).
  - rewrite next_trace, app_assoc. apply walk_app. split; [|apply item_events_walk].
    apply (Hreads ls K); try assumption. apply (line_step_reads _ _ _ _ Hst).
  - rewrite next_trace, app_assoc. apply walk_app. split; [|apply item_events_walk].
    apply (Hreads ls K); try assumption. apply (line_step_reads _ _ _ _ Hst).
  - pose proof (line_step_reads _ _ _ _ Hst) as Hr.
    pose proof (line_step_stream _ _ _ _ Hst) as Hs.
    destruct (reads_ok_only _ _ _ Hr) as [Hl0 _].
    pose proof (reads_ok_delivered _ _ _ Hr) as Hle.
    destruct Hst as (_ & _ & (_ & _ & _ & _ & _ & _ & T3) & _ & Hsh & _).
    rewrite He in Hsh. destruct Hsh as (a & E & Hno).
    apply (IH (K ++ it_line it)).
    + rewrite next_stream, <- app_assoc, Hs. exact HK.
    + rewrite next_trace, !handed_app, count_lf_app, Hc, E, (count_lf_line _ Hno).
      unfold handed. rewrite Hl0, item_events_lines. cbn [List.length]. lia.
    + rewrite next_trace, next_r, !delivered_app, item_events_delivered, Hdl, app_length.
      apply (f_equal (@List.length N)) in T3. rewrite !app_length, firstn_length in T3. lia.
    + rewrite next_trace, app_assoc. apply walk_app. split; [|apply item_events_walk].
      now apply (Hreads ls K).
Qed.

(* C1 *)
Theorem lines_before_read : forall na B sc f res,
  scan_snapshot na (mkSource B sc f) = Ok res ->
  forall t1 lp n t2, trace res = t1 ++ EvRead lp n :: t2 ->
    handed t1 = count_lf (firstn (delivered t1) B).
Proof.
  intros na B sc f res H.
  destruct (snapshot_inv _ _ _ H) as (out & log & -> & Hrun).
  assert (Hw : walk (prompt B) 0 0 (l_trace (o_ls out))).
  { apply (run_progress B _ _ _ Hrun []); try reflexivity; try exact I. }
  intros t1 lp n t2 E. destruct out as [[a err] sfx]. cbn [result_of trace] in E.
  apply (walk_split _ _ Hw _ _ _ _ E).
Qed.

(* C3: without a reader error the loop returns right after the line that
   ended it: no Read follows *)
Definition ends_line (t : list event) : Prop := exists t0 d, t = t0 ++ [EvLine d].

Lemma run_prompt ls log out : Run ls log out ->
  (state_eqb (st (l_ss ls)) done = true -> ends_line (l_trace ls)) ->
  (forall x, o_err out <> EIo x) -> ends_line (l_trace (o_ls out)).
Proof.
  induction 1 as [ls Hd|ls x r' src' evs Hd HRL|ls it r' src' Hst Hk|ls it r' src' x Hst Hk He1 He
                 |ls it r' src' log out Hst Hk He1 He Hrun IH];
    intros Hpre Herr; unfold o_ls, o_err in *; cbn [fst snd] in *.
  - now apply Hpre.
  - exfalso. now apply (Herr x).
  - unfold next_ls. rewrite Hk. cbn [l_trace]. eexists. eexists. reflexivity.
  - exfalso. now apply (Herr x).
  - apply IH; [|exact Herr]. rewrite next_ss. intros Hdone.
    assert (Hkc : it_kind it = KConsumed).
    { destruct Hst as (_ & _ & _ & _ & _ & _ & _ & _ & _ & Hc). rewrite Hc in *. unfold classify in *.
      destruct (it_flag it); [reflexivity|].
      destruct (st (it_post it)); try discriminate Hdone. cbn in Hk. contradiction. }
    unfold next_ls. rewrite Hkc. cbn [l_trace]. eexists. eexists. reflexivity.
Qed.

Theorem prompt_return : forall na src res,
  scan_snapshot na src = Ok res -> (forall x, rerr_out res <> EIo x) ->
  exists t d buffered, trace res = t ++ [EvLine d] /\
    (suffix res = d ++ buffered \/ (final_state res = done /\ suffix res = buffered)).
Proof.
  intros na src res H Herr.
  destruct (snapshot_inv _ _ _ H) as (out & log & -> & Hrun).
  assert (Hen : ends_line (l_trace (o_ls out))).
  { apply (run_prompt _ _ _ Hrun); [intros F; discriminate F|].
    destruct out as [[a err] sfx]. exact Herr. }
  destruct Hen as (t & d & E).
  pose proof (run_shape _ _ _ Hrun) as Hs.
  pose proof (run_events _ _ _ Hrun) as Hev.
  destruct out as [[a err] sfx]. unfold o_ls, o_sfx, o_err in *. cbn [fst snd result_of trace rerr_out suffix final_state] in *.
  exists t, d. destruct sfx as [x|].
  - destruct Hs as (log' & it & El & _ & _ & Hx & _). exists (pending (l_r a)). split; [exact E|]. left.
    assert (Hd : it_line it = d).
    { apply (f_equal lines_of) in Hev. rewrite lines_of_noreads, lines_of_app, lines_of_flat in Hev.
      rewrite E, El, lines_of_app, map_app in Hev. cbn [lines_of map init_ls l_trace app] in Hev.
      apply app_inj_tail in Hev. symmetry. apply Hev. }
    now rewrite <- Hd.
  - exists (pending (l_r a)). split; [exact E|]. right.
    destruct Hs as [[_ [Hn|(x & Hx & _)]]|(log' & it & x & _ & _ & _ & _ & _ & Hx)].
    + destruct (state_eqb (st (l_ss a)) done) eqn:Hd.
      * split; [|reflexivity]. destruct (st (l_ss a)); try discriminate Hd. reflexivity.
      * exfalso. clear - Hrun Hn Hd.
        (* err = ENil without suffix: only the [done] exit *)
        remember (a, err, @None bytes) as out eqn:Eo.
        induction Hrun; try discriminate Eo.
        -- injection Eo as -> _. congruence.
        -- injection Eo as _ F. subst err. discriminate Hn.
        -- injection Eo as _ F. subst err. discriminate Hn.
        -- now apply IHHrun.
    + exfalso. now apply (Herr x).
    + exfalso. now apply (Herr x).
Qed.

(* C2: every Write is the line just handed to the scanner *)
Fixpoint writes_ok (prev : option bytes) (t : list event) : Prop :=
  match t with
  | [] => True
  | EvRead _ _ :: t' => writes_ok None t'
  | EvLine d :: t' => writes_ok (Some d) t'
  | EvWrite d :: t' => prev = Some d /\ writes_ok None t'
  end.
Fixpoint after (prev : option bytes) (t : list event) : option bytes :=
  match t with
  | [] => prev
  | EvLine d :: t' => after (Some d) t'
  | _ :: t' => after None t'
  end.

Lemma writes_ok_app a : forall p b, writes_ok p (a ++ b) <-> writes_ok p a /\ writes_ok (after p a) b.
Proof.
  induction a as [|[lp n|d|d] a IH]; intros p b; cbn [app writes_ok after]; rewrite ?IH; tauto.
Qed.

Lemma after_some t : forall p d, after p t = Some d ->
  (t = [] /\ p = Some d) \/ exists t0, t = t0 ++ [EvLine d].
Proof.
  induction t as [|e t IH]; intros p d H; [left; split; [reflexivity|exact H]|]. right.
  assert (Hgen : forall p', after p' t = Some d -> (p' = Some d -> e = EvLine d) ->
            exists t0, e :: t = t0 ++ [EvLine d]).
  { intros p' H' Hp. destruct (IH _ _ H') as [[-> Hp']|(t0 & ->)].
    - exists []. cbn [app]. now rewrite (Hp Hp').
    - exists (e :: t0). reflexivity. }
  destruct e as [lp n|d'|d']; cbn [after] in H.
  - apply (Hgen None H). discriminate.
  - apply (Hgen (Some d') H). intros E. now injection E as ->.
  - apply (Hgen None H). discriminate.
Qed.

Lemma reads_writes_ok seen content evs p : reads_ok seen content evs -> writes_ok p evs.
Proof.
  revert seen content p. induction evs as [|[lp n|d|d] evs IH]; intros seen content p H;
    cbn [reads_ok writes_ok] in *; try contradiction; [exact I|].
  destruct H as (_ & _ & H). exact (IH _ _ _ H).
Qed.

Lemma item_events_writes_ok p it : writes_ok p (item_events it).
Proof. unfold item_events. destruct (is_fwd it); cbn [writes_ok]; tauto. Qed.

Lemma run_writes ls log out : Run ls log out ->
  writes_ok None (l_trace ls) -> writes_ok None (l_trace (o_ls out)).
Proof.
  induction 1 as [ls Hd|ls x r' src' evs Hd HRL|ls it r' src' Hst Hk|ls it r' src' x Hst Hk He1 He
                 |ls it r' src' log out Hst Hk He1 He Hrun IH];
    intros Hw; unfold o_ls in *; cbn [fst snd l_trace] in *.
  - exact Hw.
  - destruct HRL as (_ & _ & _ & _ & T & _). apply writes_ok_app. split; [exact Hw|].
    apply (reads_writes_ok _ _ _ _ T).
  - rewrite next_trace, app_assoc. apply writes_ok_app. split; [|apply item_events_writes_ok].
    apply writes_ok_app. split; [exact Hw|]. apply (reads_writes_ok _ _ _ _ (line_step_reads _ _ _ _ Hst)).
  - rewrite next_trace, app_assoc. apply writes_ok_app. split; [|apply item_events_writes_ok].
    apply writes_ok_app. split; [exact Hw|]. apply (reads_writes_ok _ _ _ _ (line_step_reads _ _ _ _ Hst)).
  - apply IH. rewrite next_trace, app_assoc. apply writes_ok_app. split; [|apply item_events_writes_ok].
    apply writes_ok_app. split; [exact Hw|]. apply (reads_writes_ok _ _ _ _ (line_step_reads _ _ _ _ Hst)).
Qed.

Theorem write_follows_line : forall na src res,
  scan_snapshot na src = Ok res ->
  forall t1 d t2, trace res = t1 ++ EvWrite d :: t2 -> exists t0, t1 = t0 ++ [EvLine d].
Proof.
  intros na src res H.
  destruct (snapshot_inv _ _ _ H) as (out & log & -> & Hrun).
  pose proof (run_writes _ _ _ Hrun I) as Hw.
  intros t1 d t2 E. destruct out as [[a err] sfx]. unfold o_ls in Hw. cbn [fst result_of trace] in *.
  rewrite E in Hw. apply writes_ok_app in Hw. destruct Hw as [_ [Hw _]].
  destruct (after_some _ _ _ Hw) as [[_ F]|Ht]; [discriminate F|exact Ht].
Qed.

(* ------------------------------------------------------------------ *)
(* 9. B3: once a goroutine exists nothing is forwarded any more          *)

Lemma state_eqb_eq a b : state_eqb a b = true -> a = b.
Proof. destruct a, b; intros H; try reflexivity; discriminate H. Qed.

Lemma linked_app s a : forall b, linked s (a ++ b) <-> linked s a /\ linked (last_state s a) b.
Proof.
  revert s. induction a as [|it a IH]; intros s b; cbn [app linked last_state]; [tauto|].
  rewrite IH. tauto.
Qed.

Lemma last_state_app s a : forall b, last_state s (a ++ b) = last_state (last_state s a) b.
Proof. revert s. induction a as [|it a IH]; intros s b; cbn [app last_state]; [reflexivity|apply IH]. Qed.

Lemma log_mono log : forall s, Forall item_ok log -> linked s log ->
  List.length (goroutines s) <= List.length (goroutines (last_state s log)) /\
  forall it, In it log -> List.length (goroutines s) <= List.length (goroutines (it_post it)).
Proof.
  induction log as [|it log IH]; intros s Hok Hl; cbn [last_state].
  - split; [apply le_n|intros it []].
  - inversion Hok as [|? ? Hit Hok']. subst. destruct Hl as [Hpre Hl].
    destruct Hit as (_ & _ & _ & _ & (_ & _ & Hm & _) & _). rewrite Hpre in Hm.
    destruct (IH _ Hok' Hl) as [I1 I2]. split; [lia|].
    intros it' [<-|Hin]; [exact Hm|]. specialize (I2 _ Hin). lia.
Qed.

(* a forwarded line is handled before any goroutine exists, in state
   [looking] or right after a lone "==================" *)
Lemma fwd_item it : item_ok it -> it_kind it = KForwarded ->
  goroutines (it_pre it) = [] /\ goroutines (it_post it) = [] /\ st (it_post it) = looking /\
  (st (it_pre it) = looking \/ st (it_pre it) = gotRaceHeader1).
Proof.
  intros (_ & _ & Hi & _ & (Hi' & _ & Hm & H4) & Hse & Hk) Hf.
  rewrite Hk in Hf. unfold classify in Hf.
  destruct (it_flag it) eqn:Hfl; [discriminate Hf|].
  destruct (state_eqb (st (it_post it)) looking) eqn:Hlook; [|discriminate Hf].
  apply state_eqb_eq in Hlook.
  destruct (Inv_looking _ Hi' Hlook) as [Hg _].
  assert (Hg0 : goroutines (it_pre it) = []).
  { rewrite Hg in Hm. destruct (goroutines (it_pre it)); [reflexivity|cbn in Hm; lia]. }
  split; [exact Hg0|]. split; [exact Hg|]. split; [exact Hlook|].
  assert (Hn : it_serr it = None).
  { destruct (it_serr it) as [x|] eqn:E; [|reflexivity].
    assert (F : true = false) by (apply Hse; discriminate). discriminate F. }
  destruct (H4 eq_refl Hn) as [E|[E|[E _]]].
  - left. now rewrite <- E.
  - rewrite Hlook in E. discriminate E.
  - now right.
Qed.

Lemma contiguous log s : Forall item_ok log -> linked s log ->
  forall l1 it l2, log = l1 ++ it :: l2 -> goroutines (it_post it) <> [] ->
  Forall (fun it' => it_kind it' <> KForwarded) l2.
Proof.
  intros Hok Hl l1 it l2 -> Hne.
  apply linked_app in Hl. destruct Hl as [_ [_ Hl2]].
  apply Forall_app_r in Hok. inversion Hok as [|? ? _ Hok2]. subst.
  destruct (log_mono _ _ Hok2 Hl2) as [_ Hm].
  apply Forall_forall. intros it' Hin Hf.
  assert (Hok' : item_ok it') by (rewrite Forall_forall in Hok2; now apply Hok2).
  destruct (fwd_item _ Hok' Hf) as (_ & Hg & _).
  specialize (Hm _ Hin). rewrite Hg in Hm. destruct (goroutines (it_post it)); [contradiction|cbn in Hm; lia].
Qed.

(* cut the log at the first line after which a goroutine exists *)
Lemma first_goroutine (log : list item) :
  Forall (fun it => goroutines (it_post it) = []) log \/
  exists l1 it l2, log = l1 ++ it :: l2 /\
    Forall (fun it => goroutines (it_post it) = []) l1 /\ goroutines (it_post it) <> [].
Proof.
  induction log as [|it log IH]; [left; constructor|].
  destruct (goroutines (it_post it)) as [|g gs] eqn:E.
  - destruct IH as [IH|(l1 & it' & l2 & -> & F & N)].
    + left. now constructor.
    + right. exists (it :: l1), it', l2. split; [reflexivity|]. split; [now constructor|exact N].
  - right. exists [], it, log. split; [reflexivity|]. split; [constructor|]. rewrite E. discriminate.
Qed.

Lemma scan_lines_log log : forall s, Forall item_ok log -> linked s log ->
  scan_lines s (map it_line log) = Ok (last_state s log).
Proof.
  induction log as [|it log IH]; intros s Hok Hl; [reflexivity|].
  inversion Hok as [|? ? Hit Hok']. subst. destruct Hl as [Hpre Hl].
  cbn [map scan_lines last_state]. destruct Hit as (_ & _ & _ & Hs & _). rewrite Hpre in Hs. rewrite Hs.
  now apply IH.
Qed.

Lemma last_state_empty log : forall s, goroutines s = [] ->
  Forall (fun it => goroutines (it_post it) = []) log -> goroutines (last_state s log) = [].
Proof.
  induction log as [|it log IH]; intros s Hs Hf; [exact Hs|].
  inversion Hf. subst. cbn [last_state]. now apply IH.
Qed.

Lemma race_op_header_grows s m first t s' e :
  race_op_header s m first t = Some (Ok (s', true, e)) -> goroutines s' <> [].
Proof.
  unfold race_op_header. destruct m as [[[w addr] ds]|]; [|discriminate].
  intros H. injection H as H.
  destruct (parse_uint addr); [|discriminate H].
  destruct (atou ds); [|discriminate H].
  destruct (first && _); [discriminate H|].
  injection H as <- _. cbn [goroutines]. apply app1_ne.
Qed.

(* the lines consumed while no goroutine exists: K1 *)
Lemma scan_consumed_nogoroutine s line s' e :
  Inv s -> goroutines s = [] -> state_eqb (st s) done = false ->
  scan s line = Ok (s', true, e) -> goroutines s' = [] ->
  (st s = looking /\ trim_eol line = race_header_footer) \/
  (st s = gotRaceHeader1 /\ trim_eol line = race_header).
Proof.
  intros HI Hg Hnd Hscan Hg'.
  assert (Hst : st s = looking \/ st s = gotRaceHeader1 \/ st s = gotRaceHeader2).
  { destruct (st s) eqn:E; try tauto; try discriminate Hnd;
      exfalso; apply (Inv_goroutines_ne s HI); congruence. }
  assert (Hp : sprefix s = []).
  { unfold Inv in HI. destruct Hst as [E|[E|E]]; rewrite E in HI; apply HI. }
  rewrite scan_unfold in Hscan. unfold trim_eol, eol_trim. unfold scan_tr in Hscan.
  assert (Hbody : forall t, scan_body s t = Ok (s', true, e) ->
            (st s = looking /\ t = race_header_footer) \/ (st s = gotRaceHeader1 /\ t = race_header)).
  { intros t Hb. unfold scan_body in Hb. destruct Hst as [E|[E|E]]; rewrite E in Hb.
    - left. split; [exact E|]. unfold header_or_end in Hb.
      destruct (try_header s t) as [s1|] eqn:Hh.
      + exfalso. destruct (try_header_shape _ _ _ Hh) as (g & ind & -> & _).
        injection Hb as <- _. cbn [goroutines] in Hg'. now apply (app1_ne _ (goroutines s) g).
      + rewrite E in Hb. change (state_eqb looking looking) with true in Hb. cbn [andb] in Hb.
        destruct (beq t race_header_footer) eqn:Hbq; [now apply beq_eq|discriminate Hb].
    - right. split; [exact E|].
      destruct (beq t race_header) eqn:Hbq; [now apply beq_eq|discriminate Hb].
    - exfalso. destruct (race_op_header s (match_race_op t) true t) as [r|] eqn:Hr; [|discriminate Hb].
      subst r. now apply (race_op_header_grows _ _ _ _ _ _ Hr). }
  destruct (strip_suffix [CR; LF] line) as [t|].
  { rewrite scan_pre_noprefix in Hscan by exact Hp. now apply Hbody. }
  destruct (strip_suffix [LF] line) as [t|].
  { rewrite scan_pre_noprefix in Hscan by exact Hp. now apply Hbody. }
  destruct (state_eqb (st s) looking || state_eqb (st s) done); [discriminate Hscan|].
  rewrite scan_pre_noprefix in Hscan by exact Hp. now apply Hbody.
Qed.

Lemma run_notdone ls log out : Run ls log out ->
  Forall (fun it => state_eqb (st (it_pre it)) done = false) log.
Proof.
  assert (Hs : forall ls0 it r' src', line_step ls0 it r' src' -> state_eqb (st (it_pre it)) done = false).
  { clear. intros ls it r' src' (H1 & H2 & _). now rewrite H2. }
  induction 1 as [ls Hd|ls x r' src' evs Hd HRL|ls it r' src' Hst Hk|ls it r' src' x Hst Hk He1 He
                 |ls it r' src' log out Hst Hk He1 He Hrun IH];
    try (constructor; [apply (Hs _ _ _ _ Hst)|]); try constructor. exact IH.
Qed.

(* K1: while no goroutine exists, the only lines withheld are the race report
   separator (in state looking) and the line "WARNING: DATA RACE" after it *)
Lemma pre_region log : forall s, Forall item_ok log ->
  Forall (fun it => state_eqb (st (it_pre it)) done = false) log ->
  linked s log -> goroutines s = [] -> Forall (fun it => goroutines (it_post it) = []) log ->
  Forall (fun it => it_kind it = KConsumed ->
            trim_eol (it_line it) = race_header_footer \/ trim_eol (it_line it) = race_header) log.
Proof.
  induction log as [|it log IH]; intros s Hok Hnd Hl Hg Hall; [constructor|].
  inversion Hok as [|? ? Hit Hok']. inversion Hnd as [|? ? Hnd1 Hnd']. inversion Hall as [|? ? Hg1 Hall'].
  subst. destruct Hl as [Hpre Hl]. constructor; [|now apply (IH (it_post it))].
  intros Hk. destruct Hit as (_ & _ & Hi & Hs & _ & _ & Hc).
  assert (Hfl : it_flag it = true).
  { rewrite Hc in Hk. unfold classify in Hk. destruct (it_flag it); [reflexivity|].
    destruct (state_eqb (st (it_post it)) looking); discriminate Hk. }
  rewrite Hfl in Hs. rewrite <- Hpre in Hg.
  destruct (scan_consumed_nogoroutine _ _ _ _ Hi Hg Hnd1 Hs Hg1) as [[_ E]|[_ E]]; tauto.
Qed.

Theorem dump_contiguous : forall na B sc f res,
  scan_snapshot na (mkSource B sc f) = Ok res ->
  exists pre dump : list (bytes * kind),
    noreads (trace res) = flat_map hl_events (pre ++ dump) /\
    bytes_of (filter k_handled (pre ++ dump)) ++ suffix res ++ rest (unread res) = B /\
    (* everything forwarded comes from the region before the dump ... *)
    fwd res = bytes_of (filter k_fwd pre) /\
    Forall (fun x => snd x <> KForwarded) dump /\
    (* ... where the only lines withheld are those of finding K1 ... *)
    Forall (fun x => snd x = KConsumed ->
              trim_eol (fst x) = race_header_footer \/ trim_eol (fst x) = race_header) pre /\
    (* ... during which no goroutine exists ... *)
    (exists s, scan_lines ss0 (map fst pre) = Ok s /\ goroutines s = [] /\
       (* ... and the dump region starts with the line that creates the first one *)
       forall x dump', dump = x :: dump' ->
         exists s' l e, scan s (fst x) = Ok (s', l, e) /\ goroutines s' <> []) /\
    (dump = [] <-> snap res = None).
Proof.
  intros na B sc f res H.
  destruct (snapshot_inv _ _ _ H) as (out & log & -> & Hrun).
  pose proof (run_partition _ _ _ Hrun) as Hp.
  pose proof (run_fwd _ _ _ Hrun) as Hf.
  pose proof (run_events _ _ _ Hrun) as He.
  pose proof (run_items _ _ _ Hrun) as Hi.
  pose proof (run_notdone _ _ _ Hrun) as Hnd.
  assert (Hpre_hl : forall l, Forall (fun it => it_kind it = KConsumed ->
              trim_eol (it_line it) = race_header_footer \/ trim_eol (it_line it) = race_header) l ->
            Forall (fun x : bytes * kind => snd x = KConsumed ->
              trim_eol (fst x) = race_header_footer \/ trim_eol (fst x) = race_header) (hl_of l)).
  { intros l Hfl. unfold hl_of. apply Forall_map. exact Hfl. }
  destruct (run_linked _ _ _ Hrun) as [Hl Hls].
  pose proof (suffix_tail na _ _ _ Hrun) as Hsfx.
  unfold lstream, stream, init_ls in *.
  cbn [l_r l_src l_fwd l_ss l_trace reader0 pending rest app noreads filter] in *.
  assert (Hcommon : forall pre dump, log = pre ++ dump ->
            noreads (trace (result_of na out)) = flat_map hl_events (hl_of pre ++ hl_of dump) /\
            bytes_of (filter k_handled (hl_of pre ++ hl_of dump)) ++
              suffix (result_of na out) ++ rest (unread (result_of na out)) = B).
  { intros pre dump E. rewrite <- hl_of_app, <- E, hl_events_of, hl_handled_of, Hsfx.
    destruct out as [[a err] sfx]. unfold o_ls in *. cbn [fst snd result_of trace unread] in *. tauto. }
  assert (Hsnap : snap (result_of na out) = None <-> goroutines (last_state ss0 log) = []).
  { destruct out as [[a err] sfx]. unfold o_ls in *. cbn [fst snd result_of snap] in *. rewrite Hls.
    destruct (goroutines (last_state ss0 log)); split; intros F; try reflexivity; discriminate F. }
  destruct (first_goroutine log) as [Hall|(l1 & it & l2 & E & Hall & Hne)].
  - exists (hl_of log), []. destruct (Hcommon log [] (eq_sym (app_nil_r _))) as [C1 C2].
    split; [exact C1|]. split; [exact C2|]. split; [|split; [constructor|split; [|split]]].
    + rewrite hl_fwd_of. destruct out as [[a err] sfx]. exact Hf.
    + apply Hpre_hl. now apply (pre_region log ss0).
    + exists (last_state ss0 log). unfold hl_of. rewrite map_map. cbn [fst].
      split; [now apply scan_lines_log|]. split; [now apply last_state_empty|]. intros x d F. discriminate F.
    + split; [intros _|reflexivity]. apply Hsnap. now apply last_state_empty.
  - exists (hl_of l1), (hl_of (it :: l2)). destruct (Hcommon _ _ E) as [C1 C2].
    pose proof (contiguous _ _ Hi Hl _ _ _ E Hne) as Hnf.
    pose proof Hl as Hl'. rewrite E in Hl'. apply linked_app in Hl'. destruct Hl' as [Hl1 [Hpre Hl2]].
    pose proof Hi as Hi'. rewrite E in Hi'. apply Forall_app in Hi'. destruct Hi' as [Hi1 Hi2].
    inversion Hi2 as [|? ? Hit Hi3]. subst.
    split; [exact C1|]. split; [exact C2|]. split; [|split; [|split; [|split]]].
    + assert (Hz : List.concat (map fwd_bytes (it :: l2)) = []).
      { assert (Hnf' : Forall (fun it' => it_kind it' <> KForwarded) (it :: l2)).
        { constructor; [|exact Hnf]. intros F. destruct (fwd_item _ Hit F) as (_ & G & _). contradiction. }
        clear - Hnf'. induction Hnf' as [|x l Hx _ IH]; [reflexivity|].
        cbn [map List.concat]. rewrite IH. unfold fwd_bytes, is_fwd. destruct (it_kind x); try reflexivity.
        contradiction. }
      rewrite hl_fwd_of. destruct out as [[a err] sfx]. unfold o_ls in Hf. cbn [fst snd result_of fwd] in *.
      rewrite Hf, map_app, concat_app, Hz, app_nil_r. reflexivity.
    + unfold hl_of. apply Forall_map. cbn [snd]. constructor; [|exact Hnf].
      intros F. destruct (fwd_item _ Hit F) as (_ & G & _). contradiction.
    + apply Hpre_hl. apply Forall_app_l in Hnd. now apply (pre_region l1 ss0).
    + exists (last_state ss0 l1). unfold hl_of at 1. rewrite map_map. cbn [fst].
      split; [now apply scan_lines_log|]. split; [now apply last_state_empty|].
      intros x d Ex. cbn [hl_of map] in Ex. injection Ex as <- _. cbn [fst].
      destruct Hit as (_ & _ & _ & Hs & _). rewrite Hpre in Hs.
      exists (it_post it), (it_flag it), (it_serr it). split; [exact Hs|exact Hne].
    + split; [intros F; discriminate F|]. intros Hsn. exfalso. apply Hsnap in Hsn.
      rewrite last_state_app in Hsn. cbn [last_state] in Hsn.
      destruct (log_mono _ _ Hi3 Hl2) as [Hm _]. rewrite Hsn in Hm.
      destruct (goroutines (it_post it)); [contradiction|cbn in Hm; lia].
Qed.

(* a line not followed by its Write is a consumed line or the final rejected one *)
Theorem unwritten_lines : forall na B sc f res,
  scan_snapshot na (mkSource B sc f) = Ok res ->
  exists body last : list (bytes * kind),
    noreads (trace res) = flat_map hl_events (body ++ last) /\
    Forall (fun x => snd x <> KRejected) body /\ List.length last <= 1.
Proof.
  intros na B sc f res H.
  destruct (partition na B sc f res H) as (body & last & P1 & _ & _ & _ & P5 & P6).
  exists body, last. split; [exact P1|]. split.
  - apply (Forall_impl _ (fun x (Hx : complete_line (fst x) /\ snd x <> KRejected) => proj2 Hx) P5).
  - destruct P6 as [->|(d & k & -> & _)]; cbn [List.length]; lia.
Qed.
