(* Model/HtmlDoc.v — byte-exact model of the DYNAMIC REGION of the HTML report
   (stack/html.go, template stack/goroutines.tpl as embedded in stack/data.go:
   regen.go strips the indentation of every template line, so the template
   that is executed has NO leading blanks; only the line feeds remain).

   The region is everything from  <div id="content">  up to and including the
   matching  </div> : the output of  {{- if .Aggregated -}} ... {{- end -}}
   with the sub-templates "RenderArgs", "RenderCreatedBy" and "RenderCalls".

   The output is produced first as a list of PIECES:
     Lit s    literal text of the template (after {{- / -}} trimming)
     Text d   a data string in text context: html/template applies htmlEscaper
              (html_escape).  Also used for the results of .String methods
              (Arg.String, Location.String) and of printf "0x%08X".
     Href u   a template.URL value inside href="...": urlnormalizer, then
              attrescaper (href_attr)
     Class c  the template.HTML value of funcClass inside class="...":
              attrescaper (html_escape; the identity on the 11 possible values)
     Num z    a Go int printed by fmt.Sprint (decimal; no byte needs escaping)
   and then flattened.  Definitions only; theorems in Proofs/HtmlDocProofs.v.

   Validated byte for byte against Aggregated.ToHTML / Snapshot.ToHTML
   (Go 1.23.5) on hand-made and pseudo-random samples, see /tmp/htmldoc. *)
From PP Require Import Base.Bytes Base.BytesX Base.Num Base.GoResult Model.Types Model.Html Model.UI.

Inductive piece :=
| Lit (s : bytes)
| Text (data : bytes)
| Href (url : bytes)
| Class (c : bytes)
| Num (z : Z).

Definition flatten_piece (p : piece) : bytes :=
  match p with
  | Lit s => s
  | Text d => html_escape d
  | Href u => href_attr u
  | Class c => html_escape c
  | Num z => Z_to_dec z
  end.

Definition flatten_pieces (ps : list piece) : bytes := flat_map flatten_piece ps.

(* template text: the given lines joined with a line feed *)
Definition lines (l : list string) : bytes := join (map s2b l) [LF].

(* U+2026 HORIZONTAL ELLIPSIS *)
Definition ellipsis : bytes := [226; 128; 166]%N.

Definition nonempty {A} (l : list A) : bool := match l with [] => false | _ :: _ => true end.

(* ------------------------------------------------------------------ *)
(* "RenderArgs"                                                        *)
(* ------------------------------------------------------------------ *)
(* {{if .Processed}} range .Processed: {{$e}}  {{else}} range .Values: {{$e.String}} *)
Definition args_items (a : Args) : list bytes :=
  match Processed a with
  | _ :: _ => Processed a
  | [] => map arg_string (Values a)
  end.

(* one hole per item, followed by ", " when  or $elided (ne $i $last) *)
Fixpoint args_item_pieces (elided : bool) (l : list bytes) : list piece :=
  match l with
  | [] => []
  | x :: r => Text x :: (if elided || nonempty r then [Lit (s2b ", ")] else []) ++ args_item_pieces elided r
  end.

Definition args_pieces (a : Args) : list piece :=
  [Lit (s2b "<span class=""args""><span>")] ++
  args_item_pieces (Elided a) (args_items a) ++
  (if Elided a then [Lit ellipsis] else []) ++
  [Lit (s2b "</span></span>")].

(* ------------------------------------------------------------------ *)
(* the tooltip shared by "RenderCreatedBy" and "RenderCalls"           *)
(* ------------------------------------------------------------------ *)
(* and .LocalSrcPath (ne .RemoteSrcPath .LocalSrcPath) *)
Definition two_paths (c : Call) : bool :=
  nonempty (LocalSrcPath c) && negb (beq (RemoteSrcPath c) (LocalSrcPath c)).

Definition tooltip_pieces (c : Call) : list piece :=
  (if two_paths c then
     [Lit (s2b "RemoteSrcPath: "); Text (RemoteSrcPath c);
      Lit (lines [""; "<br>LocalSrcPath: "]%string); Text (LocalSrcPath c)]
   else
     [Lit (s2b "SrcPath: "); Text (RemoteSrcPath c)]) ++
  [Lit (s2b "<br>Func: "); Text (Complete (CFunc c));
   Lit (lines [""; "<br>Location: "]%string); Text (location_string (CLocation c))].

Section WithVersion.
  Variable ver : bytes.   (* runtime.Version() *)

  (* ---------------------------------------------------------------- *)
  (* "RenderCreatedBy" (a Call)                                        *)
  (* ---------------------------------------------------------------- *)
  Definition created_by_pieces (c : Call) : list piece :=
    [Lit (s2b "<span class=""call hastooltip""><span class=""tooltip"">")] ++
    tooltip_pieces c ++
    [Lit (lines [""; "</span><a href="""]%string); Href (src_url ver c);
     Lit (s2b """>"); Text (SrcName c); Lit (s2b ":"); Num (Line c);
     Lit (s2b "</a> <span class="""); Class (func_class c);
     Lit (lines [""">"; "<a href="""]%string); Href (pkg_url ver c);
     Lit (s2b """>"); Text (DirName (CFunc c)); Lit (s2b "."); Text (FName (CFunc c));
     Lit (lines ["</a></span>()"; "</span>"]%string)].

  (* ---------------------------------------------------------------- *)
  (* "RenderCalls" (a Stack)                                           *)
  (* ---------------------------------------------------------------- *)
  Definition call_pieces (i : nat) (c : Call) : list piece :=
    [Lit (lines ["<tr>"; "<td>"]%string); Num (Z.of_nat i);
     Lit (lines ["</td>"; "<td>"; "<a href="""]%string); Href (pkg_url ver c);
     Lit (s2b """>"); Text (DirName (CFunc c));
     Lit (lines ["</a>"; "</td>"; "<td class=""hastooltip"">"; "<span class=""tooltip"">"]%string)] ++
    tooltip_pieces c ++
    [Lit (lines [""; "</span>"; "<a href="""]%string); Href (src_url ver c);
     Lit (s2b """>"); Text (SrcName c); Lit (s2b ":"); Num (Line c);
     Lit (lines ["</a>"; "</td>"; "<td>"; "<span class="""]%string); Class (func_class c);
     Lit (s2b """><a href="""); Href (pkg_url ver c);
     Lit (s2b """>"); Text (FName (CFunc c));
     Lit (s2b "</a></span>(")] ++
    args_pieces (CArgs c) ++
    [Lit (lines [")"; "</td>"; "</tr>"]%string)].

  Fixpoint calls_pieces (i : nat) (l : list Call) : list piece :=
    match l with
    | [] => []
    | c :: r => call_pieces i c ++ calls_pieces (S i) r
    end.

  Definition elided_row : bytes := s2b "<tr><td>(" ++ ellipsis ++ s2b ")</td><tr>".

  Definition stack_pieces (st : Stack) : list piece :=
    [Lit (s2b "<table class=""stack"">")] ++
    calls_pieces 0 (Calls st) ++
    (if SElided st then [Lit elided_row] else []) ++
    [Lit (s2b "</table>")].

  (* ---------------------------------------------------------------- *)
  (* the parts shared by the two range bodies                          *)
  (* ---------------------------------------------------------------- *)
  (* {{if $e.SleepMax}}{{if ne $e.SleepMin $e.SleepMax}} ... {{else}} ... {{end}}{{end}} *)
  Definition sleep_pieces (s : Signature) : list piece :=
    if Z.eqb (SleepMax s) 0 then [] else
    if negb (Z.eqb (SleepMin s) (SleepMax s)) then
      [Lit (s2b " <span class=""sleep"">["); Num (SleepMin s); Lit (s2b "~"); Num (SleepMax s);
       Lit (s2b " mins]</span>")]
    else
      [Lit (s2b " <span class=""sleep"">["); Num (SleepMax s); Lit (s2b " mins]</span>")].

  Definition locked_pieces (s : Signature) : list piece :=
    if Locked s then [Lit (s2b " <span class=""locked"">[locked]</span>")] else [].

  (* {{if $e.CreatedBy.Calls}} ... index $e.CreatedBy.Calls 0 *)
  Definition created_pieces (s : Signature) : list piece :=
    match Calls (CreatedBy s) with
    | [] => []
    | c :: _ => [Lit (s2b " <span class=""created"">Created by: ")] ++ created_by_pieces c ++ [Lit (s2b "</span>")]
    end.

  (* ---------------------------------------------------------------- *)
  (* range $i, $e := .Aggregated.Buckets                               *)
  (* ---------------------------------------------------------------- *)
  Definition bucket_pieces (i : nat) (b : Bucket) : list piece :=
    let l := List.length (IDs b) in
    [Lit (lines [""; "<h1>Signature #"]%string); Num (Z.of_nat i); Lit (s2b ": "); Num (Z.of_nat l);
     Lit (s2b " routine")] ++
    (if Nat.eqb l 1 then [] else [Lit (s2b "s")]) ++
    [Lit (s2b ": <span class=""state"">"); Text (State (BSig b)); Lit (s2b "</span>")] ++
    sleep_pieces (BSig b) ++
    [Lit (lines ["</h1>"; ""]%string)] ++
    locked_pieces (BSig b) ++
    created_pieces (BSig b) ++
    stack_pieces (SStack (BSig b)).

  Fixpoint buckets_pieces (i : nat) (bs : list Bucket) : list piece :=
    match bs with
    | [] => []
    | b :: r => bucket_pieces i b ++ buckets_pieces (S i) r
    end.

  (* ---------------------------------------------------------------- *)
  (* range $i, $e := .Snapshot.Goroutines                              *)
  (* ---------------------------------------------------------------- *)
  (* {{if $e.RaceAddr}} ... {{printf "0x%08X" $e.RaceAddr}}: the printf result is a
     string, escaped like any other text *)
  Definition race_pieces (g : Goroutine) : list piece :=
    if N.eqb (RaceAddr g) 0 then [] else
    [Lit (s2b " <span class=""race"">Race ");
     Lit (if RaceWrite g then s2b "write" else s2b "read");
     Lit (s2b " @ "); Text (s2b "0x" ++ N_to_hex08 true (RaceAddr g));
     Lit (s2b "</span><br>")].

  Definition goroutine_pieces (g : Goroutine) : list piece :=
    [Lit (s2b "<h1>Routine "); Num (ID g);
     Lit (s2b ": <span class=""state"">"); Text (State (GSig g)); Lit (s2b "</span>")] ++
    sleep_pieces (GSig g) ++
    [Lit (lines ["</h1>"; ""]%string)] ++
    locked_pieces (GSig g) ++
    race_pieces g ++
    created_pieces (GSig g) ++
    stack_pieces (SStack (GSig g)).

  (* ---------------------------------------------------------------- *)
  (* the two entry points                                              *)
  (* ---------------------------------------------------------------- *)
  Definition div_open : bytes := s2b "<div id=""content"">".
  Definition div_close : bytes := s2b "</div>".

  (* Aggregated.ToHTML *)
  Definition content_pieces_buckets (bs : list Bucket) : list piece :=
    [Lit div_open] ++ buckets_pieces 0 bs ++ [Lit div_close].

  (* Snapshot.ToHTML *)
  Definition content_pieces_goroutines (gs : list Goroutine) : list piece :=
    [Lit div_open] ++ flat_map goroutine_pieces gs ++ [Lit div_close].

  Definition render_content_buckets (bs : list Bucket) : bytes :=
    flat_map flatten_piece (content_pieces_buckets bs).

  Definition render_content_goroutines (gs : list Goroutine) : bytes :=
    flat_map flatten_piece (content_pieces_goroutines gs).
End WithVersion.
