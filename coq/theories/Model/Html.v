(* Model/Html.v — the hand-built trusted values of stack/html.go (the ones
   that bypass html/template's auto-escaping: funcClass, pkgURL, srcURL /
   getSrcBranchURL, symbol, escape) and the escapers html/template applies to
   them and to plain fields (Go 1.23):
     text / quoted attribute:  html_escape
     template.URL in href:     url_normalize, then html_escape
   The Go version string [ver] (runtime.Version()) is a parameter. *)
From PP Require Import Base.Bytes Base.BytesX Base.Num Base.GoResult Model.Types.

Definition is_alpha (c : N) : bool := (N.leb 65 c && N.leb c 90) || (N.leb 97 c && N.leb c 122).
Definition is_alnum (c : N) : bool := is_alpha c || is_digit c.
Definition memb (c : N) (l : bytes) : bool := existsb (N.eqb c) l.

Definition pct (upper : bool) (c : N) : bytes := [37; hex_digit upper (c / 16); hex_digit upper (c mod 16)]%N.

(* url.URL{Path: s}.EscapedPath(): "*" unchanged; unreserved and $&+,/:;=@ kept *)
Definition escape_path (s : bytes) : bytes :=
  if beq s (s2b "*") then s else
  flat_map (fun c => if is_alnum c || memb c (s2b "-_.~$&+,/:;=@") then [c] else pct true c) s.

(* url.QueryEscape *)
Definition query_escape (s : bytes) : bytes :=
  flat_map (fun c => if is_alnum c || memb c (s2b "-_.~") then [c]
                     else if N.eqb c 32 then [43%N] else pct true c) s.

(* html/template htmlReplacementTable (text and quoted attribute values) *)
Definition html_escape (s : bytes) : bytes :=
  flat_map (fun c =>
    if N.eqb c 0 then [239; 191; 189]%N            (* U+FFFD *)
    else if N.eqb c 34 then s2b "&#34;"
    else if N.eqb c 38 then s2b "&amp;"
    else if N.eqb c 39 then s2b "&#39;"
    else if N.eqb c 43 then s2b "&#43;"
    else if N.eqb c 60 then s2b "&lt;"
    else if N.eqb c 62 then s2b "&gt;"
    else [c]) s.

(* html/template processURLOnto with norm = true *)
Fixpoint url_normalize (s : bytes) : bytes :=
  match s with
  | [] => []
  | c :: t =>
      if memb c (s2b "!#$&*+,/:;=?@[]-._~") || is_alnum c then c :: url_normalize t
      else if N.eqb c 37 then
        match t with
        | h1 :: h2 :: _ => if is_hex h1 && is_hex h2 then c :: url_normalize t else pct false c ++ url_normalize t
        | _ => pct false c ++ url_normalize t
        end
      else pct false c ++ url_normalize t
  end.

(* what ends up between the quotes of href="..." *)
Definition href_attr (u : bytes) : bytes := html_escape (url_normalize u).

(* ---- strings.SplitN(s, "/", n) for n = 2, 3 ---- *)
Definition split_first (s : bytes) : bytes * option bytes :=
  match index_byte s b_slash with
  | Some i => (firstn i s, Some (skipn (S i) s))
  | None => (s, None)
  end.

(* splitHost *)
Definition split_host (s : bytes) : bytes * bytes :=
  match split_first s with
  | (h, Some r) => (h, r)
  | (h, None) => (h, [])
  end.

(* reVersion v\d+\.\d+\.\d+\-\d+\-([a-f0-9]+), leftmost match, returns group 1 *)
Definition digits1 (s : bytes) : option bytes :=
  let '(d, r) := span is_digit s in match d with [] => None | _ => Some r end.
Definition match_version_at (s : bytes) : option bytes :=
  match s with
  | 118%N :: s1 =>
      match digits1 s1 with
      | Some (46%N :: s2) =>
          match digits1 s2 with
          | Some (46%N :: s3) =>
              match digits1 s3 with
              | Some (45%N :: s4) =>
                  match digits1 s4 with
                  | Some (45%N :: s5) =>
                      let '(h, _) := span is_lower_hex s5 in
                      match h with [] => None | _ => Some h end
                  | _ => None
                  end
              | _ => None
              end
          | _ => None
          end
      | _ => None
      end
  | _ => None
  end.
Fixpoint find_version (s : bytes) : option bytes :=
  match match_version_at s with
  | Some h => Some h
  | None => match s with [] => None | _ :: t => find_version t end
  end.

(* splitTag: (name, srcTag, tag) *)
Definition split_tag (s : bytes) : bytes * bytes * bytes :=
  match index_byte s 64 with
  | None => (s, s2b "master", s2b "master")
  | Some i =>
      let tag := skipn (S i) s in
      let src_tag := match find_version tag with Some h => h | None => tag end in
      (firstn i s, query_escape src_tag, query_escape tag)
  end.

(* strings.Index(s, "/vendor/") *)
Definition after_vendor (s : bytes) : bytes :=
  match index_sub s (s2b "/vendor/") with
  | Some i => skipn (i + 8) s
  | None => s
  end.

(* reMethodSymbol ^\(\*?([^)]+)\)(\..+)$ : returns groups 1 and 2 *)
Definition match_method_symbol (s : bytes) : option (bytes * bytes) :=
  match s with
  | 40%N :: t =>
      let t1 := match t with 42%N :: t' => t' | _ => t end in
      (* \*? is greedy but [^)]+ may also start with '*': try with the star consumed first *)
      let try (body : bytes) : option (bytes * bytes) :=
        let '(g1, r) := span (fun c => negb (N.eqb c 41)) body in
        match g1, r with
        | _ :: _, 41%N :: 46%N :: ((_ :: _) as r2) =>
            (* .+ does not match a line feed and must reach the end of the text *)
            if forallb (fun c => negb (N.eqb c 10)) r2 then Some (g1, 46%N :: r2) else None
        | _, _ => None
        end in
      match try t1 with
      | Some x => Some x
      | None => match t with
                | 42%N :: _ => try t
                | _ => None
                end
      end
  | _ => None
  end.

Section WithVersion.
  Variable ver : bytes.   (* runtime.Version() *)

  Definition stdlib_tag : bytes :=
    let v := match strip_prefix (s2b "devel +") ver with
             | Some r => firstn 10 r     (* ver[len(devel):len(devel)+10]: may panic in Go when shorter; release builds never take it *)
             | None => ver
             end in
    query_escape v.

  (* getSrcBranchURL: (url, tag) *)
  Definition get_src_branch_url (c : Call) : bytes * bytes :=
    match CLocation c with
    | Stdlib =>
        (s2b "https://github.com/golang/go/blob/" ++ stdlib_tag ++ s2b "/src/" ++ escape_path (RelSrcPath c) ++
         s2b "#L" ++ Z_to_dec (Line c), stdlib_tag)
    | _ =>
        let file_url (tag : bytes) : bytes * bytes :=
          match LocalSrcPath c with
          | _ :: _ => (s2b "file:///" ++ escape_path (LocalSrcPath c), tag)
          | [] => match RemoteSrcPath c with
                  | _ :: _ => (s2b "file:///" ++ escape_path (RemoteSrcPath c), tag)
                  | [] => ([], [])
                  end
          end in
        match RelSrcPath c with
        | [] => file_url []
        | rel0 =>
            let rel := after_vendor rel0 in
            let '(host, rest) := split_host rel in
            let three := match split_first rest with
                         | (p0, Some r1) => match split_first r1 with
                                            | (p1, Some p2) => Some (p0, p1, p2)
                                            | _ => None
                                            end
                         | _ => None
                         end in
            if beq host (s2b "github.com") then
              match three with
              | Some (p0, p1, p2) =>
                  let '(p, src_tag, tag) := split_tag p1 in
                  (s2b "https://github.com/" ++ escape_path p0 ++ s2b "/" ++ p ++ s2b "/blob/" ++ src_tag ++ s2b "/" ++
                   escape_path p2 ++ s2b "#L" ++ Z_to_dec (Line c), tag)
              | None => file_url []
              end
            else if beq host (s2b "golang.org") then
              match three with
              | Some (p0, p1, p2) =>
                  if beq p0 (s2b "x") then
                    let '(p, src_tag, tag) := split_tag p1 in
                    (s2b "https://github.com/golang/" ++ p ++ s2b "/blob/" ++ src_tag ++ s2b "/" ++
                     escape_path p2 ++ s2b "#L" ++ Z_to_dec (Line c), tag)
                  else file_url []
              | None => file_url []
              end
            else
              let tag :=
                match index_byte rel 64 with
                | Some i => match index_byte (skipn i rel) b_slash with
                            | Some j => firstn (j - 1) (skipn (S i) rel)
                            | None => []
                            end
                | None => []
                end in
              file_url tag
        end
    end.

  Definition src_url (c : Call) : bytes := fst (get_src_branch_url c).

  (* symbol(): s = reMethodSymbol.ReplaceAllString(s, "$1$2") when the name matches *)
  Definition symbol (f : Func) : bytes :=
    let s := FName f in
    query_escape (match match_method_symbol s with Some (g1, g2) => g1 ++ g2 | None => s end).

  (* pkgURL *)
  Definition pkg_url (c : Call) : bytes :=
    let imp := after_vendor (CImportPath c) in
    let ip := escape_path imp in
    match ip with
    | [] => []
    | _ =>
        let base :=
          match CLocation c with
          | Stdlib => s2b "https://golang.org/pkg/"
          | _ => let branch := snd (get_src_branch_url c) in
                 if beq branch (s2b "master") || beq branch [] then s2b "https://godoc.org/" else s2b "https://pkg.go.dev/"
          end in
        if IsExported (CFunc c) then base ++ ip ++ s2b "#" ++ symbol (CFunc c) else base ++ ip
    end.
End WithVersion.

Definition location_string (l : Location) : bytes :=
  match l with
  | LocationUnknown => s2b "LocationUnknown" | GoMod => s2b "GoMod" | GOPATH => s2b "GOPATH"
  | GoPkg => s2b "GoPkg" | Stdlib => s2b "Stdlib"
  end.

(* funcClass *)
Definition func_class (c : Call) : bytes :=
  if IsPkgMain (CFunc c) then s2b "FuncMain Exported"
  else s2b "Func" ++ location_string (CLocation c) ++ (if IsExported (CFunc c) then s2b " Exported" else []).

(* the dynamic attribute values of one call, in document order (RenderCalls):
   href pkgURL, href srcURL, class funcClass, href pkgURL *)
Definition call_attrs (ver : bytes) (c : Call) : list bytes :=
  [url_normalize (pkg_url ver c); url_normalize (src_url ver c); func_class c; url_normalize (pkg_url ver c)].
(* RenderCreatedBy: href srcURL, class funcClass, href pkgURL *)
Definition created_attrs (ver : bytes) (c : Call) : list bytes :=
  [url_normalize (src_url ver c); func_class c; url_normalize (pkg_url ver c)].

Definition sig_attrs (ver : bytes) (s : Signature) : list bytes :=
  (match Calls (CreatedBy s) with c :: _ => created_attrs ver c | [] => [] end) ++
  flat_map (call_attrs ver) (Calls (SStack s)).
