(* Proofs/RoundTripSym.v — C01, symbol round trip: Func.Init applied to the
   text the printer emits for a symbol (followed by the optional
   " in goroutine N" of a creator line) yields exactly the Func the AST
   denotes.  The printer side (Spec/Printer.v: sym_raw, path_to_prefix,
   func_of) does not mention func_init. *)
From PP Require Import Base.Bytes Base.BytesX Base.GoResult Base.Num Model.Types Model.FuncInit.
From PP Require Import Spec.Printer Proofs.FuncInitSafe Proofs.RoundTripNum.
From Coq Require Import String.

(* ------------------------------------------------------------------ *)
(* 1. searching in byte strings                                        *)
(* ------------------------------------------------------------------ *)

Lemma index_byte_none : forall s c, ~ In c s -> index_byte s c = None.
Proof.
  induction s as [|x s IH]; intros c Hn; simpl; [reflexivity|].
  destruct (N.eqb x c) eqn:Hx.
  - apply N.eqb_eq in Hx. exfalso. apply Hn. left. exact Hx.
  - rewrite IH; [reflexivity|]. intros Hin. apply Hn. right. exact Hin.
Qed.

Lemma index_byte_first : forall a b c, ~ In c a ->
  index_byte (a ++ c :: b) c = Some (List.length a).
Proof.
  induction a as [|x a IH]; intros b c Hn; simpl.
  - rewrite N.eqb_refl. reflexivity.
  - destruct (N.eqb x c) eqn:Hx.
    + apply N.eqb_eq in Hx. exfalso. apply Hn. left. exact Hx.
    + rewrite IH; [reflexivity|]. intros Hin. apply Hn. right. exact Hin.
Qed.

Lemma index_byte_not_in : forall s c i, index_byte s c = Some i ->
  exists pre post, s = pre ++ c :: post /\ List.length pre = i /\ ~ In c pre.
Proof.
  induction s as [|x s IH]; intros c i H; simpl in H; [discriminate|].
  destruct (N.eqb x c) eqn:Hx.
  - injection H as Hi. apply N.eqb_eq in Hx. subst. exists [], s.
    split; [reflexivity|]. split; [reflexivity|]. intros Hin. exact Hin.
  - destruct (index_byte s c) as [j|] eqn:Hj; [|discriminate].
    simpl in H. injection H as Hi.
    destruct (IH c j Hj) as (pre & post & Hs & Hl & Hni).
    exists (x :: pre), post. subst. split; [reflexivity|]. split; [reflexivity|].
    intros [Hin|Hin]; [|exact (Hni Hin)].
    subst x. rewrite N.eqb_refl in Hx. discriminate.
Qed.

Lemma index_byte_none_inv : forall s c, index_byte s c = None -> ~ In c s.
Proof.
  induction s as [|x s IH]; intros c H; simpl in H; [intros Hin; exact Hin|].
  destruct (N.eqb x c) eqn:Hx; [discriminate|].
  destruct (index_byte s c) as [j|] eqn:Hj; [discriminate|].
  intros [Hin|Hin].
  - subst x. rewrite N.eqb_refl in Hx. discriminate.
  - exact (IH c Hj Hin).
Qed.

Lemma last_index_byte_none : forall s c, ~ In c s -> last_index_byte s c = None.
Proof.
  induction s as [|x s IH]; intros c Hn; simpl; [reflexivity|].
  rewrite IH by (intros Hin; apply Hn; right; exact Hin).
  destruct (N.eqb x c) eqn:Hx; [|reflexivity].
  apply N.eqb_eq in Hx. exfalso. apply Hn. left. exact Hx.
Qed.

Lemma last_index_byte_last : forall a b c, ~ In c b ->
  last_index_byte (a ++ c :: b) c = Some (List.length a).
Proof.
  induction a as [|x a IH]; intros b c Hn; simpl.
  - rewrite last_index_byte_none by exact Hn. rewrite N.eqb_refl. reflexivity.
  - rewrite IH by exact Hn. reflexivity.
Qed.

Lemma last_slash_split : forall (c : N) s, In c s ->
  exists a b, s = a ++ c :: b /\ ~ In c b.
Proof.
  intros c. induction s as [|x s IH]; intros Hin; [contradiction|].
  destruct (in_dec N.eq_dec c s) as [Hs|Hs].
  - destruct (IH Hs) as (a & b & Hab & Hb). exists (x :: a), b. subst s. split; [reflexivity|exact Hb].
  - destruct Hin as [Hx|Hin]; [|contradiction].
    subst x. exists [], s. split; [reflexivity|exact Hs].
Qed.

Lemma skipn_app_exact : forall (A : Type) (l1 l2 : list A), skipn (List.length l1) (l1 ++ l2) = l2.
Proof. intros A l1 l2. induction l1 as [|x l1 IH]; simpl; [reflexivity|exact IH]. Qed.

Lemma skipn_S_app_cons : forall (A : Type) (l1 : list A) x l2,
  skipn (S (List.length l1)) (l1 ++ x :: l2) = l2.
Proof. intros A l1 x l2. induction l1 as [|y l1 IH]; simpl; [reflexivity|exact IH]. Qed.

Lemma existsb_eqb_false : forall c s, existsb (N.eqb c) s = false -> ~ In c s.
Proof.
  intros c s H Hin.
  assert (Ht : existsb (N.eqb c) s = true).
  { apply existsb_exists. exists c. split; [exact Hin|apply N.eqb_refl]. }
  rewrite Ht in H. discriminate.
Qed.

Lemma existsb_eqb_true : forall c s, existsb (N.eqb c) s = true -> In c s.
Proof.
  intros c s H. apply existsb_exists in H. destruct H as (x & Hin & Hx).
  apply N.eqb_eq in Hx. subst x. exact Hin.
Qed.

Lemma forallb_not_in : forall (P : N -> bool) c s,
  P c = false -> forallb P s = true -> ~ In c s.
Proof.
  intros P c s Hc Hall Hin.
  rewrite forallb_forall in Hall. rewrite (Hall c Hin) in Hc. discriminate.
Qed.

(* ------------------------------------------------------------------ *)
(* 2. endPkg0 on a text whose package part has the printer's shape     *)
(* ------------------------------------------------------------------ *)

(* the package part has a '/', no '.' after the last one *)
Lemma end_pkg0_slash : forall x y rest,
  ~ In 47%N y -> ~ In 46%N y -> ~ In 47%N rest ->
  end_pkg0 ((x ++ 47%N :: y) ++ 46%N :: rest) = Some (Z.of_nat (List.length (x ++ 47%N :: y))).
Proof.
  intros x y rest Hy47 Hy46 Hr47. unfold end_pkg0, b_slash, b_dot.
  rewrite <- app_assoc. change ((47%N :: y) ++ 46%N :: rest) with (47%N :: (y ++ 46%N :: rest)).
  rewrite last_index_byte_last.
  - rewrite skipn_S_app_cons. rewrite index_byte_first by exact Hy46.
    f_equal. rewrite app_length. simpl List.length. lia.
  - intros Hin. apply in_app_or in Hin. destruct Hin as [Hin|[Hin|Hin]].
    + exact (Hy47 Hin).
    + discriminate.
    + exact (Hr47 Hin).
Qed.

(* no '/' at all: the first '.' *)
Lemma end_pkg0_noslash : forall y rest,
  ~ In 47%N y -> ~ In 46%N y -> ~ In 47%N rest ->
  end_pkg0 (y ++ 46%N :: rest) = Some (Z.of_nat (List.length y)).
Proof.
  intros y rest Hy47 Hy46 Hr47. unfold end_pkg0, b_slash, b_dot.
  rewrite last_index_byte_none.
  - rewrite index_byte_first by exact Hy46. reflexivity.
  - intros Hin. apply in_app_or in Hin. destruct Hin as [Hin|[Hin|Hin]].
    + exact (Hy47 Hin).
    + discriminate.
    + exact (Hr47 Hin).
Qed.

(* neither '/' nor '.' *)
Lemma end_pkg0_none : forall s, ~ In 47%N s -> ~ In 46%N s -> end_pkg0 s = Some (-1)%Z.
Proof.
  intros s H47 H46. unfold end_pkg0, b_slash, b_dot.
  rewrite last_index_byte_none by exact H47.
  rewrite index_byte_none by exact H46. reflexivity.
Qed.

(* ------------------------------------------------------------------ *)
(* 3. the shape of path_to_prefix                                      *)
(* ------------------------------------------------------------------ *)

Definition esc (c : N) : bytes := [37; hexd (c / 16); hexd (c mod 16)]%N.

Definition esc_all (p : bytes) : bytes :=
  flat_map (fun c => if must_escape c then esc c else [c]) p.

Lemma lt16_hexd_cases : forall d, (d < 16)%N ->
  hexd d = 48%N \/ hexd d = 49%N \/ hexd d = 50%N \/ hexd d = 51%N \/
  hexd d = 52%N \/ hexd d = 53%N \/ hexd d = 54%N \/ hexd d = 55%N \/
  hexd d = 56%N \/ hexd d = 57%N \/ hexd d = 97%N \/ hexd d = 98%N \/
  hexd d = 99%N \/ hexd d = 100%N \/ hexd d = 101%N \/ hexd d = 102%N.
Proof.
  intros d Hd.
  assert (H : (d = 0 \/ d = 1 \/ d = 2 \/ d = 3 \/ d = 4 \/ d = 5 \/ d = 6 \/ d = 7 \/
              d = 8 \/ d = 9 \/ d = 10 \/ d = 11 \/ d = 12 \/ d = 13 \/ d = 14 \/ d = 15)%N) by lia.
  repeat (destruct H as [H|H]; [subst d; vm_compute; tauto|]).
  subst d; vm_compute; tauto.
Qed.

Lemma hexd_not_dot : forall d, (d < 16)%N -> hexd d <> 46%N.
Proof.
  intros d Hd E. destruct (lt16_hexd_cases d Hd) as [H|H];
  repeat (destruct H as [H|H]; [rewrite H in E; discriminate|]); rewrite H in E; discriminate.
Qed.

Lemma hexd_not_slash : forall d, (d < 16)%N -> hexd d <> 47%N.
Proof.
  intros d Hd E. destruct (lt16_hexd_cases d Hd) as [H|H];
  repeat (destruct H as [H|H]; [rewrite H in E; discriminate|]); rewrite H in E; discriminate.
Qed.

Lemma div16_lt : forall c, (c < 256)%N -> (c / 16 < 16)%N.
Proof. intros c Hc. apply N.div_lt_upper_bound; lia. Qed.

Lemma mod16_lt : forall c, (c mod 16 < 16)%N.
Proof. intros c. apply N.mod_lt. lia. Qed.

Lemma esc_no_dot : forall c, (c < 256)%N -> ~ In 46%N (esc c).
Proof.
  intros c Hc [H|[H|[H|H]]].
  - discriminate.
  - exact (hexd_not_dot _ (div16_lt c Hc) H).
  - exact (hexd_not_dot _ (mod16_lt c) H).
  - exact H.
Qed.

Lemma esc_no_slash : forall c, (c < 256)%N -> ~ In 47%N (esc c).
Proof.
  intros c Hc [H|[H|[H|H]]].
  - discriminate.
  - exact (hexd_not_slash _ (div16_lt c Hc) H).
  - exact (hexd_not_slash _ (mod16_lt c) H).
  - exact H.
Qed.

Lemma has_slash_false : forall p, has_slash p = false -> ~ In 47%N p.
Proof. intros p H. apply existsb_eqb_false. exact H. Qed.

Lemma not_in_has_slash : forall p, ~ In 47%N p -> has_slash p = false.
Proof.
  intros p H. unfold has_slash. destruct (existsb (N.eqb 47) p) eqn:E; [|reflexivity].
  exfalso. apply H. apply existsb_eqb_true. exact E.
Qed.

(* a path without '/': every '.' is escaped, no '/' appears *)
Lemma ptp_noslash : forall p,
  forallb (fun c => (c <? 256)%N) p = true -> ~ In 47%N p ->
  ~ In 46%N (path_to_prefix p) /\ ~ In 47%N (path_to_prefix p).
Proof.
  induction p as [|c p IH]; intros Hb Hns.
  - split; intros H; exact H.
  - simpl in Hb. apply andb_true_iff in Hb as [Hc Hb]. apply N.ltb_lt in Hc.
    assert (Hns' : ~ In 47%N p) by (intros H; apply Hns; right; exact H).
    assert (Hc47 : c <> 47%N) by (intros H; apply Hns; left; exact H).
    destruct (IH Hb Hns') as [IH46 IH47].
    change (path_to_prefix (c :: p))
      with ((if must_escape c || ((c =? 46)%N && negb (has_slash p)) then esc c else [c]) ++ path_to_prefix p).
    rewrite (not_in_has_slash p Hns').
    destruct (must_escape c || ((c =? 46)%N && negb false)) eqn:He.
    + split; intros H; apply in_app_or in H; destruct H as [H|H].
      * exact (esc_no_dot c Hc H).
      * exact (IH46 H).
      * exact (esc_no_slash c Hc H).
      * exact (IH47 H).
    + apply orb_false_iff in He as [_ He]. rewrite andb_true_r in He. apply N.eqb_neq in He.
      split; intros H; apply in_app_or in H; destruct H as [H|H].
      * destruct H as [H|H]; [congruence|exact H].
      * exact (IH46 H).
      * destruct H as [H|H]; [congruence|exact H].
      * exact (IH47 H).
Qed.

(* before a '/', only the must_escape bytes are escaped *)
Lemma ptp_split_slash : forall p1 p2,
  path_to_prefix (p1 ++ 47%N :: p2) = esc_all p1 ++ 47%N :: path_to_prefix p2.
Proof.
  induction p1 as [|c p1 IH]; intros p2.
  - reflexivity.
  - change (path_to_prefix ((c :: p1) ++ 47%N :: p2))
      with ((if must_escape c || ((c =? 46)%N && negb (has_slash (p1 ++ 47%N :: p2))) then esc c else [c])
            ++ path_to_prefix (p1 ++ 47%N :: p2)).
    assert (Hs : has_slash (p1 ++ 47%N :: p2) = true).
    { unfold has_slash. apply existsb_exists. exists 47%N. split; [|reflexivity].
      apply in_or_app. right. left. reflexivity. }
    rewrite Hs, andb_false_r, orb_false_r, IH.
    change (esc_all (c :: p1)) with ((if must_escape c then esc c else [c]) ++ esc_all p1).
    rewrite <- app_assoc. reflexivity.
Qed.

Lemma end_pkg0_ptp : forall p rest,
  forallb (fun c => (c <? 256)%N) p = true -> ~ In 47%N rest ->
  end_pkg0 (path_to_prefix p ++ 46%N :: rest) = Some (Z.of_nat (List.length (path_to_prefix p))).
Proof.
  intros p rest Hb Hr.
  destruct (in_dec N.eq_dec 47%N p) as [Hs|Hs].
  - destruct (last_slash_split 47%N p Hs) as (p1 & p2 & Hp & Hp2). subst p.
    rewrite forallb_app in Hb. apply andb_true_iff in Hb as [_ Hb].
    cbn [forallb] in Hb. apply andb_true_iff in Hb as [_ Hb].
    destruct (ptp_noslash p2 Hb Hp2) as [H46 H47].
    rewrite ptp_split_slash. apply end_pkg0_slash; assumption.
  - destruct (ptp_noslash p Hb Hs) as [H46 H47].
    apply end_pkg0_noslash; assumption.
Qed.

(* ------------------------------------------------------------------ *)
(* 4. unescaping the printer's escaping                                *)
(* ------------------------------------------------------------------ *)

Lemma pu_no_pct : forall t, ~ In 37%N t -> path_unescape t = Some t.
Proof.
  induction t as [|c t IH]; intros Hn; [reflexivity|].
  rewrite pu_cons_other.
  - rewrite IH; [reflexivity|]. intros H. apply Hn. right. exact H.
  - apply N.eqb_neq. intros E. apply Hn. left. exact E.
Qed.

Lemma must_escape_pct : forall c, must_escape c = false -> N.eqb c 37 = false.
Proof.
  intros c H. unfold must_escape in H.
  apply orb_false_iff in H as [H _]. apply orb_false_iff in H as [H _].
  apply orb_false_iff in H as [_ H]. exact H.
Qed.

Lemma pu_esc : forall c t, (c < 256)%N ->
  path_unescape (esc c ++ t) = option_map (cons c) (path_unescape t).
Proof.
  intros c t Hc. unfold esc.
  change ([37%N; hexd (c / 16); hexd (c mod 16)] ++ t) with (37%N :: hexd (c / 16) :: hexd (c mod 16) :: t).
  rewrite pu_cons_pct.
  rewrite (hexd_is_hex _ (div16_lt c Hc)), (hexd_is_hex _ (mod16_lt c)).
  rewrite (hexd_hexval _ (div16_lt c Hc)), (hexd_hexval _ (mod16_lt c)).
  cbv [andb].
  replace (c / 16 * 16 + c mod 16)%N with c; [reflexivity|].
  rewrite (N.div_mod c 16) at 1 by lia. lia.
Qed.

Lemma pu_ptp : forall p t,
  forallb (fun c => (c <? 256)%N) p = true ->
  path_unescape (path_to_prefix p ++ t) = option_map (app p) (path_unescape t).
Proof.
  induction p as [|c p IH]; intros t Hb.
  - simpl. destruct (path_unescape t); reflexivity.
  - simpl in Hb. apply andb_true_iff in Hb as [Hc Hb]. apply N.ltb_lt in Hc.
    change (path_to_prefix (c :: p))
      with ((if must_escape c || ((c =? 46)%N && negb (has_slash p)) then esc c else [c]) ++ path_to_prefix p).
    rewrite <- app_assoc.
    destruct (must_escape c || ((c =? 46)%N && negb (has_slash p))) eqn:He.
    + rewrite pu_esc by exact Hc. rewrite IH by exact Hb.
      destruct (path_unescape t); reflexivity.
    + apply orb_false_iff in He as [He _].
      change ([c] ++ path_to_prefix p ++ t) with (c :: (path_to_prefix p ++ t)).
      rewrite pu_cons_other by (apply must_escape_pct; exact He).
      rewrite IH by exact Hb. destruct (path_unescape t); reflexivity.
Qed.

(* ------------------------------------------------------------------ *)
(* 5. the body of func_init with its three slices resolved             *)
(* ------------------------------------------------------------------ *)

(* what func_init builds from Complete, ImportPath and the text after the
   separating '.' *)
Definition finish (complete ip name0 : bytes) : Func :=
  let name :=
    match last_index_byte name0 b_space with
    | Some idx =>
        let cut := firstn idx name0 in
        match strip_suffix in_goroutine_suffix cut with
        | Some n => n
        | None => name0
        end
    | None => name0
    end in
  let dir := match last_index_byte ip b_slash with Some i => skipn (S i) ip | None => ip end in
  let is_main := beq ip (s2b "main") in
  let exported :=
    if is_main then beq name (s2b "main")
    else match last_opt (split name [b_dot]) with
         | Some part => first_rune_upper_fixed part
         | None => true
         end in
  mkFunc complete ip dir name exported is_main.

Lemma body_neg : forall raw complete,
  func_init_body raw complete (-1) = Ok (Some (finish complete [] complete)).
Proof.
  intros raw complete. unfold func_init_body.
  change (0 <? -1)%Z with false. cbv iota. unfold bind at 1.
  change (-1 =? -1)%Z with true. cbv iota. unfold bind at 1.
  rewrite go_slice_ok; [|simpl; lia|simpl; lia|lia].
  change (Z.to_nat (-1 + 1)) with 0. rewrite Nat.sub_0_r, Nat2Z.id.
  change (skipn 0 complete) with complete. rewrite firstn_all.
  unfold bind. reflexivity.
Qed.

Lemma body_dot : forall pre post c1 c2,
  path_unescape (pre ++ 46%N :: post) = Some (c1 ++ 46%N :: c2) ->
  path_unescape pre = Some c1 ->
  func_init_body (pre ++ 46%N :: post) (c1 ++ 46%N :: c2) (Z.of_nat (List.length pre)) =
  Ok (Some (finish (c1 ++ 46%N :: c2) c1 c2)).
Proof.
  intros pre post c1 c2 Hpu Hpre1.
  destruct (pu_split_dot _ _ _ Hpu) as (d1 & d2 & H1 & H2 & Hc & Hlen).
  rewrite Hpre1 in H1. injection H1 as H1. subst d1. clear H2 Hc d2.
  unfold func_init_body.
  assert (Hpre : (if (0 <? Z.of_nat (List.length pre))%Z
                  then go_slice (pre ++ 46%N :: post) 0 (Z.of_nat (List.length pre))
                  else Ok []) = Ok pre).
  { destruct (0 <? Z.of_nat (List.length pre))%Z eqn:Hpos.
    - rewrite go_slice_ok; [|lia|lia|rewrite app_length; lia].
      f_equal. change (Z.to_nat 0) with 0. rewrite Nat.sub_0_r. simpl skipn.
      rewrite Nat2Z.id. apply firstn_app_exact.
    - apply Z.ltb_ge in Hpos. destruct pre; [reflexivity|simpl in Hpos; lia]. }
  rewrite Hpre. unfold bind at 1.
  assert (Hend : (if (0 <? Z.of_nat (List.length pre))%Z
                  then (Z.of_nat (List.length pre) - 2 * Z.of_nat (count_byte pre b_percent))%Z
                  else Z.of_nat (List.length pre)) = Z.of_nat (List.length c1)).
  { unfold b_percent. destruct (0 <? Z.of_nat (List.length pre))%Z eqn:Hpos.
    - lia.
    - apply Z.ltb_ge in Hpos. lia. }
  rewrite Hend.
  assert (Hne : (Z.of_nat (List.length c1) =? -1)%Z = false) by (apply Z.eqb_neq; lia).
  rewrite Hne.
  assert (Hs1 : go_slice (c1 ++ 46%N :: c2) 0 (Z.of_nat (List.length c1)) = Ok c1).
  { rewrite go_slice_ok; [|lia|lia|rewrite app_length; lia].
    f_equal. change (Z.to_nat 0) with 0. rewrite Nat.sub_0_r. simpl skipn.
    rewrite Nat2Z.id. apply firstn_app_exact. }
  rewrite Hs1. unfold bind at 1.
  assert (Hs2 : go_slice (c1 ++ 46%N :: c2) (Z.of_nat (List.length c1) + 1)
                  (Z.of_nat (List.length (c1 ++ 46%N :: c2))) = Ok c2).
  { rewrite go_slice_ok; [|lia|rewrite app_length; simpl List.length; lia|lia].
    f_equal.
    replace (Z.to_nat (Z.of_nat (List.length c1) + 1)) with (S (List.length c1)) by lia.
    rewrite skipn_S_app_cons. rewrite Nat2Z.id.
    apply firstn_all2. rewrite app_length. simpl List.length. lia. }
  rewrite Hs2. unfold bind. reflexivity.
Qed.

(* ------------------------------------------------------------------ *)
(* 6. the name: " in goroutine N", the last '.', the first rune         *)
(* ------------------------------------------------------------------ *)

Lemma strip_suffix_app : forall lit a, strip_suffix lit (a ++ lit) = Some a.
Proof.
  intros lit a. unfold strip_suffix, has_suffix.
  assert (Hl : List.length (a ++ lit) - List.length lit = List.length a)
    by (rewrite app_length; lia).
  rewrite Hl, skipn_app_exact, beq_refl, firstn_app_exact.
  assert (Hle : Nat.leb (List.length lit) (List.length (a ++ lit)) = true)
    by (apply Nat.leb_le; rewrite app_length; lia).
  rewrite Hle. reflexivity.
Qed.

Lemma has_prefix_nil : forall s, has_prefix s [] = true.
Proof. intros [|x s]; reflexivity. Qed.

Lemma split_dot_last : forall fuel s cur, List.length s < fuel ->
  last_opt (split_go fuel s [46%N] cur) =
  Some (match last_index_byte s 46 with Some i => skipn (S i) s | None => rev cur ++ s end).
Proof.
  induction fuel as [|f IH]; intros s cur Hlen; [lia|].
  destruct s as [|x s].
  - simpl. rewrite app_nil_r. reflexivity.
  - simpl in Hlen.
    change (split_go (S f) (x :: s) [46%N] cur)
      with (if N.eqb x 46 && has_prefix s [] then rev cur :: split_go f s [46%N] []
            else split_go f s [46%N] (x :: cur)).
    rewrite has_prefix_nil.
    change (last_index_byte (x :: s) 46)
      with (match last_index_byte s 46 with
            | Some i => Some (S i)
            | None => if N.eqb x 46 then Some 0 else None
            end).
    rewrite andb_true_r.
    destruct (N.eqb x 46) eqn:Hx.
    + assert (IH' := IH s [] ltac:(lia)).
      destruct (split_go f s [46%N] []) as [|y l] eqn:Hsp; [discriminate|].
      change (last_opt (rev cur :: y :: l)) with (last_opt (y :: l)).
      rewrite IH'. destruct (last_index_byte s 46) as [i|]; reflexivity.
    + rewrite (IH s (x :: cur)) by lia.
      destruct (last_index_byte s 46) as [i|]; [reflexivity|].
      simpl rev. rewrite <- app_assoc. reflexivity.
Qed.

Lemma split_dot_after_last : forall name,
  last_opt (split name [b_dot]) = Some (after_last 46 name).
Proof.
  intros name. unfold split, b_dot, after_last.
  rewrite split_dot_last by lia. reflexivity.
Qed.

Lemma in_goroutine_suffix_sp : s2b " in goroutine " = in_goroutine_suffix ++ [32%N].
Proof. reflexivity. Qed.

Lemma digit_not : forall c, is_digit c = false -> forall l, forallb is_digit l = true -> ~ In c l.
Proof. intros c Hc l Hl. exact (forallb_not_in is_digit c l Hc Hl). Qed.

Lemma name_no_byte : forall c n, name_byte_ok c = false -> wf_name n = true -> ~ In c n.
Proof. intros c n Hc Hn. exact (forallb_not_in name_byte_ok c n Hc Hn). Qed.

Lemma finish_name : forall complete ip name gid,
  wf_name name = true ->
  finish complete ip (name ++ in_goroutine_text gid) =
  mkFunc complete ip (after_last 47 ip) name
    (if beq ip (s2b "main") then beq name (s2b "main") else rune_upper_fixed (after_last 46 name))
    (beq ip (s2b "main")).
Proof.
  intros complete ip name gid Hwf.
  assert (Hname :
    match last_index_byte (name ++ in_goroutine_text gid) b_space with
    | Some idx =>
        match strip_suffix in_goroutine_suffix (firstn idx (name ++ in_goroutine_text gid)) with
        | Some n => n
        | None => name ++ in_goroutine_text gid
        end
    | None => name ++ in_goroutine_text gid
    end = name).
  { unfold b_space. destruct gid as [n|]; unfold in_goroutine_text.
    - rewrite in_goroutine_suffix_sp. rewrite <- app_assoc.
      change ([32%N] ++ N_to_dec n) with (32%N :: N_to_dec n).
      rewrite app_assoc.
      rewrite last_index_byte_last by (apply digit_not; [reflexivity|apply N_to_dec_digits]).
      rewrite firstn_app_exact, strip_suffix_app. reflexivity.
    - rewrite app_nil_r. rewrite last_index_byte_none; [reflexivity|].
      apply name_no_byte; [reflexivity|exact Hwf]. }
  unfold finish. cbv zeta. rewrite Hname. rewrite split_dot_after_last.
  reflexivity.
Qed.

(* ------------------------------------------------------------------ *)
(* 7. the round trip                                                   *)
(* ------------------------------------------------------------------ *)

(* " in goroutine N" contains neither '%', '.' nor '/' *)
Lemma suffix_no_byte : forall c gid,
  is_digit c = false -> ~ In c (s2b " in goroutine ") -> ~ In c (in_goroutine_text gid).
Proof.
  intros c gid Hd Hc. destruct gid as [n|]; unfold in_goroutine_text.
  - intros H. apply in_app_or in H. destruct H as [H|H]; [exact (Hc H)|].
    exact (digit_not c Hd _ (N_to_dec_digits n) H).
  - intros H. exact H.
Qed.

Lemma not_in_lit : forall c, negb (existsb (N.eqb c) (s2b " in goroutine ")) = true ->
  ~ In c (s2b " in goroutine ").
Proof.
  intros c H. apply existsb_eqb_false. apply negb_true_iff. exact H.
Qed.

Lemma suffix_no_pct : forall gid, ~ In 37%N (in_goroutine_text gid).
Proof. intros gid. apply suffix_no_byte; [reflexivity|apply not_in_lit; reflexivity]. Qed.
Lemma suffix_no_dot : forall gid, ~ In 46%N (in_goroutine_text gid).
Proof. intros gid. apply suffix_no_byte; [reflexivity|apply not_in_lit; reflexivity]. Qed.
Lemma suffix_no_slash : forall gid, ~ In 47%N (in_goroutine_text gid).
Proof. intros gid. apply suffix_no_byte; [reflexivity|apply not_in_lit; reflexivity]. Qed.

Lemma not_in_app : forall (c : N) a b, ~ In c a -> ~ In c b -> ~ In c (a ++ b).
Proof. intros c a b Ha Hb H. apply in_app_or in H. destruct H as [H|H]; [exact (Ha H)|exact (Hb H)]. Qed.

Lemma func_init_spkg : forall p n gid,
  forallb (fun c => (c <? 256)%N) p = true -> wf_name n = true ->
  func_init (sym_raw (SPkg p n) ++ in_goroutine_text gid) =
  Ok (Some (func_of (SPkg p n) (in_goroutine_text gid))).
Proof.
  intros p n gid Hp Hn.
  set (sfx := in_goroutine_text gid).
  assert (Hn37 : ~ In 37%N n) by (apply name_no_byte; [reflexivity|exact Hn]).
  assert (Hn47 : ~ In 47%N n) by (apply name_no_byte; [reflexivity|exact Hn]).
  assert (Hraw : sym_raw (SPkg p n) ++ sfx = path_to_prefix p ++ 46%N :: (n ++ sfx)).
  { unfold sym_raw. rewrite <- !app_assoc. reflexivity. }
  rewrite Hraw. rewrite func_init_unfold.
  rewrite end_pkg0_ptp; [|exact Hp|apply not_in_app; [exact Hn47|apply suffix_no_slash]].
  assert (Hpu : path_unescape (path_to_prefix p ++ 46%N :: (n ++ sfx)) = Some (p ++ 46%N :: (n ++ sfx))).
  { rewrite pu_ptp by exact Hp. rewrite pu_no_pct; [reflexivity|].
    intros [H|H]; [discriminate|].
    exact (not_in_app _ _ _ Hn37 (suffix_no_pct gid) H). }
  rewrite Hpu.
  assert (Hpre : path_unescape (path_to_prefix p) = Some p).
  { rewrite <- (app_nil_r (path_to_prefix p)). rewrite pu_ptp by exact Hp.
    rewrite pu_nil. simpl. rewrite app_nil_r. reflexivity. }
  rewrite (body_dot _ _ _ _ Hpu Hpre).
  unfold sfx. rewrite finish_name by exact Hn.
  reflexivity.
Qed.

Lemma func_init_sbare : forall n gid,
  wf_name n = true ->
  func_init (sym_raw (SBare n) ++ in_goroutine_text gid) =
  Ok (Some (func_of (SBare n) (in_goroutine_text gid))).
Proof.
  intros n gid Hn.
  set (sfx := in_goroutine_text gid).
  assert (Hn37 : ~ In 37%N n) by (apply name_no_byte; [reflexivity|exact Hn]).
  assert (Hn47 : ~ In 47%N n) by (apply name_no_byte; [reflexivity|exact Hn]).
  assert (Hpu : path_unescape (n ++ sfx) = Some (n ++ sfx)).
  { apply pu_no_pct. apply not_in_app; [exact Hn37|apply suffix_no_pct]. }
  unfold sym_raw. rewrite func_init_unfold. rewrite Hpu.
  unfold func_of.
  destruct (index_byte n 46) as [i|] eqn:Hi.
  - destruct (index_byte_not_in _ _ _ Hi) as (pre & post & Hs & Hl & Hpre46).
    subst n i.
    assert (Hwf : wf_name pre = true /\ wf_name post = true).
    { unfold wf_name in Hn. rewrite forallb_app in Hn. apply andb_true_iff in Hn as [H1 H2].
      cbn [forallb] in H2. apply andb_true_iff in H2 as [_ H2]. split; assumption. }
    destruct Hwf as [Hwpre Hwpost].
    rewrite firstn_app_exact, skipn_S_app_cons.
    assert (Hraw : (pre ++ 46%N :: post) ++ sfx = pre ++ 46%N :: (post ++ sfx)).
    { rewrite <- app_assoc. reflexivity. }
    rewrite Hraw in *.
    assert (Hpre47 : ~ In 47%N pre) by (apply name_no_byte; [reflexivity|exact Hwpre]).
    assert (Hpost47 : ~ In 47%N post) by (apply name_no_byte; [reflexivity|exact Hwpost]).
    assert (Hpre37 : ~ In 37%N pre) by (apply name_no_byte; [reflexivity|exact Hwpre]).
    rewrite end_pkg0_noslash;
      [|exact Hpre47|exact Hpre46|apply not_in_app; [exact Hpost47|apply suffix_no_slash]].
    rewrite (body_dot _ _ _ _ Hpu (pu_no_pct pre Hpre37)).
    unfold sfx. rewrite finish_name by exact Hwpost.
    reflexivity.
  - apply index_byte_none_inv in Hi.
    rewrite end_pkg0_none;
      [|apply not_in_app; [exact Hn47|apply suffix_no_slash]
       |apply not_in_app; [exact Hi|apply suffix_no_dot]].
    rewrite body_neg.
    unfold sfx. rewrite finish_name by exact Hn.
    reflexivity.
Qed.

Theorem func_init_sym_raw : forall s gid,
  wf_sym s = true ->
  func_init (sym_raw s ++ in_goroutine_text gid) = Ok (Some (func_of s (in_goroutine_text gid))).
Proof.
  intros [p n|n] gid Hwf; unfold wf_sym in Hwf; apply andb_true_iff in Hwf as [H1 H2].
  - apply func_init_spkg; assumption.
  - apply func_init_sbare; assumption.
Qed.

Print Assumptions func_init_sym_raw.
