(* Model/Reader.v — stack/reader.go: the hand-written buffered line reader,
   over a scripted io.Reader.

   A source is the remaining content, a delivery schedule and the terminal
   error.  Read(p) with a schedule step (k, with_err):
     - if content remains: n = min k (len p) (remaining); if that exhausts the
       content and with_err is set, the terminal error is returned together
       with the data, otherwise nil;
     - if no content remains: (0, terminal error), forever (sticky);
     - an exhausted schedule delivers as much as fits (k = infinity).
   k = 0 is a zero-length read.

   The reader's buffer is [pending] (= buf[r:w]); r, w themselves are not
   observable.  Every Read call is logged with len(p) and its result count. *)
From PP Require Import Base.Bytes Base.GoResult.
From Coq Require Import String.

Inductive io_err := EOF | Fail (code : N) | NoProgress.

Record source := mkSource { rest : bytes; sched : list (nat * bool); final : io_err }.

(* EvRead: a Read call with len(p) and the count it returned; EvLine: a line
   handed to the scanner (ghost event: not observable in Go, it marks the
   position in the trace); EvWrite: a Write to the prefix writer. *)
Inductive event := EvRead (len_p n : nat) | EvLine (data : bytes) | EvWrite (data : bytes).

(* io.Reader.Read(p) with len(p) = lp *)
Definition src_read (src : source) (lp : nat) : bytes * option io_err * source :=
  match rest src with
  | [] => ([], Some (final src), mkSource [] (tl (sched src)) (final src))
  | _ =>
      let '(k, we, sc') :=
        match sched src with
        | [] => (lp, true, [])
        | (k, we) :: sc' => (k, we, sc')
        end in
      let n := Nat.min k lp in
      let data := firstn n (rest src) in
      let rest' := skipn n (rest src) in
      let e := match rest' with [] => if we then Some (final src) else None | _ => None end in
      (data, e, mkSource rest' sc' (final src))
  end.

Definition buf_cap : nat := Z.to_nat 16384.

Record reader := mkReader { pending : bytes; rerr : option io_err }.
Definition reader0 : reader := mkReader [] None.

(* the "for i := 100; i > 0; i--" loop of fill *)
Fixpoint fill_try (i : nat) (pend : bytes) (src : source) (evs : list event)
  : reader * source * list event :=
  match i with
  | O => (mkReader pend (Some NoProgress), src, evs)
  | S i' =>
      let lp := buf_cap - List.length pend in
      let '(data, e, src') := src_read src lp in
      let pend' := pend ++ data in
      let evs' := evs ++ [EvRead lp (List.length data)] in
      match e with
      | Some err => (mkReader pend' (Some err), src', evs')
      | None =>
          match data with
          | [] => fill_try i' pend' src' evs'
          | _ => (mkReader pend' None, src', evs')
          end
      end
  end.
Arguments fill_try : simpl never.

(* fill, reader.go:25 *)
Definition fill (r : reader) (src : source) : GoResult (reader * source * list event) :=
  if Nat.leb buf_cap (List.length (pending r)) then Panic "tried to fill full buffer"
  else Ok (fill_try 100 (pending r) src []).

Inductive slice_err := SNil | SBufferFull | SIo (e : io_err).

(* index of the first LF at or after offset s *)
Definition find_lf_from (s : nat) (b : bytes) : option nat :=
  option_map (fun i => s + i) (index_byte (skipn s b) LF).

(* readSlice, reader.go:57; [s] is the already-searched offset *)
Fixpoint read_slice_go (fuel : nat) (s : nat) (r : reader) (src : source) (evs : list event)
  : GoResult (bytes * slice_err * reader * source * list event) :=
  match fuel with
  | O => Panic "model: read_slice out of fuel"
  | S f =>
      match find_lf_from s (pending r) with
      | Some i => Ok (firstn (S i) (pending r), SNil, mkReader (skipn (S i) (pending r)) (rerr r), src, evs)
      | None =>
          match rerr r with
          | Some e => Ok (pending r, SIo e, mkReader [] None, src, evs)
          | None =>
              if Nat.eqb (List.length (pending r)) buf_cap
              then Ok (pending r, SBufferFull, mkReader [] None, src, evs)
              else
                match fill r src with
                | Panic m => Panic m
                | Ok (r', src', evs') => read_slice_go f (List.length (pending r)) r' src' (evs ++ evs')
                end
          end
      end
  end.
Definition read_slice (r : reader) (src : source) :=
  read_slice_go (buf_cap + 2) 0 r src [].

(* readLine, reader.go:85: concatenates buffer-full pieces *)
Fixpoint read_line_go (fuel : nat) (acc : bytes) (r : reader) (src : source) (evs : list event)
  : GoResult (bytes * option io_err * reader * source * list event) :=
  match fuel with
  | O => Panic "model: read_line out of fuel"
  | S f =>
      match read_slice r src with
      | Panic m => Panic m
      | Ok (piece, e, r', src', evs') =>
          match e with
          | SBufferFull => read_line_go f (acc ++ piece) r' src' (evs ++ evs')
          | SNil => Ok (acc ++ piece, None, r', src', evs ++ evs')
          | SIo err => Ok (acc ++ piece, Some err, r', src', evs ++ evs')
          end
      end
  end.
Definition read_line (r : reader) (src : source) :=
  read_line_go (S (S (Nat.div (List.length (pending r) + List.length (rest src)) buf_cap))) [] r src [].
