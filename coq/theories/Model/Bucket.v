(* Model/Bucket.v — Snapshot.Aggregate, stack/bucket.go:42.
   The Go map b is iterated in random order by "for key, c := range b"; that
   order is the oracle [shuffle] (one permutation of the candidate indices per
   goroutine processed).  The slice [order] of the code (creation order, key
   replaced in place on merge) is the list of entries itself. *)
From PP Require Import Base.Bytes Base.GoResult Model.Types Model.Stack.
From Coq Require Import String.

Record entry := mkEntry { ekey : Signature; eids : list Z; efirst : bool }.

(* any stable sort: insertion sort.  x goes before y unless y is strictly before x *)
Fixpoint insert_stable {A} (before : A -> A -> bool) (x : A) (l : list A) : list A :=
  match l with
  | [] => [x]
  | y :: l' => if before y x then y :: insert_stable before x l' else x :: l
  end.
Fixpoint sort_stable {A} (before : A -> A -> bool) (l : list A) : list A :=
  match l with
  | [] => []
  | x :: l' => insert_stable before x (sort_stable before l')
  end.

Definition sort_ints (l : list Z) : list Z := sort_stable Z.ltb l.

(* the closure passed to sort.SliceStable, bucket.go:86 *)
Definition bucket_before (l r : Bucket) : bool :=
  if BFirst l || BFirst r then BFirst l else
  if sig_less (BSig l) (BSig r) then true else
  if sig_less (BSig r) (BSig l) then false else
  Nat.ltb (List.length (IDs l)) (List.length (IDs r)).

Section Aggregate.
  (* shuffle k l: the order in which the k-th search visits the map; the only
     assumption ever made about it is Permutation (shuffle k l) l. *)
  Variable shuffle : nat -> list nat -> list nat.

  Definition entry_similar (lvl : Similarity) (st : list entry) (g : Goroutine) (i : nat) : bool :=
    match nth_error st i with
    | Some e => sig_similar lvl (ekey e) (GSig g)
    | None => false
    end.

  Definition agg_step (lvl : Similarity) (st : list entry) (k : nat) (g : Goroutine)
    : GoResult (list entry) :=
    match find (entry_similar lvl st g) (shuffle k (seq 0 (List.length st))) with
    | Some i =>
        match nth_error st i with
        | None => Panic "unreachable"
        | Some e =>
            let ids := eids e ++ [ID g] in
            let first := efirst e || First g in
            if sig_equal (ekey e) (GSig g) then
              Ok (upd_nth i (fun _ => mkEntry (ekey e) ids first) st)
            else if sig_merge_safe (ekey e) (GSig g) then
              Ok (upd_nth i (fun _ => mkEntry (sig_merge (ekey e) (GSig g)) ids first) st)
            else Panic "index out of range in merge"
        end
    | None => Ok (st ++ [mkEntry (GSig g) [ID g] (First g)])
    end.

  Fixpoint agg_loop (lvl : Similarity) (st : list entry) (k : nat) (gs : list Goroutine)
    : GoResult (list entry) :=
    match gs with
    | [] => Ok st
    | g :: gs' => st' <- agg_step lvl st k g ;; agg_loop lvl st' (S k) gs'
    end.

  Definition bucket_of_entry (e : entry) : Bucket := mkBucket (ekey e) (sort_ints (eids e)) (efirst e).

  Definition aggregate (lvl : Similarity) (gs : list Goroutine) : GoResult (list Bucket) :=
    st <- agg_loop lvl [] 0 gs ;;
    Ok (sort_stable bucket_before (map bucket_of_entry st)).
End Aggregate.

Definition id_shuffle (k : nat) (l : list nat) : list nat := l.
