(* Proofs/HtmlProofs.v — proofs for property C17 (HTML rendering is
   injection-safe) over Model/Html.v.  Stdlib only, no axioms, all Qed.

   Bytes are arbitrary [N] in the model.  Findings about the range hypothesis:
   - "no quote / angle bracket / blank / control byte" statements hold for ALL
     lists of N (no hypothesis);
   - "only bytes of the allowed class" and "'%' is followed by two hex digits"
     need [bytes_ok s = true] (every element < 256): [pct] of a value >= 256
     prints a non-hex "digit" (see [url_normalize_needs_bytes_ok]). *)
From PP Require Import Base.Bytes Base.BytesX Base.Num Base.GoResult Model.Types Model.Html.
From PP Require Import Proofs.HtmlBase.

Local Open Scope N_scope.

(* ================================================================== *)
(* 1. html_escape                                                      *)
(* ================================================================== *)
Definition esc1 (c : N) : bytes :=
  if N.eqb c 0 then [239; 191; 189]
  else if N.eqb c 34 then s2b "&#34;"
  else if N.eqb c 38 then s2b "&amp;"
  else if N.eqb c 39 then s2b "&#39;"
  else if N.eqb c 43 then s2b "&#43;"
  else if N.eqb c 60 then s2b "&lt;"
  else if N.eqb c 62 then s2b "&gt;"
  else [c].

Lemma html_escape_eq s : html_escape s = flat_map esc1 s.
Proof. reflexivity. Qed.

Definition plain_byte (c : N) : bool := negb (memb c [0; 34; 38; 39; 43; 60; 62]).
Definition entities6 : list bytes :=
  [s2b "&#34;"; s2b "&amp;"; s2b "&#39;"; s2b "&#43;"; s2b "&lt;"; s2b "&gt;"].
Definition fffd : bytes := [239; 191; 189].

Definition chunk_ok (ch : bytes) : Prop :=
  (exists c, ch = [c] /\ plain_byte c = true) \/ In ch entities6 \/ ch = fffd.

Definition html_chunks (s : bytes) : list bytes := map esc1 s.

Lemma esc1_cases c : chunk_ok (esc1 c).
Proof.
  unfold chunk_ok, esc1.
  destruct (c =? 0) eqn:E0; [right; right; reflexivity|].
  destruct (c =? 34) eqn:E1; [right; left; simpl; tauto|].
  destruct (c =? 38) eqn:E2; [right; left; simpl; tauto|].
  destruct (c =? 39) eqn:E3; [right; left; simpl; tauto|].
  destruct (c =? 43) eqn:E4; [right; left; simpl; tauto|].
  destruct (c =? 60) eqn:E5; [right; left; simpl; tauto|].
  destruct (c =? 62) eqn:E6; [right; left; simpl; tauto|].
  left. exists c. split; [reflexivity|]. unfold plain_byte, memb. simpl. now rewrite E0, E1, E2, E3, E4, E5, E6.
Qed.

Theorem text_chunks : forall s, Forall chunk_ok (html_chunks s) /\ List.concat (html_chunks s) = html_escape s.
Proof.
  intros s. split.
  - unfold html_chunks. apply Forall_forall. intros ch Hin. apply in_map_iff in Hin as [c [<- _]]. apply esc1_cases.
  - unfold html_chunks. rewrite html_escape_eq. symmetry. apply flat_map_concat_map.
Qed.

(* the bytes of a legal chunk *)
Lemma chunk_bytes ch x : chunk_ok ch -> In x ch ->
  (plain_byte x = true /\ ch = [x]) \/ In x [38; 35; 51; 52; 59; 97; 109; 112; 57; 108; 116; 103; 239; 191; 189].
Proof.
  intros [[c [-> Hp]]|[He| ->]] Hin.
  - left. destruct Hin as [<- |[]]. now split.
  - right. simpl in He. repeat (destruct He as [<- |He]; [simpl in Hin; simpl; tauto|]). destruct He.
  - right. simpl in Hin. simpl. tauto.
Qed.

Lemma html_escape_in s x : In x (html_escape s) ->
  (plain_byte x = true /\ In x s) \/ In x [38; 35; 51; 52; 59; 97; 109; 112; 57; 108; 116; 103; 239; 191; 189].
Proof.
  rewrite html_escape_eq. intros Hin. apply in_flat_map in Hin as [c [Hc Hx]].
  destruct (chunk_bytes _ _ (esc1_cases c) Hx) as [[Hp E]|Hr]; [left|now right].
  split; [assumption|]. unfold esc1 in E.
  repeat match type of E with (if ?b then _ else _) = _ => destruct b; [discriminate|] end.
  injection E as <-. assumption.
Qed.

Theorem text_safe : forall s c, In c (html_escape s) -> c <> 60 /\ c <> 62 /\ c <> 34 /\ c <> 39 /\ c <> 0.
Proof.
  intros s c Hin. apply html_escape_in in Hin as [[Hp _]|Hr].
  - unfold plain_byte, memb in Hp. simpl in Hp. b2p. lia.
  - simpl in Hr. lia.
Qed.

(* every '&' of the output begins one of the six entities *)
Lemma amp_ok_esc1 c rest : amp_ok entities6 (esc1 c ++ rest) = amp_ok entities6 rest.
Proof.
  unfold esc1.
  destruct (c =? 0) eqn:E0; [reflexivity|].
  destruct (c =? 34) eqn:E1; [destruct rest; reflexivity|].
  destruct (c =? 38) eqn:E2; [destruct rest; reflexivity|].
  destruct (c =? 39) eqn:E3; [destruct rest; reflexivity|].
  destruct (c =? 43) eqn:E4; [destruct rest; reflexivity|].
  destruct (c =? 60) eqn:E5; [destruct rest; reflexivity|].
  destruct (c =? 62) eqn:E6; [destruct rest; reflexivity|].
  simpl app. apply amp_ok_single. now apply N.eqb_neq.
Qed.

Lemma amp_ok_html_escape s : amp_ok entities6 (html_escape s) = true.
Proof.
  rewrite html_escape_eq. induction s as [|c s IH]; [reflexivity|].
  simpl flat_map. now rewrite amp_ok_esc1.
Qed.

Theorem text_amp : forall s pre post, html_escape s = pre ++ 38 :: post ->
  exists e, In e entities6 /\ has_prefix (38 :: post) e = true.
Proof. intros s pre post E. exact (amp_ok_spec entities6 pre _ post (amp_ok_html_escape s) E). Qed.

(* ================================================================== *)
(* 2. url_normalize                                                    *)
(* ================================================================== *)
Definition url_keep (c : N) : bool := memb c (s2b "!#$&*+,/:;=?@[]-._~") || is_alnum c.

Lemma url_normalize_cons c t :
  url_normalize (c :: t) =
  if url_keep c then c :: url_normalize t
  else if (c =? 37) && (match t with h1 :: h2 :: _ => is_hex h1 && is_hex h2 | _ => false end)
       then c :: url_normalize t
       else pct false c ++ url_normalize t.
Proof.
  unfold url_keep. cbn [url_normalize].
  destruct (memb c (s2b "!#$&*+,/:;=?@[]-._~") || is_alnum c); [reflexivity|].
  destruct (c =? 37); [|reflexivity].
  destruct t as [|h1 [|h2 t]]; reflexivity.
Qed.

Lemma url_normalize_keep c t : url_keep c = true -> url_normalize (c :: t) = c :: url_normalize t.
Proof. intros H. now rewrite url_normalize_cons, H. Qed.

Lemma url_keep_safe c : url_keep c = true -> url_safe c = true.
Proof. unfold url_keep. intros H. byte_lia. Qed.

Lemma hex_url_keep c : is_hex c = true -> url_keep c = true.
Proof. unfold url_keep. intros H. byte_lia. Qed.

Lemma url_keep_ne37 c : url_keep c = true -> c <> 37.
Proof. unfold url_keep. intros H. byte_lia. Qed.

(* the three bytes of a lower-case escape *)
Lemma pct_false_in c x : In x (pct false c) -> x = 37 \/ x = hex_digit false (c / 16) \/ x = hex_digit false (c mod 16).
Proof. unfold pct. simpl. intuition. Qed.

Theorem attr_safe : forall u, bytes_ok u = true -> forall c, In c (url_normalize u) -> url_safe c = true.
Proof.
  induction u as [|a u IH]; intros Hok c Hin; [destruct Hin|].
  simpl in Hok. apply andb_true_iff in Hok as [Ha Hu]. apply N.ltb_lt in Ha.
  rewrite url_normalize_cons in Hin.
  destruct (url_keep a) eqn:Ek.
  - destruct Hin as [<- |Hin]; [now apply url_keep_safe|now apply IH].
  - destruct ((a =? 37) && _) eqn:E37.
    + destruct Hin as [<- |Hin]; [|now apply IH].
      apply andb_true_iff in E37 as [E37 _]. apply N.eqb_eq in E37. subst a. reflexivity.
    + apply in_app_or in Hin as [Hin|Hin]; [|now apply IH].
      apply pct_false_in in Hin as [-> |[-> | ->]]; [reflexivity| |].
      * apply hex_url_safe, lower_hex_is_hex, hex_digit_lower, div16_lt, Ha.
      * apply hex_url_safe, lower_hex_is_hex, hex_digit_lower, mod16_lt.
Qed.

(* without the range hypothesis: safe, or some byte >= 103 (never a delimiter) *)
Theorem attr_no_danger : forall u c, In c (url_normalize u) -> attr_danger c = false.
Proof.
  induction u as [|a u IH]; intros c Hin; [destruct Hin|].
  rewrite url_normalize_cons in Hin.
  destruct (url_keep a) eqn:Ek.
  - destruct Hin as [<- |Hin]; [now apply url_safe_not_danger, url_keep_safe|now apply IH].
  - destruct ((a =? 37) && _) eqn:E37.
    + destruct Hin as [<- |Hin]; [|now apply IH].
      apply andb_true_iff in E37 as [E37 _]. apply N.eqb_eq in E37. subst a. reflexivity.
    + apply in_app_or in Hin as [Hin|Hin]; [|now apply IH].
      apply pct_false_in in Hin as [-> |[-> | ->]]; [reflexivity| |].
      * destruct (hex_digit_lower_any (a / 16)) as [H|H].
        -- now apply url_safe_not_danger, hex_url_safe, lower_hex_is_hex.
        -- unfold attr_danger. b2p. lia.
      * destruct (hex_digit_lower_any (a mod 16)) as [H|H].
        -- now apply url_safe_not_danger, hex_url_safe, lower_hex_is_hex.
        -- unfold attr_danger. b2p. lia.
Qed.

Theorem attr_pct_ok : forall u, bytes_ok u = true -> pct_ok is_hex (url_normalize u) = true.
Proof.
  induction u as [|a u IH]; intros Hok; [reflexivity|].
  simpl in Hok. apply andb_true_iff in Hok as [Ha Hu]. apply N.ltb_lt in Ha. specialize (IH Hu).
  rewrite url_normalize_cons.
  destruct (url_keep a) eqn:Ek.
  - rewrite pct_ok_single; [assumption|now apply url_keep_ne37].
  - destruct ((a =? 37) && _) eqn:E37.
    + apply andb_true_iff in E37 as [E37 Eh]. apply N.eqb_eq in E37. subst a.
      destruct u as [|h1 [|h2 u']]; try discriminate.
      apply andb_true_iff in Eh as [Eh1 Eh2].
      rewrite (url_normalize_keep h1) in * by now apply hex_url_keep.
      rewrite (url_normalize_keep h2) in * by now apply hex_url_keep.
      rewrite pct_ok_triple by (assumption || now apply hex_ne37).
      rewrite !pct_ok_single in IH by now apply hex_ne37. assumption.
    + unfold pct. simpl app.
      assert (H1 : is_hex (hex_digit false (a / 16)) = true) by apply lower_hex_is_hex, hex_digit_lower, div16_lt, Ha.
      assert (H2 : is_hex (hex_digit false (a mod 16)) = true) by apply lower_hex_is_hex, hex_digit_lower, mod16_lt.
      rewrite pct_ok_triple by (assumption || now apply hex_ne37). assumption.
Qed.

Theorem attr_pct : forall u pre post, bytes_ok u = true -> url_normalize u = pre ++ 37 :: post ->
  exists h1 h2 r, post = h1 :: h2 :: r /\ is_hex h1 = true /\ is_hex h2 = true.
Proof. intros u pre post Hok E. exact (pct_ok_spec is_hex pre _ post (attr_pct_ok u Hok) E). Qed.

(* the hypothesis is needed: 592 = 37 * 16 is not a byte and prints as "%|0" *)
Lemma url_normalize_needs_bytes_ok :
  url_normalize [592] = [37; 124; 48] /\ url_safe 124 = false /\ is_hex 124 = false.
Proof. vm_compute. repeat split. Qed.

(* what reaches the document between the quotes of href="..." *)
Theorem href_safe : forall u c, In c (href_attr u) ->
  c <> 34 /\ c <> 39 /\ c <> 60 /\ c <> 62 /\ c <> 32 /\ 32 <= c.
Proof.
  intros u c Hin. unfold href_attr in Hin. apply html_escape_in in Hin as [[_ Hin]|Hr].
  - apply attr_no_danger in Hin. unfold attr_danger in Hin. b2p. lia.
  - simpl in Hr. lia.
Qed.

(* ================================================================== *)
(* 4. fixed scheme and host                                            *)
(* ================================================================== *)
Definition pfx_github : bytes := s2b "https://github.com/".
Definition pfx_file : bytes := s2b "file:///".
Definition pfx_golang : bytes := s2b "https://golang.org/pkg/".
Definition pfx_godoc : bytes := s2b "https://godoc.org/".
Definition pfx_pkgdev : bytes := s2b "https://pkg.go.dev/".

Ltac lit_prefix := apply has_prefix_lit; reflexivity.

Theorem src_url_scheme : forall ver c,
  src_url ver c = [] \/ has_prefix (src_url ver c) pfx_github = true \/ has_prefix (src_url ver c) pfx_file = true.
Proof.
  intros ver c. unfold src_url, get_src_branch_url, pfx_github, pfx_file.
  repeat match goal with |- context [match ?x with _ => _ end] => destruct x end;
    cbn [fst];
    first [ left; reflexivity | right; left; lit_prefix | right; right; lit_prefix ].
Qed.

Theorem pkg_url_scheme : forall ver c,
  pkg_url ver c = [] \/ has_prefix (pkg_url ver c) pfx_golang = true \/
  has_prefix (pkg_url ver c) pfx_godoc = true \/ has_prefix (pkg_url ver c) pfx_pkgdev = true.
Proof.
  intros ver c. unfold pkg_url, pfx_golang, pfx_godoc, pfx_pkgdev.
  destruct (escape_path (after_vendor (CImportPath c))) as [|i0 ip]; [left; reflexivity|]. right.
  destruct (CLocation c);
    try destruct (beq (snd (get_src_branch_url ver c)) (s2b "master") || beq (snd (get_src_branch_url ver c)) []);
    destruct (IsExported (CFunc c));
    first [ left; lit_prefix | right; left; lit_prefix | right; right; lit_prefix ].
Qed.

Lemma url_normalize_prefix p x : forallb url_keep p = true -> url_normalize (p ++ x) = p ++ url_normalize x.
Proof.
  induction p as [|a p IH]; intros H; [reflexivity|].
  simpl in H. apply andb_true_iff in H as [Ha Hp]. simpl app. rewrite url_normalize_keep by assumption.
  now rewrite IH.
Qed.

Theorem normalize_github : forall x, url_normalize (pfx_github ++ x) = pfx_github ++ url_normalize x.
Proof. intros x. apply url_normalize_prefix. vm_compute. reflexivity. Qed.
Theorem normalize_file : forall x, url_normalize (pfx_file ++ x) = pfx_file ++ url_normalize x.
Proof. intros x. apply url_normalize_prefix. vm_compute. reflexivity. Qed.
Theorem normalize_golang : forall x, url_normalize (pfx_golang ++ x) = pfx_golang ++ url_normalize x.
Proof. intros x. apply url_normalize_prefix. vm_compute. reflexivity. Qed.
Theorem normalize_godoc : forall x, url_normalize (pfx_godoc ++ x) = pfx_godoc ++ url_normalize x.
Proof. intros x. apply url_normalize_prefix. vm_compute. reflexivity. Qed.
Theorem normalize_pkgdev : forall x, url_normalize (pfx_pkgdev ++ x) = pfx_pkgdev ++ url_normalize x.
Proof. intros x. apply url_normalize_prefix. vm_compute. reflexivity. Qed.

Lemma normalize_has_prefix p u :
  forallb url_keep p = true -> has_prefix u p = true -> has_prefix (url_normalize u) p = true.
Proof.
  intros Hk H. apply has_prefix_split in H. rewrite H. rewrite url_normalize_prefix by assumption.
  apply has_prefix_app.
Qed.

Theorem href_scheme : forall ver c,
  let h := url_normalize (src_url ver c) in
  h = [] \/ has_prefix h pfx_github = true \/ has_prefix h pfx_file = true.
Proof.
  intros ver c h. subst h. destruct (src_url_scheme ver c) as [E|[E|E]].
  - left. now rewrite E.
  - right. left. apply normalize_has_prefix; [vm_compute; reflexivity|assumption].
  - right. right. apply normalize_has_prefix; [vm_compute; reflexivity|assumption].
Qed.

Theorem href_pkg_scheme : forall ver c,
  let h := url_normalize (pkg_url ver c) in
  h = [] \/ has_prefix h pfx_golang = true \/ has_prefix h pfx_godoc = true \/ has_prefix h pfx_pkgdev = true.
Proof.
  intros ver c h. subst h. destruct (pkg_url_scheme ver c) as [E|[E|[E|E]]].
  - left. now rewrite E.
  - right. left. apply normalize_has_prefix; [vm_compute; reflexivity|assumption].
  - right. right. left. apply normalize_has_prefix; [vm_compute; reflexivity|assumption].
  - right. right. right. apply normalize_has_prefix; [vm_compute; reflexivity|assumption].
Qed.

(* the prefix also survives the final html_escape: none of its bytes is special *)
Lemma html_escape_prefix p x : forallb plain_byte p = true -> html_escape (p ++ x) = p ++ html_escape x.
Proof.
  rewrite !html_escape_eq. induction p as [|a p IH]; intros H; [reflexivity|].
  simpl in H. apply andb_true_iff in H as [Ha Hp]. simpl. rewrite IH by assumption.
  unfold plain_byte, memb in Ha. simpl in Ha. b2p. unfold esc1.
  repeat match goal with |- context [if ?a =? ?k then _ else _] =>
    let E := fresh in destruct (a =? k) eqn:E; [apply N.eqb_eq in E; lia|clear E] end.
  reflexivity.
Qed.

(* ================================================================== *)
(* 5. the class attribute                                              *)
(* ================================================================== *)
Definition class_list : list bytes :=
  [ s2b "FuncMain Exported";
    s2b "FuncLocationUnknown"; s2b "FuncLocationUnknown Exported";
    s2b "FuncGoMod"; s2b "FuncGoMod Exported";
    s2b "FuncGOPATH"; s2b "FuncGOPATH Exported";
    s2b "FuncGoPkg"; s2b "FuncGoPkg Exported";
    s2b "FuncStdlib"; s2b "FuncStdlib Exported" ].

Theorem class_safe : forall c, In (func_class c) class_list /\ html_escape (func_class c) = func_class c.
Proof.
  intros c. unfold func_class.
  destruct (IsPkgMain (CFunc c)); [split; [simpl; tauto|reflexivity]|].
  destruct (CLocation c); destruct (IsExported (CFunc c)); (split; [simpl; tauto|reflexivity]).
Qed.

(* ================================================================== *)
(* 3. escape_path and query_escape                                     *)
(* ================================================================== *)
Definition path1 (c : N) : bytes := if path_keep c then [c] else pct true c.
Definition query1 (c : N) : bytes := if query_keep c then [c] else if N.eqb c 32 then [43] else pct true c.

(* the complete output alphabets *)
Definition path_out (c : N) : bool := path_keep c || (c =? 37).
Definition query_out (c : N) : bool := query_keep c || (c =? 43) || (c =? 37).

Lemma escape_path_eq s : s <> s2b "*" -> escape_path s = flat_map path1 s.
Proof.
  intros H. unfold escape_path. destruct (beq s (s2b "*")) eqn:E; [apply beq_eq in E; contradiction|reflexivity].
Qed.

Lemma query_escape_eq s : query_escape s = flat_map query1 s.
Proof. reflexivity. Qed.

Lemma pct_true_in c x : In x (pct true c) -> x = 37 \/ x = hex_digit true (c / 16) \/ x = hex_digit true (c mod 16).
Proof. unfold pct. simpl. intuition. Qed.

Lemma upper_hex_path_keep c : is_upper_hex c = true -> path_keep c = true.
Proof. intros H. byte_lia. Qed.
Lemma upper_hex_query_keep c : is_upper_hex c = true -> query_keep c = true.
Proof. intros H. byte_lia. Qed.
Lemma upper_hex_ne37 c : is_upper_hex c = true -> c <> 37.
Proof. intros H. byte_lia. Qed.
Lemma path_keep_ne37 c : path_keep c = true -> c <> 37.
Proof. intros H. byte_lia. Qed.
Lemma query_keep_ne37 c : query_keep c = true -> c <> 37.
Proof. intros H. byte_lia. Qed.

Lemma pct_true_upper c : c < 256 ->
  is_upper_hex (hex_digit true (c / 16)) = true /\ is_upper_hex (hex_digit true (c mod 16)) = true.
Proof. intros H. split; apply hex_digit_upper; [now apply div16_lt|apply mod16_lt]. Qed.

Theorem escape_path_safe : forall s, bytes_ok s = true -> s <> s2b "*" ->
  forall c, In c (escape_path s) -> path_out c = true.
Proof.
  intros s Hok Hs c Hin. rewrite escape_path_eq in Hin by assumption.
  apply in_flat_map in Hin as [a [Ha Hc]]. pose proof (bytes_ok_in _ _ Hok Ha) as Hlt.
  unfold path1 in Hc. unfold path_out. destruct (path_keep a) eqn:Ek.
  - destruct Hc as [<- |[]]. now rewrite Ek.
  - destruct (pct_true_upper a Hlt) as [H1 H2].
    apply pct_true_in in Hc as [-> |[-> | ->]]; [reflexivity| |]; now rewrite upper_hex_path_keep.
Qed.

Lemma pct_ok_flat_map hx (f : N -> bytes) s :
  (forall c rest, In c s -> pct_ok hx (f c ++ rest) = pct_ok hx rest) -> pct_ok hx (flat_map f s) = true.
Proof.
  induction s as [|a s IH]; intros H; [reflexivity|].
  simpl flat_map. rewrite H by (left; reflexivity). apply IH. intros c rest Hin. apply H. now right.
Qed.

Theorem escape_path_pct_ok : forall s, bytes_ok s = true -> s <> s2b "*" -> pct_ok is_upper_hex (escape_path s) = true.
Proof.
  intros s Hok Hs. rewrite escape_path_eq by assumption. apply pct_ok_flat_map. intros a rest Ha.
  pose proof (bytes_ok_in _ _ Hok Ha) as Hlt. unfold path1. destruct (path_keep a) eqn:Ek.
  - simpl app. apply pct_ok_single. now apply path_keep_ne37.
  - destruct (pct_true_upper a Hlt) as [H1 H2]. unfold pct. simpl app.
    apply pct_ok_triple; assumption || now apply upper_hex_ne37.
Qed.

Theorem escape_path_pct : forall s pre post, bytes_ok s = true -> s <> s2b "*" -> escape_path s = pre ++ 37 :: post ->
  exists h1 h2 r, post = h1 :: h2 :: r /\ is_upper_hex h1 = true /\ is_upper_hex h2 = true.
Proof. intros s pre post Hok Hs E. exact (pct_ok_spec is_upper_hex pre _ post (escape_path_pct_ok s Hok Hs) E). Qed.

(* no hypothesis at all (not even s <> "*"): never a delimiter, '#' or '?' *)
Theorem escape_path_no_delim : forall s c, In c (escape_path s) ->
  c <> 34 /\ c <> 39 /\ c <> 60 /\ c <> 62 /\ c <> 32 /\ c <> 35 /\ c <> 63 /\ 32 < c.
Proof.
  intros s c Hin. unfold escape_path in Hin. destruct (beq s (s2b "*")) eqn:E.
  - apply beq_eq in E. subst s. simpl in Hin. destruct Hin as [<- |[]]. lia.
  - apply in_flat_map in Hin as [a [_ Hc]]. fold (path_keep a) in Hc. destruct (path_keep a) eqn:Ek.
    + destruct Hc as [<- |[]]. byte_lia.
    + apply pct_true_in in Hc as [-> |[-> | ->]]; [lia| |].
      * destruct (hex_digit_upper_any (a / 16)) as [H|H]; [byte_lia|lia].
      * destruct (hex_digit_upper_any (a mod 16)) as [H|H]; [byte_lia|lia].
Qed.

Theorem query_escape_safe : forall s, bytes_ok s = true -> forall c, In c (query_escape s) -> query_out c = true.
Proof.
  intros s Hok c Hin. rewrite query_escape_eq in Hin.
  apply in_flat_map in Hin as [a [Ha Hc]]. pose proof (bytes_ok_in _ _ Hok Ha) as Hlt.
  unfold query1 in Hc. unfold query_out. destruct (query_keep a) eqn:Ek.
  - destruct Hc as [<- |[]]. now rewrite Ek.
  - destruct (a =? 32).
    + destruct Hc as [<- |[]]. now rewrite orb_true_r.
    + destruct (pct_true_upper a Hlt) as [H1 H2].
      apply pct_true_in in Hc as [-> |[-> | ->]]; [now rewrite orb_true_r| |]; now rewrite upper_hex_query_keep.
Qed.

Theorem query_escape_pct_ok : forall s, bytes_ok s = true -> pct_ok is_upper_hex (query_escape s) = true.
Proof.
  intros s Hok. rewrite query_escape_eq. apply pct_ok_flat_map. intros a rest Ha.
  pose proof (bytes_ok_in _ _ Hok Ha) as Hlt. unfold query1. destruct (query_keep a) eqn:Ek.
  - simpl app. apply pct_ok_single. now apply query_keep_ne37.
  - destruct (a =? 32).
    + simpl app. apply pct_ok_single. lia.
    + destruct (pct_true_upper a Hlt) as [H1 H2]. unfold pct. simpl app.
      apply pct_ok_triple; assumption || now apply upper_hex_ne37.
Qed.

Theorem query_escape_pct : forall s pre post, bytes_ok s = true -> query_escape s = pre ++ 37 :: post ->
  exists h1 h2 r, post = h1 :: h2 :: r /\ is_upper_hex h1 = true /\ is_upper_hex h2 = true.
Proof. intros s pre post Hok E. exact (pct_ok_spec is_upper_hex pre _ post (query_escape_pct_ok s Hok) E). Qed.

Theorem query_escape_no_delim : forall s c, In c (query_escape s) ->
  c <> 34 /\ c <> 39 /\ c <> 60 /\ c <> 62 /\ c <> 32 /\ c <> 35 /\ c <> 63 /\
  c <> 47 /\ c <> 58 /\ c <> 64 /\ c <> 38 /\ c <> 61 /\ 32 < c.
Proof.
  intros s c Hin. rewrite query_escape_eq in Hin. apply in_flat_map in Hin as [a [_ Hc]].
  unfold query1 in Hc. destruct (query_keep a) eqn:Ek.
  - destruct Hc as [<- |[]]. byte_lia.
  - destruct (a =? 32).
    + destruct Hc as [<- |[]]. lia.
    + apply pct_true_in in Hc as [-> |[-> | ->]]; [lia| |].
      * destruct (hex_digit_upper_any (a / 16)) as [H|H]; [byte_lia|lia].
      * destruct (hex_digit_upper_any (a mod 16)) as [H|H]; [byte_lia|lia].
Qed.

(* the hypothesis is needed for the alphabet / %XX statements: 4096 is not a byte *)
Lemma escape_needs_bytes_ok :
  query_escape [4096] = [37; 311; 48] /\ escape_path [4096] = [37; 311; 48] /\ query_out 311 = false /\ path_out 311 = false.
Proof. vm_compute. repeat split. Qed.

(* symbol() is a query_escape output *)
Theorem symbol_no_delim : forall f c, In c (symbol f) ->
  c <> 34 /\ c <> 39 /\ c <> 60 /\ c <> 62 /\ c <> 32 /\ c <> 35 /\ c <> 63 /\
  c <> 47 /\ c <> 58 /\ c <> 64 /\ c <> 38 /\ c <> 61 /\ 32 < c.
Proof. intros f c. unfold symbol. apply query_escape_no_delim. Qed.

(* ================================================================== *)
(* 6. the raw URL is NOT safe by itself; the normalised one is         *)
(* ================================================================== *)
Definition hostile_call : Call :=
  mkCall emptyFunc emptyArgs [] 1 [] [] [] (s2b "github.com/u/r""x/f.go") [] GoMod.

(* splitTag's repository name is formatted with %s, unescaped: a double quote of the dump survives in srcURL *)
Theorem src_url_raw_unsafe_example : forall ver, exists c, In 34 (src_url ver c).
Proof.
  intros ver. exists hostile_call.
  assert (H : existsb (N.eqb 34) (src_url ver hostile_call) = true) by (vm_compute; reflexivity).
  apply existsb_exists in H as [x [Hin Hx]]. apply N.eqb_eq in Hx. now subst x.
Qed.

(* ... but nothing dangerous is left once html/template has normalised it *)
Theorem src_url_href_no_danger : forall ver c x, In x (url_normalize (src_url ver c)) -> attr_danger x = false.
Proof. intros ver c x. apply attr_no_danger. Qed.

Theorem pkg_url_href_no_danger : forall ver c x, In x (url_normalize (pkg_url ver c)) -> attr_danger x = false.
Proof. intros ver c x. apply attr_no_danger. Qed.

(* ================================================================== *)
(* 7. one row of links per frame; every dynamic attribute is safe      *)
(* ================================================================== *)
Lemma flat_map_const_length {A B} (f : A -> list B) (k : nat) (l : list A) :
  (forall x, List.length (f x) = k) -> List.length (flat_map f l) = (k * List.length l)%nat.
Proof.
  intros H. induction l as [|x l IH]; simpl; [lia|]. rewrite app_length, H, IH. lia.
Qed.

Theorem attrs_total : forall ver s,
  List.length (sig_attrs ver s) =
  (3 * (match Calls (CreatedBy s) with [] => 0 | _ :: _ => 1 end) + 4 * List.length (Calls (SStack s)))%nat.
Proof.
  intros ver s. unfold sig_attrs. rewrite app_length.
  rewrite (flat_map_const_length (call_attrs ver) 4) by reflexivity.
  destruct (Calls (CreatedBy s)); reflexivity.
Qed.

Definition fixed_prefixes : list bytes := [pfx_github; pfx_file; pfx_golang; pfx_godoc; pfx_pkgdev].

(* a link target as it reaches the document: no delimiter, and empty or with a fixed scheme and host *)
Definition href_ok (a : bytes) : Prop :=
  (forall x, In x a -> attr_danger x = false) /\
  (a = [] \/ exists p, In p fixed_prefixes /\ has_prefix a p = true).

Lemma href_ok_src ver c : href_ok (url_normalize (src_url ver c)).
Proof.
  split; [apply src_url_href_no_danger|].
  destruct (href_scheme ver c) as [E|[E|E]]; [now left| |]; right.
  - exists pfx_github. split; [simpl; tauto|exact E].
  - exists pfx_file. split; [simpl; tauto|exact E].
Qed.

Lemma href_ok_pkg ver c : href_ok (url_normalize (pkg_url ver c)).
Proof.
  split; [apply pkg_url_href_no_danger|].
  destruct (href_pkg_scheme ver c) as [E|[E|[E|E]]]; [now left| | |]; right.
  - exists pfx_golang. split; [simpl; tauto|exact E].
  - exists pfx_godoc. split; [simpl; tauto|exact E].
  - exists pfx_pkgdev. split; [simpl; tauto|exact E].
Qed.

Theorem attrs_safe : forall ver s a, In a (sig_attrs ver s) -> In a class_list \/ href_ok a.
Proof.
  intros ver s a Hin. unfold sig_attrs in Hin. apply in_app_or in Hin as [Hin|Hin].
  - destruct (Calls (CreatedBy s)) as [|c l]; [destruct Hin|].
    unfold created_attrs in Hin. simpl in Hin. destruct Hin as [<- |[<- |[<- |[]]]].
    + right. apply href_ok_src.
    + left. apply class_safe.
    + right. apply href_ok_pkg.
  - apply in_flat_map in Hin as [c [_ Hin]].
    unfold call_attrs in Hin. simpl in Hin. destruct Hin as [<- |[<- |[<- |[<- |[]]]]].
    + right. apply href_ok_pkg.
    + right. apply href_ok_src.
    + left. apply class_safe.
    + right. apply href_ok_pkg.
Qed.

(* ================================================================== *)
(* 6'. where the dump strings go inside srcURL                         *)
(* ================================================================== *)
(* a branch / tag component: the literal "master" or a url.QueryEscape output *)
Definition tag_ok (t : bytes) : Prop := t = s2b "master" \/ exists x, t = query_escape x.
Definition line_part (c : Call) : bytes := s2b "#L" ++ Z_to_dec (Line c).

Lemma index_byte_firstn : forall s k i, index_byte s k = Some i -> ~ In k (firstn i s).
Proof.
  induction s as [|x s IH]; intros k i H; simpl in H; [discriminate|].
  destruct (x =? k) eqn:E.
  - injection H as <-. simpl. tauto.
  - destruct (index_byte s k) as [j|] eqn:Ej; [|discriminate]. injection H as <-. simpl.
    intros [Hx|Hin]; [apply N.eqb_neq in E; contradiction|]. exact (IH k j Ej Hin).
Qed.

Lemma in_firstn {A} (x : A) : forall n l, In x (firstn n l) -> In x l.
Proof.
  induction n as [|n IH]; intros [|y l] H; simpl in *; try contradiction.
  destruct H as [H|H]; [now left|right; now apply IH].
Qed.

Lemma split_first_no_slash s a r : split_first s = (a, Some r) -> ~ In 47 a.
Proof.
  unfold split_first. destruct (index_byte s b_slash) as [i|] eqn:E; intros H; [|discriminate].
  injection H as <- _. exact (index_byte_firstn s b_slash i E).
Qed.

Lemma split_tag_ok s p st t : split_tag s = (p, st, t) ->
  tag_ok st /\ tag_ok t /\ (forall x, In x p -> In x s) /\ ~ In 64 p.
Proof.
  unfold split_tag. destruct (index_byte s 64) as [i|] eqn:E; intros H; injection H as <- <- <-.
  - repeat split.
    + right. eexists. reflexivity.
    + right. eexists. reflexivity.
    + intros x. apply in_firstn.
    + exact (index_byte_firstn s 64 i E).
  - repeat split; try (left; reflexivity); [tauto|].
    clear -E. induction s as [|x s IH]; simpl in *; [tauto|].
    destruct (x =? 64) eqn:Ex; [discriminate|]. destruct (index_byte s 64); [discriminate|].
    intros [H|H]; [apply N.eqb_neq in Ex; contradiction|now apply IH].
Qed.

(* the SplitN(rest, "/", 3) of getSrcBranchURL *)
Lemma three_inv (rest p0 p1 p2 : bytes) :
  match split_first rest with
  | (q0, Some r1) => match split_first r1 with
                     | (q1, Some q2) => Some (q0, q1, q2)
                     | _ => None
                     end
  | _ => None
  end = Some (p0, p1, p2) ->
  exists r1, split_first rest = (p0, Some r1) /\ split_first r1 = (p1, Some p2).
Proof.
  destruct (split_first rest) as [q0 [r1|]]; [|discriminate].
  destruct (split_first r1) as [q1 [q2|]] eqn:E1; [|discriminate].
  intros H. injection H as -> -> ->. now exists r1.
Qed.

Ltac repo_side :=
  match goal with
  | Ho : _ = Some (_, ?p1, _), Ht : split_tag ?p1 = (?p, ?st, _) |- tag_ok ?st /\ ~ In 47 ?p /\ ~ In 64 ?p =>
      let r1 := fresh in let Ha := fresh in let Hs := fresh in
      apply three_inv in Ho as [r1 [Ha Hs]];
      let H1 := fresh in let H3 := fresh in let H4 := fresh in
      destruct (split_tag_ok _ _ _ _ Ht) as [H1 [_ [H3 H4]]];
      split; [exact H1|split; [|exact H4]];
      let Hin := fresh in intro Hin; apply (split_first_no_slash _ _ _ Hs); apply H3; exact Hin
  end.

(* Every component taken from the dump goes through escape_path or query_escape,
   EXCEPT the repository name [p] (splitTag's first result, formatted with %s):
   it is a raw piece of the dump without '/' and '@'. *)
Theorem src_url_shape : forall ver c,
  src_url ver c = [] \/
  (exists p, src_url ver c = pfx_file ++ escape_path p) \/
  (exists x, src_url ver c =
     s2b "https://github.com/golang/go/blob/" ++ query_escape x ++ s2b "/src/" ++ escape_path (RelSrcPath c) ++ line_part c) \/
  (exists p0 p st p2,
     src_url ver c = pfx_github ++ escape_path p0 ++ s2b "/" ++ p ++ s2b "/blob/" ++ st ++ s2b "/" ++ escape_path p2 ++ line_part c /\
     tag_ok st /\ ~ In 47 p /\ ~ In 64 p) \/
  (exists p st p2,
     src_url ver c = s2b "https://github.com/golang/" ++ p ++ s2b "/blob/" ++ st ++ s2b "/" ++ escape_path p2 ++ line_part c /\
     tag_ok st /\ ~ In 47 p /\ ~ In 64 p).
Proof.
  intros ver c. unfold src_url, get_src_branch_url, pfx_github, pfx_file, line_part.
  repeat match goal with |- context [match ?x with _ => _ end] => destruct x eqn:? end;
    cbn [fst];
    first [ left; reflexivity
          | right; left; eexists; reflexivity
          | right; right; left; eexists; reflexivity
          | right; right; right; left; do 4 eexists; split; [reflexivity|repo_side]
          | right; right; right; right; do 3 eexists; split; [reflexivity|repo_side] ].
Qed.

(* ================================================================== *)
(* combined statements for Properties/C17.v                            *)
(* ================================================================== *)
Theorem url_scheme : forall ver c,
  (src_url ver c = [] \/ has_prefix (src_url ver c) (s2b "https://github.com/") = true \/
   has_prefix (src_url ver c) (s2b "file:///") = true) /\
  (pkg_url ver c = [] \/ has_prefix (pkg_url ver c) (s2b "https://golang.org/pkg/") = true \/
   has_prefix (pkg_url ver c) (s2b "https://godoc.org/") = true \/
   has_prefix (pkg_url ver c) (s2b "https://pkg.go.dev/") = true).
Proof. intros ver c. split; [exact (src_url_scheme ver c)|exact (pkg_url_scheme ver c)]. Qed.

Theorem normalize_prefix : forall x,
  url_normalize (s2b "https://github.com/" ++ x) = s2b "https://github.com/" ++ url_normalize x /\
  url_normalize (s2b "file:///" ++ x) = s2b "file:///" ++ url_normalize x /\
  url_normalize (s2b "https://golang.org/pkg/" ++ x) = s2b "https://golang.org/pkg/" ++ url_normalize x /\
  url_normalize (s2b "https://godoc.org/" ++ x) = s2b "https://godoc.org/" ++ url_normalize x /\
  url_normalize (s2b "https://pkg.go.dev/" ++ x) = s2b "https://pkg.go.dev/" ++ url_normalize x.
Proof.
  intros x. split; [exact (normalize_github x)|]. split; [exact (normalize_file x)|].
  split; [exact (normalize_golang x)|]. split; [exact (normalize_godoc x)|exact (normalize_pkgdev x)].
Qed.
