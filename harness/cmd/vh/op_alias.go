// op alias (C14): immutability of a snapshot under any sequence of
// Aggregate / ToHTML / String operations, and the alias graph between the
// buckets' slices and the snapshot's slices (observed with unsafe.SliceData).
// alias id level goroutines ops | unchanged sameagain capgrow graph
//
//	graph = per bucket "calls:<g|-1>;created:<g|-1>;vals:<g.c|-1>,..." : which snapshot slice each result slice shares its backing array with
package main

import (
	"bytes"
	"fmt"
	"math/rand"
	"strconv"
	"strings"
	"unsafe"

	"github.com/maruel/panicparse/v2/stack"
)

func callsPtr(s []stack.Call) unsafe.Pointer {
	if len(s) == 0 {
		return nil
	}
	return unsafe.Pointer(unsafe.SliceData(s))
}
func valsPtr(s []stack.Arg) unsafe.Pointer {
	if len(s) == 0 {
		return nil
	}
	return unsafe.Pointer(unsafe.SliceData(s))
}

func aliasGraph(gs []*stack.Goroutine, bs []*stack.Bucket) string {
	var out []string
	for _, b := range bs {
		calls, created := -1, -1
		for gi, g := range gs {
			if p := callsPtr(b.Stack.Calls); p != nil && p == callsPtr(g.Stack.Calls) && calls < 0 {
				calls = gi
			}
			if p := callsPtr(b.CreatedBy.Calls); p != nil && p == callsPtr(g.CreatedBy.Calls) && created < 0 {
				created = gi
			}
		}
		var vals []string
		for ci := range b.Stack.Calls {
			v := "-1"
			if p := valsPtr(b.Stack.Calls[ci].Args.Values); p != nil {
			search:
				for gi, g := range gs {
					for cj := range g.Stack.Calls {
						if p == valsPtr(g.Stack.Calls[cj].Args.Values) {
							v = fmt.Sprintf("%d.%d", gi, cj)
							break search
						}
					}
				}
			}
			vals = append(vals, v)
		}
		out = append(out, fmt.Sprintf("calls:%d;created:%d;vals:%s", calls, created, strings.Join(vals, ",")))
	}
	if len(out) == 0 {
		return "-"
	}
	return strings.Join(out, "|")
}

// capacities of every slice reachable from the snapshot (appending into spare capacity would be a shared write)
func capSig(gs []*stack.Goroutine) string {
	var b strings.Builder
	var args func(a *stack.Args)
	args = func(a *stack.Args) {
		fmt.Fprintf(&b, "v%d/%d p%d/%d ", len(a.Values), cap(a.Values), len(a.Processed), cap(a.Processed))
		for i := range a.Values {
			args(&a.Values[i].Fields)
		}
	}
	for _, g := range gs {
		fmt.Fprintf(&b, "c%d/%d k%d/%d ", len(g.Stack.Calls), cap(g.Stack.Calls), len(g.CreatedBy.Calls), cap(g.CreatedBy.Calls))
		for i := range g.Stack.Calls {
			args(&g.Stack.Calls[i].Args)
		}
	}
	return b.String()
}

func emitAlias(id string, gs []*stack.Goroutine, lvl stack.Similarity, ops string) {
	before := sexpGoroutines(gs)
	caps := capSig(gs)
	snap := &stack.Snapshot{Goroutines: gs}
	first := ""
	res := "ok"
	func() {
		defer func() {
			if e := recover(); e != nil {
				res = "PANIC:" + strings.ReplaceAll(fmt.Sprint(e), "\t", " ")
			}
		}()
		first = sexpBuckets(snap.Aggregate(lvl).Buckets)
		for _, o := range ops {
			switch o {
			case '0', '1', '2', '3':
				a := snap.Aggregate(levels[o-'0'])
				for _, b := range a.Buckets {
					for i := range b.Stack.Calls {
						_ = b.Stack.Calls[i].Args.String()
					}
				}
			case 'h':
				var buf bytes.Buffer
				_ = snap.Aggregate(lvl).ToHTML(&buf, "")
			case 's':
				var buf bytes.Buffer
				_ = snap.ToHTML(&buf, "")
			case 'a':
				for _, g := range gs {
					for i := range g.Stack.Calls {
						_ = g.Stack.Calls[i].Args.String()
					}
				}
			}
		}
	}()
	unchanged := b2s(sexpGoroutines(gs) == before)
	capsame := b2s(capSig(gs) == caps)
	again := snap.Aggregate(lvl)
	same := b2s(sexpBuckets(again.Buckets) == first)
	emit("alias", id, strconv.Itoa(int(lvl)), before, ops, res, unchanged, same, capsame, aliasGraph(gs, again.Buckets), sexpBuckets(again.Buckets))
}

func opAlias(r *rand.Rand, n int, tier string) {
	for i := 0; i < n; i++ {
		size := 1 + r.Intn(8)
		gs := genSnapshot(r, size, 1+r.Intn(2), r.Intn(2) == 0)
		// spare capacity and Processed strings: what an in-place append would clobber
		for _, g := range gs {
			for ci := range g.Stack.Calls {
				a := &g.Stack.Calls[ci].Args
				if r.Intn(3) == 0 && len(a.Values) > 0 {
					p := make([]string, 0, len(a.Values)+3)
					for k := range a.Values {
						p = append(p, "arg"+strconv.Itoa(k))
					}
					a.Processed = p
				}
				if r.Intn(3) == 0 {
					v := make([]stack.Arg, len(a.Values), len(a.Values)+4)
					copy(v, a.Values)
					a.Values = v
				}
			}
			if r.Intn(3) == 0 {
				c := make([]stack.Call, len(g.Stack.Calls), len(g.Stack.Calls)+4)
				copy(c, g.Stack.Calls)
				g.Stack.Calls = c
			}
		}
		var ops strings.Builder
		for k := 0; k < r.Intn(9); k++ {
			ops.WriteByte("0123hsa"[r.Intn(7)])
		}
		o := ops.String()
		if o == "" {
			o = "a"
		}
		emitAlias(fmt.Sprintf("alias-%d", i), gs, levels[r.Intn(4)], o)
	}
}

func init() {
	replayers["alias"] = func(id string, in []string) {
		lvl, _ := strconv.Atoi(in[0])
		emitAlias(id, readGoroutines(in[1]), stack.Similarity(lvl), in[2])
	}
}
