// vh: the implementation side of the correspondence check.  Each subcommand
// generates cases from -seed, runs the real code from /repo on them and prints
// one tab-separated line per case: op, id, inputs, observed outputs.
package main

import (
	"bufio"
	"flag"
	"fmt"
	"io"
	"log"
	"math/rand"
	"os"
)

var out *bufio.Writer

func emit(fields ...string) {
	for i, f := range fields {
		if i != 0 {
			out.WriteByte('\t')
		}
		out.WriteString(f)
	}
	out.WriteByte('\n')
}

func main() {
	if len(os.Args) < 2 {
		fmt.Fprintln(os.Stderr, "usage: vh <op> [flags]")
		os.Exit(2)
	}
	op := os.Args[1]
	log.SetOutput(io.Discard) // the library logs "problematic URL" lines
	fs := flag.NewFlagSet(op, flag.ExitOnError)
	seed := fs.Int64("seed", 1, "PRNG seed")
	n := fs.Int("n", 100, "number of cases")
	tier := fs.String("tier", "quick", "quick|thorough")
	replay := fs.String("replay", "", "replay file")
	mix := fs.String("mix", "c01", "generator mix of the scan ops")
	_ = fs.Parse(os.Args[2:])
	out = bufio.NewWriterSize(os.Stdout, 1<<20)
	defer out.Flush()
	r := rand.New(rand.NewSource(*seed))
	switch op {
	case "aggregate":
		opAggregate(r, *n, *tier)
	case "less3":
		opLess3(r, *n, *tier)
	case "aggx":
		opAggx(r, *n, *tier)
	case "scan":
		opScan(r, *n, *tier, *mix)
	case "scanseq":
		opScanSeq(r, *n, *tier)
	case "cut":
		opCut(r, *n, *tier)
	case "names":
		opNames(r, *n, *tier)
	case "chunk":
		opChunk(r, *n, *tier)
	case "witness":
		opWitness(*mix)
	case "pp":
		opPP(r, *n, *tier)
	case "html":
		opHTML(r, *n, *tier)
	case "guess":
		opGuess(r, *n, *tier, *seed)
	case "augment":
		opAugment(r, *n, *tier, *seed)
	case "handler":
		opHandler(r, *n, *tier)
	case "live":
		opLive(r, *n, *tier)
	case "alias":
		opAlias(r, *n, *tier)
	case "pppipe":
		opPPPipe(r, *n, *tier)
	case "progs":
		opProgs(r, *n, *tier, *seed)
	case "step":
		opStep(r, *n, *tier)
	case "sigops":
		opSigops(r, *n, *tier)
	case "rlines":
		opRlines(r, *n, *tier)
	case "ast":
		opAst(r, *n, *tier)
	case "regex":
		opRegex(r, *n, *tier)
	case "replay":
		opReplay()
	default:
		_ = replay
		fmt.Fprintf(os.Stderr, "unknown op %q\n", op)
		os.Exit(2)
	}
}
