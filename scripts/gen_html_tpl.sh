#!/bin/sh
# Regenerates (or with -check: verifies) coq/theories/Model/HtmlTpl.v from stack/goroutines.tpl.
#   sh scripts/gen_html_tpl.sh            regenerate
#   sh scripts/gen_html_tpl.sh -check     exit 1 when the file is out of date
# REPO=<panicparse tree> overrides the source tree (default: the one harness/go.mod points to).
set -e
HERE=$(cd "$(dirname "$0")/.." && pwd)
export GOFLAGS=-mod=mod GOPROXY=off GOSUMDB=off GOTOOLCHAIN=local
REPO=${REPO:-$(sed -n 's#^replace github.com/maruel/panicparse/v2 => ##p' "$HERE/harness/go.mod")}
cd "$HERE/notes/htmldoc-validation"
if [ "$1" = "-check" ]; then
  go run ./tplgen -repo "$REPO" -check "$HERE/coq/theories/Model/HtmlTpl.v"
else
  go run ./tplgen -repo "$REPO" -o "$HERE/coq/theories/Model/HtmlTpl.v"
fi
