(* Properties/C15.v — Pointer pseudo-names are a consistent, dense, ordered labelling.  Statements only. *)
From PP Require Import Base.Bytes Base.Num Model.Types Model.Names Spec.Eqb Spec.NamesSpec Spec.Wf.
From PP Require Import Proofs.NamesProofs.

(* For every snapshot whose arguments carry no name yet (what the scanner
   produces: C15_scanner_sets_no_name in C01/C03's file), nameArguments yields
   a labelling satisfying all the laws of c15_ok. *)
Theorem C15_labelling : forall gs, no_names gs = true -> c15_ok gs (name_arguments gs) = true.
Proof. exact NamesProofs.labelling. Qed.
Print Assumptions C15_labelling.

(* The laws, unfolded. *)
Theorem C15_laws : forall gs, no_names gs = true ->
  let out := name_arguments gs in
  let sc := all_scalars out in
  map goroutine_erase out = map goroutine_erase gs /\
  (forall a, In a sc -> Name a <> [] -> IsPtr a = true) /\
  (forall a b, In a sc -> In b sc -> IsPtr a = true -> IsPtr b = true -> (Value a = Value b <-> Name a = Name b) \/ (Name a = [] /\ Name b = [])) /\
  (forall a b, In a sc -> In b sc -> IsPtr a = true -> IsPtr b = true -> Value a = Value b -> Name a = Name b) /\
  (forall a, In a sc -> IsPtr a = true -> 1 < count_val (Value a) (map Value (filter IsPtr sc)) -> Name a <> []) /\
  (exists k, forall n, (exists a, In a sc /\ Name a = n /\ n <> []) <-> (exists i, 1 <= i <= k /\ n = label i)).
Proof. exact NamesProofs.laws. Qed.
Print Assumptions C15_laws.

(* naming preserves (indeed establishes) the well-formedness the bucket theorems need *)
Theorem C15_consistent : forall gs, no_names gs = true ->
  (forall a, In a (all_scalars gs) -> IsOffsetTooLarge a = true -> IsPtr a = false) ->
  forallb (fun g => wf_stack (SStack (GSig g))) (name_arguments gs) = true.
Proof. exact NamesProofs.consistent. Qed.
Print Assumptions C15_consistent.

Example C15_example : exists gs, no_names gs = true /\ List.length gs = 2 /\
  c15_ok gs (name_arguments gs) = true /\
  map Name (all_scalars (name_arguments gs)) = [s2b "#1"; s2b "#1"; []; []; s2b "#3"; s2b "#2"].
Proof. exact NamesProofs.example_labelling. Qed.
