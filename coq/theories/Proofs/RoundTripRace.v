(* Proofs/RoundTripRace.v — C08, race reports: what print_race
   (Spec/RacePrinter.v) writes is read back by the race sub-state-machine of
   the scanner (Model/Scan.v) as race_snapshot_of, and ScanSnapshot
   (Model/ScanSnapshot.v) returns it, for every stall-free delivery schedule.

    1. generic facts on byte strings
    2. numbers: the zero-padded address (parse_uint_hex012)
    3. the header lines of operation and creation sections (matchers)
    4. one physical line through the first two stages of scan
    5. a creation header for an unknown goroutine (unknown_creator)
    6. projections of race_snapshot_of
    7. the two lines of a frame (frame_rt: what is needed from C01)
    8. Steps: sequences of consumed lines
    9. an operation section; all the operation sections (ops_steps)
   10. a creation section
   11. the goroutine a creation section updates (creation_target)
   12. all the creation sections, the closing separator (race_steps)
   13. the ScanSnapshot loop (fidelity_frames)
   14. from the computable predicates wf_frame / wf_race / junk_ok (fidelity)
   15. a report without creation section (no_creation_section)
   16. a report with a creation section for an unknown goroutine
       (unknown_creator_report)

   Everything is proved in full (no partial result). *)
From PP Require Import Base.Bytes Base.BytesX Base.Num Base.GoResult Model.Types Model.Lines
  Model.FuncInit Model.ParseArgs Model.Scan Model.Reader Model.ScanSnapshot Model.Process
  Spec.Printer Spec.RacePrinter Spec.ReaderSpec
  Proofs.RoundTripNum Proofs.ScanInv Proofs.ReaderBase Proofs.ReaderProofs.
(* the line-level round trip of C01, used in section 14 only (qualified names) *)
From PP Require Proofs.RoundTripLines Proofs.RoundTripScan.
From Coq Require Import String.

Local Open Scope N_scope.

(* ------------------------------------------------------------------ *)
(* 1. generic facts on byte strings                                    *)
(* ------------------------------------------------------------------ *)

Lemma strip_prefix_app : forall lit s, strip_prefix lit (lit ++ s) = Some s.
Proof.
  induction lit as [|y lit IH]; intros s; [reflexivity|].
  cbn [app strip_prefix]. rewrite N.eqb_refl. apply IH.
Qed.

(* the head of [t], if any, fails [p] *)
Definition hd_fails (p : N -> bool) (t : bytes) : Prop :=
  match t with [] => True | x :: _ => p x = false end.

Lemma span_app : forall p a t, forallb p a = true -> hd_fails p t -> span p (a ++ t) = (a, t).
Proof.
  intros p a t. induction a as [|x a IH]; intros Ha Ht.
  - cbn [app]. destruct t as [|y t]; [reflexivity|]. cbn [span]. cbn [hd_fails] in Ht. rewrite Ht. reflexivity.
  - cbn [forallb] in Ha. apply andb_true_iff in Ha as [Hx Ha].
    cbn [app span]. rewrite Hx, (IH Ha Ht). reflexivity.
Qed.

Lemma nonempty_ne : forall b : bytes, b <> [] -> nonempty b = true.
Proof. intros [|x b] H; [congruence|reflexivity]. Qed.

Lemma nonempty_app_r : forall a b : bytes, b <> [] -> a ++ b <> [].
Proof. intros a b H C. apply app_eq_nil in C. destruct C as [_ C]. exact (H C). Qed.

Lemma forallb_repeat : forall (p : N -> bool) x k, p x = true -> forallb p (repeat x k) = true.
Proof. intros p x k H. induction k as [|k IH]; [reflexivity|]. cbn [repeat forallb]. rewrite H, IH. reflexivity. Qed.

Lemma skipn_app_exact : forall (A : Type) (a b : list A), skipn (List.length a) (a ++ b) = b.
Proof. intros A a b. induction a as [|x a IH]; [reflexivity|exact IH]. Qed.

Lemma firstn_app_exact : forall (A : Type) (a b : list A), firstn (List.length a) (a ++ b) = a.
Proof. intros A a b. induction a as [|x a IH]; [reflexivity|]. cbn [List.length app firstn]. rewrite IH. reflexivity. Qed.

Lemma has_suffix_app : forall a p, has_suffix (a ++ p) p = true.
Proof.
  intros a p. unfold has_suffix. rewrite app_length.
  replace (List.length a + List.length p - List.length p)%nat with (List.length a) by lia.
  rewrite skipn_app_exact, beq_refl.
  replace (Nat.leb (List.length p) (List.length a + List.length p)) with true
    by (symmetry; apply Nat.leb_le; lia).
  reflexivity.
Qed.

Lemma has_suffix_spec : forall s p, has_suffix s p = true -> exists a, s = a ++ p.
Proof.
  intros s p H. unfold has_suffix in H. apply andb_true_iff in H as [_ H].
  apply beq_eq in H. exists (firstn (List.length s - List.length p) s).
  pose proof (firstn_skipn (List.length s - List.length p) s) as F. rewrite H in F. symmetry. exact F.
Qed.

Lemma strip_suffix_app : forall a p, strip_suffix p (a ++ p) = Some a.
Proof.
  intros a p. unfold strip_suffix. rewrite has_suffix_app, app_length.
  replace (List.length a + List.length p - List.length p)%nat with (List.length a) by lia.
  rewrite firstn_app_exact. reflexivity.
Qed.

Lemma has_suffix_false : forall s p, (forall a, s <> a ++ p) -> has_suffix s p = false.
Proof.
  intros s p H. destruct (has_suffix s p) eqn:E; [|reflexivity].
  apply has_suffix_spec in E. destruct E as [a E]. exfalso. exact (H a E).
Qed.

(* a text ending with a byte other than CR *)
Definition ends_not_cr (l : bytes) : Prop := forall a, l <> a ++ [CR].

Lemma ends_not_cr_nil : ends_not_cr [].
Proof. intros a C. symmetry in C. apply app_eq_nil in C. destruct C as [_ C]. discriminate C. Qed.

Lemma ends_not_cr_last : forall l x, x <> CR -> ends_not_cr (l ++ [x]).
Proof. intros l x Hx a C. apply app_inj_tail in C. destruct C as [_ C]. exact (Hx C). Qed.

Lemma ends_not_cr_app : forall a b, b <> [] -> ends_not_cr b -> ends_not_cr (a ++ b).
Proof.
  intros a b Hne Hb c C.
  destruct (exists_last Hne) as (b' & x & ->).
  rewrite app_assoc in C. apply app_inj_tail in C. destruct C as [_ C].
  apply (Hb b'). rewrite C. reflexivity.
Qed.

(* a non-empty text all of whose bytes satisfy [p], none of which is CR *)
Lemma ends_not_cr_forallb : forall (p : N -> bool) l,
  p CR = false -> forallb p l = true -> ends_not_cr l.
Proof.
  intros p l Hp Hl a C. rewrite C, forallb_app in Hl. apply andb_true_iff in Hl as [_ Hl].
  cbn [forallb] in Hl. rewrite Hp in Hl. discriminate Hl.
Qed.

(* ------------------------------------------------------------------ *)
(* 2. numbers: the zero-padded address                                 *)
(* ------------------------------------------------------------------ *)

Lemma hex012_lower : forall a, forallb is_lower_hex (N_to_hex012 a) = true.
Proof.
  intros a. unfold N_to_hex012. rewrite forallb_app, N_to_hex_lower, forallb_repeat by reflexivity.
  reflexivity.
Qed.

Lemma hex012_nonempty : forall a, N_to_hex012 a <> [].
Proof. intros a. unfold N_to_hex012. apply nonempty_app_r, N_to_hex_nonempty. Qed.

(* leading zeros keep the accumulator of ParseUint at 0 *)
Lemma pu_loop_zero : forall s us, pu_loop 16 (48 :: s) 0 us = pu_loop 16 s 0 us.
Proof. intros s us. reflexivity. Qed.

Lemma pu_loop_zeros : forall k s us, pu_loop 16 (repeat 48 k ++ s) 0 us = pu_loop 16 s 0 us.
Proof.
  induction k as [|k IH]; intros s us; [reflexivity|].
  cbn [repeat app]. rewrite pu_loop_zero. apply IH.
Qed.

(* (a) the address text of an operation header is read back by ParseUint(s, 0, 64) *)
Theorem parse_uint_hex012 : forall a, a < 18446744073709551616 ->
  parse_uint (s2b "0x" ++ N_to_hex012 a) = Some a.
Proof.
  intros a Ha. destruct (N_to_hex_spec a) as (m & Hne & _ & Hpu).
  pose proof (hex012_nonempty a) as Hne12. unfold N_to_hex012 in *.
  set (k := (12 - List.length (N_to_hex false a))%nat) in *.
  destruct (repeat 48 k ++ N_to_hex false a) as [|h t] eqn:E; [congruence|].
  change (s2b "0x" ++ h :: t) with (48 :: 120 :: h :: t).
  unfold parse_uint.
  change (48 =? 48) with true. cbv iota.
  change (lower 120 =? 98) with false. change (lower 120 =? 111) with false.
  change (lower 120 =? 120) with true. cbv iota.
  rewrite <- E, pu_loop_zeros.
  specialize (Hpu 0 [] false). rewrite app_nil_r in Hpu.
  rewrite Hpu by (unfold max_uint64; lia). cbn [pu_loop N.mul N.add andb]. reflexivity.
Qed.

(* ------------------------------------------------------------------ *)
(* 3. the header lines                                                 *)
(* ------------------------------------------------------------------ *)

Lemma dec_nonempty_b : forall n, nonempty (N_to_dec n) = true.
Proof. intros n. apply nonempty_ne, N_to_dec_nonempty. Qed.

Lemma match_race_op_tail_print : forall a g,
  match_race_op_tail (s2b " at 0x" ++ N_to_hex012 a ++ s2b " by goroutine " ++ N_to_dec g ++ s2b ":") =
  Some (s2b "0x" ++ N_to_hex012 a, N_to_dec g).
Proof.
  intros a g. unfold match_race_op_tail. rewrite strip_prefix_app.
  rewrite (span_app is_lower_hex) by (try apply hex012_lower; reflexivity).
  rewrite (nonempty_ne _ (hex012_nonempty a)). cbn [negb].
  rewrite strip_prefix_app.
  rewrite (span_app is_digit) by (try apply N_to_dec_digits; reflexivity).
  rewrite dec_nonempty_b. reflexivity.
Qed.

(* (a) the header of the first operation is matched by the Read|Write regexp *)
Theorem match_race_op_print : forall w a g,
  match_race_op (print_op_header true w a g) = Some (w, s2b "0x" ++ N_to_hex012 a, N_to_dec g).
Proof.
  intros w a g. unfold print_op_header, match_race_op. destruct w; cbn [race_kind].
  - replace (strip_prefix (s2b "Read") (s2b "Write" ++ s2b " at 0x" ++ N_to_hex012 a ++
               s2b " by goroutine " ++ N_to_dec g ++ s2b ":")) with (@None bytes) by reflexivity.
    rewrite strip_prefix_app, match_race_op_tail_print. reflexivity.
  - rewrite strip_prefix_app, match_race_op_tail_print. reflexivity.
Qed.

(* ... and the headers of the following ones by the Previous read|write regexp *)
Theorem match_race_prev_print : forall w a g,
  match_race_prev (print_op_header false w a g) = Some (w, s2b "0x" ++ N_to_hex012 a, N_to_dec g).
Proof.
  intros w a g. unfold print_op_header, match_race_prev. destruct w; cbn [race_kind].
  - replace (strip_prefix (s2b "Previous read") (s2b "Previous write" ++ s2b " at 0x" ++ N_to_hex012 a ++
               s2b " by goroutine " ++ N_to_dec g ++ s2b ":")) with (@None bytes) by reflexivity.
    rewrite strip_prefix_app, match_race_op_tail_print. reflexivity.
  - rewrite strip_prefix_app, match_race_op_tail_print. reflexivity.
Qed.

(* (a) the header of a creation section *)
Theorem match_race_goroutine_print : forall n running,
  match_race_goroutine (print_creation_header n running) = Some (N_to_dec n, race_state_text running).
Proof.
  intros n running. unfold print_creation_header, match_race_goroutine.
  rewrite strip_prefix_app.
  rewrite (span_app is_digit) by (try apply N_to_dec_digits; reflexivity).
  rewrite dec_nonempty_b. cbn [negb].
  destruct running; reflexivity.
Qed.

(* a creation header is not an operation header *)
Lemma match_race_prev_creation : forall n running,
  match_race_prev (print_creation_header n running) = None.
Proof. intros n running. reflexivity. Qed.

(* ------------------------------------------------------------------ *)
(* 4. one physical line through the first two stages of scan           *)
(* ------------------------------------------------------------------ *)

(* a line that ends with LF, not with CR LF, is trimmed of its LF *)
Lemma scan_tr_lf : forall s l, ends_not_cr l -> scan_tr s (l ++ [LF]) = Some l.
Proof.
  intros s l Hl. unfold scan_tr, strip_suffix at 1.
  rewrite has_suffix_false.
  - rewrite strip_suffix_app. reflexivity.
  - intros a C. change (a ++ [CR; LF]) with (a ++ [CR] ++ [LF]) in C. rewrite app_assoc in C.
    apply app_inj_tail in C. destruct C as [C _]. exact (Hl a C).
Qed.

(* scan on a complete LF-terminated line, without indentation prefix *)
Lemma scan_line : forall s l, sprefix s = [] -> ends_not_cr l ->
  scan s (l ++ [LF]) = scan_body s l.
Proof.
  intros s l Hp Hl. rewrite scan_unfold, (scan_tr_lf s l Hl), (scan_pre_noprefix s l Hp). reflexivity.
Qed.

Ltac lit_not_cr := apply (ends_not_cr_forallb (fun c => negb (N.eqb c CR))); reflexivity.

Lemma creation_header_not_cr : forall n running, ends_not_cr (print_creation_header n running).
Proof.
  intros n running. unfold print_creation_header.
  replace (s2b "Goroutine " ++ N_to_dec n ++ s2b " (" ++ race_state_text running ++ s2b ") created at:")
    with ((s2b "Goroutine " ++ N_to_dec n ++ s2b " (" ++ race_state_text running ++ s2b ") created at") ++ [58])
    by (rewrite <- !app_assoc; reflexivity).
  apply ends_not_cr_last. discriminate.
Qed.

Lemma op_header_not_cr : forall first w a g, ends_not_cr (print_op_header first w a g).
Proof.
  intros first w a g. unfold print_op_header.
  replace (race_kind first w ++ s2b " at 0x" ++ N_to_hex012 a ++ s2b " by goroutine " ++ N_to_dec g ++ s2b ":")
    with ((race_kind first w ++ s2b " at 0x" ++ N_to_hex012 a ++ s2b " by goroutine " ++ N_to_dec g) ++ [58])
    by (rewrite <- !app_assoc; reflexivity).
  apply ends_not_cr_last. discriminate.
Qed.

(* ------------------------------------------------------------------ *)
(* 5. a creation section for an unknown goroutine (C08_unknown_creator) *)
(* ------------------------------------------------------------------ *)

Lemma find_id_none : forall id gs i,
  (forall g, In g gs -> ID g <> Z.of_N id) -> find_id id i gs = None.
Proof.
  intros id gs. induction gs as [|g gs IH]; intros i H; [reflexivity|].
  cbn [find_id]. destruct (Z.eqb (ID g) (Z.of_N id)) eqn:E.
  - apply Z.eqb_eq in E. exfalso. exact (H g (or_introl eq_refl) E).
  - apply IH. intros g' Hg'. apply H. right. exact Hg'.
Qed.

(* between two sections of a race report, a creation header whose id is the
   id of no goroutine of the report is an error, and changes nothing *)
Theorem unknown_creator : forall s n running,
  st s = betweenRaceGoroutines \/ st s = betweenRaceOperations ->
  sprefix s = [] -> n < dec_limit ->
  (forall g, In g (goroutines s) -> ID g <> Z.of_N n) ->
  scan s (print_creation_header n running ++ [LF]) = Ok (s, false, Some (ErrRace 2)).
Proof.
  intros s n running Hst Hp Hn Hid.
  rewrite (scan_line s _ Hp (creation_header_not_cr n running)).
  assert (Hstep : race_goroutine_step s (print_creation_header n running) = Ok (s, false, Some (ErrRace 2))).
  { rewrite race_goroutine_step_unfold, match_race_goroutine_print, (atou_N_to_dec n Hn).
    rewrite (find_id_none n (goroutines s) 0%nat Hid). reflexivity. }
  unfold scan_body. destruct Hst as [Hst|Hst]; rewrite Hst.
  - exact Hstep.
  - rewrite match_race_prev_creation. cbn [race_op_header]. exact Hstep.
Qed.

(* ------------------------------------------------------------------ *)
(* 6. projections of race_snapshot_of                                  *)
(* ------------------------------------------------------------------ *)

Lemma race_goroutine_of_eq : forall cs first op,
  race_goroutine_of cs first op =
  mkGoroutine (mkSig (fst (race_creation_of (ro_gid op) cs [] []))
                     (mkStack (snd (race_creation_of (ro_gid op) cs [] [])) false) 0 0
                     (mkStack (map call_of_frame (ro_frames op)) false) false)
              (Z.of_N (ro_gid op)) first (ro_write op) (ro_addr op).
Proof.
  intros cs first op. unfold race_goroutine_of.
  destruct (race_creation_of (ro_gid op) cs [] []) as [state created]. reflexivity.
Qed.

Lemma race_goroutine_of_ID : forall cs first op, ID (race_goroutine_of cs first op) = Z.of_N (ro_gid op).
Proof. intros cs first op. rewrite race_goroutine_of_eq. reflexivity. Qed.
Lemma race_goroutine_of_First : forall cs first op, First (race_goroutine_of cs first op) = first.
Proof. intros cs first op. rewrite race_goroutine_of_eq. reflexivity. Qed.
Lemma race_goroutine_of_RaceWrite : forall cs first op, RaceWrite (race_goroutine_of cs first op) = ro_write op.
Proof. intros cs first op. rewrite race_goroutine_of_eq. reflexivity. Qed.
Lemma race_goroutine_of_RaceAddr : forall cs first op, RaceAddr (race_goroutine_of cs first op) = ro_addr op.
Proof. intros cs first op. rewrite race_goroutine_of_eq. reflexivity. Qed.
Lemma race_goroutine_of_Stack : forall cs first op,
  SStack (GSig (race_goroutine_of cs first op)) = mkStack (map call_of_frame (ro_frames op)) false.
Proof. intros cs first op. rewrite race_goroutine_of_eq. reflexivity. Qed.

(* one goroutine per operation, in order; only the one of index 0 is First *)
Theorem snapshot_nth : forall r i op,
  nth_error (pr_ops r) i = Some op ->
  nth_error (race_snapshot_of r) i = Some (race_goroutine_of (pr_creations r) (Nat.eqb i 0) op).
Proof.
  intros r i op H. unfold race_snapshot_of. destruct (pr_ops r) as [|op0 ops]; [destruct i; discriminate H|].
  destruct i as [|i]; cbn [nth_error Nat.eqb] in *.
  - injection H as ->. reflexivity.
  - rewrite nth_error_map, H. reflexivity.
Qed.

Theorem snapshot_length : forall r, List.length (race_snapshot_of r) = List.length (pr_ops r).
Proof.
  intros r. unfold race_snapshot_of. destruct (pr_ops r) as [|op ops]; [reflexivity|].
  cbn [List.length]. rewrite map_length. reflexivity.
Qed.

Lemma snapshot_map : forall (A : Type) (f : Goroutine -> A) (g : p_race_op -> A) r,
  (forall cs first op, f (race_goroutine_of cs first op) = g op) ->
  map f (race_snapshot_of r) = map g (pr_ops r).
Proof.
  intros A f g r H. unfold race_snapshot_of. destruct (pr_ops r) as [|op ops]; [reflexivity|].
  cbn [map]. rewrite H, map_map. f_equal. apply map_ext. intros op'. apply H.
Qed.

Theorem snapshot_ids : forall r,
  map ID (race_snapshot_of r) = map (fun op => Z.of_N (ro_gid op)) (pr_ops r).
Proof. intros r. apply snapshot_map. apply race_goroutine_of_ID. Qed.

Theorem snapshot_writes : forall r, map RaceWrite (race_snapshot_of r) = map ro_write (pr_ops r).
Proof. intros r. apply snapshot_map. apply race_goroutine_of_RaceWrite. Qed.

Theorem snapshot_addrs : forall r, map RaceAddr (race_snapshot_of r) = map ro_addr (pr_ops r).
Proof. intros r. apply snapshot_map. apply race_goroutine_of_RaceAddr. Qed.

Theorem snapshot_stacks : forall r,
  map (fun g => SStack (GSig g)) (race_snapshot_of r) =
  map (fun op => mkStack (map call_of_frame (ro_frames op)) false) (pr_ops r).
Proof. intros r. apply snapshot_map. apply race_goroutine_of_Stack. Qed.

(* First = (index 0) *)
Theorem snapshot_first : forall r i g,
  nth_error (race_snapshot_of r) i = Some g -> First g = Nat.eqb i 0.
Proof.
  intros r i g H.
  destruct (nth_error (pr_ops r) i) as [op|] eqn:E.
  - rewrite (snapshot_nth r i op E) in H. injection H as <-. apply race_goroutine_of_First.
  - apply nth_error_None in E. rewrite <- snapshot_length in E. apply nth_error_None in E. congruence.
Qed.

(* Snapshot.IsRace(): the address of the first goroutine is not 0 *)
Theorem snapshot_is_race : forall r op ops,
  pr_ops r = op :: ops -> is_race (race_snapshot_of r) = negb (ro_addr op =? 0).
Proof.
  intros r op ops H. unfold race_snapshot_of. rewrite H. cbn [is_race].
  rewrite race_goroutine_of_RaceAddr. reflexivity.
Qed.

(* the creation sections: none for this goroutine / exactly one *)
Lemma race_creation_of_none : forall gid cs state calls,
  (forall c, In c cs -> rc_gid c <> gid) -> race_creation_of gid cs state calls = (state, calls).
Proof.
  intros gid cs. induction cs as [|c cs IH]; intros state calls H; [reflexivity|].
  cbn [race_creation_of].
  destruct (rc_gid c =? gid) eqn:E.
  - apply N.eqb_eq in E. exfalso. exact (H c (or_introl eq_refl) E).
  - apply IH. intros c' Hc'. apply H. right. exact Hc'.
Qed.

Lemma race_creation_of_one : forall gid cs1 c cs2 state calls,
  (forall c', In c' cs1 -> rc_gid c' <> gid) -> rc_gid c = gid ->
  (forall c', In c' cs2 -> rc_gid c' <> gid) ->
  race_creation_of gid (cs1 ++ c :: cs2) state calls =
  (race_state_text (rc_running c), calls ++ map call_of_frame (rc_frames c)).
Proof.
  intros gid cs1 c cs2. induction cs1 as [|c1 cs1 IH]; intros state calls H1 Hc H2.
  - cbn [app race_creation_of]. rewrite Hc, N.eqb_refl. apply race_creation_of_none. exact H2.
  - cbn [app race_creation_of].
    destruct (rc_gid c1 =? gid) eqn:E.
    + apply N.eqb_eq in E. exfalso. exact (H1 c1 (or_introl eq_refl) E).
    + apply IH; [|exact Hc|exact H2]. intros c' Hc'. apply H1. right. exact Hc'.
Qed.

(* a goroutine without creation section: empty State, empty CreatedBy *)
Theorem snapshot_no_creation : forall cs first op,
  (forall c, In c cs -> rc_gid c <> ro_gid op) ->
  State (GSig (race_goroutine_of cs first op)) = [] /\
  CreatedBy (GSig (race_goroutine_of cs first op)) = emptyStack.
Proof.
  intros cs first op H. rewrite race_goroutine_of_eq.
  rewrite (race_creation_of_none _ cs [] [] H). split; reflexivity.
Qed.

(* a goroutine with exactly one creation section, wherever it is printed:
   State and CreatedBy come from that section *)
Theorem snapshot_creation : forall cs1 c cs2 first op,
  (forall c', In c' cs1 -> rc_gid c' <> ro_gid op) -> rc_gid c = ro_gid op ->
  (forall c', In c' cs2 -> rc_gid c' <> ro_gid op) ->
  State (GSig (race_goroutine_of (cs1 ++ c :: cs2) first op)) = race_state_text (rc_running c) /\
  CreatedBy (GSig (race_goroutine_of (cs1 ++ c :: cs2) first op)) =
    mkStack (map call_of_frame (rc_frames c)) false.
Proof.
  intros cs1 c cs2 first op H1 Hc H2. rewrite race_goroutine_of_eq.
  rewrite (race_creation_of_one _ cs1 c cs2 [] [] H1 Hc H2). split; reflexivity.
Qed.

(* ------------------------------------------------------------------ *)
(* 7. the lines of a frame                                             *)
(* ------------------------------------------------------------------ *)

(* What C08 needs from the line level of C01, for one frame: Func.Init /
   parseArgs on the function line (after trimLeftSpace) and reFile on the
   six-space file line give back the Call the frame denotes; no LF inside
   the two lines. *)
Definition frame_rt (f : p_frame) : Prop :=
  (exists c0,
     parse_func (trim_left_space (race_func_line f)) = Ok (Some (c0, None)) /\
     parse_file c0 (race_file_line f) = Some (call_of_frame f, None)) /\
  no_byte LF (race_func_line f) = true /\ no_byte LF (race_file_line f) = true.

Lemma upd_last_app1 : forall (A : Type) (h : A -> A) (l : list A) x, upd_last h (l ++ [x]) = l ++ [h x].
Proof.
  intros A h l x. induction l as [|y l IH]; [reflexivity|].
  cbn [app]. destruct (l ++ [x]) as [|z t] eqn:E.
  - destruct l; discriminate E.
  - cbn [upd_last]. cbn [upd_last] in IH. rewrite IH. reflexivity.
Qed.

Lemma func_line_not_cr : forall f, ends_not_cr (race_func_line f).
Proof.
  intros f. unfold race_func_line, print_func_line.
  replace (s2b "  " ++ sym_raw (pf_sym f) ++ s2b "(" ++ print_args (pf_args f) (pf_elided f) ++ s2b ")")
    with ((s2b "  " ++ sym_raw (pf_sym f) ++ s2b "(" ++ print_args (pf_args f) (pf_elided f)) ++ [41])
    by (rewrite <- !app_assoc; reflexivity).
  apply ends_not_cr_last. discriminate.
Qed.

Lemma dec_not_cr : forall n, ends_not_cr (N_to_dec n).
Proof. intros n. apply (ends_not_cr_forallb is_digit); [reflexivity|apply N_to_dec_digits]. Qed.

Lemma hex_not_cr : forall n, ends_not_cr (N_to_hex false n).
Proof. intros n. apply (ends_not_cr_forallb is_lower_hex); [reflexivity|apply N_to_hex_lower]. Qed.

Lemma off_tail_not_cr : forall n off, ends_not_cr (N_to_dec n ++ print_off off) /\ N_to_dec n ++ print_off off <> [].
Proof.
  intros n [o|]; cbn [print_off].
  - split.
    + unfold hex0x. rewrite !app_assoc. apply ends_not_cr_app; [apply N_to_hex_nonempty|apply hex_not_cr].
    + apply nonempty_app_r. discriminate.
  - rewrite app_nil_r. split; [apply dec_not_cr|apply N_to_dec_nonempty].
Qed.

Lemma file_line_not_cr : forall f, ends_not_cr (race_file_line f).
Proof.
  intros f. unfold race_file_line, print_file_line. cbn [print_regs]. rewrite app_nil_r.
  destruct (off_tail_not_cr (pf_line f) (pf_off f)) as [H1 H2].
  apply ends_not_cr_app; [apply nonempty_app_r, nonempty_app_r; exact H2|].
  apply ends_not_cr_app; [apply nonempty_app_r; exact H2|].
  apply ends_not_cr_app; [exact H2|exact H1].
Qed.

(* the function line, in an operation section *)
Lemma scan_op_func : forall gs g idx stt f c0,
  stt = gotRaceOperationHeader \/ stt = gotRaceOperationFile ->
  parse_func (trim_left_space (race_func_line f)) = Ok (Some (c0, None)) ->
  scan (mkSS (gs ++ [g]) stt [] idx) (race_func_line f ++ [LF]) =
  Ok (mkSS (gs ++ [add_call g c0]) gotRaceOperationFunc [] idx, true, None).
Proof.
  intros gs g idx stt f c0 Hst Hpf.
  rewrite (scan_line (mkSS (gs ++ [g]) stt [] idx) _ eq_refl (func_line_not_cr f)).
  assert (Hstep : func_step (mkSS (gs ++ [g]) stt [] idx) (trim_left_space (race_func_line f))
                    gotRaceOperationFunc add_call_cur
                    (ret (mkSS (gs ++ [g]) stt [] idx) false (Some (ErrExpected (if state_eqb stt gotRaceOperationHeader then 6 else 8)))) =
                  Ok (mkSS (gs ++ [add_call g c0]) gotRaceOperationFunc [] idx, true, None)).
  { unfold func_step. rewrite Hpf. cbn [bind]. unfold add_call_cur. cbn [goroutines].
    rewrite last_opt_app1. cbn [bind]. unfold set_cur, with_gs, with_state, ret.
    cbn [goroutines st sprefix gindex]. rewrite upd_last_app1. reflexivity. }
  unfold scan_body. cbn [st]. destruct Hst as [-> | ->].
  - exact Hstep.
  - change (race_func_line f) with (32 :: 32 :: print_func_line (pf_sym f) (pf_args f) (pf_elided f)) at 1.
    cbv iota. exact Hstep.
Qed.

(* the file line, in an operation section *)
Lemma scan_op_file : forall gs g idx f cs c0 c',
  Calls (SStack (GSig g)) = cs ++ [c0] ->
  parse_file c0 (race_file_line f) = Some (c', None) ->
  scan (mkSS (gs ++ [g]) gotRaceOperationFunc [] idx) (race_file_line f ++ [LF]) =
  Ok (mkSS (gs ++ [set_calls g (cs ++ [c'])]) gotRaceOperationFile [] idx, true, None).
Proof.
  intros gs g idx f cs c0 c' Hcs Hpf.
  rewrite (scan_line (mkSS (gs ++ [g]) gotRaceOperationFunc [] idx) _ eq_refl (file_line_not_cr f)).
  unfold scan_body. cbn [st]. unfold with_cur. cbn [goroutines]. rewrite last_opt_app1.
  unfold file_step. rewrite Hcs, last_opt_app1, Hpf.
  unfold set_cur, with_gs, with_state, ret. cbn [goroutines st sprefix gindex].
  rewrite !upd_last_app1. reflexivity.
Qed.

(* the blank line that ends an operation section *)
Lemma scan_op_blank : forall gs idx,
  scan (mkSS gs gotRaceOperationFile [] idx) (([] : bytes) ++ [LF]) =
  Ok (mkSS gs betweenRaceOperations [] idx, true, None).
Proof. intros gs idx. reflexivity. Qed.

(* the goroutine of an operation while its section is being read *)
Definition op_goroutine (first : bool) (op : p_race_op) (calls : list Call) : Goroutine :=
  mkGoroutine (mkSig [] emptyStack 0 0 (mkStack calls false) false)
              (Z.of_N (ro_gid op)) first (ro_write op) (ro_addr op).

(* the header of an operation section *)
Lemma scan_op_header : forall s (first : bool) op,
  sprefix s = [] -> ro_addr op < 18446744073709551616 -> ro_gid op < dec_limit ->
  (if first return Prop then st s = gotRaceHeader2 /\ goroutines s = [] else st s = betweenRaceOperations) ->
  scan s (print_op_header first (ro_write op) (ro_addr op) (ro_gid op) ++ [LF]) =
  Ok (mkSS (goroutines s ++ [op_goroutine first op []]) gotRaceOperationHeader []
           (List.length (goroutines s)), true, None).
Proof.
  intros s first op Hp Ha Hg Hst.
  rewrite (scan_line s _ Hp (op_header_not_cr _ _ _ _)).
  unfold scan_body. destruct first.
  - destruct Hst as [Hst Hgs]. rewrite Hst, match_race_op_print. unfold race_op_header.
    rewrite (parse_uint_hex012 _ Ha), (atou_N_to_dec _ Hg), Hgs. cbn [andb app]. unfold ret.
    rewrite Hp. reflexivity.
  - rewrite Hst, match_race_prev_print. unfold race_op_header.
    rewrite (parse_uint_hex012 _ Ha), (atou_N_to_dec _ Hg). cbn [andb]. unfold ret.
    rewrite Hp, app_length. cbn [List.length]. rewrite Nat.add_sub. reflexivity.
Qed.

(* ------------------------------------------------------------------ *)
(* 8. sequences of consumed lines                                      *)
(* ------------------------------------------------------------------ *)

Lemma no_byte_app : forall c a b, no_byte c (a ++ b) = no_byte c a && no_byte c b.
Proof.
  intros c a b. unfold no_byte. rewrite existsb_app, negb_orb. reflexivity.
Qed.

Lemma no_byte_In : forall c s, no_byte c s = true -> ~ In c s.
Proof.
  intros c s H Hin. unfold no_byte in H. apply negb_true_iff in H.
  assert (Ht : existsb (N.eqb c) s = true) by (apply existsb_exists; exists c; split; [exact Hin|apply N.eqb_refl]).
  congruence.
Qed.

Lemma forallb_no_byte : forall (p : N -> bool) c s, p c = false -> forallb p s = true -> no_byte c s = true.
Proof.
  intros p c s Hc Hs. unfold no_byte. apply negb_true_iff.
  destruct (existsb (N.eqb c) s) eqn:E; [|reflexivity].
  apply existsb_exists in E. destruct E as (x & Hin & Hx). apply N.eqb_eq in Hx. subst x.
  rewrite forallb_forall in Hs. rewrite (Hs c Hin) in Hc. discriminate Hc.
Qed.

Lemma dec_no_lf : forall n, no_byte LF (N_to_dec n) = true.
Proof. intros n. apply (forallb_no_byte is_digit); [reflexivity|apply N_to_dec_digits]. Qed.

Lemma hex012_no_lf : forall a, no_byte LF (N_to_hex012 a) = true.
Proof. intros a. apply (forallb_no_byte is_lower_hex); [reflexivity|apply hex012_lower]. Qed.

Lemma op_header_no_lf : forall first w a g, no_byte LF (print_op_header first w a g) = true.
Proof.
  intros first w a g. unfold print_op_header. rewrite !no_byte_app, hex012_no_lf, dec_no_lf.
  destruct first, w; reflexivity.
Qed.

Lemma creation_header_no_lf : forall n running, no_byte LF (print_creation_header n running) = true.
Proof.
  intros n running. unfold print_creation_header. rewrite !no_byte_app, dec_no_lf.
  destruct running; reflexivity.
Qed.

(* [Steps s ls s']: from s, the scanner consumes the lines ls (given without
   their LF), each with result (true, nil), and ends in s' *)
Inductive Steps : sstate -> list bytes -> sstate -> Prop :=
| Steps_nil : forall s, Steps s [] s
| Steps_cons : forall s l s1 ls s',
    state_eqb (st s) done = false -> no_byte LF l = true ->
    scan s (l ++ [LF]) = Ok (s1, true, None) ->
    Steps s1 ls s' -> Steps s (l :: ls) s'.

Lemma Steps_app : forall s l1 s1 l2 s2, Steps s l1 s1 -> Steps s1 l2 s2 -> Steps s (l1 ++ l2) s2.
Proof.
  intros s l1 s1 l2 s2 H1 H2. induction H1 as [s|s l sa ls s' Hd Hl Hs H1 IH]; [exact H2|].
  cbn [app]. apply (Steps_cons s l sa); [exact Hd|exact Hl|exact Hs|]. apply IH. exact H2.
Qed.

Lemma Steps_one : forall s l s1,
  state_eqb (st s) done = false -> no_byte LF l = true ->
  scan s (l ++ [LF]) = Ok (s1, true, None) -> Steps s [l] s1.
Proof. intros s l s1 Hd Hl Hs. apply (Steps_cons s l s1); [exact Hd|exact Hl|exact Hs|apply Steps_nil]. Qed.

(* ------------------------------------------------------------------ *)
(* 9. an operation section                                             *)
(* ------------------------------------------------------------------ *)

Lemma set_calls_op_goroutine : forall first op calls calls',
  set_calls (op_goroutine first op calls) calls' = op_goroutine first op calls'.
Proof. reflexivity. Qed.

Lemma add_call_op_goroutine : forall first op calls c,
  add_call (op_goroutine first op calls) c = op_goroutine first op (calls ++ [c]).
Proof. reflexivity. Qed.

(* the two lines of one frame *)
Lemma op_frame_steps : forall gs first op calls stt idx f,
  stt = gotRaceOperationHeader \/ stt = gotRaceOperationFile -> frame_rt f ->
  Steps (mkSS (gs ++ [op_goroutine first op calls]) stt [] idx) (race_frame_lines f)
        (mkSS (gs ++ [op_goroutine first op (calls ++ [call_of_frame f])]) gotRaceOperationFile [] idx).
Proof.
  intros gs first op calls stt idx f Hst ((c0 & Hpf & Hfile) & Hl1 & Hl2).
  unfold race_frame_lines.
  apply (Steps_cons _ _ (mkSS (gs ++ [op_goroutine first op (calls ++ [c0])]) gotRaceOperationFunc [] idx)).
  - destruct Hst as [-> | ->]; reflexivity.
  - exact Hl1.
  - rewrite (scan_op_func gs (op_goroutine first op calls) idx stt f c0 Hst Hpf), add_call_op_goroutine. reflexivity.
  - apply Steps_one; [reflexivity|exact Hl2|].
    rewrite (scan_op_file gs (op_goroutine first op (calls ++ [c0])) idx f calls c0 (call_of_frame f) eq_refl Hfile), set_calls_op_goroutine.
    reflexivity.
Qed.

Lemma op_frames_steps : forall frames gs first op calls stt idx,
  stt = gotRaceOperationHeader \/ stt = gotRaceOperationFile -> Forall frame_rt frames ->
  Steps (mkSS (gs ++ [op_goroutine first op calls]) stt [] idx) (race_frames_lines frames)
        (mkSS (gs ++ [op_goroutine first op (calls ++ map call_of_frame frames)])
              (match frames with [] => stt | _ => gotRaceOperationFile end) [] idx).
Proof.
  induction frames as [|f frames IH]; intros gs first op calls stt idx Hst Hall.
  - cbn [race_frames_lines flat_map map]. rewrite app_nil_r. apply Steps_nil.
  - inversion Hall as [|f' fs' Hf Hfs]; subst.
    change (race_frames_lines (f :: frames)) with (race_frame_lines f ++ race_frames_lines frames).
    apply (Steps_app _ _ _ _ _ (op_frame_steps gs first op calls stt idx f Hst Hf)).
    specialize (IH gs first op (calls ++ [call_of_frame f]) gotRaceOperationFile idx (or_intror eq_refl) Hfs).
    cbn [map]. rewrite <- app_assoc in IH. cbn [app] in IH.
    destruct frames; exact IH.
Qed.

(* what the fidelity theorem needs of one operation *)
Definition op_ok (op : p_race_op) : Prop :=
  ro_addr op < 18446744073709551616 /\ ro_gid op < dec_limit /\
  ro_frames op <> [] /\ Forall frame_rt (ro_frames op).

Lemma race_goroutine_of_nil : forall first op,
  race_goroutine_of [] first op = op_goroutine first op (map call_of_frame (ro_frames op)).
Proof. reflexivity. Qed.

(* one operation section: header, frames, blank line *)
Lemma op_section_steps : forall s (first : bool) op,
  sprefix s = [] -> op_ok op ->
  (if first return Prop then st s = gotRaceHeader2 /\ goroutines s = [] else st s = betweenRaceOperations) ->
  Steps s (race_op_lines first op)
        (mkSS (goroutines s ++ [race_goroutine_of [] first op]) betweenRaceOperations []
              (List.length (goroutines s))).
Proof.
  intros s first op Hp (Ha & Hg & Hne & Hall) Hst. unfold race_op_lines.
  apply (Steps_cons _ _ (mkSS (goroutines s ++ [op_goroutine first op []]) gotRaceOperationHeader []
                              (List.length (goroutines s)))).
  - destruct first; [destruct Hst as [Hst _]|]; rewrite Hst; reflexivity.
  - apply op_header_no_lf.
  - apply scan_op_header; assumption.
  - eapply Steps_app.
    + apply (op_frames_steps (ro_frames op) (goroutines s) first op [] gotRaceOperationHeader _ (or_introl eq_refl) Hall).
    + cbn [app]. destruct (ro_frames op) as [|f fs] eqn:E; [congruence|]. rewrite <- E.
      apply Steps_one; [reflexivity|reflexivity|]. rewrite race_goroutine_of_nil. apply scan_op_blank.
Qed.

Lemma flat_map_op_lines_cons : forall op ops,
  flat_map (race_op_lines false) (op :: ops) = race_op_lines false op ++ flat_map (race_op_lines false) ops.
Proof. reflexivity. Qed.

(* the operation sections after the first *)
Lemma ops_rest_steps : forall ops gs idx,
  Forall op_ok ops ->
  exists idx', Steps (mkSS gs betweenRaceOperations [] idx) (flat_map (race_op_lines false) ops)
                     (mkSS (gs ++ map (race_goroutine_of [] false) ops) betweenRaceOperations [] idx').
Proof.
  induction ops as [|op ops IH]; intros gs idx Hall.
  - exists idx. cbn [flat_map map]. rewrite app_nil_r. apply Steps_nil.
  - inversion Hall as [|op' ops' Hop Hops]; subst.
    pose proof (op_section_steps (mkSS gs betweenRaceOperations [] idx) false op eq_refl Hop eq_refl) as H1.
    cbn [goroutines] in H1.
    destruct (IH (gs ++ [race_goroutine_of [] false op]) (List.length gs) Hops) as (idx' & H2).
    exists idx'. rewrite flat_map_op_lines_cons. cbn [map].
    rewrite <- app_assoc in H2. cbn [app] in H2.
    exact (Steps_app _ _ _ _ _ H1 H2).
Qed.

(* separator, warning and all the operation sections, from the initial state *)
Lemma ops_steps : forall op ops,
  Forall op_ok (op :: ops) ->
  exists idx,
    Steps ss0 ([race_separator; race_warning] ++ race_ops_lines (op :: ops))
          (mkSS (race_snapshot_of (mkPRace (op :: ops) [])) betweenRaceOperations [] idx).
Proof.
  intros op ops Hall. inversion Hall as [|op' ops' Hop Hops]; subst.
  pose proof (op_section_steps (mkSS [] gotRaceHeader2 [] 0) true op eq_refl Hop (conj eq_refl eq_refl)) as H1.
  cbn [goroutines app List.length] in H1.
  destruct (ops_rest_steps ops [race_goroutine_of [] true op] 0%nat Hops) as (idx & H2).
  exists idx. cbn [race_ops_lines app].
  apply (Steps_cons _ _ (mkSS [] gotRaceHeader1 [] 0)); [reflexivity|reflexivity|reflexivity|].
  apply (Steps_cons _ _ (mkSS [] gotRaceHeader2 [] 0)); [reflexivity|reflexivity|reflexivity|].
  exact (Steps_app _ _ _ _ _ H1 H2).
Qed.

(* ------------------------------------------------------------------ *)
(* 10. a creation section                                              *)
(* ------------------------------------------------------------------ *)

Lemma upd_nth_const : forall (A : Type) (h : A -> A) (l : list A) i x,
  nth_error l i = Some x -> upd_nth i h l = upd_nth i (fun _ => h x) l.
Proof.
  intros A h l. induction l as [|a l IH]; intros [|i] x H; cbn [nth_error upd_nth] in *; try discriminate.
  - injection H as ->. reflexivity.
  - rewrite (IH i x H). reflexivity.
Qed.

Lemma upd_nth_twice : forall (A : Type) (h k : A -> A) (l : list A) i,
  upd_nth i h (upd_nth i k l) = upd_nth i (fun x => h (k x)) l.
Proof.
  intros A h k l. induction l as [|a l IH]; intros [|i]; cbn [upd_nth]; try reflexivity.
  rewrite IH. reflexivity.
Qed.

Lemma nth_error_upd_const : forall (A : Type) (l : list A) i x y,
  nth_error l i = Some x -> nth_error (upd_nth i (fun _ => y) l) i = Some y.
Proof. intros A l i x y H. apply (nth_error_upd_nth A (fun _ => y) l i x H). Qed.

(* the goroutine of a creation section while the section is being read:
   g0 with the State of the header and [calls] appended to its CreatedBy *)
Definition cr_goroutine (g0 : Goroutine) (text : bytes) (calls : list Call) : Goroutine :=
  set_created_calls (set_state g0 text) (Calls (CreatedBy (GSig g0)) ++ calls).

Lemma set_state_cr : forall g0 text, set_state g0 text = cr_goroutine g0 text [].
Proof.
  intros [[s0 [c e] a b k l] i f w ad] text. unfold cr_goroutine, set_created_calls, set_created, set_state.
  cbn [GSig State CreatedBy SleepMin SleepMax SStack Locked ID First RaceWrite RaceAddr Calls SElided].
  rewrite app_nil_r. reflexivity.
Qed.

Lemma cr_created : forall g0 text calls,
  Calls (CreatedBy (GSig (cr_goroutine g0 text calls))) = Calls (CreatedBy (GSig g0)) ++ calls.
Proof. reflexivity. Qed.

Lemma cr_set_created : forall g0 text calls calls',
  set_created_calls (cr_goroutine g0 text calls) (Calls (CreatedBy (GSig g0)) ++ calls') = cr_goroutine g0 text calls'.
Proof. reflexivity. Qed.

(* the header of a creation section *)
Lemma scan_creation_header : forall G stt idx c i g0,
  stt = betweenRaceOperations \/ stt = betweenRaceGoroutines ->
  rc_gid c < dec_limit ->
  find_id (rc_gid c) 0 G = Some i -> nth_error G i = Some g0 ->
  scan (mkSS G stt [] idx) (print_creation_header (rc_gid c) (rc_running c) ++ [LF]) =
  Ok (mkSS (upd_nth i (fun _ => cr_goroutine g0 (race_state_text (rc_running c)) []) G)
           gotRaceGoroutineHeader [] i, true, None).
Proof.
  intros G stt idx c i g0 Hst Hn Hfind Hnth.
  rewrite (scan_line (mkSS G stt [] idx) _ eq_refl (creation_header_not_cr _ _)).
  assert (Hstep : race_goroutine_step (mkSS G stt [] idx) (print_creation_header (rc_gid c) (rc_running c)) =
                  Ok (mkSS (upd_nth i (fun _ => cr_goroutine g0 (race_state_text (rc_running c)) []) G)
                           gotRaceGoroutineHeader [] i, true, None)).
  { rewrite race_goroutine_step_unfold, match_race_goroutine_print, (atou_N_to_dec _ Hn).
    cbn [goroutines sprefix]. rewrite Hfind.
    rewrite (upd_nth_const _ (fun g => set_state g (race_state_text (rc_running c))) G i g0 Hnth).
    rewrite set_state_cr. reflexivity. }
  unfold scan_body. cbn [st]. destruct Hst as [-> | ->].
  - rewrite match_race_prev_creation. cbn [race_op_header]. exact Hstep.
  - exact Hstep.
Qed.

(* the function line, in a creation section *)
Lemma scan_cr_func : forall G i g stt f c0 x,
  stt = gotRaceGoroutineHeader \/ stt = gotRaceGoroutineFile ->
  nth_error G i = Some x ->
  parse_func (trim_left_space (race_func_line f)) = Ok (Some (c0, None)) ->
  scan (mkSS (upd_nth i (fun _ => g) G) stt [] i) (race_func_line f ++ [LF]) =
  Ok (mkSS (upd_nth i (fun _ => set_created_calls g (Calls (CreatedBy (GSig g)) ++ [c0])) G)
           gotRaceGoroutineFunc [] i, true, None).
Proof.
  intros G i g stt f c0 x Hst Hnth Hpf.
  rewrite (scan_line (mkSS (upd_nth i (fun _ => g) G) stt [] i) _ eq_refl (func_line_not_cr f)).
  assert (Hstep : race_goroutine_func_step (mkSS (upd_nth i (fun _ => g) G) stt [] i) (race_func_line f) =
                  Ok (mkSS (upd_nth i (fun _ => set_created_calls g (Calls (CreatedBy (GSig g)) ++ [c0])) G)
                           gotRaceGoroutineFunc [] i, true, None)).
  { unfold race_goroutine_func_step, func_step. rewrite Hpf. cbn [bind goroutines gindex].
    rewrite (nth_error_upd_const _ G i x g Hnth). cbn [bind].
    unfold with_gs, with_state, ret. cbn [goroutines st sprefix gindex].
    rewrite upd_nth_twice. reflexivity. }
  unfold scan_body. cbn [st]. destruct Hst as [-> | ->].
  - exact Hstep.
  - change (race_func_line f) with (32 :: 32 :: print_func_line (pf_sym f) (pf_args f) (pf_elided f)) at 1 2.
    cbv iota.
    replace (beq (32 :: 32 :: print_func_line (pf_sym f) (pf_args f) (pf_elided f)) race_header_footer)
      with false by reflexivity.
    exact Hstep.
Qed.

(* the file line, in a creation section *)
Lemma scan_cr_file : forall G i g f cs c0 c' x,
  nth_error G i = Some x ->
  Calls (CreatedBy (GSig g)) = cs ++ [c0] ->
  parse_file c0 (race_file_line f) = Some (c', None) ->
  scan (mkSS (upd_nth i (fun _ => g) G) gotRaceGoroutineFunc [] i) (race_file_line f ++ [LF]) =
  Ok (mkSS (upd_nth i (fun _ => set_created_calls g (cs ++ [c'])) G) gotRaceGoroutineFile [] i, true, None).
Proof.
  intros G i g f cs c0 c' x Hnth Hcs Hpf.
  rewrite (scan_line (mkSS (upd_nth i (fun _ => g) G) gotRaceGoroutineFunc [] i) _ eq_refl (file_line_not_cr f)).
  unfold scan_body. cbn [st goroutines gindex].
  rewrite (nth_error_upd_const _ G i x g Hnth).
  unfold file_step. rewrite Hcs, last_opt_app1, Hpf.
  unfold with_gs, with_state, ret. cbn [goroutines st sprefix gindex].
  rewrite upd_last_app1, upd_nth_twice. reflexivity.
Qed.

(* the two lines of one frame *)
Lemma cr_frame_steps : forall G i x g0 text calls stt f,
  stt = gotRaceGoroutineHeader \/ stt = gotRaceGoroutineFile ->
  nth_error G i = Some x -> frame_rt f ->
  Steps (mkSS (upd_nth i (fun _ => cr_goroutine g0 text calls) G) stt [] i) (race_frame_lines f)
        (mkSS (upd_nth i (fun _ => cr_goroutine g0 text (calls ++ [call_of_frame f])) G) gotRaceGoroutineFile [] i).
Proof.
  intros G i x g0 text calls stt f Hst Hnth ((c0 & Hpf & Hfile) & Hl1 & Hl2).
  unfold race_frame_lines.
  apply (Steps_cons _ _ (mkSS (upd_nth i (fun _ => cr_goroutine g0 text (calls ++ [c0])) G) gotRaceGoroutineFunc [] i)).
  - destruct Hst as [-> | ->]; reflexivity.
  - exact Hl1.
  - rewrite (scan_cr_func G i (cr_goroutine g0 text calls) stt f c0 x Hst Hnth Hpf).
    rewrite cr_created, <- app_assoc, cr_set_created. reflexivity.
  - apply Steps_one; [reflexivity|exact Hl2|].
    rewrite (scan_cr_file G i (cr_goroutine g0 text (calls ++ [c0])) f (Calls (CreatedBy (GSig g0)) ++ calls) c0
               (call_of_frame f) x Hnth).
    + rewrite <- app_assoc, cr_set_created. reflexivity.
    + rewrite cr_created, app_assoc. reflexivity.
    + exact Hfile.
Qed.

Lemma cr_frames_steps : forall frames G i x g0 text calls stt,
  stt = gotRaceGoroutineHeader \/ stt = gotRaceGoroutineFile ->
  nth_error G i = Some x -> Forall frame_rt frames ->
  Steps (mkSS (upd_nth i (fun _ => cr_goroutine g0 text calls) G) stt [] i) (race_frames_lines frames)
        (mkSS (upd_nth i (fun _ => cr_goroutine g0 text (calls ++ map call_of_frame frames)) G)
              (match frames with [] => stt | _ => gotRaceGoroutineFile end) [] i).
Proof.
  induction frames as [|f frames IH]; intros G i x g0 text calls stt Hst Hnth Hall.
  - cbn [race_frames_lines flat_map map]. rewrite app_nil_r. apply Steps_nil.
  - inversion Hall as [|f' fs' Hf Hfs]; subst.
    change (race_frames_lines (f :: frames)) with (race_frame_lines f ++ race_frames_lines frames).
    apply (Steps_app _ _ _ _ _ (cr_frame_steps G i x g0 text calls stt f Hst Hnth Hf)).
    specialize (IH G i x g0 text (calls ++ [call_of_frame f]) gotRaceGoroutineFile (or_intror eq_refl) Hnth Hfs).
    cbn [map]. rewrite <- app_assoc in IH. cbn [app] in IH.
    destruct frames; exact IH.
Qed.

(* one creation section: header and frames *)
Lemma creation_section_steps : forall G stt idx c i g0,
  stt = betweenRaceOperations \/ stt = betweenRaceGoroutines ->
  rc_gid c < dec_limit -> rc_frames c <> [] -> Forall frame_rt (rc_frames c) ->
  find_id (rc_gid c) 0 G = Some i -> nth_error G i = Some g0 ->
  Steps (mkSS G stt [] idx) (race_creation_lines c)
        (mkSS (upd_nth i (fun _ => cr_goroutine g0 (race_state_text (rc_running c)) (map call_of_frame (rc_frames c))) G)
              gotRaceGoroutineFile [] i).
Proof.
  intros G stt idx c i g0 Hst Hn Hne Hall Hfind Hnth. unfold race_creation_lines.
  apply (Steps_cons _ _ (mkSS (upd_nth i (fun _ => cr_goroutine g0 (race_state_text (rc_running c)) []) G)
                              gotRaceGoroutineHeader [] i)).
  - destruct Hst as [-> | ->]; reflexivity.
  - apply creation_header_no_lf.
  - apply scan_creation_header; assumption.
  - pose proof (cr_frames_steps (rc_frames c) G i g0 g0 (race_state_text (rc_running c)) []
                  gotRaceGoroutineHeader (or_introl eq_refl) Hnth Hall) as H.
    cbn [app] in H. destruct (rc_frames c) as [|f fs] eqn:E; [congruence|]. exact H.
Qed.

(* ------------------------------------------------------------------ *)
(* 11. the goroutine a creation section updates                        *)
(* ------------------------------------------------------------------ *)

(* race_snapshot_of, with the First flag of the head as a parameter *)
Fixpoint gl (cs : list p_race_creation) (first : bool) (ops : list p_race_op) : list Goroutine :=
  match ops with
  | [] => []
  | op :: ops' => race_goroutine_of cs first op :: gl cs false ops'
  end.

Lemma gl_false : forall cs ops, gl cs false ops = map (race_goroutine_of cs false) ops.
Proof. intros cs ops. induction ops as [|op ops IH]; [reflexivity|]. cbn [gl map]. rewrite IH. reflexivity. Qed.

Lemma snapshot_gl : forall ops cs, race_snapshot_of (mkPRace ops cs) = gl cs true ops.
Proof.
  intros ops cs. unfold race_snapshot_of. cbn [pr_ops pr_creations].
  destruct ops as [|op ops]; [reflexivity|]. cbn [gl]. rewrite gl_false. reflexivity.
Qed.

Lemma race_creation_of_app1 : forall gid cs c state calls,
  race_creation_of gid (cs ++ [c]) state calls =
  if rc_gid c =? gid
  then (race_state_text (rc_running c),
        snd (race_creation_of gid cs state calls) ++ map call_of_frame (rc_frames c))
  else race_creation_of gid cs state calls.
Proof.
  intros gid cs c. induction cs as [|c1 cs IH]; intros state calls.
  - cbn [app race_creation_of]. destruct (rc_gid c =? gid); reflexivity.
  - cbn [app race_creation_of]. destruct (rc_gid c1 =? gid); apply IH.
Qed.

Lemma race_goroutine_of_app_other : forall cs c first op,
  rc_gid c <> ro_gid op -> race_goroutine_of (cs ++ [c]) first op = race_goroutine_of cs first op.
Proof.
  intros cs c first op H. rewrite !race_goroutine_of_eq, race_creation_of_app1.
  apply N.eqb_neq in H. rewrite H. reflexivity.
Qed.

Lemma race_goroutine_of_app_same : forall cs c first op,
  rc_gid c = ro_gid op ->
  race_goroutine_of (cs ++ [c]) first op =
  cr_goroutine (race_goroutine_of cs first op) (race_state_text (rc_running c)) (map call_of_frame (rc_frames c)).
Proof.
  intros cs c first op H. rewrite !race_goroutine_of_eq, race_creation_of_app1.
  apply N.eqb_eq in H. rewrite H. reflexivity.
Qed.

Lemma gl_app_other : forall cs c ops first,
  (forall op, In op ops -> rc_gid c <> ro_gid op) -> gl (cs ++ [c]) first ops = gl cs first ops.
Proof.
  intros cs c ops. induction ops as [|op ops IH]; intros first H; [reflexivity|].
  cbn [gl]. rewrite race_goroutine_of_app_other by (apply H; left; reflexivity).
  rewrite IH by (intros op' Hop'; apply H; right; exact Hop'). reflexivity.
Qed.

Lemma find_id_S : forall id l k, find_id id (S k) l = option_map S (find_id id k l).
Proof.
  intros id l. induction l as [|g l IH]; intros k; [reflexivity|].
  cbn [find_id]. destruct (Z.eqb (ID g) (Z.of_N id)); [reflexivity|]. apply IH.
Qed.

Lemma distinct_N_cons : forall x l, distinct_N (x :: l) = true -> ~ In x l /\ distinct_N l = true.
Proof.
  intros x l H. cbn [distinct_N] in H. apply andb_true_iff in H as [H1 H2]. split; [|exact H2].
  intros Hin. apply negb_true_iff in H1.
  assert (Ht : existsb (N.eqb x) l = true) by (apply existsb_exists; exists x; split; [exact Hin|apply N.eqb_refl]).
  congruence.
Qed.

(* with pairwise distinct operation ids, the creation section of a goroutine
   that took part in some operation finds that goroutine, and updating it
   gives the snapshot of the report extended with that section *)
Lemma creation_target : forall cs c ops first,
  distinct_N (map ro_gid ops) = true ->
  existsb (fun op => ro_gid op =? rc_gid c) ops = true ->
  exists i g0,
    find_id (rc_gid c) 0 (gl cs first ops) = Some i /\
    nth_error (gl cs first ops) i = Some g0 /\
    upd_nth i (fun _ => cr_goroutine g0 (race_state_text (rc_running c)) (map call_of_frame (rc_frames c)))
            (gl cs first ops) = gl (cs ++ [c]) first ops.
Proof.
  intros cs c ops. induction ops as [|op ops IH]; intros first Hd Hex; [discriminate Hex|].
  cbn [map] in Hd. apply distinct_N_cons in Hd as [Hnin Hd]. cbn [existsb] in Hex.
  destruct (ro_gid op =? rc_gid c) eqn:E.
  - apply N.eqb_eq in E. exists 0%nat, (race_goroutine_of cs first op).
    split; [|split].
    + cbn [gl find_id]. rewrite race_goroutine_of_ID, E, Z.eqb_refl. reflexivity.
    + reflexivity.
    + cbn [gl upd_nth]. rewrite <- race_goroutine_of_app_same by (symmetry; exact E).
      rewrite gl_app_other; [reflexivity|].
      intros op' Hop' C. apply Hnin. rewrite E, C. apply in_map. exact Hop'.
  - cbn [orb] in Hex. apply N.eqb_neq in E.
    destruct (IH false Hd Hex) as (i & g0 & H1 & H2 & H3).
    exists (S i), g0. split; [|split].
    + cbn [gl find_id]. rewrite race_goroutine_of_ID.
      destruct (Z.eqb_spec (Z.of_N (ro_gid op)) (Z.of_N (rc_gid c))) as [C|C].
      * apply N2Z.inj in C. contradiction.
      * rewrite find_id_S, H1. reflexivity.
    + exact H2.
    + cbn [gl upd_nth]. rewrite H3, race_goroutine_of_app_other by (intros C; apply E; symmetry; exact C).
      reflexivity.
Qed.

(* ------------------------------------------------------------------ *)
(* 12. all the creation sections and the closing separator             *)
(* ------------------------------------------------------------------ *)

(* what the fidelity theorem needs of one creation section *)
Definition creation_ok (ops : list p_race_op) (c : p_race_creation) : Prop :=
  rc_gid c < dec_limit /\ existsb (fun op => ro_gid op =? rc_gid c) ops = true /\
  rc_frames c <> [] /\ Forall frame_rt (rc_frames c).

Lemma one_creation_steps : forall ops cs1 c stt idx,
  stt = betweenRaceOperations \/ stt = betweenRaceGoroutines ->
  distinct_N (map ro_gid ops) = true -> creation_ok ops c ->
  exists idx',
    Steps (mkSS (gl cs1 true ops) stt [] idx) (race_creation_lines c)
          (mkSS (gl (cs1 ++ [c]) true ops) gotRaceGoroutineFile [] idx').
Proof.
  intros ops cs1 c stt idx Hst Hd (Hn & Hex & Hne & Hall).
  destruct (creation_target cs1 c ops true Hd Hex) as (i & g0 & H1 & H2 & H3).
  exists i. rewrite <- H3. apply creation_section_steps; assumption.
Qed.

Lemma creations_steps : forall ops cs2 cs1 stt idx,
  stt = betweenRaceOperations \/ stt = betweenRaceGoroutines ->
  distinct_N (map ro_gid ops) = true -> cs2 <> [] -> Forall (creation_ok ops) cs2 ->
  exists idx',
    Steps (mkSS (gl cs1 true ops) stt [] idx) (race_creations_lines cs2)
          (mkSS (gl (cs1 ++ cs2) true ops) gotRaceGoroutineFile [] idx').
Proof.
  intros ops cs2. induction cs2 as [|c cs2 IH]; intros cs1 stt idx Hst Hd Hne Hall; [congruence|].
  inversion Hall as [|c' cs' Hc Hcs]; subst.
  destruct (one_creation_steps ops cs1 c stt idx Hst Hd Hc) as (i1 & S1).
  destruct cs2 as [|c2 cs2].
  - exists i1. exact S1.
  - destruct (IH (cs1 ++ [c]) betweenRaceGoroutines i1 (or_intror eq_refl) Hd ltac:(discriminate) Hcs) as (i2 & S2).
    exists i2. rewrite <- app_assoc in S2. cbn [app] in S2.
    change (race_creations_lines (c :: c2 :: cs2))
      with (race_creation_lines c ++ [[]] ++ race_creations_lines (c2 :: cs2)).
    apply (Steps_app _ _ _ _ _ S1).
    apply (Steps_cons _ _ (mkSS (gl (cs1 ++ [c]) true ops) betweenRaceGoroutines [] i1));
      [reflexivity|reflexivity|reflexivity|exact S2].
Qed.

(* the whole report, from the initial state to [done] *)
Definition race_ok (r : p_race) : Prop :=
  pr_ops r <> [] /\ Forall op_ok (pr_ops r) /\ distinct_N (map ro_gid (pr_ops r)) = true /\
  pr_creations r <> [] /\ Forall (creation_ok (pr_ops r)) (pr_creations r).

Theorem race_steps : forall r, race_ok r ->
  exists idx, Steps ss0 (race_lines r) (mkSS (race_snapshot_of r) done [] idx).
Proof.
  intros [ops cs] (Hne & Hops & Hd & Hcne & Hcs). cbn [pr_ops pr_creations] in *.
  destruct ops as [|op ops]; [congruence|].
  destruct (ops_steps op ops Hops) as (i1 & S1).
  rewrite snapshot_gl in S1.
  destruct (creations_steps (op :: ops) cs [] betweenRaceOperations i1 (or_introl eq_refl) Hd Hcne Hcs) as (i2 & S2).
  cbn [app] in S2.
  exists i2. unfold race_lines. cbn [pr_ops pr_creations]. rewrite snapshot_gl.
  rewrite app_assoc. apply (Steps_app _ _ _ _ _ S1). apply (Steps_app _ _ _ _ _ S2).
  apply Steps_one; reflexivity.
Qed.

(* ------------------------------------------------------------------ *)
(* 13. ScanSnapshot on a stream that contains a report                 *)
(* ------------------------------------------------------------------ *)

Lemma scan_loop_S : forall f ls,
  scan_loop (S f) ls =
  if state_eqb (st (l_ss ls)) done then Ok (ls, ENil, None) else
  match read_line (l_r ls) (l_src ls) with
  | Panic m => Panic m
  | Ok (d, e, r', src', evs) =>
      let tr := l_trace ls ++ evs in
      let err0 := match e with None => ENil | Some x => EIo x end in
      match d with
      | [] =>
          let ls' := mkLoop (l_ss ls) r' src' (l_fwd ls) tr (l_lines ls) in
          match e with
          | None => scan_loop f ls'
          | Some _ => Ok (ls', err0, None)
          end
      | _ =>
          let tr := tr ++ [EvLine d] in
          match scan (l_ss ls) d with
          | Panic m => Panic m
          | Ok (ss', l, e1) =>
              let err := match e1 with
                         | Some x => if io_is_nil_or_eof e then EScan x else err0
                         | None => err0
                         end in
              if l then
                let ls' := mkLoop ss' r' src' (l_fwd ls) tr (S (l_lines ls)) in
                match err with
                | ENil => scan_loop f ls'
                | _ => Ok (ls', err, None)
                end
              else if negb (state_eqb (st ss') looking) then
                Ok (mkLoop ss' r' src' (l_fwd ls) tr (S (l_lines ls)), err, Some (d ++ pending r'))
              else
                let ls' := mkLoop ss' r' src' (l_fwd ls ++ d) (tr ++ [EvWrite d]) (S (l_lines ls)) in
                match err with
                | ENil => scan_loop f ls'
                | _ => Ok (ls', err, None)
                end
          end
      end
  end.
Proof. reflexivity. Qed.

(* reading one complete line off a stream *)
Lemma read_complete_line : forall r src l rest0,
  rinv_s r src -> stall_free (sched src) -> no_byte LF l = true ->
  stream r src = (l ++ [LF]) ++ rest0 ->
  exists r' src' evs,
    read_line r src = Ok (l ++ [LF], None, r', src', evs) /\
    rinv_s r' src' /\ stall_free (sched src') /\ final src' = final src /\ stream r' src' = rest0.
Proof.
  intros r src l rest0 Hr Hsf Hl Hs.
  destruct (read_line_spec r src Hr Hsf) as (r' & src' & evs & Q1 & Q2 & Q3 & Q4 & Q5 & _).
  cbv zeta in Q1, Q5. rewrite Hs in Q1, Q5.
  apply no_byte_In in Hl.
  rewrite <- app_assoc in Q1, Q5. cbn [app] in Q1, Q5.
  rewrite (first_line_lf l rest0 Hl) in Q1, Q5.
  unfold line_err in Q1. rewrite (has_lf_split l rest0 Hl) in Q1.
  exists r', src', evs. split; [exact Q1|]. split; [exact Q2|]. split; [exact Q3|]. split; [exact Q4|].
  rewrite <- app_assoc in Q5. cbn [app] in Q5. apply app_inv_head in Q5. injection Q5 as Q5. exact Q5.
Qed.

(* a line that the scanner consumes *)
Lemma loop_line_consumed : forall f s r src fw tr n l rest0 s1,
  state_eqb (st s) done = false -> no_byte LF l = true ->
  scan s (l ++ [LF]) = Ok (s1, true, None) ->
  rinv_s r src -> stall_free (sched src) -> stream r src = (l ++ [LF]) ++ rest0 ->
  exists r' src' tr',
    scan_loop (S f) (mkLoop s r src fw tr n) = scan_loop f (mkLoop s1 r' src' fw tr' (S n)) /\
    rinv_s r' src' /\ stall_free (sched src') /\ final src' = final src /\ stream r' src' = rest0.
Proof.
  intros f s r src fw tr n l rest0 s1 Hd Hl Hscan Hr Hsf Hs.
  destruct (read_complete_line r src l rest0 Hr Hsf Hl Hs) as (r' & src' & evs & Q1 & Q2 & Q3 & Q4 & Q5).
  exists r', src', ((tr ++ evs) ++ [EvLine (l ++ [LF])]).
  split; [|tauto].
  rewrite scan_loop_S. cbn [l_ss l_r l_src l_fwd l_trace l_lines]. rewrite Hd, Q1. cbv zeta.
  destruct (l ++ [LF]) as [|x t] eqn:E; [destruct l; discriminate E|].
  rewrite Hscan. reflexivity.
Qed.

(* a line that the scanner, looking for a dump, passes on *)
Lemma loop_line_forwarded : forall f r src fw tr n l rest0,
  no_byte LF l = true -> scan ss0 (l ++ [LF]) = Ok (ss0, false, None) ->
  rinv_s r src -> stall_free (sched src) -> stream r src = (l ++ [LF]) ++ rest0 ->
  exists r' src' tr',
    scan_loop (S f) (mkLoop ss0 r src fw tr n) = scan_loop f (mkLoop ss0 r' src' (fw ++ l ++ [LF]) tr' (S n)) /\
    rinv_s r' src' /\ stall_free (sched src') /\ final src' = final src /\ stream r' src' = rest0.
Proof.
  intros f r src fw tr n l rest0 Hl Hscan Hr Hsf Hs.
  destruct (read_complete_line r src l rest0 Hr Hsf Hl Hs) as (r' & src' & evs & Q1 & Q2 & Q3 & Q4 & Q5).
  exists r', src', (((tr ++ evs) ++ [EvLine (l ++ [LF])]) ++ [EvWrite (l ++ [LF])]).
  split; [|tauto].
  rewrite scan_loop_S. cbn [l_ss l_r l_src l_fwd l_trace l_lines].
  change (state_eqb (st ss0) done) with false. cbv iota. rewrite Q1. cbv zeta.
  destruct (l ++ [LF]) as [|x t] eqn:E; [destruct l; discriminate E|].
  rewrite Hscan. reflexivity.
Qed.

Lemma text_of_cons : forall l ls, text_of (l :: ls) = (l ++ [LF]) ++ text_of ls.
Proof. reflexivity. Qed.

Lemma text_of_length : forall ls, (List.length ls <= List.length (text_of ls))%nat.
Proof.
  induction ls as [|l ls IH]; [apply le_n|].
  rewrite text_of_cons, !app_length. cbn [List.length]. lia.
Qed.

(* a line of surrounding text: complete, and passed on by a scanner that is
   looking for a dump (neither a goroutine header nor the race separator) *)
Definition junk_line (l : bytes) : Prop :=
  no_byte LF l = true /\ scan ss0 (l ++ [LF]) = Ok (ss0, false, None).

Lemma loop_junk : forall blines f r src fw tr n rest0,
  Forall junk_line blines ->
  rinv_s r src -> stall_free (sched src) -> stream r src = text_of blines ++ rest0 ->
  exists r' src' tr',
    scan_loop (List.length blines + f) (mkLoop ss0 r src fw tr n) =
    scan_loop f (mkLoop ss0 r' src' (fw ++ text_of blines) tr' (List.length blines + n)) /\
    rinv_s r' src' /\ stall_free (sched src') /\ final src' = final src /\ stream r' src' = rest0.
Proof.
  induction blines as [|l blines IH]; intros f r src fw tr n rest0 Hall Hr Hsf Hs.
  - exists r, src, tr. cbn [List.length Nat.add text_of map List.concat app] in *. rewrite app_nil_r. tauto.
  - inversion Hall as [|l' ls' [Hl Hscan] Hrest]; subst.
    rewrite text_of_cons, <- app_assoc in Hs.
    destruct (loop_line_forwarded (List.length blines + f) r src fw tr n l (text_of blines ++ rest0)
                Hl Hscan Hr Hsf Hs) as (r1 & src1 & tr1 & E1 & R1 & SF1 & F1 & S1).
    destruct (IH f r1 src1 (fw ++ l ++ [LF]) tr1 (S n) rest0 Hrest R1 SF1 S1)
      as (r2 & src2 & tr2 & E2 & R2 & SF2 & F2 & S2).
    exists r2, src2, tr2. split; [|split; [exact R2|split; [exact SF2|split; [congruence|exact S2]]]].
    cbn [List.length Nat.add]. rewrite E1, E2, text_of_cons, <- !app_assoc.
    replace (List.length blines + S n)%nat with (S (List.length blines + n)) by lia. reflexivity.
Qed.

Lemma loop_steps : forall lines s sfin, Steps s lines sfin ->
  forall f r src fw tr n rest0,
  rinv_s r src -> stall_free (sched src) -> stream r src = text_of lines ++ rest0 ->
  exists r' src' tr',
    scan_loop (List.length lines + f) (mkLoop s r src fw tr n) =
    scan_loop f (mkLoop sfin r' src' fw tr' (List.length lines + n)) /\
    rinv_s r' src' /\ stall_free (sched src') /\ final src' = final src /\ stream r' src' = rest0.
Proof.
  intros lines s sfin H. induction H as [s|s l s1 ls s' Hd Hl Hscan Hsteps IH]; intros f r src fw tr n rest0 Hr Hsf Hs.
  - exists r, src, tr. cbn [List.length Nat.add text_of map List.concat app] in *. tauto.
  - rewrite text_of_cons, <- app_assoc in Hs.
    destruct (loop_line_consumed (List.length ls + f) s r src fw tr n l (text_of ls ++ rest0) s1
                Hd Hl Hscan Hr Hsf Hs) as (r1 & src1 & tr1 & E1 & R1 & SF1 & F1 & S1).
    destruct (IH f r1 src1 fw tr1 (S n) rest0 R1 SF1 S1) as (r2 & src2 & tr2 & E2 & R2 & SF2 & F2 & S2).
    exists r2, src2, tr2. split; [|split; [exact R2|split; [exact SF2|split; [congruence|exact S2]]]].
    cbn [List.length Nat.add]. rewrite E1, E2.
    replace (List.length ls + S n)%nat with (S (List.length ls + n)) by lia. reflexivity.
Qed.

Lemma print_race_text : forall r, print_race r = text_of (race_lines r).
Proof. reflexivity. Qed.

(* C08, modulo the frame-level round trip (race_ok asks frame_rt of every
   frame): a report printed between complete lines of other text and any
   text after it, delivered by any stall-free schedule *)
Theorem fidelity_frames : forall r blines after sigma f,
  race_ok r -> Forall junk_line blines -> stall_free sigma ->
  exists res,
    scan_snapshot false (mkSource (text_of blines ++ print_race r ++ after) sigma f) = Ok res /\
    snap res = Some (race_snapshot_of r) /\
    fwd res = text_of blines /\
    suffix res ++ rest (unread res) = after /\
    rerr_out res = ENil /\
    final_state res = done /\
    lines_read res = (List.length blines + List.length (race_lines r))%nat.
Proof.
  intros r blines after sigma f Hok Hjunk Hsf.
  destruct (race_steps r Hok) as (idx & Hsteps).
  set (B := text_of blines ++ print_race r ++ after).
  unfold scan_snapshot. cbn [rest].
  set (nb := List.length blines). set (nr := List.length (race_lines r)).
  assert (Hfuel : exists f0, S (S (List.length B)) = (nb + (nr + S f0))%nat).
  { exists (S (List.length B) - nb - nr)%nat.
    pose proof (text_of_length blines) as H1. pose proof (text_of_length (race_lines r)) as H2.
    unfold B. rewrite !app_length, print_race_text. fold nb nr in H1, H2 |- *. lia. }
  destruct Hfuel as (f0 & ->).
  destruct (loop_junk blines (nr + S f0) reader0 (mkSource B sigma f) [] [] 0%nat (print_race r ++ after) Hjunk
              (rinv_s_reader0 _) Hsf eq_refl) as (r1 & src1 & tr1 & E1 & R1 & SF1 & F1 & S1).
  fold nb in E1. rewrite E1.
  rewrite print_race_text in S1.
  destruct (loop_steps (race_lines r) ss0 _ Hsteps (S f0) r1 src1 ([] ++ text_of blines) tr1 (nb + 0)%nat after
              R1 SF1 S1) as (r2 & src2 & tr2 & E2 & R2 & SF2 & F2 & S2).
  fold nr in E2. rewrite E2, scan_loop_S. cbn [l_ss st]. change (state_eqb done done) with true. cbv iota.
  eexists. split; [reflexivity|].
  cbn [l_ss l_r l_src l_fwd l_trace l_lines goroutines st snap fwd suffix unread rerr_out final_state lines_read].
  change (state_eqb done done) with true. cbv iota.
  split.
  - destruct Hok as (Hne & _). unfold race_snapshot_of. destruct (pr_ops r); [congruence|reflexivity].
  - split; [reflexivity|]. split; [exact S2|]. split; [reflexivity|]. split; [reflexivity|].
    unfold nb, nr. lia.
Qed.

(* ------------------------------------------------------------------ *)
(* 14. from the computable well-formedness predicates                  *)
(* ------------------------------------------------------------------ *)

(* the frame-level round trip follows from wf_frame by the line lemmas of C01 *)
Lemma wf_frame_rt : forall f, wf_frame (FISpaces 6) f = true -> frame_rt f.
Proof.
  intros f Hwf.
  destruct (RoundTripScan.wf_frame_spec _ _ Hwf) as (Hs & Ha & Hfile & Hline).
  assert (Htrim : trim_left_space (race_func_line f) = print_func_line (pf_sym f) (pf_args f) (pf_elided f)).
  { unfold race_func_line, print_func_line.
    pose proof (RoundTripLines.sym_raw_nonempty _ Hs) as Hne.
    pose proof (RoundTripLines.sym_raw_nosp _ Hs) as Hnosp.
    destruct (sym_raw (pf_sym f)) as [|x t]; [congruence|].
    cbn [forallb] in Hnosp. apply andb_true_iff in Hnosp as [Hx _].
    change (s2b "  " ++ (x :: t) ++ s2b "(" ++ print_args (pf_args f) (pf_elided f) ++ s2b ")")
      with (32 :: 32 :: x :: (t ++ s2b "(" ++ print_args (pf_args f) (pf_elided f) ++ s2b ")")).
    cbn [trim_left_space]. change (is_space_tab 32) with true. cbv iota.
    assert (Hst : is_space_tab x = false).
    { unfold RoundTripLines.nosp in Hx. apply negb_true_iff in Hx.
      unfold is_space_tab. rewrite (N.eqb_sym x 32), (N.eqb_sym x 9).
      apply orb_false_iff in Hx as [Hx H32]. apply orb_false_iff in Hx as [Hx _].
      apply orb_false_iff in Hx as [H9 _].
      rewrite (N.eqb_sym 32 x), (N.eqb_sym 9 x), H9, H32. reflexivity. }
    rewrite Hst. reflexivity. }
  split; [|split].
  - exists (RoundTripScan.pre_call (pf_sym f) (pf_args f) (pf_elided f)). split.
    + rewrite Htrim. apply RoundTripScan.parse_func_print; assumption.
    + unfold race_file_line, RoundTripScan.pre_call, call_of_frame.
      apply RoundTripLines.parse_file_print; [exact Hfile|cbn; lia|exact Hline].
  - unfold race_func_line. rewrite no_byte_app.
    rewrite (RoundTripScan.func_line_no_lf _ _ _ Hs). reflexivity.
  - unfold race_file_line. apply RoundTripScan.file_line_no_lf. exact Hfile.
Qed.

Lemma forallb_Forall : forall (A : Type) (p : A -> bool) (P : A -> Prop) l,
  (forall x, p x = true -> P x) -> forallb p l = true -> Forall P l.
Proof.
  intros A p P l H Hl. apply Forall_forall. intros x Hx.
  rewrite forallb_forall in Hl. apply H, Hl, Hx.
Qed.

Lemma wf_race_frames_ok : forall fs, wf_race_frames fs = true -> fs <> [] /\ Forall frame_rt fs.
Proof.
  intros fs H. unfold wf_race_frames in H. apply andb_true_iff in H as [H1 H2]. split.
  - destruct fs; [discriminate H1|discriminate].
  - exact (forallb_Forall _ _ _ fs wf_frame_rt H2).
Qed.

Lemma wf_race_op_ok : forall op, wf_race_op op = true -> op_ok op.
Proof.
  intros op H. unfold wf_race_op in H. apply andb_true_iff in H as [H H3]. apply andb_true_iff in H as [H1 H2].
  unfold wf_num in H1. apply N.ltb_lt in H1. apply N.ltb_lt in H2.
  destruct (wf_race_frames_ok _ H3) as [H4 H5]. unfold op_ok. tauto.
Qed.

Lemma wf_race_creation_ok : forall ops c,
  forallb wf_race_op ops = true -> wf_race_creation ops c = true -> creation_ok ops c.
Proof.
  intros ops c Hops H. unfold wf_race_creation in H. apply andb_true_iff in H as [H1 H2].
  destruct (wf_race_frames_ok _ H2) as [H3 H4]. unfold creation_ok.
  split; [|tauto].
  (* the id of a creation section is the id of an operation, hence < 10^18 *)
  apply existsb_exists in H1. destruct H1 as (op & Hin & Heq). apply N.eqb_eq in Heq. rewrite <- Heq.
  rewrite forallb_forall in Hops. specialize (Hops op Hin).
  destruct (wf_race_op_ok op Hops) as (_ & Hg & _). exact Hg.
Qed.

Theorem wf_race_ok : forall r, wf_race r = true -> race_ok r.
Proof.
  intros r H. unfold wf_race in H.
  apply andb_true_iff in H as [H H5]. apply andb_true_iff in H as [H H4].
  apply andb_true_iff in H as [H H3]. apply andb_true_iff in H as [H1 H2].
  unfold race_ok. split; [|split; [|split; [|split]]].
  - destruct (pr_ops r); [discriminate H1|discriminate].
  - exact (forallb_Forall _ _ _ _ wf_race_op_ok H2).
  - exact H3.
  - destruct (pr_creations r); [discriminate H4|discriminate].
  - exact (forallb_Forall _ _ _ _ (fun c => wf_race_creation_ok (pr_ops r) c H2) H5).
Qed.

(* surrounding text, computably: a line without LF which, after the removal
   of one trailing CR, is neither accepted as a goroutine header nor equal
   to the race separator *)
Definition trim_cr (l : bytes) : bytes :=
  match strip_suffix [CR] l with Some t => t | None => l end.

Definition junk_ok (l : bytes) : bool :=
  no_byte LF l &&
  (match try_header ss0 (trim_cr l) with Some _ => false | None => true end) &&
  negb (beq (trim_cr l) race_header_footer).

Lemma scan_tr_trim_cr : forall s l, scan_tr s (l ++ [LF]) = Some (trim_cr l).
Proof.
  intros s l. unfold trim_cr, strip_suffix at 1.
  destruct (has_suffix l [CR]) eqn:E.
  - destruct (has_suffix_spec _ _ E) as (a & ->).
    rewrite app_length. cbn [List.length].
    replace (List.length a + 1 - 1)%nat with (List.length a) by lia.
    rewrite firstn_app_exact. unfold scan_tr.
    rewrite <- app_assoc. change ([CR] ++ [LF]) with [CR; LF]. rewrite strip_suffix_app. reflexivity.
  - apply scan_tr_lf. intros a C. subst l. rewrite has_suffix_app in E. discriminate E.
Qed.

Lemma junk_ok_line : forall l, junk_ok l = true -> junk_line l.
Proof.
  intros l H. unfold junk_ok in H. apply andb_true_iff in H as [H H3]. apply andb_true_iff in H as [H1 H2].
  split; [exact H1|].
  rewrite scan_unfold, scan_tr_trim_cr, (scan_pre_noprefix ss0 _ eq_refl).
  unfold scan_body. change (st ss0) with looking. cbv iota. unfold header_or_end.
  destruct (try_header ss0 (trim_cr l)); [discriminate H2|].
  apply negb_true_iff in H3. rewrite H3, andb_false_r. reflexivity.
Qed.

(* C08 race report parse fidelity *)
Theorem fidelity : forall r blines after sigma f,
  wf_race r = true -> forallb junk_ok blines = true -> stall_free sigma ->
  exists res,
    scan_snapshot false (mkSource (text_of blines ++ print_race r ++ after) sigma f) = Ok res /\
    snap res = Some (race_snapshot_of r) /\
    fwd res = text_of blines /\
    suffix res ++ rest (unread res) = after /\
    rerr_out res = ENil /\
    final_state res = done /\
    lines_read res = (List.length blines + List.length (race_lines r))%nat.
Proof.
  intros r blines after sigma f Hwf Hjunk Hsf.
  apply fidelity_frames; [apply wf_race_ok; exact Hwf| |exact Hsf].
  exact (forallb_Forall _ _ _ _ junk_ok_line Hjunk).
Qed.

(* ------------------------------------------------------------------ *)
(* 15. the shape on which printer and scanner disagree: a report       *)
(*     without any creation section                                    *)
(* ------------------------------------------------------------------ *)

(* a line that the scanner rejects with an error, outside [looking] *)
Lemma loop_line_rejected : forall f s r src fw tr n l rest0 s1 e,
  state_eqb (st s) done = false -> no_byte LF l = true ->
  scan s (l ++ [LF]) = Ok (s1, false, Some e) -> state_eqb (st s1) looking = false ->
  rinv_s r src -> stall_free (sched src) -> stream r src = (l ++ [LF]) ++ rest0 ->
  exists ls' sfx,
    scan_loop (S f) (mkLoop s r src fw tr n) = Ok (ls', EScan e, Some sfx) /\
    l_ss ls' = s1 /\ l_fwd ls' = fw /\ l_lines ls' = S n /\
    sfx ++ rest (l_src ls') = (l ++ [LF]) ++ rest0.
Proof.
  intros f s r src fw tr n l rest0 s1 e Hd Hl Hscan Hnl Hr Hsf Hs.
  destruct (read_complete_line r src l rest0 Hr Hsf Hl Hs) as (r' & src' & evs & Q1 & Q2 & Q3 & Q4 & Q5).
  rewrite scan_loop_S. cbn [l_ss l_r l_src l_fwd l_trace l_lines]. rewrite Hd, Q1. cbv zeta.
  destruct (l ++ [LF]) as [|x t] eqn:E; [destruct l; discriminate E|].
  rewrite Hscan, Hnl. cbn [negb io_is_nil_or_eof].
  eexists. eexists. split; [reflexivity|]. cbn [l_ss l_fwd l_lines l_src].
  split; [reflexivity|]. split; [reflexivity|]. split; [reflexivity|].
  rewrite <- app_assoc. unfold stream in Q5. rewrite Q5. reflexivity.
Qed.

Lemma text_of_app : forall a b, text_of (a ++ b) = text_of a ++ text_of b.
Proof. intros a b. unfold text_of. rewrite map_app, concat_app. reflexivity. Qed.

(* ScanSnapshot on: surrounding lines, lines L that the scanner consumes
   from the initial state up to a state sB, then a line that it rejects in sB
   with an error *)
Lemma rejected_after_steps : forall blines L sB l e after sigma f,
  Steps ss0 L sB -> goroutines sB <> [] ->
  state_eqb (st sB) done = false -> state_eqb (st sB) looking = false ->
  no_byte LF l = true -> scan sB (l ++ [LF]) = Ok (sB, false, Some e) ->
  forallb junk_ok blines = true -> stall_free sigma ->
  exists res,
    scan_snapshot false (mkSource (text_of blines ++ text_of L ++ (l ++ [LF]) ++ after) sigma f) = Ok res /\
    snap res = Some (goroutines sB) /\
    fwd res = text_of blines /\
    suffix res ++ rest (unread res) = (l ++ [LF]) ++ after /\
    rerr_out res = EScan e /\
    final_state res = st sB.
Proof.
  intros blines L sB l e after sigma f Hsteps Hgs Hnd Hnl Hl Hscan Hjunk Hsf.
  set (B := text_of blines ++ text_of L ++ (l ++ [LF]) ++ after).
  unfold scan_snapshot. cbn [rest].
  set (nb := List.length blines). set (nr := List.length L).
  assert (Hfuel : exists f0, S (S (List.length B)) = (nb + (nr + S f0))%nat).
  { exists (S (List.length B) - nb - nr)%nat.
    pose proof (text_of_length blines) as H1. pose proof (text_of_length L) as H2.
    unfold B. rewrite !app_length. fold nb nr in H1, H2 |- *. lia. }
  destruct Hfuel as (f0 & ->).
  destruct (loop_junk blines (nr + S f0) reader0 (mkSource B sigma f) [] [] 0%nat
              (text_of L ++ (l ++ [LF]) ++ after)
              (forallb_Forall _ _ _ _ junk_ok_line Hjunk) (rinv_s_reader0 _) Hsf eq_refl)
    as (r1 & src1 & tr1 & E1 & R1 & SF1 & F1 & S1).
  fold nb in E1. rewrite E1.
  destruct (loop_steps L ss0 sB Hsteps (S f0) r1 src1 ([] ++ text_of blines) tr1 (nb + 0)%nat
              ((l ++ [LF]) ++ after) R1 SF1 S1) as (r2 & src2 & tr2 & E2 & R2 & SF2 & F2 & S2).
  fold nr in E2. rewrite E2.
  destruct (loop_line_rejected f0 sB r2 src2 ([] ++ text_of blines) tr2 (nr + (nb + 0))%nat l after
              sB e Hnd Hl Hscan Hnl R2 SF2 S2) as (ls' & sfx & E3 & H1 & H2 & H3 & H4).
  rewrite E3. eexists. split; [reflexivity|].
  cbn [snap fwd suffix unread rerr_out final_state]. rewrite H1, H2.
  split; [destruct (goroutines sB); [congruence|reflexivity]|].
  split; [reflexivity|]. split; [exact H4|]. split; reflexivity.
Qed.

(* With no creation section the closing separator comes right after the
   blank line of the last operation section.  There the scanner accepts an
   operation header or a creation header only: the goroutines are those the
   report denotes, but ScanSnapshot returns an error (expected a creation
   header), stays in betweenRaceOperations and hands the separator back. *)
Theorem no_creation_section : forall ops blines after sigma f,
  ops <> [] -> forallb wf_race_op ops = true -> forallb junk_ok blines = true -> stall_free sigma ->
  exists res,
    scan_snapshot false (mkSource (text_of blines ++ print_race (mkPRace ops []) ++ after) sigma f) = Ok res /\
    snap res = Some (race_snapshot_of (mkPRace ops [])) /\
    fwd res = text_of blines /\
    suffix res ++ rest (unread res) = (race_separator ++ [LF]) ++ after /\
    rerr_out res = EScan (ErrExpected 10) /\
    final_state res = betweenRaceOperations.
Proof.
  intros ops blines after sigma f Hne Hwf Hjunk Hsf.
  destruct ops as [|op ops]; [congruence|].
  destruct (ops_steps op ops (forallb_Forall _ _ _ _ wf_race_op_ok Hwf)) as (idx & Hsteps).
  set (L := [race_separator; race_warning] ++ race_ops_lines (op :: ops)) in *.
  assert (HL : race_lines (mkPRace (op :: ops) []) = L ++ [race_separator]).
  { unfold race_lines, L. cbn [pr_ops pr_creations race_creations_lines].
    change (([] : list bytes) ++ [race_separator]) with [race_separator]. rewrite app_assoc. reflexivity. }
  assert (HP : print_race (mkPRace (op :: ops) []) ++ after = text_of L ++ (race_separator ++ [LF]) ++ after).
  { rewrite print_race_text, HL, text_of_app. unfold text_of at 2. cbn [map List.concat].
    rewrite app_nil_r, <- app_assoc. reflexivity. }
  rewrite HP.
  set (sB := mkSS (race_snapshot_of (mkPRace (op :: ops) [])) betweenRaceOperations [] idx) in *.
  exact (rejected_after_steps blines L sB race_separator (ErrExpected 10) after sigma f Hsteps
           ltac:(discriminate) eq_refl eq_refl eq_refl eq_refl Hjunk Hsf).
Qed.

(* ------------------------------------------------------------------ *)
(* 16. a report with a creation section for an unknown goroutine       *)
(* ------------------------------------------------------------------ *)

Lemma race_creations_lines_app : forall cs1 cs2, cs1 <> [] -> cs2 <> [] ->
  race_creations_lines (cs1 ++ cs2) = race_creations_lines cs1 ++ [[]] ++ race_creations_lines cs2.
Proof.
  induction cs1 as [|c1 cs1 IH]; intros cs2 H1 H2; [congruence|].
  destruct cs1 as [|c1' cs1].
  - cbn [app]. destruct cs2 as [|c2 cs2]; [congruence|]. reflexivity.
  - change ((c1 :: c1' :: cs1) ++ cs2) with (c1 :: (c1' :: cs1) ++ cs2).
    change (race_creations_lines (c1 :: (c1' :: cs1) ++ cs2))
      with (race_creation_lines c1 ++ [[]] ++ race_creations_lines ((c1' :: cs1) ++ cs2)).
    rewrite (IH cs2 ltac:(discriminate) H2).
    change (race_creations_lines (c1 :: c1' :: cs1))
      with (race_creation_lines c1 ++ [[]] ++ race_creations_lines (c1' :: cs1)).
    rewrite <- !app_assoc. reflexivity.
Qed.

Lemma race_creations_lines_hd : forall c cs,
  race_creations_lines (c :: cs) =
  print_creation_header (rc_gid c) (rc_running c) :: tl (race_creations_lines (c :: cs)).
Proof. intros c [|c2 cs]; reflexivity. Qed.

Lemma gl_ids : forall cs ops first g, In g (gl cs first ops) ->
  exists op, In op ops /\ ID g = Z.of_N (ro_gid op).
Proof.
  intros cs ops. induction ops as [|op ops IH]; intros first g H; [contradiction|].
  cbn [gl] in H. destruct H as [H|H].
  - exists op. split; [left; reflexivity|]. rewrite <- H. apply race_goroutine_of_ID.
  - destruct (IH false g H) as (op' & Hin & Hid). exists op'. split; [right; exact Hin|exact Hid].
Qed.

(* The report has well-formed operations, well-formed creation sections cs1,
   then a section for a goroutine that took part in no operation (and
   anything after it).  ScanSnapshot stops at the header of that section
   with an error; the goroutines are those of the report up to cs1: the
   section is attributed to no goroutine. *)
Theorem unknown_creator_report : forall ops cs1 c cs2 blines after sigma f,
  ops <> [] -> forallb wf_race_op ops = true -> distinct_N (map ro_gid ops) = true ->
  forallb (wf_race_creation ops) cs1 = true ->
  wf_num (rc_gid c) = true -> existsb (fun op => ro_gid op =? rc_gid c) ops = false ->
  forallb junk_ok blines = true -> stall_free sigma ->
  exists res,
    scan_snapshot false
      (mkSource (text_of blines ++ print_race (mkPRace ops (cs1 ++ c :: cs2)) ++ after) sigma f) = Ok res /\
    snap res = Some (race_snapshot_of (mkPRace ops cs1)) /\
    fwd res = text_of blines /\
    suffix res ++ rest (unread res) =
      text_of (race_creations_lines (c :: cs2) ++ [race_separator]) ++ after /\
    rerr_out res = EScan (ErrRace 2) /\
    final_state res = match cs1 with [] => betweenRaceOperations | _ => betweenRaceGoroutines end.
Proof.
  intros ops cs1 c cs2 blines after sigma f Hne Hwf Hd Hcs Hn Hex Hjunk Hsf.
  destruct ops as [|op ops]; [congruence|].
  destruct (ops_steps op ops (forallb_Forall _ _ _ _ wf_race_op_ok Hwf)) as (i1 & S1).
  rewrite snapshot_gl in S1.
  set (OPS := op :: ops) in *.
  set (L0 := [race_separator; race_warning] ++ race_ops_lines OPS) in *.
  set (hdr := print_creation_header (rc_gid c) (rc_running c)).
  set (tail := tl (race_creations_lines (c :: cs2)) ++ [race_separator]).
  (* the state in which the header of c is read, and the lines before it *)
  assert (HB : exists L idx,
            Steps ss0 L (mkSS (gl cs1 true OPS)
                              (match cs1 with [] => betweenRaceOperations | _ => betweenRaceGoroutines end) [] idx) /\
            race_lines (mkPRace OPS (cs1 ++ c :: cs2)) = L ++ [hdr] ++ tail).
  { destruct cs1 as [|c1 cs1'] eqn:Ecs.
    - exists L0, i1. split; [exact S1|].
      unfold race_lines, L0, tail, hdr. cbn [pr_ops pr_creations app].
      rewrite (race_creations_lines_hd c cs2). reflexivity.
    - destruct (creations_steps OPS (c1 :: cs1') [] betweenRaceOperations i1 (or_introl eq_refl) Hd
                  ltac:(discriminate) (forallb_Forall _ _ _ _ (fun x => wf_race_creation_ok OPS x Hwf) Hcs))
        as (i2 & S2).
      cbn [app] in S2.
      exists (L0 ++ race_creations_lines (c1 :: cs1') ++ [[]]), i2. split.
      + apply (Steps_app _ _ _ _ _ S1). apply (Steps_app _ _ _ _ _ S2).
        apply Steps_one; reflexivity.
      + unfold race_lines, L0, tail, hdr. cbn [pr_ops pr_creations].
        rewrite (race_creations_lines_app (c1 :: cs1') (c :: cs2)) by discriminate.
        rewrite (race_creations_lines_hd c cs2). rewrite <- !app_assoc. reflexivity. }
  destruct HB as (L & idx & Hsteps & HL).
  set (sB := mkSS (gl cs1 true OPS)
                  (match cs1 with [] => betweenRaceOperations | _ => betweenRaceGoroutines end) [] idx) in *.
  assert (Hscan : scan sB (hdr ++ [LF]) = Ok (sB, false, Some (ErrRace 2))).
  { apply unknown_creator.
    - destruct cs1; [right|left]; reflexivity.
    - reflexivity.
    - unfold wf_num in Hn. apply N.ltb_lt. exact Hn.
    - intros g Hg C. destruct (gl_ids _ _ _ _ Hg) as (op' & Hin & Hid).
      rewrite Hid in C. apply N2Z.inj in C.
      assert (Ht : existsb (fun op0 => ro_gid op0 =? rc_gid c) OPS = true).
      { apply existsb_exists. exists op'. split; [exact Hin|apply N.eqb_eq; exact C]. }
      congruence. }
  assert (HP : print_race (mkPRace OPS (cs1 ++ c :: cs2)) ++ after =
               text_of L ++ (hdr ++ [LF]) ++ (text_of tail ++ after)).
  { rewrite print_race_text, HL, !text_of_app. unfold text_of at 2. cbn [map List.concat]. unfold add_lf.
    rewrite app_nil_r, <- !app_assoc. reflexivity. }
  assert (HS : text_of (race_creations_lines (c :: cs2) ++ [race_separator]) ++ after =
               (hdr ++ [LF]) ++ (text_of tail ++ after)).
  { rewrite (race_creations_lines_hd c cs2). fold hdr.
    change ((hdr :: tl (race_creations_lines (c :: cs2))) ++ [race_separator]) with (hdr :: tail).
    rewrite text_of_cons, <- !app_assoc. reflexivity. }
  rewrite HP, HS, snapshot_gl.
  assert (Hnd : state_eqb (st sB) done = false) by (destruct cs1; reflexivity).
  assert (Hnl : state_eqb (st sB) looking = false) by (destruct cs1; reflexivity).
  exact (rejected_after_steps blines L sB hdr (ErrRace 2) (text_of tail ++ after) sigma f Hsteps
           ltac:(discriminate) Hnd Hnl (creation_header_no_lf _ _) Hscan Hjunk Hsf).
Qed.
