"""Per-property configuration of check.py.

ops: (op name, cases in quick, cases in thorough[, extra vh flags])
corr: correspondence projections whose mismatch breaks the tie for THIS property
prop: property predicates (evaluated by the extracted Coq spec on implementation output)
nontrivial: a case counts as non-trivial when one of these tags (prefix match) is present
"""

TRUSTED_BASE = [
    'Coq 8.16.1 kernel (coqc); vm_compute is used inside proofs only for closed witnesses/examples; native_compute is not used',
    'Print Assumptions of every property theorem must be "Closed under the global context" (no axioms, stdlib ones included)',
    'thorough tier: coqchk -o re-checks the compiled Properties closure',
    'hand-written Gallina model of the Go code (coq/theories/Model, Base): tied to /repo only by the correspondence check',
    'extraction: Coq Extraction with ExtrOcamlBasic only (Extract Inductive bool/option/unit/list/prod/sumbool/sumor, Extract Inlined Constant andb/orb/negb/fst/snd); nat, positive, N, Z stay extracted inductives; OCaml 4.13.1 ocamlopt',
    'ocaml/driver.ml (s-expression reader, comparison of projections) and harness/cmd/vh (Go generators, canonical printer)',
]

_AGG_RULE = ('hand-built snapshots: 1..80 goroutines (thorough: up to 2000) around 1..3 base signatures, variants differing in '
             'argument values/pointers/too-large/inaccurate/nesting, lock, sleep, state, line, elision, symbol; random level; '
             'each aggregated 8x in-process; non-trivial = at least two buckets or at least one merged bucket; distinct by input hash')

PROPS = {
    'C04': {
        'ops': [('aggregate', 1500, 40000)],
        'corr': ['corr:ids', 'corr:panic'],
        'prop': ['C04'],
        'nontrivial': ['multi', 'merged'],
        'input_fields': 2,
        'rule': _AGG_RULE,
        'assumptions': ['Go sort.Ints / sort.SliceStable are stable sorts (modelled by insertion sort)'],
    },
    'C05': {
        'ops': [('aggregate', 1500, 40000)],
        'corr': ['corr:ids', 'corr:panic'],
        'prop': ['C05'],
        'nontrivial': ['multi', 'merged'],
        'input_fields': 2,
        'rule': _AGG_RULE + '; reference partition = classes of the extracted canonical key canon_sig',
        'assumptions': ['snapshots are well-formed (wf_goroutines): non-pointers carry no pseudo-name, too-large arguments are not pointers'],
    },
    'C12': {
        'ops': [('aggregate', 1500, 40000)],
        'corr': ['corr:sig', 'corr:panic'],
        'prop': ['C12'],
        'nontrivial': ['merged'],
        'input_fields': 2,
        'rule': _AGG_RULE + '; the merged signature of every bucket is compared field by field with the model and checked against its members by the extracted c12_ok',
    },
    'C13': {
        'ops': [('aggregate', 1000, 30000), ('less3', 5000, 200000)],
        'corr': ['corr:order', 'corr:less', 'corr:panic'],
        'prop': ['C13'],
        'nontrivial': ['multi', 'lt'],
        'input_fields': 2,
        'rule': _AGG_RULE + '; less3: triples of signatures varying stack length, per-frame location class, package main, function/file/line, lock, state; '
                'Signature.less observed through the order of two singleton buckets at ExactFlags in both arrival orders; the four order laws are checked on the observed relation',
        'assumptions': ['at most one goroutine of a snapshot is First (true of parser output)'],
    },
}
