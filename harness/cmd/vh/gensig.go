// Generators of hand-built snapshots for the bucket properties (C04, C05,
// C06, C12, C13, C14, C15).  Every derived field (Func.*, SrcName, DirSrc,
// Location, IsPtr) is a function of the primary ones, as in parser output.
package main

import (
	"math/rand"
	"strings"

	"github.com/maruel/panicparse/v2/stack"
)

var symbolUniverse = []string{
	"main.main", "main.foo", "main.(*T).run", "main.main.func1",
	"runtime.gopark", "runtime.goexit", "fmt.Println", "sync.(*Mutex).Lock",
	"github.com/x/y.Z", "github.com/x/y.(*T).m", "gopkg.in/yaml%2ev2.Unmarshal",
	"example.com/mod/pkg.Do", "golang.org/x/sys/unix.Syscall", "example.com/a/vendor/github.com/p/q.Run", "example.com/a/vendor/b/vendor/c.f",
}

type fileChoice struct {
	path string
	loc  stack.Location
}

var fileUniverse = []fileChoice{
	{"/home/u/proj/main.go", stack.GoMod},
	{"/home/u/proj/sub/x.go", stack.GoMod},
	{"/gopath/src/github.com/x/y/z.go", stack.GOPATH},
	{"/gopath/pkg/mod/example.com/mod@v1.2.3/pkg/do.go", stack.GoPkg},
	{"/goroot/src/runtime/proc.go", stack.Stdlib},
	{"/goroot/src/fmt/print.go", stack.Stdlib},
	{"/goroot/src/sync/mutex.go", stack.Stdlib},
	{"/tmp/unknown/a.go", stack.LocationUnknown},
	{"/tmp/unknown/b.go", stack.LocationUnknown},
}

func mkFunc(raw string) stack.Func {
	var f stack.Func
	if err := f.Init(raw); err != nil {
		panic(err)
	}
	return f
}

// mkCall mirrors what Call.init derives from the path.
func mkCall(sym string, fc fileChoice, line int, args stack.Args) stack.Call {
	c := stack.Call{Func: mkFunc(sym), Args: args, RemoteSrcPath: fc.path, Line: line, Location: fc.loc}
	if i := strings.LastIndexByte(fc.path, '/'); i != -1 {
		c.SrcName = fc.path[i+1:]
		if j := strings.LastIndexByte(fc.path[:i], '/'); j != -1 {
			c.DirSrc = fc.path[j+1:]
		}
	}
	c.ImportPath = c.Func.ImportPath
	return c
}

var scalarUniverse = []uint64{0, 1, 2, 9, 10, 255, 512 * 1024, 512*1024 + 1, 0xc000010000, 0xc000010008, 0xc000020000, 1<<63 - 1, 1 << 63, 1<<64 - 1}

func isPtr(v uint64) bool { return v > 512*1024 && v < (1<<63-1) }

type argGen struct {
	r     *rand.Rand
	named bool // give pointers the pseudo-name a snapshot-wide table dictates
}

func (g *argGen) scalar() stack.Arg {
	switch g.r.Intn(12) {
	case 0:
		return stack.Arg{IsOffsetTooLarge: true}
	case 1:
		v := scalarUniverse[g.r.Intn(len(scalarUniverse))]
		return stack.Arg{Value: v, IsPtr: isPtr(v), IsInaccurate: true}
	default:
		v := scalarUniverse[g.r.Intn(len(scalarUniverse))]
		return stack.Arg{Value: v, IsPtr: isPtr(v)}
	}
}

func (g *argGen) arg(depth int) stack.Arg {
	if depth < 3 && g.r.Intn(5) == 0 {
		return stack.Arg{IsAggregate: true, Fields: g.args(depth+1, 3)}
	}
	return g.scalar()
}

func (g *argGen) args(depth, max int) stack.Args {
	n := g.r.Intn(max + 1)
	a := stack.Args{Elided: g.r.Intn(6) == 0}
	for i := 0; i < n; i++ {
		a.Values = append(a.Values, g.arg(depth))
	}
	return a
}

// perturbArgs returns a copy of a in which one scalar may be changed: the
// variants a similarity level must ignore or respect.
func (g *argGen) perturbArgs(a stack.Args) stack.Args {
	out := stack.Args{Elided: a.Elided}
	if g.r.Intn(12) == 0 {
		// same printed values, only the trailing ", ..." differs: a shape difference at every level
		out.Elided = !out.Elided
	}
	out.Values = make([]stack.Arg, len(a.Values))
	for i := range a.Values {
		v := a.Values[i]
		if v.IsAggregate && g.r.Intn(8) == 0 {
			// same position, other shape: fewer / more fields, or a scalar
			switch g.r.Intn(3) {
			case 0:
				if n := len(v.Fields.Values); n > 0 {
					f := v.Fields
					f.Values = append([]stack.Arg{}, f.Values[:n-1]...)
					v.Fields = f
				}
			case 1:
				f := v.Fields
				f.Values = append(append([]stack.Arg{}, f.Values...), g.scalar())
				v.Fields = f
			default:
				v = g.scalar()
			}
		} else if v.IsAggregate {
			v.Fields = g.perturbArgs(v.Fields)
		} else if g.r.Intn(3) == 0 {
			switch g.r.Intn(5) {
			case 0: // another pointer
				if v.IsPtr {
					v.Value = 0xc000010000 + uint64(g.r.Intn(4))*8
				}
			case 1: // another scalar
				if !v.IsPtr && !v.IsOffsetTooLarge {
					v.Value = uint64(g.r.Intn(3))
				}
			case 2:
				v = g.scalar()
			case 3:
				v.IsInaccurate = !v.IsInaccurate && !v.IsOffsetTooLarge
			case 4:
				// a different shape at the same position: scalar -> aggregate
				if g.r.Intn(3) == 0 {
					v = stack.Arg{IsAggregate: true, Fields: g.args(3, 2)}
				}
			}
		}
		out.Values[i] = v
	}
	return out
}

var stateUniverse = []string{"running", "chan receive", "select", "IO wait", "semacquire", "sleep"}
var createdUniverse = []string{"", "", "main.mainImpl", "main.mainImpl in goroutine 1", "github.com/x/y.Spawn"}

func (g *argGen) signature() stack.Signature {
	r := g.r
	s := stack.Signature{State: stateUniverse[r.Intn(len(stateUniverse))], Locked: r.Intn(5) == 0}
	if r.Intn(3) == 0 {
		s.SleepMin = []int{1, 5, 30, 400}[r.Intn(4)]
		s.SleepMax = s.SleepMin
	}
	if cb := createdUniverse[r.Intn(len(createdUniverse))]; cb != "" {
		fc := fileUniverse[r.Intn(len(fileUniverse))]
		c := mkCall(cb, fc, 10+r.Intn(3), stack.Args{})
		s.CreatedBy.Calls = []stack.Call{c}
	}
	n := 1 + r.Intn(3)
	for i := 0; i < n; i++ {
		fc := fileUniverse[r.Intn(len(fileUniverse))]
		s.Stack.Calls = append(s.Stack.Calls, mkCall(symbolUniverse[r.Intn(len(symbolUniverse))], fc, 1+r.Intn(3), g.args(0, 3)))
	}
	if r.Intn(12) == 0 {
		// deep recursion: many frames of one location class (counts of 60..130)
		fc := fileUniverse[r.Intn(len(fileUniverse))]
		sym := symbolUniverse[r.Intn(len(symbolUniverse))]
		k := 60 + r.Intn(70)
		for i := 0; i < k; i++ {
			s.Stack.Calls = append(s.Stack.Calls, mkCall(sym, fc, 7, stack.Args{}))
		}
	}
	s.Stack.Elided = r.Intn(10) == 0
	if r.Intn(25) == 0 {
		s.Stack.Calls = nil // a goroutine whose header was the last line of a truncated dump
	}
	if len(s.CreatedBy.Calls) == 1 && r.Intn(5) == 0 {
		// race reports have creation stacks of several frames
		for k := 0; k < 1+r.Intn(2); k++ {
			fc := fileUniverse[r.Intn(len(fileUniverse))]
			s.CreatedBy.Calls = append(s.CreatedBy.Calls, mkCall(symbolUniverse[r.Intn(len(symbolUniverse))], fc, 20+r.Intn(3), stack.Args{}))
		}
	}
	return s
}

// variant derives a signature that differs from s in attributes chosen at
// random among those the levels treat differently.
func (g *argGen) variant(s stack.Signature) stack.Signature {
	r := g.r
	out := s
	out.Stack.Calls = make([]stack.Call, len(s.Stack.Calls))
	copy(out.Stack.Calls, s.Stack.Calls)
	if len(s.CreatedBy.Calls) != 0 {
		out.CreatedBy.Calls = append([]stack.Call{}, s.CreatedBy.Calls...)
	}
	for i := range out.Stack.Calls {
		out.Stack.Calls[i].Args = g.perturbArgs(out.Stack.Calls[i].Args)
	}
	pick := r.Intn(14)
	if len(out.Stack.Calls) == 0 && (pick == 3 || pick == 5) {
		pick = 1
	}
	switch pick {
	case 13: // same creating function, file and line, another parent goroutine ("created by f in goroutine N")
		if len(out.CreatedBy.Calls) != 0 {
			c := out.CreatedBy.Calls[0]
			base := c.Func.Complete
			if i := strings.Index(base, " in goroutine "); i != -1 {
				base = base[:i]
			}
			raw := base
			if k := r.Intn(4); k != 0 {
				raw = base + " in goroutine " + []string{"", "1", "7", "18"}[k]
			}
			out.CreatedBy.Calls[0] = mkCall(raw, fileChoice{c.RemoteSrcPath, c.Location}, c.Line, c.Args)
		}
	case 10: // both elided, this one shows fewer frames
		if len(out.Stack.Calls) > 1 {
			out.Stack.Calls = out.Stack.Calls[:len(out.Stack.Calls)-1]
		}
		out.Stack.Elided = true
	case 11: // same creator go statement, different caller below it
		if n := len(out.CreatedBy.Calls); n > 1 {
			c := out.CreatedBy.Calls[n-1]
			out.CreatedBy.Calls[n-1] = mkCall(symbolUniverse[r.Intn(len(symbolUniverse))], fileChoice{c.RemoteSrcPath, c.Location}, c.Line, c.Args)
		}
	case 12: // same frames and arguments, only the lock bit differs
		out.Locked = !out.Locked
		for i := range out.Stack.Calls {
			out.Stack.Calls[i].Args = deepCopyArgs(s.Stack.Calls[i].Args)
		}
		return out
	case 0:
		out.Locked = !out.Locked
	case 1:
		out.SleepMin = r.Intn(50)
		out.SleepMax = out.SleepMin
	case 2:
		out.State = stateUniverse[r.Intn(len(stateUniverse))]
	case 3:
		i := r.Intn(len(out.Stack.Calls))
		out.Stack.Calls[i].Line += r.Intn(2)
	case 4:
		out.Stack.Elided = !out.Stack.Elided
	case 5:
		i := r.Intn(len(out.Stack.Calls))
		c := out.Stack.Calls[i]
		out.Stack.Calls[i] = mkCall(symbolUniverse[r.Intn(len(symbolUniverse))], fileChoice{c.RemoteSrcPath, c.Location}, c.Line, c.Args)
	}
	return out
}

// applyNames gives every pointer argument of the main stacks a pseudo-name
// that is a function of its value within the snapshot (what nameArguments
// guarantees), for a random subset of the values.
func applyNames(r *rand.Rand, gs []*stack.Goroutine) {
	names := map[uint64]string{}
	var walk func(a *stack.Args)
	walk = func(a *stack.Args) {
		for i := range a.Values {
			v := &a.Values[i]
			if v.IsAggregate {
				walk(&v.Fields)
			} else if v.IsPtr {
				n, ok := names[v.Value]
				if !ok {
					if r.Intn(2) == 0 {
						n = "#" + string(rune('1'+len(names)%9))
					}
					names[v.Value] = n
				}
				v.Name = n
			}
		}
	}
	for _, g := range gs {
		for i := range g.Stack.Calls {
			walk(&g.Stack.Calls[i].Args)
		}
	}
}

// genSnapshot builds n goroutines around k base signatures.
func genSnapshot(r *rand.Rand, n, k int, named bool) []*stack.Goroutine {
	g := &argGen{r: r}
	bases := make([]stack.Signature, k)
	for i := range bases {
		bases[i] = g.signature()
	}
	if n == 0 {
		return []*stack.Goroutine{}
	}
	gs := make([]*stack.Goroutine, n)
	ids := r.Perm(n * 3)
	for i := range gs {
		var s stack.Signature
		b := bases[r.Intn(k)]
		if r.Intn(3) == 0 {
			s = deepCopySig(b)
		} else {
			s = g.variant(b)
		}
		gs[i] = &stack.Goroutine{Signature: s, ID: ids[i] + 1, First: i == 0}
	}
	if named {
		applyNames(r, gs)
	}
	if n > 1 && r.Intn(10) == 0 {
		// a snapshot built by hand or re-sorted by its user: the First goroutine is not the first element
		gs[0].First = false
		gs[1+r.Intn(n-1)].First = true
	}
	if r.Intn(4) == 0 {
		// an "augmented" snapshot: Processed is a function of Values, as after source analysis
		for _, x := range gs {
			for i := range x.Stack.Calls {
				a := &x.Stack.Calls[i].Args
				if len(a.Values) == 0 {
					continue
				}
				a.Processed = nil
				for k := range a.Values {
					a.Processed = append(a.Processed, "T("+a.Values[k].String()+")")
				}
			}
		}
	}
	return gs
}

func deepCopyArgs(a stack.Args) stack.Args {
	out := stack.Args{Elided: a.Elided}
	if a.Values != nil {
		out.Values = make([]stack.Arg, len(a.Values))
		for i, v := range a.Values {
			v.Fields = deepCopyArgs(v.Fields)
			out.Values[i] = v
		}
	}
	if a.Processed != nil {
		out.Processed = append([]string{}, a.Processed...)
	}
	return out
}

func deepCopyStack(s stack.Stack) stack.Stack {
	out := stack.Stack{Elided: s.Elided}
	if s.Calls != nil {
		out.Calls = make([]stack.Call, len(s.Calls))
		for i, c := range s.Calls {
			c.Args = deepCopyArgs(c.Args)
			out.Calls[i] = c
		}
	}
	return out
}

func deepCopySig(s stack.Signature) stack.Signature {
	out := s
	out.CreatedBy = deepCopyStack(s.CreatedBy)
	out.Stack = deepCopyStack(s.Stack)
	return out
}

func deepCopyGoroutines(gs []*stack.Goroutine) []*stack.Goroutine {
	out := make([]*stack.Goroutine, len(gs))
	for i, g := range gs {
		c := *g
		c.Signature = deepCopySig(g.Signature)
		out[i] = &c
	}
	return out
}
