(* Properties/C00_resume.v — audit items 4 and 5: the resume protocol and the
   pp command on streams of PRINTED dumps and race reports.  Statements only.

   Why.  C07_resume says: "k dumps separated by junk: one snapshot per dump,
   equal to scanning it alone, all other bytes forwarded".  Its notion of
   "a dump" ([delimits], [well_delimited], Spec/SeqSpec.v) is defined through
   the model's own [scan] ("a dump is what scan accepts"), and its expected
   snapshot is the scanner's ([alone]).  Here both are replaced by the
   independent printer specification: the dumps are [print_dump v d true]
   (Spec/Printer.v) and [print_race r] (Spec/RacePrinter.v), the expected
   snapshots are [snapshot_of d] and [race_snapshot_of r] (computed without
   any parser code), and the text in between is constrained by explicit
   conditions on its bytes.

   EVERY HYPOTHESIS below is about the printer's data ([wf_dump], [wf_race],
   [pv_indent v = []], [ro_addr op <> 0]) or about the bytes of the text
   between the items ([plain_text], [ends_with_lf], [starts_with_full_line],
   [J <> []]).  NO hypothesis mentions [scan], [accept_all], [delimits],
   [no_start], a scanner state or the result of a scan.  The only model
   components the hypotheses see are the pure line matcher
   [match_routine_header] (= the regular expression reRoutineHeader,
   P_is_goroutine_header_regex) and [atou] (1..18 decimal digits), both inside
   [is_goroutine_header].

   Vocabulary (Proofs/ResumePrinted.v; every definition is restated below as a
   [_def] theorem):
     is_goroutine_header t   the header matcher finds t and the id is a number
     plain_line l            l, if LF-terminated, is (after removal of LF or
                             CR LF) neither a goroutine header nor the race
                             separator "=================="; an unterminated
                             line is plain
     plain_text J            every line of J (Spec/LoopSpec.lines: J cut after
                             each LF) is plain
     ends_with_lf J          J = [] or J ends with LF
     starts_with_full_line J J = [] or J contains an LF
     pitem                   PDump v d | PRace r
     item_text               print_dump v d true | print_race r
     item_snapshot           snapshot_of d | race_snapshot_of r
     item_wf                 wf_dump v d = true | wf_race r = true
                             (exactly the hypotheses of C01_fidelity /
                             C08_fidelity: every variant - any indentation,
                             LF or CR LF, file lines indented by a tab or by
                             spaces, blank lines indented or not)
     item_flat               pv_indent v = [] | True
     pstream segs Jk         J0 ++ I1 ++ J1 ++ ... ++ Ik ++ Jk
     pstream_ok              see P_pstream_ok_def
     keeps_indent ind R      the first line of R is blank or starts with ind
     call_err f it R         the error of the call that meets item it followed
                             by R (P_call_err_def)
     expected_items f segs Jk  the exact list of results of the protocol
     item_render o it        what pp writes for the item (P_item_render_ok,
                             P_item_render_dump, P_item_render_race)
     rendered_pstream        J0 ++ R1 ++ J1 ++ ... ++ Rk ++ Jk

   Variants.  The resume protocol (scan_seq, lenient: a scan error does not
   stop the iteration) is covered for ALL variants; after an INDENTED dump the
   first unindented non-blank line is refused with the indentation error,
   which the item reports (call_err) - the snapshots and the forwarded text
   are not affected.  The command stops at a scan error (exit 1): pp_run is
   covered for unindented dumps only (all_flat; P_ex_indented_exit_1 in
   C00_pipeline.v shows what happens otherwise).

   Needed and shown necessary: a text between a dump and the next item is not
   empty (P_adjacent_dumps_refuted: two adjacent dumps are ONE snapshot); the
   text after the last dump starts with a complete line
   (P_junk_unterminated_header_refuted in C00_pipeline.v).  Nothing of the
   kind is needed after a race report: its closing separator ends the scan. *)
From PP Require Import Spec.Regex Spec.RegexDefs Proofs.RegexProofs.
From PP Require Import Base.Bytes Base.BytesX Base.Num Base.GoResult Model.Types Model.Reader Model.Lines Model.FuncInit Model.Scan
  Model.Names Model.ScanSnapshot Model.ScanSeq Model.Stack Model.Bucket Model.UI Model.Process.
From PP Require Import Spec.ReaderSpec Spec.LoopSpec Spec.SeqSpec Spec.Printer Spec.RacePrinter.
From PP Require Import Proofs.PrefixProofs Proofs.ProcessProofs Proofs.Compose Proofs.ResumePrinted.
From PP Require Import Properties.C00_pipeline.
From Coq Require Import String Lia.

Local Open Scope N_scope.

(* ------------------------------------------------------------------ *)
(* 0. the vocabulary, unfolded                                          *)
(* ------------------------------------------------------------------ *)

Theorem P_is_goroutine_header_def : forall t, is_goroutine_header t =
  match match_routine_header t with
  | Some (_, ds, _) => match atou ds with Some _ => true | None => false end
  | None => false
  end.
Proof. intros t. reflexivity. Qed.
Print Assumptions P_is_goroutine_header_def.

(* ... in terms of the regular expression of the Go source (C00_regex) *)
Theorem P_is_goroutine_header_regex : forall t, is_goroutine_header t =
  match re_submatch re_routine_header t with
  | Some l => match atou (grp 2 l) with Some _ => true | None => false end
  | None => false
  end.
Proof.
  intros t. unfold is_goroutine_header. rewrite routine_header_correct.
  destruct (re_submatch re_routine_header t); reflexivity.
Qed.
Print Assumptions P_is_goroutine_header_regex.

(* indentation is irrelevant to it *)
Theorem P_is_goroutine_header_indent : forall ind t, forallb is_space_tab ind = true ->
  is_goroutine_header (ind ++ t) = is_goroutine_header t.
Proof. exact ResumePrinted.header_indent. Qed.
Print Assumptions P_is_goroutine_header_indent.

Theorem P_plain_line_def : forall line, plain_line line =
  match eol_trim line with
  | None => true
  | Some t => negb (is_goroutine_header t) && negb (beq t race_separator)
  end.
Proof. intros line. reflexivity. Qed.
Print Assumptions P_plain_line_def.

Theorem P_eol_trim_def : forall line, eol_trim line =
  match strip_suffix [CR; LF] line with
  | Some t => Some t
  | None => strip_suffix [LF] line
  end.
Proof. intros line. reflexivity. Qed.
Print Assumptions P_eol_trim_def.

Theorem P_text_predicates_def : forall J,
  (plain_text J <-> forallb plain_line (lines J) = true) /\
  (ends_with_lf J <-> J = [] \/ exists a, J = a ++ [LF]) /\
  (starts_with_full_line J <-> J = [] \/ In LF J).
Proof. intros J. repeat split; intros H; exact H. Qed.
Print Assumptions P_text_predicates_def.

(* they are the hypotheses of C02/C07, which are stated with the scanner *)
Theorem P_plain_text_no_start : forall J, plain_text J <-> no_start J.
Proof. exact ResumePrinted.plain_text_no_start. Qed.
Print Assumptions P_plain_text_no_start.

Theorem P_ends_with_lf_terminated : forall J, ends_with_lf J <-> terminated J.
Proof. exact ResumePrinted.ends_with_lf_terminated. Qed.
Print Assumptions P_ends_with_lf_terminated.

Theorem P_starts_with_full_line : forall J, starts_with_full_line J <-> Compose.first_line_terminated J.
Proof. exact ResumePrinted.starts_with_full_line_flt. Qed.
Print Assumptions P_starts_with_full_line.

Theorem P_item_def : forall v d r,
  item_text (PDump v d) = print_dump v d true /\ item_text (PRace r) = print_race r /\
  item_snapshot (PDump v d) = snapshot_of d /\ item_snapshot (PRace r) = race_snapshot_of r /\
  (item_wf (PDump v d) <-> wf_dump v d = true) /\ (item_wf (PRace r) <-> wf_race r = true) /\
  (item_flat (PDump v d) <-> pv_indent v = []) /\ (item_flat (PRace r) <-> True) /\
  is_dump (PDump v d) = true /\ is_dump (PRace r) = false.
Proof. intros v d r. repeat split; intros H; exact H. Qed.
Print Assumptions P_item_def.

Theorem P_pstream_def : forall J it t Jk,
  pstream [] Jk = Jk /\ pstream ((J, it) :: t) Jk = J ++ item_text it ++ pstream t Jk.
Proof. intros J it t Jk. split; reflexivity. Qed.
Print Assumptions P_pstream_def.

(* every text is plain; all but the last end with LF; a text that follows a
   DUMP is not empty when another item follows, and is empty or starts with
   a complete line when it is the last one; the items are well-formed *)
Theorem P_pstream_ok_def : forall after_dump J it t Jk,
  (pstream_ok after_dump [] Jk <->
     plain_text Jk /\ (after_dump = true -> starts_with_full_line Jk)) /\
  (pstream_ok after_dump ((J, it) :: t) Jk <->
     plain_text J /\ ends_with_lf J /\ (after_dump = true -> J <> []) /\ item_wf it /\
     pstream_ok (is_dump it) t Jk).
Proof. intros after_dump J it t Jk. split; split; intros H; exact H. Qed.
Print Assumptions P_pstream_ok_def.

Theorem P_all_flat_def : forall segs, all_flat segs <-> Forall (fun x => item_flat (snd x)) segs.
Proof. intros segs. split; intros H; exact H. Qed.
Print Assumptions P_all_flat_def.

Theorem P_keeps_indent_def : forall ind R, keeps_indent ind R =
  match lines R with
  | [] => true
  | d :: _ =>
      match trim_eol d, ind with
      | _ :: _, _ :: _ => match strip_prefix ind (trim_eol d) with Some _ => true | None => false end
      | _, _ => true
      end
  end.
Proof. intros ind R. reflexivity. Qed.
Print Assumptions P_keeps_indent_def.

Theorem P_call_err_def : forall f it R, call_err f it R =
  match it with
  | PRace _ => ENil
  | PDump v _ =>
      match R with
      | [] => EIo f
      | _ => if keeps_indent (pv_indent v) R then ENil else EScan ErrIndent
      end
  end.
Proof. intros f it R. reflexivity. Qed.
Print Assumptions P_call_err_def.

(* without indentation: the terminal error when a dump ends the stream, none otherwise *)
Theorem P_call_err_flat : forall f it R, item_flat it ->
  call_err f it R = match it, R with PDump _ _, [] => EIo f | _, _ => ENil end.
Proof. exact ResumePrinted.call_err_flat. Qed.
Print Assumptions P_call_err_flat.

Theorem P_expected_items_def : forall f J it t Jk,
  expected_items f [] Jk = [(None, Jk, EIo f)] /\
  expected_items f ((J, it) :: t) Jk =
    match call_err f it (pstream t Jk) with
    | EIo x => [(Some (item_snapshot it), J, EIo x)]
    | e => (Some (item_snapshot it), J, e) :: expected_items f t Jk
    end.
Proof. intros f J it t Jk. split; reflexivity. Qed.
Print Assumptions P_expected_items_def.

Theorem P_rendered_pstream_def : forall o J it t Jk,
  rendered_pstream o [] Jk = Jk /\
  rendered_pstream o ((J, it) :: t) Jk = J ++ item_render o it ++ rendered_pstream o t Jk.
Proof. intros o J it t Jk. split; reflexivity. Qed.
Print Assumptions P_rendered_pstream_def.

(* ------------------------------------------------------------------ *)
(* 1. one call of ScanSnapshot, every stall-free schedule               *)
(* ------------------------------------------------------------------ *)

(* text, an item, then R (anything after a race report; after a dump: nothing,
   or a first line that is complete and plain): the text is forwarded, the
   snapshot is the one the item denotes (named if the option is set), R is
   handed back, the error is call_err; with a reader error nothing is left *)
Theorem P_one_call : forall na J it R sc f res,
  stall_free sc -> plain_text J -> ends_with_lf J -> item_wf it ->
  (is_dump it = true ->
     match lines R with [] => True | d :: _ => has_lf d = true /\ plain_line d = true end) ->
  scan_snapshot na (mkSource (J ++ item_text it ++ R) sc f) = Ok res ->
  fwd res = J /\ suffix res ++ rest (unread res) = R /\
  snap res = Some (if na then name_arguments (item_snapshot it) else item_snapshot it) /\
  rerr_out res = call_err f it R /\
  (is_eio (rerr_out res) = true -> suffix res = [] /\ rest (unread res) = []).
Proof. exact ResumePrinted.one_call_plain. Qed.
Print Assumptions P_one_call.

(* ------------------------------------------------------------------ *)
(* 2. the resume protocol (audit item 4)                                *)
(* ------------------------------------------------------------------ *)

(* the exact list of results, any terminal error, any sufficient fuel, every
   variant of the dumps *)
Theorem P_resume_items : forall segs Jk f n,
  pstream_ok false segs Jk -> (List.length (pstream segs Jk) < n)%nat ->
  scan_seq n (pstream segs Jk) f = Ok (expected_items f segs Jk, []).
Proof. intros segs Jk f n. exact (ResumePrinted.resume_printed segs Jk false f n). Qed.
Print Assumptions P_resume_items.

(* in the words of C07_resume: exactly one non-empty snapshot per item, the
   one the PRINTER's AST denotes, in order; the forwarded bytes are
   J0 ++ ... ++ Jk, in order, and nothing remains; the last call, and only
   the last, returns the terminal error of the stream; the other calls return
   no error (after an indented dump possibly the indentation error) *)
Theorem P_resume_printed : forall segs Jk f n,
  pstream_ok false segs Jk -> (List.length (pstream segs Jk) < n)%nat ->
  exists items es,
    scan_seq n (pstream segs Jk) f = Ok (items, []) /\
    nonempty_snaps items = map (fun x => item_snapshot (snd x)) segs /\
    List.concat (map item_fwd items) = List.concat (map fst segs) ++ Jk /\
    map snd items = es ++ [EIo f] /\
    Forall (fun e => e = ENil \/ e = EScan ErrIndent) es /\
    (all_flat segs -> Forall (fun e => e = ENil) es).
Proof. exact ResumePrinted.resume_summary. Qed.
Print Assumptions P_resume_printed.

(* k = 2, spelled out: two printed dumps of any two variants without
   indentation between three texts *)
Theorem P_resume_two_dumps : forall v1 d1 v2 d2 J0 J1 J2 f n,
  wf_dump v1 d1 = true -> pv_indent v1 = [] -> wf_dump v2 d2 = true -> pv_indent v2 = [] ->
  plain_text J0 -> ends_with_lf J0 ->
  plain_text J1 -> ends_with_lf J1 -> J1 <> [] ->
  plain_text J2 -> starts_with_full_line J2 -> J2 <> [] ->
  (List.length (J0 ++ print_dump v1 d1 true ++ J1 ++ print_dump v2 d2 true ++ J2) < n)%nat ->
  scan_seq n (J0 ++ print_dump v1 d1 true ++ J1 ++ print_dump v2 d2 true ++ J2) f =
  Ok ([(Some (snapshot_of d1), J0, ENil); (Some (snapshot_of d2), J1, ENil); (None, J2, EIo f)], []).
Proof. exact ResumePrinted.resume_two_dumps. Qed.
Print Assumptions P_resume_two_dumps.

(* ------------------------------------------------------------------ *)
(* 3. the command (audit item 4, second half)                           *)
(* ------------------------------------------------------------------ *)

(* pp exits 0 and writes J0, the rendering of I1, J1, ..., the rendering of
   Ik, Jk *)
Theorem P_pp_printed : forall o segs Jk,
  pstream_ok false segs Jk -> all_flat segs ->
  pp_run o (pstream segs Jk) = Ok (rendered_pstream o segs Jk, true).
Proof. exact ResumePrinted.pp_printed. Qed.
Print Assumptions P_pp_printed.

(* the rendering of an item is processInner on the NAMED snapshot it denotes *)
Theorem P_item_render_ok : forall o it,
  render_snapshot o (name_arguments (item_snapshot it)) = Ok (item_render o it).
Proof. exact ResumePrinted.item_render_ok. Qed.
Print Assumptions P_item_render_ok.

(* a dump: the buckets of its named snapshot, written by write_buckets *)
Theorem P_item_render_dump : forall o v d, exists bs,
  aggregate id_shuffle (o_level o) (name_arguments (snapshot_of d)) = Ok bs /\
  item_render o (PDump v d) =
    flatten (o_pal o) (write_buckets (o_pal o) (o_filter o) (o_match o) (o_pf o)
                         (Nat.eqb (List.length d) 1 && o_banner o) bs).
Proof. exact ResumePrinted.item_render_dump. Qed.
Print Assumptions P_item_render_dump.

(* a race report: goroutine by goroutine when the address of the first
   operation is not 0 (Snapshot.IsRace); buckets otherwise *)
Theorem P_item_render_race : forall o r,
  item_render o (PRace r) =
    if is_race (race_snapshot_of r) then
      flatten (o_pal o) (write_goroutines (o_pal o) (o_filter o) (o_match o) (o_pf o)
                           (Nat.eqb (List.length (pr_ops r)) 1 && o_banner o)
                           (name_arguments (race_snapshot_of r)))
    else
      match aggregate id_shuffle (o_level o) (name_arguments (race_snapshot_of r)) with
      | Ok bs => flatten (o_pal o) (write_buckets (o_pal o) (o_filter o) (o_match o) (o_pf o)
                           (Nat.eqb (List.length (pr_ops r)) 1 && o_banner o) bs)
      | Panic _ => []
      end.
Proof. exact ResumePrinted.item_render_race. Qed.
Print Assumptions P_item_render_race.

Theorem P_item_render_race_nz : forall o r op ops, pr_ops r = op :: ops -> ro_addr op <> 0 ->
  item_render o (PRace r) =
    flatten (o_pal o) (write_goroutines (o_pal o) (o_filter o) (o_match o) (o_pf o)
                         (Nat.eqb (List.length (pr_ops r)) 1 && o_banner o)
                         (name_arguments (race_snapshot_of r))).
Proof. exact ResumePrinted.item_render_race_nz. Qed.
Print Assumptions P_item_render_race_nz.

(* k = 2, spelled out *)
Theorem P_pp_two_dumps : forall o v1 d1 v2 d2 J0 J1 J2,
  wf_dump v1 d1 = true -> pv_indent v1 = [] -> wf_dump v2 d2 = true -> pv_indent v2 = [] ->
  plain_text J0 -> ends_with_lf J0 ->
  plain_text J1 -> ends_with_lf J1 -> J1 <> [] ->
  plain_text J2 -> starts_with_full_line J2 ->
  exists bs1 bs2,
    aggregate id_shuffle (o_level o) (name_arguments (snapshot_of d1)) = Ok bs1 /\
    aggregate id_shuffle (o_level o) (name_arguments (snapshot_of d2)) = Ok bs2 /\
    pp_run o (J0 ++ print_dump v1 d1 true ++ J1 ++ print_dump v2 d2 true ++ J2) =
    Ok (J0 ++ flatten (o_pal o) (write_buckets (o_pal o) (o_filter o) (o_match o) (o_pf o)
                                   (Nat.eqb (List.length d1) 1 && o_banner o) bs1) ++
        J1 ++ flatten (o_pal o) (write_buckets (o_pal o) (o_filter o) (o_match o) (o_pf o)
                                   (Nat.eqb (List.length d2) 1 && o_banner o) bs2) ++ J2, true).
Proof. exact ResumePrinted.pp_two_dumps. Qed.
Print Assumptions P_pp_two_dumps.

(* ------------------------------------------------------------------ *)
(* 4. race reports (audit item 5)                                       *)
(* ------------------------------------------------------------------ *)

(* a race report between two texts through pp: the texts pass through, the
   report is replaced by the goroutine-wise rendering of its NAMED snapshot.
   No condition on the first line of J1 (the closing separator ends the scan);
   the address of the first operation is not 0 (else: P_race_addr0_refuted) *)
Theorem P_race_end_to_end : forall o r op ops J0 J1,
  wf_race r = true -> pr_ops r = op :: ops -> ro_addr op <> 0 ->
  plain_text J0 -> ends_with_lf J0 -> plain_text J1 ->
  pp_run o (J0 ++ print_race r ++ J1) =
  Ok (J0 ++ flatten (o_pal o) (write_goroutines (o_pal o) (o_filter o) (o_match o) (o_pf o)
                                 (Nat.eqb (List.length (pr_ops r)) 1 && o_banner o)
                                 (name_arguments (race_snapshot_of r))) ++ J1, true).
Proof. exact ResumePrinted.race_end_to_end. Qed.
Print Assumptions P_race_end_to_end.

(* a report followed by ANY bytes: pp writes the text before, the rendering
   of the report, and then exactly what it writes on the rest alone, with the
   same exit status *)
Theorem P_race_then_anything_pp : forall o r J0 after,
  wf_race r = true -> plain_text J0 -> ends_with_lf J0 ->
  pp_run o (J0 ++ print_race r ++ after) =
  match pp_run o after with
  | Ok (out, ok) => Ok (J0 ++ item_render o (PRace r) ++ out, ok)
  | Panic m => Panic m
  end.
Proof. exact ResumePrinted.race_then_anything_pp. Qed.
Print Assumptions P_race_then_anything_pp.

(* the same under the resume protocol: the first call returns the report's
   snapshot without error, the following calls are those on the rest *)
Theorem P_race_then_anything_seq : forall r J0 after f n,
  wf_race r = true -> plain_text J0 -> ends_with_lf J0 ->
  scan_seq (S n) (J0 ++ print_race r ++ after) f =
  match scan_seq n after f with
  | Ok (l, rem) => Ok ((Some (race_snapshot_of r), J0, ENil) :: l, rem)
  | Panic m => Panic m
  end.
Proof. exact ResumePrinted.race_then_anything_seq. Qed.
Print Assumptions P_race_then_anything_seq.

(* a race report FOLLOWED by an ordinary dump (J1 may be empty): the resume
   protocol yields both snapshots ... *)
Theorem P_race_then_dump : forall r v d J0 J1 J2 f n,
  wf_race r = true -> wf_dump v d = true -> pv_indent v = [] ->
  plain_text J0 -> ends_with_lf J0 -> plain_text J1 -> ends_with_lf J1 ->
  plain_text J2 -> starts_with_full_line J2 -> J2 <> [] ->
  (List.length (J0 ++ print_race r ++ J1 ++ print_dump v d true ++ J2) < n)%nat ->
  scan_seq n (J0 ++ print_race r ++ J1 ++ print_dump v d true ++ J2) f =
  Ok ([(Some (race_snapshot_of r), J0, ENil); (Some (snapshot_of d), J1, ENil); (None, J2, EIo f)], []).
Proof. exact ResumePrinted.race_then_dump. Qed.
Print Assumptions P_race_then_dump.

(* ... and pp writes both renderings *)
Theorem P_race_then_dump_pp : forall o r op ops v d J0 J1 J2,
  wf_race r = true -> pr_ops r = op :: ops -> ro_addr op <> 0 ->
  wf_dump v d = true -> pv_indent v = [] ->
  plain_text J0 -> ends_with_lf J0 -> plain_text J1 -> ends_with_lf J1 ->
  plain_text J2 -> starts_with_full_line J2 ->
  exists bs,
    aggregate id_shuffle (o_level o) (name_arguments (snapshot_of d)) = Ok bs /\
    pp_run o (J0 ++ print_race r ++ J1 ++ print_dump v d true ++ J2) =
    Ok (J0 ++ flatten (o_pal o) (write_goroutines (o_pal o) (o_filter o) (o_match o) (o_pf o)
                                   (Nat.eqb (List.length (pr_ops r)) 1 && o_banner o)
                                   (name_arguments (race_snapshot_of r))) ++
        J1 ++ flatten (o_pal o) (write_buckets (o_pal o) (o_filter o) (o_match o) (o_pf o)
                                   (Nat.eqb (List.length d) 1 && o_banner o) bs) ++ J2, true).
Proof. exact ResumePrinted.race_then_dump_pp. Qed.
Print Assumptions P_race_then_dump_pp.

(* ------------------------------------------------------------------ *)
(* 5. examples (vm_compute): the hypotheses hold of non-trivial data,   *)
(*    and the necessity of the side conditions                          *)
(* ------------------------------------------------------------------ *)

(* "panic: boom", the three-goroutine dump of C00_pipeline, "exit status 2",
   the race report of C08 (3 operations, 2 creation sections), NOTHING, the
   dump of C01 (3 goroutines; variant: CR LF, indented by four spaces, blank
   lines indented) and a last text whose last line is unterminated *)
Definition ex_segs : list (bytes * pitem) :=
  [ (ex_J0, PDump ex_v ex_d3);
    (s2b "exit status 2
", PRace ex_race);
    ([], PDump ex_variant ex_dump) ].
Definition ex_Jk : bytes := s2b "FAIL
bye".

Ltac ends_lf :=
  match goal with |- ends_with_lf ?J => right; exists (removelast J); vm_compute; reflexivity end.

Example P_ex_stream_ok : pstream_ok false ex_segs ex_Jk.
Proof.
  cbn [pstream_ok ex_segs item_wf is_dump].
  repeat split; try discriminate; try (vm_compute; reflexivity).
  - ends_lf.
  - ends_lf.
  - now left.
  - intros _. right. apply ReaderBase.has_lf_in. vm_compute. reflexivity.
Qed.

(* what the theorem predicts: three snapshots, the texts; the indented dump is
   followed by the unindented "FAIL": its call reports the indentation error *)
Example P_ex_expected :
  expected_items (Fail 7) ex_segs ex_Jk =
  [ (Some (snapshot_of ex_d3), ex_J0, ENil);
    (Some (race_snapshot_of ex_race), s2b "exit status 2
", ENil);
    (Some (snapshot_of ex_dump), [], EScan ErrIndent);
    (None, ex_Jk, EIo (Fail 7)) ].
Proof. vm_compute. reflexivity. Qed.

(* ... and what the model computes *)
Example P_ex_resume :
  scan_seq (S (List.length (pstream ex_segs ex_Jk))) (pstream ex_segs ex_Jk) (Fail 7) =
  Ok (expected_items (Fail 7) ex_segs ex_Jk, []).
Proof. vm_compute. reflexivity. Qed.

(* the same stream with the last dump unindented (CR LF, file lines indented
   by four spaces), through pp *)
Definition ex_v2 : p_variant := mkPV [] true (FISpaces 4) true.
Definition ex_segs_flat : list (bytes * pitem) :=
  [ (ex_J0, PDump ex_v ex_d3);
    (s2b "exit status 2
", PRace ex_race);
    ([], PDump ex_v2 ex_dump) ].

Example P_ex_flat_ok : pstream_ok false ex_segs_flat ex_Jk /\ all_flat ex_segs_flat.
Proof.
  split.
  - cbn [pstream_ok ex_segs_flat item_wf is_dump].
    repeat split; try discriminate; try (vm_compute; reflexivity).
    + ends_lf.
    + ends_lf.
    + now left.
    + intros _. right. apply ReaderBase.has_lf_in. vm_compute. reflexivity.
  - repeat constructor.
Qed.

Example P_ex_pp :
  pp_run ex_opts (pstream ex_segs_flat ex_Jk) = Ok (rendered_pstream ex_opts ex_segs_flat ex_Jk, true) /\
  rendered_pstream ex_opts ex_segs_flat ex_Jk = s2b
"panic: boom
1: running
    main main.go:21 run(#1)
    main main.go:14 main()
2: chan receive [Created by main.main @ main.go:12]
    main main.go:30 worker(*, 3)
exit status 2
7: running [Created by main.main @ main.go:9] Race write @ 0xc00001a100
    yaml.v2 decode.go:312     (*decoder).unmarshal(0xc000018000, {1, {2, _, ...}}, 0, ...)
    main    main.go:14        main.func1()
12:  Race read @ 0xc00001a100
    http    transport.go:2210 (*persistConn).readLoop(#1)
3: finished [Created by c++lib.Start.func1 @ _testmain.go:48] Race write @ 0x00000001
    runtime asm_amd64.s:1650  goexit({})
" ++ item_render ex_opts (PDump ex_v2 ex_dump) ++ ex_Jk.
Proof. split; vm_compute; reflexivity. Qed.

(* NECESSITY 1: two dumps with nothing in between are ONE dump for the
   scanner: one snapshot of 3 + 1 goroutines, not two snapshots.  (All the
   other hypotheses of P_resume_items hold.) *)
Definition ex_d1 : list p_goroutine := [mkPG 9 (s2b "select") 0 false None BUnavailable None].

Theorem P_adjacent_dumps_refuted :
  let segs := [([], PDump ex_v ex_d3); ([], PDump ex_v ex_d1)] in
  wf_dump ex_v ex_d1 = true /\ all_flat segs /\
  scan_seq (S (List.length (pstream segs []))) (pstream segs []) EOF =
    Ok ([(Some (snapshot_of (ex_d3 ++ ex_d1)), [], EIo EOF)], []) /\
  scan_seq (S (List.length (pstream segs []))) (pstream segs []) EOF <> Ok (expected_items EOF segs [], []).
Proof.
  cbv zeta. split; [vm_compute; reflexivity|]. split; [repeat constructor|].
  split; [vm_compute; reflexivity|]. vm_compute. intros H. discriminate H.
Qed.
Print Assumptions P_adjacent_dumps_refuted.

(* NECESSITY 1b: the last text must start with a complete line: an
   unterminated "goroutine 5 [running]:" is plain text (an unterminated line
   is never looked at by the scanner while it looks for a dump), yet right
   after a dump it is taken as the header of a fourth goroutine *)
Theorem P_unterminated_header_refuted :
  let J := s2b "goroutine 5 [running]:" in
  let segs := [([], PDump ex_v ex_d3)] in
  plain_text J /\ (starts_with_full_line J -> False) /\
  exists g, scan_seq (S (List.length (pstream segs J))) (pstream segs J) EOF =
    Ok ([(Some (snapshot_of ex_d3 ++ [g]), [], EIo EOF)], []).
Proof.
  cbv zeta. split; [vm_compute; reflexivity|]. split.
  - intros [H|H]; [discriminate H|]. apply ReaderBase.has_lf_in in H. vm_compute in H. discriminate H.
  - eexists. vm_compute. reflexivity.
Qed.
Print Assumptions P_unterminated_header_refuted.

(* NECESSITY 2: a first operation at address 0 is well-formed for C08
   (wf_race) but Snapshot.IsRace() is false: pp aggregates the report into
   buckets like a dump instead of writing it goroutine by goroutine *)
Definition ex_race0 : p_race :=
  mkPRace (match pr_ops ex_race with
           | op :: ops => mkPRaceOp (ro_write op) 0 (ro_gid op) (ro_frames op) :: ops
           | [] => []
           end) (pr_creations ex_race).

Theorem P_race_addr0_refuted :
  wf_race ex_race0 = true /\
  is_race (race_snapshot_of ex_race0) = false /\
  pp_run ex_opts (ex_J0 ++ print_race ex_race0 ++ ex_J1) = Ok (ex_J0 ++ s2b
"1: running [Created by main.main @ main.go:9]
    yaml.v2 decode.go:312     (*decoder).unmarshal(0xc000018000, {1, {2, _, ...}}, 0, ...)
    main    main.go:14        main.func1()
1:" ++ [32] ++ s2b "
    http    transport.go:2210 (*persistConn).readLoop(#1)
1: finished [Created by c++lib.Start.func1 @ _testmain.go:48]
    runtime asm_amd64.s:1650  goexit({})
" ++ ex_J1, true) /\
  pp_run ex_opts (ex_J0 ++ print_race ex_race0 ++ ex_J1) <>
  Ok (ex_J0 ++ flatten (o_pal ex_opts) (write_goroutines (o_pal ex_opts) (o_filter ex_opts) (o_match ex_opts)
                          (o_pf ex_opts) (Nat.eqb (List.length (pr_ops ex_race0)) 1 && o_banner ex_opts)
                          (name_arguments (race_snapshot_of ex_race0))) ++ ex_J1, true).
Proof.
  split; [vm_compute; reflexivity|]. split; [vm_compute; reflexivity|].
  split; [vm_compute; reflexivity|]. vm_compute. intros H. discriminate H.
Qed.
Print Assumptions P_race_addr0_refuted.

(* with a non-zero address (the report of C08): P_race_end_to_end, computed *)
Example P_ex_race_pp :
  pp_run ex_opts (ex_J0 ++ print_race ex_race ++ ex_J1) = Ok (ex_J0 ++ s2b
"7: running [Created by main.main @ main.go:9] Race write @ 0xc00001a100
    yaml.v2 decode.go:312     (*decoder).unmarshal(0xc000018000, {1, {2, _, ...}}, 0, ...)
    main    main.go:14        main.func1()
12:  Race read @ 0xc00001a100
    http    transport.go:2210 (*persistConn).readLoop(#1)
3: finished [Created by c++lib.Start.func1 @ _testmain.go:48] Race write @ 0x00000001
    runtime asm_amd64.s:1650  goexit({})
" ++ ex_J1, true).
Proof. vm_compute. reflexivity. Qed.

(* NECESSITY 3 (pp only): after an INDENTED dump an unindented line is an
   indentation error: the resume protocol goes on (P_ex_resume), pp writes
   what it has and exits 1 - hence all_flat in P_pp_printed *)
Theorem P_pp_indented_refuted :
  pstream_ok false [(ex_J0, PDump ex_variant ex_dump)] ex_Jk /\
  exists out, pp_run ex_opts (pstream [(ex_J0, PDump ex_variant ex_dump)] ex_Jk) = Ok (out, false).
Proof.
  split.
  - cbn [pstream_ok item_wf is_dump].
    repeat split; try discriminate; try (vm_compute; reflexivity).
    + ends_lf.
    + intros _. right. apply ReaderBase.has_lf_in. vm_compute. reflexivity.
  - eexists. vm_compute. reflexivity.
Qed.
Print Assumptions P_pp_indented_refuted.
