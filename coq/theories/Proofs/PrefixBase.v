(* Proofs/PrefixBase.v — ScanSnapshot as a pure fold of scan over the lines of
   the input ([run_lines], Spec/SeqSpec.v), for every stall-free delivery
   schedule; algebra of [run_lines] and of [lines]. *)
From PP Require Import Base.Bytes Base.BytesX Base.GoResult Model.Types Model.Lines Model.Reader Model.FuncInit Model.Scan Model.Names Model.ScanSnapshot Model.ScanSeq.
From PP Require Import Proofs.ReaderBase Proofs.ScanErrShape Proofs.ReaderProofs Proofs.ScanInv.
From PP Require Import Spec.ReaderSpec Spec.LoopSpec Spec.SeqSpec Proofs.LoopBase.
From Coq Require Import String.

(* ------------------------------------------------------------------ *)
(* 1. lines                                                             *)

Lemma first_line_ne s : s <> [] -> first_line s <> [].
Proof.
  destruct s as [|x s]; [contradiction|]. intros _. cbn [first_line].
  destruct (N.eqb x LF); discriminate.
Qed.

Lemma lines_split s t : s <> [] -> first_line s ++ t = s -> lines s = first_line s :: lines t.
Proof.
  intros Hne E. destruct (has_lf s) eqn:Hlf.
  - destruct (has_lf_true _ Hlf) as (a & t0 & Es & Hno & Hf).
    rewrite Hf in *. rewrite Es in E. rewrite <- app_assoc in E. cbn [app] in E.
    apply app_inv_head in E. injection E as ->. rewrite Es. now apply lines_lf.
  - destruct (has_lf_false _ Hlf) as [Hno Hf]. rewrite Hf in *.
    assert (E' : s ++ t = s ++ []) by now rewrite app_nil_r. apply app_inv_head in E'. subst t.
    now apply lines_nolf.
Qed.

Lemma has_lf_first_line s : has_lf (first_line s) = has_lf s.
Proof.
  destruct (has_lf s) eqn:Hlf.
  - destruct (has_lf_true _ Hlf) as (a & t0 & _ & Hno & ->).
    change (a ++ [LF]) with (a ++ LF :: []). now apply has_lf_split.
  - destruct (has_lf_false _ Hlf) as [_ ->]. exact Hlf.
Qed.

Lemma lerr_first_line s f : lerr f (first_line s) = line_err s f.
Proof. unfold lerr, line_err. now rewrite has_lf_first_line. Qed.

Lemma lines_ne_nil b : forall d, In d (lines b) -> d <> [].
Proof.
  induction b as [|x b IH]; intros d Hin; [contradiction|].
  cbn [lines] in Hin. destruct (N.eqb x LF).
  - destruct Hin as [<-|Hin]; [discriminate|now apply IH].
  - destruct (lines b) as [|l ls].
    + destruct Hin as [<-|[]]. discriminate.
    + destruct Hin as [<-|Hin]; [discriminate|]. apply IH. now right.
Qed.

(* ------------------------------------------------------------------ *)
(* 2. run_lines                                                         *)

Lemma run_lines_eq f s fw n ls :
  run_lines f s fw n ls =
  if state_eqb (st s) done then Ok (mkLrun s fw ls ENil n) else
  match ls with
  | [] => Ok (mkLrun s fw [] (EIo f) n)
  | d :: ls' =>
      match scan s d with
      | Panic m => Panic m
      | Ok (s', l, e1) =>
          let err := combine_err (lerr f d) e1 in
          if l then
            match err with
            | ENil => run_lines f s' fw (S n) ls'
            | _ => Ok (mkLrun s' fw ls' err (S n))
            end
          else if negb (state_eqb (st s') looking) then
            Ok (mkLrun s' fw (d :: ls') err (S n))
          else
            match err with
            | ENil => run_lines f s' (fw ++ d) (S n) ls'
            | _ => Ok (mkLrun s' (fw ++ d) ls' err (S n))
            end
      end
  end.
Proof. destruct ls; reflexivity. Qed.

Definition tail_bytes (b : loop_state) (sfx : option bytes) : bytes :=
  match sfx with
  | Some x => x
  | None => if state_eqb (st (l_ss b)) done then pending (l_r b) else []
  end.

(* A. the loop is the fold, for every stall-free schedule *)
Lemma loop_lines : forall fuel a,
  good a -> Inv (l_ss a) -> List.length (lstream a) < fuel ->
  exists b err sfx lr,
    scan_loop fuel a = Ok (b, err, sfx) /\
    run_lines (final (l_src a)) (l_ss a) (l_fwd a) (l_lines a) (lines (lstream a)) = Ok lr /\
    l_ss b = lr_ss lr /\ l_fwd b = lr_fwd lr /\ err = lr_err lr /\ l_lines b = lr_n lr /\
    tail_bytes b sfx ++ rest (l_src b) = List.concat (lr_rem lr) /\
    (is_eio err = true -> rest (l_src b) = []) /\
    Inv (lr_ss lr).
Proof.
  induction fuel as [|fuel IH]; intros a [Ga1 Ga2] Hinv Hfuel; [lia|].
  rewrite scan_loop_S, run_lines_eq.
  destruct (state_eqb (st (l_ss a)) done) eqn:Hdone.
  { exists a, ENil, None. eexists. split; [reflexivity|]. split; [reflexivity|].
    cbn [lr_ss lr_fwd lr_err lr_n lr_rem tail_bytes]. rewrite Hdone, concat_lines.
    repeat split; try reflexivity; try assumption. discriminate. }
  destruct (read_line_spec _ _ Ga1 Ga2) as (r' & src' & evs & A1 & A2 & A3 & A4 & A5 & A6).
  cbv zeta in A1, A5, A6. fold (lstream a) in A1, A5, A6.
  set (s := lstream a) in *. rewrite A1. clear A1.
  assert (Hgood' : forall ss fw t n, good (mkLoop ss r' src' fw t n)).
  { intros. split; assumption. }
  destruct s as [|c0 s0] eqn:Es.
  { (* the stream is exhausted *)
    cbn [first_line lines]. unfold line_err. cbn [has_lf index_byte].
    change (has_lf []) with false. cbv iota beta zeta.
    specialize (A6 eq_refl).
    do 3 eexists. eexists. split; [reflexivity|]. split; [reflexivity|].
    cbn [lr_ss lr_fwd lr_err lr_n lr_rem tail_bytes l_ss l_fwd l_lines l_r l_src List.concat].
    rewrite Hdone. cbn [app]. rewrite (stream_nil_rest _ _ A6).
    repeat split; try reflexivity; assumption. }
  rewrite <- Es in *.
  assert (Hne : s <> []) by (rewrite Es; discriminate).
  rewrite (lines_split s (stream r' src') Hne A5), <- lerr_first_line.
  pose proof (first_line_ne s Hne) as Hdne.
  pose proof (has_lf_first_line s) as Hlfd.
  set (d := first_line s) in *.
  assert (Hlt : List.length (stream r' src') < fuel).
  { unfold lstream in Hfuel. fold (lstream a) in Hfuel. fold s in Hfuel.
    rewrite <- A5, app_length in Hfuel.
    destruct d; [contradiction|]. cbn [List.length] in Hfuel. lia. }
  destruct (scan_post (l_ss a) d Hinv) as (ss' & l & e1 & Hscan & HPost).
  pose proof HPost as (Hi' & Hel & _ & _).
  destruct d as [|c d0] eqn:Ed; [contradiction|]. rewrite <- Ed in *.
  rewrite Hscan. cbv zeta.
  assert (He1 : l = true \/ state_eqb (st ss') looking = true -> e1 = None).
  { intros [->|Hl]; destruct e1 as [x|]; try reflexivity.
    - assert (F : true = false) by (apply Hel; discriminate). discriminate F.
    - destruct (scan_error_suffix _ _ _ _ _ Hscan) as [_ F]. congruence. }
  (* the recursive case *)
  assert (Hrec : forall fw,
    has_lf s = true ->
    exists b err sfx lr,
      scan_loop fuel (mkLoop ss' r' src' fw ((l_trace a ++ evs) ++ [EvLine d]) (S (l_lines a))) = Ok (b, err, sfx) /\
      run_lines (final (l_src a)) ss' fw (S (l_lines a)) (lines (stream r' src')) = Ok lr /\
      l_ss b = lr_ss lr /\ l_fwd b = lr_fwd lr /\ err = lr_err lr /\ l_lines b = lr_n lr /\
      tail_bytes b sfx ++ rest (l_src b) = List.concat (lr_rem lr) /\
      (is_eio err = true -> rest (l_src b) = []) /\ Inv (lr_ss lr)).
  { intros fw _.
    destruct (IH (mkLoop ss' r' src' fw ((l_trace a ++ evs) ++ [EvLine d]) (S (l_lines a))))
      as (b & err & sfx & lr & I); [apply Hgood'|exact Hi'|exact Hlt|].
    cbn [l_ss l_fwd l_lines l_src] in I. unfold lstream in I. cbn [l_r l_src] in I.
    rewrite A4 in I. exists b, err, sfx, lr. exact I. }
  assert (Hrec' : forall fw t,
    has_lf s = true ->
    exists b err sfx lr,
      scan_loop fuel (mkLoop ss' r' src' fw t (S (l_lines a))) = Ok (b, err, sfx) /\
      run_lines (final (l_src a)) ss' fw (S (l_lines a)) (lines (stream r' src')) = Ok lr /\
      l_ss b = lr_ss lr /\ l_fwd b = lr_fwd lr /\ err = lr_err lr /\ l_lines b = lr_n lr /\
      tail_bytes b sfx ++ rest (l_src b) = List.concat (lr_rem lr) /\
      (is_eio err = true -> rest (l_src b) = []) /\ Inv (lr_ss lr)).
  { intros fw t _.
    destruct (IH (mkLoop ss' r' src' fw t (S (l_lines a))))
      as (b & err & sfx & lr & I); [apply Hgood'|exact Hi'|exact Hlt|].
    cbn [l_ss l_fwd l_lines l_src] in I. unfold lstream in I. cbn [l_r l_src] in I.
    rewrite A4 in I. exists b, err, sfx, lr. exact I. }
  clear Hrec.
  assert (Hcat : d ++ stream r' src' = List.concat (d :: lines (stream r' src'))).
  { cbn [List.concat]. now rewrite concat_lines. }
  unfold lerr. rewrite Hlfd.
  destruct (has_lf s) eqn:Hlf.
  - (* a complete line *)
    cbn [combine_err io_is_nil_or_eof].
    destruct l.
    + rewrite (He1 (or_introl eq_refl)). apply Hrec'. reflexivity.
    + destruct (state_eqb (st ss') looking) eqn:Hlook; cbn [negb].
      * rewrite (He1 (or_intror eq_refl)). apply Hrec'. reflexivity.
      * do 3 eexists. eexists. split; [reflexivity|]. split; [reflexivity|].
        cbn [lr_ss lr_fwd lr_err lr_n lr_rem tail_bytes l_ss l_fwd l_lines l_r l_src].
        rewrite <- Hcat, <- app_assoc. unfold stream.
        repeat split; try reflexivity; try assumption.
        destruct e1; discriminate.
  - (* the unterminated tail *)
    specialize (A6 eq_refl).
    assert (Hp : pending r' = [] /\ rest src' = []).
    { unfold stream in A6. apply app_eq_nil in A6. exact A6. }
    destruct Hp as [Hp1 Hp2].
    rewrite A6 in *. cbn [lines] in *.
    destruct l.
    + rewrite (He1 (or_introl eq_refl)). cbn [combine_err].
      do 3 eexists. eexists. split; [reflexivity|]. split; [reflexivity|].
      cbn [lr_ss lr_fwd lr_err lr_n lr_rem tail_bytes l_ss l_fwd l_lines l_r l_src List.concat].
      rewrite Hp1, Hp2. destruct (state_eqb (st ss') done); repeat split; try reflexivity; assumption.
    + destruct (state_eqb (st ss') looking) eqn:Hlook; cbn [negb].
      * rewrite (He1 (or_intror eq_refl)). cbn [combine_err].
        do 3 eexists. eexists. split; [reflexivity|]. split; [reflexivity|].
        cbn [lr_ss lr_fwd lr_err lr_n lr_rem tail_bytes l_ss l_fwd l_lines l_r l_src List.concat].
        rewrite Hp1, Hp2. destruct (state_eqb (st ss') done); repeat split; try reflexivity; assumption.
      * do 3 eexists. eexists. split; [reflexivity|]. split; [reflexivity|].
        cbn [lr_ss lr_fwd lr_err lr_n lr_rem tail_bytes l_ss l_fwd l_lines l_r l_src List.concat].
        rewrite Hp1, Hp2, !app_nil_r.
        repeat split; try reflexivity; assumption.
Qed.

(* A, at the level of ScanSnapshot *)
Theorem snapshot_lines : forall na B sc f, stall_free sc ->
  exists res lr,
    scan_snapshot na (mkSource B sc f) = Ok res /\
    run_lines f ss0 [] 0 (lines B) = Ok lr /\
    agrees na res lr /\ Inv (lr_ss lr) /\
    (is_eio (rerr_out res) = true -> rest (unread res) = []).
Proof.
  intros na B sc f Hsf.
  destruct (loop_lines (S (S (List.length B))) (mkLoop ss0 reader0 (mkSource B sc f) [] [] 0))
    as (b & err & sfx & lr & H1 & H2 & H3 & H4 & H5 & H6 & H7 & H8 & H9).
  - split; [apply rinv_s_reader0|exact Hsf].
  - exact Inv_ss0.
  - unfold lstream, stream. cbn [l_r l_src reader0 pending rest app]. lia.
  - unfold lstream, stream in H2. cbn [l_r l_src l_ss l_fwd l_lines reader0 pending rest app final] in H2.
    unfold scan_snapshot. cbn [rest]. rewrite H1.
    eexists. exists lr. split; [reflexivity|]. split; [exact H2|].
    unfold agrees. cbn [snap fwd suffix unread rerr_out final_state lines_read].
    rewrite H3. unfold tail_bytes in H7. rewrite H3 in H7.
    split; [|split; [exact H9|exact H8]].
    split; [reflexivity|]. split; [exact H4|]. split; [exact H7|]. split; [exact H5|].
    split; [reflexivity|exact H6].
Qed.

(* the one-shot source, as used by scan_seq *)
Corollary snapshot_lines_oneshot : forall na B f,
  exists res lr,
    scan_snapshot na (mkSource B [] f) = Ok res /\
    run_lines f ss0 [] 0 (lines B) = Ok lr /\
    agrees na res lr /\ Inv (lr_ss lr) /\
    (is_eio (rerr_out res) = true -> rest (unread res) = []).
Proof. intros na B f. apply snapshot_lines. exact I. Qed.

(* ------------------------------------------------------------------ *)
(* 3. the shape of the list of lines                                    *)

Fixpoint abl (ls : list bytes) : Prop :=
  match ls with
  | [] => True
  | d :: ls' => (ls' <> [] -> has_lf d = true) /\ abl ls'
  end.

Lemma has_lf_cons x l : has_lf (x :: l) = N.eqb x LF || has_lf l.
Proof.
  unfold has_lf. cbn [index_byte]. destruct (N.eqb x LF); [reflexivity|].
  destruct (index_byte l LF); reflexivity.
Qed.

Lemma lines_abl b : abl (lines b).
Proof.
  induction b as [|x b IH]; [exact I|].
  cbn [lines]. destruct (N.eqb x LF) eqn:E.
  - cbn [abl]. split; [|exact IH]. intros _. rewrite has_lf_cons, E. reflexivity.
  - destruct (lines b) as [|l ls]; cbn [abl] in *.
    + split; [intros F; contradiction|exact I].
    + destruct IH as [I1 I2]. split; [|exact I2]. intros Hne. rewrite has_lf_cons, (I1 Hne).
      apply orb_true_r.
Qed.

Lemma abl_app a b : abl (a ++ b) -> abl a /\ abl b.
Proof.
  induction a as [|x a IH]; intros H; [split; [exact I|exact H]|].
  cbn [app abl] in *. destruct H as [H1 H2]. destruct (IH H2) as [I1 I2].
  split; [|exact I2]. split; [|exact I1]. intros Hne. apply H1. destruct a; [contradiction|discriminate].
Qed.

Lemma state_eqb_true a b : state_eqb a b = true -> a = b.
Proof. destruct a, b; intros H; try reflexivity; discriminate H. Qed.

Lemma state_eqb_refl a : state_eqb a a = true.
Proof. destruct a; reflexivity. Qed.

Lemma state_eqb_false a b : state_eqb a b = false -> a <> b.
Proof. intros H E. subst. rewrite state_eqb_refl in H. discriminate H. Qed.

(* one step of scan, with everything the loop needs to know *)
Lemma scan_step s d : Inv s ->
  exists s' l e1, scan s d = Ok (s', l, e1) /\ Inv s' /\
    (l = true \/ state_eqb (st s') looking = true -> e1 = None).
Proof.
  intros Hinv. destruct (scan_post s d Hinv) as (s' & l & e1 & Hscan & Hi' & Hel & _).
  exists s', l, e1. split; [exact Hscan|]. split; [exact Hi'|].
  intros [->|Hl]; destruct e1 as [x|]; try reflexivity.
  - assert (F : true = false) by (apply Hel; discriminate). discriminate F.
  - destruct (scan_error_suffix _ _ _ _ _ Hscan) as [_ F]. congruence.
Qed.

Lemma run_lines_total f : forall ls s fw n, Inv s ->
  exists lr, run_lines f s fw n ls = Ok lr /\ Inv (lr_ss lr).
Proof.
  induction ls as [|d ls IH]; intros s fw n Hinv; rewrite run_lines_eq;
    destruct (state_eqb (st s) done); try (eexists; split; [reflexivity|exact Hinv]).
  destruct (scan_step s d Hinv) as (s' & l & e1 & Hscan & Hi' & He1). rewrite Hscan. cbv zeta.
  destruct l.
  - destruct (combine_err (lerr f d) e1); try (eexists; split; [reflexivity|exact Hi']). now apply IH.
  - destruct (negb (state_eqb (st s') looking)); [eexists; split; [reflexivity|exact Hi']|].
    destruct (combine_err (lerr f d) e1); try (eexists; split; [reflexivity|exact Hi']). now apply IH.
Qed.

(* B1: the handled region is the longest prefix of continuing lines *)
Lemma run_lines_char f : forall ls s fw n lr, Inv s -> abl ls ->
  run_lines f s fw n ls = Ok lr ->
  exists hd sh,
    Handled s fw hd sh (lr_fwd lr) /\ ls = hd ++ lr_rem lr /\
    ((st sh = done /\ lr_ss lr = sh /\ lr_err lr = ENil /\ lr_n lr = n + List.length hd) \/
     (lr_rem lr = [] /\ lr_ss lr = sh /\ lr_err lr = EIo f /\ lr_n lr = n + List.length hd) \/
     (exists d rm e, lr_rem lr = d :: rm /\ rejects sh d (lr_ss lr) e /\
        lr_err lr = combine_err (lerr f d) e /\ lr_n lr = S (n + List.length hd))).
Proof.
  induction ls as [|d ls IH]; intros s fw n lr Hinv Habl H; rewrite run_lines_eq in H;
    destruct (state_eqb (st s) done) eqn:Hdone.
  - injection H as <-. exists [], s. cbn [lr_fwd lr_rem lr_ss lr_err lr_n List.length app].
    split; [constructor|]. split; [reflexivity|]. left. rewrite Nat.add_0_r.
    split; [now apply state_eqb_true|]. repeat split; reflexivity.
  - injection H as <-. exists [], s. cbn [lr_fwd lr_rem lr_ss lr_err lr_n List.length app].
    split; [constructor|]. split; [reflexivity|]. right. left. rewrite Nat.add_0_r. repeat split; reflexivity.
  - injection H as <-. exists [], s. cbn [lr_fwd lr_rem lr_ss lr_err lr_n List.length app].
    split; [constructor|]. split; [reflexivity|]. left. rewrite Nat.add_0_r.
    split; [now apply state_eqb_true|]. repeat split; reflexivity.
  - destruct Habl as [Hd Habl].
    destruct (scan_step s d Hinv) as (s' & l & e1 & Hscan & Hi' & He1). rewrite Hscan in H. cbv zeta in H.
    (* the two ways a handled line ends the loop or not *)
    assert (Hgo : forall fw1,
      e1 = None ->
      (Handled s' fw1 [] s' fw1 -> Handled s fw [d] s' fw1) ->
      (forall hd sh fw2, Handled s' fw1 hd sh fw2 -> Handled s fw (d :: hd) sh fw2) ->
      match combine_err (lerr f d) e1 with
      | ENil => run_lines f s' fw1 (S n) ls
      | _ => Ok (mkLrun s' fw1 ls (combine_err (lerr f d) e1) (S n))
      end = Ok lr ->
      exists hd sh,
        Handled s fw hd sh (lr_fwd lr) /\ d :: ls = hd ++ lr_rem lr /\
        ((st sh = done /\ lr_ss lr = sh /\ lr_err lr = ENil /\ lr_n lr = n + List.length hd) \/
         (lr_rem lr = [] /\ lr_ss lr = sh /\ lr_err lr = EIo f /\ lr_n lr = n + List.length hd) \/
         (exists d rm e, lr_rem lr = d :: rm /\ rejects sh d (lr_ss lr) e /\
            lr_err lr = combine_err (lerr f d) e /\ lr_n lr = S (n + List.length hd)))).
    { intros fw1 -> Hone Hcons Hm. unfold lerr in Hm. destruct (has_lf d) eqn:Hlf; cbn [combine_err] in Hm.
      - destruct (IH _ _ _ _ Hi' Habl Hm) as (hd & sh & I1 & I2 & I3).
        exists (d :: hd), sh. split; [now apply Hcons|]. split; [cbn [app]; now rewrite I2|].
        cbn [List.length]. rewrite <- !plus_n_Sm. exact I3.
      - injection Hm as <-. cbn [lr_fwd lr_rem lr_ss lr_err lr_n].
        assert (Hls : ls = []).
        { destruct ls; [reflexivity|]. assert (F : false = true) by (apply Hd; discriminate).
          discriminate F. }
        exists [d], s'. split; [apply Hone; constructor|]. split; [now rewrite Hls|].
        right. left. cbn [List.length]. rewrite Hls. repeat split; try reflexivity. lia. }
    destruct l.
    + apply (Hgo fw (He1 (or_introl eq_refl))); [| |exact H].
      * intros Hh. rewrite (He1 (or_introl eq_refl)) in Hscan. eapply H_acc; eassumption.
      * intros hd sh fw2 Hh. rewrite (He1 (or_introl eq_refl)) in Hscan. eapply H_acc; eassumption.
    + destruct (state_eqb (st s') looking) eqn:Hlook; cbn [negb] in H.
      * pose proof (state_eqb_true _ _ Hlook) as Hl'.
        apply (Hgo (fw ++ d) (He1 (or_intror eq_refl))); [| |exact H].
        -- intros Hh. rewrite (He1 (or_intror eq_refl)) in Hscan. eapply H_fwd; eassumption.
        -- intros hd sh fw2 Hh. rewrite (He1 (or_intror eq_refl)) in Hscan. eapply H_fwd; eassumption.
      * injection H as <-. cbn [lr_fwd lr_rem lr_ss lr_err lr_n].
        exists [], s. split; [constructor|]. split; [reflexivity|]. right. right.
        exists d, ls, e1. split; [reflexivity|]. split; [unfold rejects; tauto|].
        split; [reflexivity|]. cbn [List.length]. now rewrite Nat.add_0_r.
Qed.

(* the forwarded bytes only grow *)
Lemma run_lines_fwd_mono f : forall ls s fw n lr,
  run_lines f s fw n ls = Ok lr -> exists x, lr_fwd lr = fw ++ x.
Proof.
  induction ls as [|d ls IH]; intros s fw n lr H; rewrite run_lines_eq in H;
    destruct (state_eqb (st s) done);
    try (injection H as <-; exists []; cbn [lr_fwd]; now rewrite app_nil_r).
  destruct (scan s d) as [[[s' l] e1]|m]; [|discriminate H]. cbv zeta in H.
  destruct l.
  - destruct (combine_err (lerr f d) e1);
      try (injection H as <-; exists []; cbn [lr_fwd]; now rewrite app_nil_r).
    now apply (IH _ _ _ _ H).
  - destruct (negb (state_eqb (st s') looking)).
    + injection H as <-; exists []; cbn [lr_fwd]; now rewrite app_nil_r.
    + destruct (combine_err (lerr f d) e1);
        try (injection H as <-; exists d; reflexivity).
      destruct (IH _ _ _ _ H) as (x & Hx). exists (d ++ x). now rewrite Hx, app_assoc.
Qed.

(* a prefix of complete lines: either the fold stops inside it, or it goes
   through and continues on what follows *)
Lemma run_lines_app f X : forall P s fw n lr,
  Forall (fun d => has_lf d = true) P ->
  run_lines f s fw n P = Ok lr ->
  run_lines f s fw n (P ++ X) =
    if is_eio (lr_err lr)
    then run_lines f (lr_ss lr) (lr_fwd lr) (lr_n lr) X
    else Ok (mkLrun (lr_ss lr) (lr_fwd lr) (lr_rem lr ++ X) (lr_err lr) (lr_n lr)).
Proof.
  induction P as [|d P IH]; intros s fw n lr Hc H; rewrite run_lines_eq in H.
  - cbn [app]. destruct (state_eqb (st s) done) eqn:Hdone; injection H as <-;
      cbn [lr_ss lr_fwd lr_rem lr_err lr_n is_eio app]; [|reflexivity].
    rewrite run_lines_eq, Hdone. reflexivity.
  - inversion Hc as [|? ? Hd Hc']. subst.
    cbn [app]. rewrite (run_lines_eq f s fw n (d :: P ++ X)).
    destruct (state_eqb (st s) done) eqn:Hdone.
    { injection H as <-. reflexivity. }
    destruct (scan s d) as [[[s' l] e1]|m]; [|discriminate H]. cbv zeta in *.
    unfold lerr in *. rewrite Hd in *. cbn [combine_err io_is_nil_or_eof] in *.
    destruct l.
    + destruct e1 as [x|]; [injection H as <-; reflexivity|]. now apply IH.
    + destruct (negb (state_eqb (st s') looking)).
      * injection H as <-. cbn [lr_ss lr_fwd lr_rem lr_err lr_n app].
        destruct e1; reflexivity.
      * destruct e1 as [x|]; [injection H as <-; reflexivity|]. now apply IH.
Qed.

(* junk: lines that do not start anything are forwarded, the state stays ss0 *)
Lemma not_start_scan line : not_start_line line = true -> scan ss0 line = Ok (ss0, false, None).
Proof.
  unfold not_start_line, eol_trim. intros H. rewrite scan_unfold. unfold scan_tr.
  change (state_eqb (st ss0) looking || state_eqb (st ss0) done) with true.
  assert (Hbody : forall t, match try_header ss0 t with Some _ => false | None => negb (beq t race_header_footer) end = true ->
            match scan_pre ss0 t with
            | (s', None) => ret s' false (Some ErrIndent)
            | (_, Some trimmed) => scan_body ss0 trimmed
            end = Ok (ss0, false, None)).
  { intros t Ht. rewrite scan_pre_noprefix by reflexivity.
    unfold scan_body. change (st ss0) with looking. cbv iota. unfold header_or_end.
    destruct (try_header ss0 t); [discriminate Ht|].
    change (state_eqb (st ss0) looking) with true. cbn [andb].
    destruct (beq t race_header_footer); [discriminate Ht|reflexivity]. }
  destruct (strip_suffix [CR; LF] line) as [t|]; [now apply Hbody|].
  destruct (strip_suffix [LF] line) as [t|]; [now apply Hbody|reflexivity].
Qed.

Lemma run_lines_junk f X : forall P fw n,
  Forall (fun d => has_lf d = true) P -> forallb not_start_line P = true ->
  run_lines f ss0 fw n (P ++ X) = run_lines f ss0 (fw ++ List.concat P) (n + List.length P) X.
Proof.
  induction P as [|d P IH]; intros fw n Hc Hns.
  - cbn [app List.concat List.length]. now rewrite app_nil_r, Nat.add_0_r.
  - inversion Hc as [|? ? Hd Hc']. subst. cbn [forallb] in Hns. apply andb_prop in Hns.
    destruct Hns as [N1 N2]. cbn [app]. rewrite run_lines_eq.
    change (state_eqb (st ss0) done) with false. cbv iota.
    rewrite (not_start_scan _ N1). cbv zeta. unfold lerr. rewrite Hd.
    change (state_eqb (st ss0) looking) with true. cbn [negb combine_err].
    rewrite IH by assumption. cbn [List.concat List.length]. rewrite app_assoc, <- plus_n_Sm. reflexivity.
Qed.

(* junk up to the end of the stream *)
Lemma run_lines_junk_end f : forall P fw n,
  abl P -> forallb not_start_line P = true ->
  run_lines f ss0 fw n P = Ok (mkLrun ss0 (fw ++ List.concat P) [] (EIo f) (n + List.length P)).
Proof.
  induction P as [|d P IH]; intros fw n Hc Hns.
  - cbn [List.concat List.length]. rewrite app_nil_r, Nat.add_0_r. reflexivity.
  - destruct Hc as [Hd Hc']. cbn [forallb] in Hns. apply andb_prop in Hns.
    destruct Hns as [N1 N2]. rewrite run_lines_eq.
    change (state_eqb (st ss0) done) with false. cbv iota.
    rewrite (not_start_scan _ N1). cbv zeta.
    change (state_eqb (st ss0) looking) with true. cbn [negb].
    unfold lerr. destruct (has_lf d) eqn:Hlf; cbn [combine_err].
    + rewrite IH by assumption. cbn [List.concat List.length]. rewrite app_assoc, <- plus_n_Sm. reflexivity.
    + assert (HP : P = []).
      { destruct P; [reflexivity|]. assert (F : false = true) by (apply Hd; discriminate).
        discriminate F. }
      subst P. cbn [List.concat List.length]. rewrite app_nil_r, Nat.add_1_r. reflexivity.
Qed.

(* a dump: lines that are all accepted *)
Lemma run_lines_accept f X : forall P s s' fw n,
  Forall (fun d => has_lf d = true) P -> Inv s -> accept_all s P = Some s' ->
  run_lines f s fw n (P ++ X) = run_lines f s' fw (n + List.length P) X /\ Inv s'.
Proof.
  induction P as [|d P IH]; intros s s' fw n Hc Hinv Ha.
  - injection Ha as <-. cbn [app List.length]. now rewrite Nat.add_0_r.
  - inversion Hc as [|? ? Hd Hc']. subst. cbn [accept_all] in Ha.
    cbn [app]. rewrite run_lines_eq.
    destruct (state_eqb (st s) done); [discriminate Ha|].
    destruct (scan_step s d Hinv) as (s1 & l & e1 & Hscan & Hi1 & He1). rewrite Hscan in *.
    destruct l; [|discriminate Ha]. cbv zeta. rewrite (He1 (or_introl eq_refl)).
    unfold lerr. rewrite Hd. cbn [combine_err].
    destruct (IH _ _ fw (S n) Hc' Hi1 Ha) as [I1 I2]. rewrite I1. cbn [List.length].
    rewrite <- plus_n_Sm. split; [reflexivity|exact I2].
Qed.

(* once a goroutine exists nothing is forwarded *)
Lemma run_lines_nofwd f : forall ls s fw n lr, Inv s -> goroutines s <> [] ->
  run_lines f s fw n ls = Ok lr -> lr_fwd lr = fw.
Proof.
  induction ls as [|d ls IH]; intros s fw n lr Hinv Hg H; rewrite run_lines_eq in H;
    destruct (state_eqb (st s) done); try (injection H as <-; reflexivity).
  destruct (scan_post s d Hinv) as (s' & l & e1 & Hscan & Hi' & _ & Hm & _). rewrite Hscan in H. cbv zeta in H.
  assert (Hg' : goroutines s' <> []).
  { intros E. rewrite E in Hm. destruct (goroutines s); [contradiction|cbn in Hm; lia]. }
  destruct l.
  - destruct (combine_err (lerr f d) e1); try (injection H as <-; reflexivity). now apply (IH _ _ _ _ Hi' Hg' H).
  - destruct (state_eqb (st s') looking) eqn:Hlook; cbn [negb] in H.
    + exfalso. apply Hg'. apply (Inv_looking _ Hi'). now apply state_eqb_true.
    + injection H as <-. reflexivity.
Qed.
