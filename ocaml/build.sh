#!/bin/sh
# Extracts the Coq model to OCaml and builds the driver.  Run from anywhere.
set -e
HERE=$(cd "$(dirname "$0")" && pwd)
B="$HERE/../build"
mkdir -p "$B"
cd "$B"
rm -f Extract.vo Extract.glob
coqc -Q "$HERE/../coq/theories" PP -o "$B/Extract.vo" "$HERE/../coq/extract/Extract.v" > "$B/extract.log" 2>&1 || { cat "$B/extract.log"; exit 1; }
cp "$HERE/driver.ml" "$B/driver.ml"
ocamlfind ocamlopt -O3 -w -a -package str model.mli model.ml driver.ml -o driver 2>/dev/null || \
ocamlfind ocamlopt -w -a model.mli model.ml driver.ml -o driver
