(* Proofs/Compose.v — the stage theorems composed into end-to-end statements
   about the whole pipeline (scan -> snapshot -> name -> aggregate -> render),
   for every input.

   1. FirstOk: in every scanner state the goroutine flagged First is exactly
      the one at index 0 (invariant of scan, together with ScanInv.Inv).
   2. aggregate_parsed: whatever scan_snapshot returns is partitioned by
      aggregate into exactly its similarity classes, truthfully, in contract
      order, independently of the map oracle.
   3. names_parsed: naming on vs off on the same input.
   4. dump_end_to_end: print a dump, run the program: the output is the
      rendering of the aggregated named snapshot of the AST.
   5. total_pipeline. *)
From PP Require Import Base.Bytes Base.BytesX Base.Num Base.GoResult Model.Types Model.Lines Model.Reader Model.FuncInit Model.ParseArgs Model.Scan Model.Names Model.ScanSnapshot.
From PP Require Import Proofs.NamesBase Proofs.NamesProofs Proofs.ScanInv Proofs.LoopProofs Proofs.ScanWf.
From PP Require Import Spec.Wf Spec.NamesSpec Spec.BucketSpec.
From PP Require Import Model.Stack Model.Bucket Model.UI Model.Process Proofs.DetProofs.
From PP Require Import Proofs.Aggregate Proofs.Truthful Proofs.Order.
From Coq Require Import String Permutation Lia.

(* ------------------------------------------------------------------ *)
(* 1. First is true exactly at index 0                                  *)
(* ------------------------------------------------------------------ *)

Definition first_shape (n : nat) : list bool :=
  match n with O => [] | S k => true :: repeat false k end.

Definition FirstOk (gs : list Goroutine) : Prop := map First gs = first_shape (List.length gs).

Lemma first_shape_snoc n : first_shape (S n) = first_shape n ++ [Nat.eqb n 0].
Proof.
  destruct n as [|k]; [reflexivity|]. cbn [first_shape Nat.eqb]. rewrite <- app_comm_cons. f_equal.
  induction k as [|k IH]; [reflexivity|]. cbn [repeat app]. f_equal. exact IH.
Qed.

Lemma FirstOk_nil : FirstOk [].
Proof. reflexivity. Qed.

Lemma FirstOk_snoc gs g : FirstOk gs ->
  First g = (match gs with [] => true | _ => false end) -> FirstOk (gs ++ [g]).
Proof.
  unfold FirstOk. intros H Hg. rewrite map_app, app_length, H. cbn [map List.length].
  replace (List.length gs + 1) with (S (List.length gs)) by lia.
  rewrite first_shape_snoc, Hg. destruct gs; reflexivity.
Qed.

Lemma FirstOk_same gs gs' : map First gs' = map First gs -> FirstOk gs -> FirstOk gs'.
Proof.
  unfold FirstOk. intros E H. rewrite E, H. f_equal.
  rewrite <- (map_length First gs), <- (map_length First gs'), E. reflexivity.
Qed.

Lemma map_First_upd_last (l : list Goroutine) g cur :
  last_opt l = Some cur -> First g = First cur ->
  map First (upd_last (fun _ => g) l) = map First l.
Proof.
  induction l as [|x l IH]; intros Hl Hg; [reflexivity|].
  destruct l as [|y l'].
  - cbn in Hl. injection Hl as <-. cbn. rewrite Hg. reflexivity.
  - change (upd_last (fun _ => g) (x :: y :: l')) with (x :: upd_last (fun _ => g) (y :: l')).
    cbn [map]. f_equal. apply IH; [exact Hl|exact Hg].
Qed.

Lemma map_First_upd_nth (f : Goroutine -> Goroutine) : (forall g, First (f g) = First g) ->
  forall l n, map First (upd_nth n f l) = map First l.
Proof.
  intros Hf. induction l as [|x l IH]; intros n; [destruct n; reflexivity|].
  destruct n as [|n]; cbn [upd_nth map]; [rewrite Hf; reflexivity|rewrite IH; reflexivity].
Qed.

Lemma FirstOk_nth gs : FirstOk gs -> forall i g, nth_error gs i = Some g -> First g = Nat.eqb i 0.
Proof.
  unfold FirstOk. intros H i g Hn.
  pose proof (map_nth_error First _ _ Hn) as Hm. rewrite H in Hm.
  destruct gs as [|g0 gs']; [destruct i; discriminate|].
  cbn [List.length first_shape] in Hm. destruct i as [|i]; cbn [nth_error Nat.eqb] in *.
  - injection Hm as <-. reflexivity.
  - apply nth_error_In, repeat_spec in Hm. exact Hm.
Qed.

Lemma FirstOk_count gs : FirstOk gs -> count_first gs <= 1.
Proof.
  unfold FirstOk, count_first. intros H.
  assert (E : List.length (filter First gs) = List.length (filter (fun b : bool => b) (map First gs))).
  { clear H. induction gs as [|g gs IH]; [reflexivity|]. cbn [filter map]. destruct (First g); cbn [List.length]; rewrite IH; reflexivity. }
  rewrite E, H. destruct (List.length gs) as [|k]; [cbn; lia|].
  cbn [first_shape filter List.length].
  assert (Hz : filter (fun b : bool => b) (repeat false k) = []).
  { clear. induction k as [|k IH]; [reflexivity|exact IH]. }
  rewrite Hz. cbn. lia.
Qed.

Lemma FirstOk_name_arguments gs : FirstOk gs -> FirstOk (name_arguments gs).
Proof.
  apply FirstOk_same. unfold name_arguments. rewrite map_map. apply map_ext. intros g. reflexivity.
Qed.

(* the state predicate *)
Definition FS (s : sstate) : Prop := FirstOk (goroutines s).

Definition StepF (r : result) : Prop := forall s' l e, r = Ok (s', l, e) -> FS s'.

Lemma stepf_ret s' l e : FS s' -> StepF (ret s' l e).
Proof. intros H s1 l1 e1 E. injection E as <- _ _. exact H. Qed.

Lemma stepf_panic m : StepF (Panic m).
Proof. intros s1 l1 e1 E. discriminate E. Qed.

Lemma FS_set_cur s g cur : FS s -> last_opt (goroutines s) = Some cur -> First g = First cur -> FS (set_cur s g).
Proof.
  intros H Hl Hg. unfold FS, set_cur. cbn [goroutines with_gs].
  exact (FirstOk_same _ _ (map_First_upd_last _ _ _ Hl Hg) H).
Qed.

Lemma FS_upd_nth s n f s' : FS s -> (forall g, First (f g) = First g) ->
  goroutines s' = upd_nth n f (goroutines s) -> FS s'.
Proof.
  intros H Hf E. unfold FS. rewrite E. exact (FirstOk_same _ _ (map_First_upd_nth f Hf _ n) H).
Qed.

Lemma try_header_f s t s' : FS s -> try_header s t = Some s' -> FS s'.
Proof.
  intros H Hh. destruct (try_header_shape _ _ _ Hh) as (g & ind & -> & _ & _ & E).
  unfold FS. cbn [goroutines]. apply FirstOk_snoc; [exact H|exact E].
Qed.

Lemma func_step_f s line next upd notfound :
  (forall c s1, upd c s = Ok s1 -> FS s1) ->
  StepF notfound -> StepF (func_step s line next upd notfound).
Proof.
  intros Hupd Hnf. unfold func_step.
  destruct (parse_func line) as [[[c e]|]|m] eqn:Hp; cbn [bind]; [| exact Hnf | apply stepf_panic].
  destruct (upd c s) as [s1|m] eqn:Hu; cbn [bind]; [|apply stepf_panic].
  apply stepf_ret. exact (Hupd c s1 Hu).
Qed.

Lemma add_call_cur_f s : FS s -> forall c s1, add_call_cur c s = Ok s1 -> FS s1.
Proof.
  intros H c s1 E. unfold add_call_cur in E.
  destruct (last_opt (goroutines s)) as [g|] eqn:Hl; [|discriminate].
  injection E as <-. (apply (FS_set_cur _ _ _ H Hl); reflexivity).
Qed.

Lemma file_step_f s line calls store next what :
  FS s -> (forall cs, FS (store cs)) ->
  StepF (file_step s line calls store next what).
Proof.
  intros H Hst. unfold file_step.
  destruct (last_opt calls) as [c|] eqn:Hl; [|apply stepf_panic].
  destruct (parse_file c line) as [[c' [e|]]|] eqn:Hp; try (apply stepf_ret; exact H).
  apply stepf_ret. exact (Hst _).
Qed.

Lemma created_step_f s g sym b : FS s -> last_opt (goroutines s) = Some g -> StepF (created_step s g sym b).
Proof.
  intros H Hl. unfold created_step.
  destruct (func_init sym) as [[f|]|m]; cbn [bind]; [| |apply stepf_panic];
    apply stepf_ret; (apply (FS_set_cur _ _ _ H Hl); reflexivity).
Qed.

Lemma race_goroutine_step_f s t : FS s -> StepF (race_goroutine_step s t).
Proof.
  intros H. rewrite race_goroutine_step_unfold.
  destruct (match_race_goroutine t) as [[ds stt]|]; [|apply stepf_ret; exact H].
  destruct (atou ds) as [id|]; [|apply stepf_ret; exact H].
  destruct (find_id id 0 (goroutines s)) as [i|]; [|apply stepf_ret; exact H].
  apply stepf_ret. eapply FS_upd_nth; [exact H| |reflexivity]. intros g. reflexivity.
Qed.

Lemma race_goroutine_func_step_f s t : FS s -> StepF (race_goroutine_func_step s t).
Proof.
  intros H. unfold race_goroutine_func_step.
  apply func_step_f; [|apply stepf_ret; exact H].
  intros c s1 E. cbv beta in E.
  destruct (nth_error (goroutines s) (gindex s)) as [g|] eqn:Hn; [|discriminate].
  injection E as <-. eapply FS_upd_nth; [exact H| |reflexivity]. intros g'. reflexivity.
Qed.

(* an operation header appends a goroutine whose First is the flag [first];
   the flag may only be set on an empty list (else: the internal-failure
   panic), and a cleared flag needs a non-empty list *)
Lemma race_op_header_f s m first t r : FS s ->
  (first = false -> goroutines s <> []) ->
  race_op_header s m first t = Some r -> StepF r.
Proof.
  intros H Hne E. unfold race_op_header in E.
  destruct m as [[[w addr] ds]|]; [|discriminate].
  injection E as <-.
  destruct (parse_uint addr) as [a|]; [|apply stepf_ret; exact H].
  destruct (atou ds) as [id|]; [|apply stepf_ret; exact H].
  destruct (first && _) eqn:Hif; [apply stepf_panic|].
  apply stepf_ret. unfold FS. cbn [goroutines]. apply FirstOk_snoc; [exact H|].
  cbn [First]. destruct first.
  - destruct (goroutines s); [reflexivity|discriminate Hif].
  - destruct (goroutines s); [exfalso; exact (Hne eq_refl eq_refl)|reflexivity].
Qed.

Lemma header_or_end_f t s : FS s -> StepF (header_or_end t s).
Proof.
  intros H. unfold header_or_end.
  destruct (try_header s t) as [s'|] eqn:Hh.
  - apply stepf_ret. exact (try_header_f _ _ _ H Hh).
  - destruct (state_eqb (st s) looking && beq t race_header_footer).
    + apply stepf_ret. exact H.
    + apply stepf_ret. destruct (state_eqb (st s) looking); exact H.
Qed.

Ltac with_cur_f cur Hcur :=
  unfold with_cur;
  match goal with
  | |- StepF (match last_opt ?gs with _ => _ end) =>
      destruct (last_opt gs) as [cur|] eqn:Hcur; [|apply stepf_panic]
  end.

Lemma scan_body_f s t : Inv s -> FS s -> StepF (scan_body s t).
Proof.
  intros HI H. unfold scan_body.
  destruct (st s) eqn:Hst.
  - (* looking *) apply header_or_end_f, H.
  - (* done *) apply stepf_ret, H.
  - (* betweenRoutine *) apply header_or_end_f, H.
  - (* gotRoutineHeader *)
    with_cur_f cur Hcur.
    destruct (match_unavail t).
    + apply stepf_ret. (apply (FS_set_cur _ _ _ H Hcur); reflexivity).
    + apply func_step_f; [apply add_call_cur_f, H|apply stepf_ret, H].
  - (* gotFunc *)
    with_cur_f cur Hcur.
    apply file_step_f; [exact H|]. intros cs. (apply (FS_set_cur _ _ _ H Hcur); reflexivity).
  - (* gotCreated *)
    with_cur_f cur Hcur.
    destruct (Calls (CreatedBy (GSig cur))) as [|c rest] eqn:Hcalls; [apply stepf_panic|].
    destruct (parse_file c t) as [[c' [e|]]|] eqn:Hp; try (apply stepf_ret; exact H).
    apply stepf_ret. (apply (FS_set_cur _ _ _ H Hcur); reflexivity).
  - (* gotFileFunc *)
    with_cur_f cur Hcur.
    destruct (match_created t) as [sym|].
    + apply created_step_f; assumption.
    + destruct (is_frames_elided t).
      * apply stepf_ret. (apply (FS_set_cur _ _ _ H Hcur); reflexivity).
      * apply func_step_f; [apply add_call_cur_f, H|].
        destruct t; apply stepf_ret; exact H.
  - (* gotFileCreated *)
    destruct t; apply stepf_ret; exact H.
  - (* gotUnavail *)
    destruct t as [|x t']; [apply stepf_ret; exact H|].
    with_cur_f cur Hcur.
    destruct (match_created (x :: t')) as [sym|].
    + apply created_step_f; assumption.
    + apply stepf_ret; exact H.
  - (* gotRaceHeader1 *)
    destruct (beq t race_header); apply stepf_ret; exact H.
  - (* gotRaceHeader2 *)
    destruct (race_op_header s (match_race_op t) true t) as [r|] eqn:Hr.
    + refine (race_op_header_f _ _ _ _ _ H _ Hr). intros E; discriminate E.
    + apply stepf_ret; exact H.
  - (* gotRaceOperationHeader *)
    apply func_step_f; [apply add_call_cur_f, H|apply stepf_ret, H].
  - (* gotRaceOperationFunc *)
    with_cur_f cur Hcur.
    apply file_step_f; [exact H|]. intros cs. (apply (FS_set_cur _ _ _ H Hcur); reflexivity).
  - (* gotRaceOperationFile *)
    destruct t as [|x t']; [apply stepf_ret; exact H|].
    apply func_step_f; [apply add_call_cur_f, H|apply stepf_ret, H].
  - (* betweenRaceOperations *)
    destruct (race_op_header s (match_race_prev t) false t) as [r|] eqn:Hr.
    + refine (race_op_header_f _ _ _ _ _ H _ Hr). intros _.
      unfold Inv in HI. rewrite Hst in HI. exact HI.
    + apply race_goroutine_step_f, H.
  - (* gotRaceGoroutineHeader *)
    apply race_goroutine_func_step_f, H.
  - (* gotRaceGoroutineFunc *)
    destruct (nth_error (goroutines s) (gindex s)) as [g|] eqn:Hn; [|apply stepf_panic].
    apply file_step_f; [exact H|].
    intros cs. eapply FS_upd_nth; [exact H| |reflexivity]. intros g'. reflexivity.
  - (* gotRaceGoroutineFile *)
    destruct t as [|x t']; [apply stepf_ret; exact H|].
    destruct (beq (x :: t') race_header_footer); [apply stepf_ret; exact H|].
    apply race_goroutine_func_step_f, H.
  - (* betweenRaceGoroutines *)
    apply race_goroutine_step_f, H.
Qed.

(* the invariant: every reachable state (Inv), every line *)
Theorem scan_preserves_first : forall s line s' l e,
  scan s line = Ok (s', l, e) -> Inv s -> FS s -> FS s'.
Proof.
  intros s line s' l e E HI H. rewrite scan_unfold in E.
  destruct (scan_tr s line) as [t0|].
  - destruct (scan_pre_cases s t0) as [(t & Ht)|(Ht & _)]; rewrite Ht in E.
    + exact (scan_body_f s t HI H _ _ _ E).
    + injection E as <- _ _. exact H.
  - injection E as <- _ _. exact H.
Qed.

Lemma log_first : forall log s, Forall item_ok log -> linked s log -> FS s -> FS (last_state s log).
Proof.
  induction log as [|it log IH]; intros s Hok Hl H; [exact H|].
  inversion Hok as [|? ? Hit Hok']; subst. destruct Hl as [Hpre Hl]. cbn [last_state].
  apply (IH _ Hok' Hl). destruct Hit as (_ & _ & HI & Hs & _). rewrite Hpre in Hs, HI.
  exact (scan_preserves_first _ _ _ _ _ Hs HI H).
Qed.

(* the list behind a snapshot: good (ScanWf) and First-shaped *)
Theorem snapshot_goroutines_first : forall na src res,
  scan_snapshot na src = Ok res ->
  exists gs0, good_gs gs0 /\ FirstOk gs0 /\
    snap res = match gs0 with [] => None | _ => Some (if na then name_arguments gs0 else gs0) end.
Proof.
  intros na src res H.
  destruct (snapshot_inv _ _ _ H) as (out & log & -> & Hrun).
  destruct (run_linked _ _ _ Hrun) as [Hl Hls].
  pose proof (run_items _ _ _ Hrun) as Hi.
  cbn [init_ls l_ss] in Hl, Hls.
  pose proof (log_wf log ss0 Hi Hl WfS_ss0) as Hw. rewrite <- Hls in Hw.
  pose proof (log_first log ss0 Hi Hl FirstOk_nil) as Hf. rewrite <- Hls in Hf.
  destruct out as [[ls err] sfx]. unfold o_ls in Hw, Hf. cbn [fst] in Hw, Hf.
  exists (goroutines (l_ss ls)). split; [exact Hw|]. split; [exact Hf|reflexivity].
Qed.

Lemma snapshot_firstok : forall na src res gs,
  scan_snapshot na src = Ok res -> snap res = Some gs -> FirstOk gs.
Proof.
  intros na src res gs H Hs.
  destruct (snapshot_goroutines_first _ _ _ H) as (gs0 & _ & Hf & E). rewrite E in Hs.
  destruct gs0 as [|g0 gs0']; [discriminate|]. injection Hs as <-.
  destruct na; [exact (FirstOk_name_arguments _ Hf)|exact Hf].
Qed.

Theorem first_at_most_one : forall na src res gs,
  scan_snapshot na src = Ok res -> snap res = Some gs ->
  count_first gs <= 1 /\ (forall i g, nth_error gs i = Some g -> First g = Nat.eqb i 0).
Proof.
  intros na src res gs H Hs. pose proof (snapshot_firstok _ _ _ _ H Hs) as Hf.
  split; [exact (FirstOk_count _ Hf)|exact (FirstOk_nth _ Hf)].
Qed.

(* ------------------------------------------------------------------ *)
(* 2. whatever the parser returns, aggregate handles as specified       *)
(* ------------------------------------------------------------------ *)

Theorem aggregate_parsed : forall na src res gs sh lvl,
  (forall k l, Permutation (sh k l) l) ->
  scan_snapshot na src = Ok res -> snap res = Some gs ->
  exists bs, aggregate sh lvl gs = Ok bs /\
    c04_ok gs bs = true /\ c05_ok lvl gs bs = true /\ c12_ok gs bs = true /\ c13_ok bs = true /\
    aggregate id_shuffle lvl gs = Ok bs.
Proof.
  intros na src res gs sh lvl Hsh H Hs.
  pose proof (scan_snapshot_wf _ _ _ H _ Hs) as Hwf.
  destruct (first_at_most_one _ _ _ _ H Hs) as [Hc _].
  destruct (partition_ok sh lvl gs) as (bs & Hb & H4).
  exists bs. split; [exact Hb|]. split; [exact H4|].
  split; [exact (buckets_are_classes sh lvl gs bs Hsh Hwf Hb)|].
  split; [exact (truthful sh lvl gs bs Hb)|].
  split; [exact (aggregate_order_ok sh lvl gs bs Hc Hb)|].
  rewrite <- Hb. exact (aggregate_oracle_independent id_shuffle sh lvl gs id_shuffle_perm Hsh Hwf).
Qed.

(* the explicit two-oracle form *)
Theorem aggregate_parsed_oracle_free : forall na src res gs sh1 sh2 lvl,
  (forall k l, Permutation (sh1 k l) l) -> (forall k l, Permutation (sh2 k l) l) ->
  scan_snapshot na src = Ok res -> snap res = Some gs ->
  aggregate sh1 lvl gs = aggregate sh2 lvl gs.
Proof.
  intros na src res gs sh1 sh2 lvl H1 H2 H Hs.
  exact (aggregate_oracle_independent sh1 sh2 lvl gs H1 H2 (scan_snapshot_wf _ _ _ H _ Hs)).
Qed.

(* ------------------------------------------------------------------ *)
(* 3. naming on vs off on the same input                                *)
(* ------------------------------------------------------------------ *)

Theorem names_parsed : forall src r0 r1 g0,
  scan_snapshot false src = Ok r0 -> scan_snapshot true src = Ok r1 -> snap r0 = Some g0 ->
  exists g1, snap r1 = Some g1 /\ g1 = name_arguments g0 /\ c15_ok g0 g1 = true.
Proof.
  intros src r0 r1 g0 H0 H1 Hs.
  pose proof (scanner_sets_no_name _ _ _ H0 Hs) as Hnn.
  unfold scan_snapshot in H0, H1.
  destruct (scan_loop _ _) as [[[ls err] sfx]|m]; [|discriminate].
  injection H0 as <-. injection H1 as <-. cbn [snap] in *.
  destruct (goroutines (l_ss ls)) as [|g gs]; [discriminate|]. injection Hs as <-.
  eexists. split; [reflexivity|]. split; [reflexivity|]. exact (labelling _ Hnn).
Qed.

(* the other fields of the result do not depend on the naming option *)
Theorem names_only_snap : forall src r0 r1,
  scan_snapshot false src = Ok r0 -> scan_snapshot true src = Ok r1 ->
  fwd r1 = fwd r0 /\ suffix r1 = suffix r0 /\ rerr_out r1 = rerr_out r0 /\ unread r1 = unread r0 /\
  trace r1 = trace r0 /\ final_state r1 = final_state r0 /\ lines_read r1 = lines_read r0 /\
  snap r1 = option_map name_arguments (snap r0).
Proof.
  intros src r0 r1 H0 H1. unfold scan_snapshot in H0, H1.
  destruct (scan_loop _ _) as [[[ls err] sfx]|m]; [|discriminate].
  injection H0 as <-. injection H1 as <-. cbn.
  repeat (split; [reflexivity|]). destruct (goroutines (l_ss ls)); reflexivity.
Qed.

(* ------------------------------------------------------------------ *)
(* 5. the whole program never panics                                    *)
(* ------------------------------------------------------------------ *)

From PP Require Import Proofs.ReaderBase Proofs.ReaderProofs Proofs.LoopBase.
From PP Require Import Spec.ReaderSpec Spec.LoopSpec Spec.SeqSpec Proofs.PrefixBase Proofs.PrefixFrame Proofs.PrefixProofs.
From PP Require Import Proofs.ProcessProofs.
From PP Require Import Spec.Printer Proofs.RoundTripLines Proofs.RoundTripScan.

Theorem total_pipeline : forall o content, exists out ok, pp_run o content = Ok (out, ok).
Proof. exact process_total. Qed.

(* every snapshot met on the way is well-formed, First-shaped, aggregates to
   buckets satisfying the four bucket contracts, and its rendering is what
   the iteration printed *)
Theorem total_pipeline_calls : forall o content, exists cs last,
  PRun o content cs last /\
  pp_run o content = Ok (List.concat (map pc_out cs) ++ suffix last, is_eof (rerr_out last)) /\
  Forall (fun pc => forall gs, snap (pc_res pc) = Some gs ->
            render_snapshot o gs = Ok (pc_render pc) /\
            wf_goroutines gs = true /\ count_first gs <= 1 /\
            exists bs, aggregate id_shuffle (o_level o) gs = Ok bs /\
              c04_ok gs bs = true /\ c05_ok (o_level o) gs bs = true /\
              c12_ok gs bs = true /\ c13_ok bs = true) cs.
Proof.
  intros o content. destruct (process_shape o content) as (cs & last & Hrun & E).
  exists cs, last. split; [exact Hrun|]. split; [exact E|].
  clear E. induction Hrun as [c pc Hpc He|c pc cs last Hpc He Hrun IH].
  - constructor; [|constructor]. intros gs Hs. destruct Hpc as (H & Hr & _). rewrite Hs in Hr.
    split; [exact Hr|]. split; [exact (scan_snapshot_wf _ _ _ H _ Hs)|].
    split; [exact (proj1 (first_at_most_one _ _ _ _ H Hs))|].
    destruct (aggregate_parsed _ _ _ _ id_shuffle (o_level o) id_shuffle_perm H Hs) as (bs & Hb & H4 & H5 & H12 & H13 & _).
    exists bs. tauto.
  - constructor; [|exact IH]. intros gs Hs. destruct Hpc as (H & Hr & _). rewrite Hs in Hr.
    split; [exact Hr|]. split; [exact (scan_snapshot_wf _ _ _ H _ Hs)|].
    split; [exact (proj1 (first_at_most_one _ _ _ _ H Hs))|].
    destruct (aggregate_parsed _ _ _ _ id_shuffle (o_level o) id_shuffle_perm H Hs) as (bs & Hb & H4 & H5 & H12 & H13 & _).
    exists bs. tauto.
Qed.

(* ------------------------------------------------------------------ *)
(* 4. print a dump, run the program                                     *)
(* ------------------------------------------------------------------ *)

(* C01 with NameArguments on *)
Theorem fidelity_named : forall v d trailing sigma,
  wf_dump v d = true -> stall_free sigma ->
  exists res,
    scan_snapshot true (mkSource (print_dump v d trailing) sigma EOF) = Ok res /\
    snap res = Some (name_arguments (snapshot_of d)) /\ fwd res = [] /\ suffix res = [] /\
    rerr_out res = EIo EOF.
Proof.
  intros v d trailing sigma Hwf Hsf.
  destruct (fidelity v d trailing sigma Hwf Hsf) as (r0 & H0 & S0 & F0 & X0 & E0).
  destruct (scan_snapshot_total true (mkSource (print_dump v d trailing) sigma EOF)) as (r1 & H1).
  destruct (names_only_snap _ _ _ H0 H1) as (A1 & A2 & A3 & _ & _ & _ & _ & A8).
  exists r1. split; [exact H1|]. rewrite A1, A2, A3, A8, S0. tauto.
Qed.

Lemma is_race_snapshot_of d : is_race (name_arguments (snapshot_of d)) = false.
Proof. destruct d as [|g d]; reflexivity. Qed.

Theorem dump_end_to_end : forall o v d trailing,
  wf_dump v d = true ->
  exists bs,
    aggregate id_shuffle (o_level o) (name_arguments (snapshot_of d)) = Ok bs /\
    render_snapshot o (name_arguments (snapshot_of d)) =
      Ok (flatten (o_pal o) (write_buckets (o_pal o) (o_filter o) (o_match o) (o_pf o)
                               (Nat.eqb (List.length d) 1 && o_banner o) bs)) /\
    pp_run o (print_dump v d trailing) =
      Ok (flatten (o_pal o) (write_buckets (o_pal o) (o_filter o) (o_match o) (o_pf o)
                               (Nat.eqb (List.length d) 1 && o_banner o) bs), true).
Proof.
  intros o v d trailing Hwf.
  destruct (fidelity_named v d trailing [] Hwf I) as (res & H & Hs & Hf & Hx & He).
  destruct (partition_ok id_shuffle (o_level o) (name_arguments (snapshot_of d))) as (bs & Hb & _).
  exists bs. split; [exact Hb|].
  assert (Hlen : List.length (name_arguments (snapshot_of d)) = List.length d).
  { unfold name_arguments. rewrite map_length. destruct d; [reflexivity|]. cbn. rewrite map_length. reflexivity. }
  assert (Hr : render_snapshot o (name_arguments (snapshot_of d)) =
      Ok (flatten (o_pal o) (write_buckets (o_pal o) (o_filter o) (o_match o) (o_pf o)
                               (Nat.eqb (List.length d) 1 && o_banner o) bs))).
  { unfold render_snapshot. rewrite is_race_snapshot_of, Hb, Hlen. reflexivity. }
  split; [exact Hr|].
  unfold pp_run. cbn [process]. rewrite H. cbn [bind]. rewrite Hs, Hr. cbn [bind]. rewrite He, Hf, Hx.
  rewrite !app_nil_r. reflexivity.
Qed.

(* --- the dump between two stretches of text ------------------------- *)

Lemma lines_concat_ok ls : Forall line_ok ls -> lines (List.concat ls) = ls.
Proof.
  induction 1 as [|l ls (t & -> & Ht) _ IH]; [reflexivity|].
  cbn [List.concat]. rewrite <- app_assoc. cbn [app].
  rewrite (lines_lf t _ (RoundTripLines.no_byte_In _ _ Ht)), IH. reflexivity.
Qed.

Lemma line_ok_has_lf l : line_ok l -> has_lf l = true.
Proof.
  intros (t & -> & Ht). apply has_lf_in. apply in_or_app. right. left. reflexivity.
Qed.

Lemma steps_accept_all : forall ls s s', steps s ls = Some s' -> accept_all s ls = Some s'.
Proof.
  induction ls as [|l ls IH]; intros s s' H; [exact H|].
  cbn [steps accept_all] in *. destruct (state_eqb (st s) done); [discriminate|].
  destruct (scan s l) as [[[s1 [|]] [e|]]|m]; try discriminate. exact (IH _ _ H).
Qed.

(* the state after a printed dump with its trailing blank line *)
Lemma steps_all_trailing : forall v d, wf_dump v d = true ->
  exists sfin,
    steps ss0 (all_lines v d true) = Some sfin /\
    goroutines sfin = snapshot_of d /\ st sfin = betweenRoutine /\ sprefix sfin = pv_indent v.
Proof.
  intros v d Hwf. destruct (wf_dump_spec v d Hwf) as (Hind & Hfi & Hne & Hgs).
  destruct d as [|g gs']; [congruence|].
  destruct (steps_dump v gs' g ss0 Hind Hfi) as (x & Hx & Hsteps).
  - left. split; reflexivity.
  - exact Hgs.
  - unfold all_lines. rewrite (steps_app _ _ _ _ Hsteps).
    change (goroutines ss0 ++ goroutine_of (is_first ss0) g :: map (goroutine_of false) gs')
      with (snapshot_of (g :: gs')).
    assert (E : snapshot_of (g :: gs') <> []) by discriminate.
    destruct (exists_last E) as (l & G & El). rewrite El.
    rewrite (steps_blank v l G x _ Hind Hx).
    eexists. split; [reflexivity|]. repeat split; reflexivity.
Qed.

Lemma try_header_none_any s s' t : try_header s t = None -> try_header s' t = None.
Proof.
  unfold try_header. destruct (match_routine_header t) as [[[ind ds] text]|]; [|reflexivity].
  destruct (atou ds); [|reflexivity]. destruct (header_items _ _ _). discriminate.
Qed.

(* a line of [lines b] that contains an LF ends with it *)
Lemma lines_lf_end b : Forall (fun d => has_lf d = true -> exists a, d = a ++ [LF]) (lines b).
Proof.
  induction b as [|x b IH]; [constructor|]. cbn [lines]. destruct (N.eqb x LF) eqn:E.
  - constructor; [|exact IH]. intros _. exists []. apply N.eqb_eq in E. rewrite E. reflexivity.
  - destruct (lines b) as [|l ls]; [constructor; [|constructor]|].
    + intros H. rewrite has_lf_cons, E in H. discriminate H.
    + inversion IH as [|? ? Hl Hls]; subst. constructor; [|exact Hls].
      intros H. rewrite has_lf_cons, E in H. destruct (Hl H) as (a & ->). exists (x :: a). reflexivity.
Qed.

(* what follows the dump: nothing, or a first line that is LF-terminated
   (an unterminated "goroutine N [..]:" is not a start line for the scanner in
   state looking, but it is taken as a header after a dump:
   junk_unterminated_header_refuted in Properties/C00_pipeline.v) *)
Definition first_line_terminated (J : bytes) : Prop :=
  match lines J with [] => True | d :: _ => has_lf d = true end.

Lemma reject_after_dump s d J rest :
  st s = betweenRoutine -> sprefix s = [] -> lines J = d :: rest ->
  has_lf d = true -> not_start_line d = true ->
  rejects s d (with_state s done) None.
Proof.
  intros Hst Hp HJ Hlf Hns.
  assert (Hend : exists a, d = a ++ [LF]).
  { pose proof (lines_lf_end J) as HF. rewrite HJ in HF. inversion HF as [|? ? Hd _]; subst. exact (Hd Hlf). }
  destruct Hend as (a & ->).
  unfold rejects. rewrite Hst. split; [reflexivity|]. split; [|reflexivity].
  rewrite scan_unfold.
  assert (Htr : exists t, scan_tr s (a ++ [LF]) = Some t /\ eol_trim (a ++ [LF]) = Some t).
  { unfold scan_tr, eol_trim. destruct (strip_suffix [CR; LF] (a ++ [LF])) as [t|].
    - exists t. split; reflexivity.
    - rewrite strip_suffix_lf. exists a. split; reflexivity. }
  destruct Htr as (t & Htr & Het). rewrite Htr, (scan_pre_noprefix s t Hp).
  unfold not_start_line in Hns. rewrite Het in Hns.
  destruct (try_header ss0 t) eqn:Hth; [discriminate|].
  unfold scan_body. rewrite Hst. unfold header_or_end.
  rewrite (try_header_none_any ss0 s t Hth), Hst. reflexivity.
Qed.

(* a printed dump (no indentation, trailing blank line) is delimited by any
   following text without start line whose first line is terminated *)
Lemma printed_delimits_clean v d J1 :
  wf_dump v d = true -> pv_indent v = [] -> no_start J1 -> first_line_terminated J1 ->
  delimits_clean (print_dump v d true) (hd_error (lines J1)).
Proof.
  intros Hwf Hind Hns Hft.
  pose proof (all_lines_ok v d true Hwf) as Hok.
  rewrite print_dump_eq.
  split.
  - intros l Hin. rewrite (lines_concat_ok _ Hok) in Hin.
    exact (line_ok_has_lf _ (proj1 (Forall_forall _ _) Hok l Hin)).
  - destruct (steps_all_trailing v d Hwf) as (sfin & Hsteps & Hgs & Hst & Hp).
    exists sfin. rewrite (lines_concat_ok _ Hok). split; [exact (steps_accept_all _ _ _ Hsteps)|].
    split.
    + rewrite Hgs. destruct (wf_dump_spec v d Hwf) as (_ & _ & Hne & _). destruct d; [congruence|discriminate].
    + right. unfold first_line_terminated in Hft. unfold no_start in Hns.
      destruct (lines J1) as [|d0 rest] eqn:HJ; [exact I|]. cbn [hd_error].
      cbn [forallb] in Hns. apply andb_true_iff in Hns as [Hns0 _].
      exists (with_state sfin done). split; [|reflexivity].
      rewrite Hind in Hp. exact (reject_after_dump sfin d0 J1 rest Hst Hp HJ Hft Hns0).
Qed.

Theorem dump_in_junk_end_to_end : forall o v d J0 J1,
  wf_dump v d = true -> pv_indent v = [] ->
  no_start J0 -> terminated J0 -> no_start J1 -> first_line_terminated J1 ->
  exists bs,
    aggregate id_shuffle (o_level o) (name_arguments (snapshot_of d)) = Ok bs /\
    pp_run o (J0 ++ print_dump v d true ++ J1) =
      Ok (J0 ++ flatten (o_pal o) (write_buckets (o_pal o) (o_filter o) (o_match o) (o_pf o)
                                     (Nat.eqb (List.length d) 1 && o_banner o) bs) ++ J1, true).
Proof.
  intros o v d J0 J1 Hwf Hind H0 Ht0 H1 Hft.
  destruct (dump_end_to_end o v d true Hwf) as (bs & Hb & Hr & _).
  exists bs. split; [exact Hb|].
  pose proof (process_well_delimited o [(J0, print_dump v d true)] J1) as HP.
  cbn [clean_delimited stream_of] in HP. rewrite HP.
  - unfold rendered_stream. cbn [map stream_of fst snd]. f_equal. f_equal. f_equal. f_equal.
    unfold render_alone, src_of.
    destruct (fidelity_named v d true [] Hwf I) as (res & H & Hs & _).
    rewrite H, Hs, Hr. reflexivity.
  - split; [exact H0|]. split; [exact Ht0|]. split; [|exact H1].
    exact (printed_delimits_clean v d J1 Hwf Hind H1 Hft).
Qed.
