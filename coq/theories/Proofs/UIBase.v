(* Proofs/UIBase.v — generic lemmas for the console renderer proofs (C16):
   utf8.RuneCountInString, byte counting, printable number rendering and the
   CSI-sequence eraser. *)
From PP Require Import Base.Bytes Base.BytesX Base.Num Base.GoResult Model.Types Model.UI.

Local Arguments rune_width : simpl never.

(* ------------------------------------------------------------------ *)
(* lists                                                               *)
(* ------------------------------------------------------------------ *)
Lemma list_len_ind {A} (P : list A -> Prop) :
  (forall l, (forall l', List.length l' < List.length l -> P l') -> P l) -> forall l, P l.
Proof.
  intros H l. remember (List.length l) as n eqn:E. revert l E.
  induction n as [n IH] using lt_wf_ind. intros l E. apply H. intros l' Hl. apply (IH (List.length l')); [lia|reflexivity].
Qed.

Lemma skipn_app_le {A} (n : nat) (a b : list A) : n <= List.length a -> skipn n (a ++ b) = skipn n a ++ b.
Proof.
  intros H. rewrite skipn_app. replace (n - List.length a) with 0 by lia. reflexivity.
Qed.

Lemma flat_map_filter_length {A B} (g : A -> list B) (f : A -> bool) (l : list A) :
  List.length (flat_map g (filter f l)) + List.length (flat_map g (filter (fun x => negb (f x)) l)) =
  List.length (flat_map g l).
Proof.
  induction l as [|x l IH]; simpl; [reflexivity|].
  destruct (f x); simpl; rewrite !app_length; lia.
Qed.

Lemma partition_filter {A} (f : A -> bool) (l : list A) :
  partition f l = (filter f l, filter (fun x => negb (f x)) l).
Proof.
  induction l as [|x l IH]; simpl; [reflexivity|]. rewrite IH. destruct (f x); reflexivity.
Qed.

(* ------------------------------------------------------------------ *)
(* count_byte                                                          *)
(* ------------------------------------------------------------------ *)
Lemma count_byte_app (a b : bytes) (k : N) : count_byte (a ++ b) k = count_byte a k + count_byte b k.
Proof. induction a as [|x a IH]; simpl; [reflexivity|]. rewrite IH. lia. Qed.

Lemma count_byte_repeat_ne (c k : N) (n : nat) : c <> k -> count_byte (repeat c n) k = 0.
Proof.
  intros H. induction n as [|n IH]; simpl; [reflexivity|].
  destruct (N.eqb_spec c k); [contradiction|]. exact IH.
Qed.

(* every byte is >= 32: no control character *)
Definition printable (s : bytes) : bool := forallb (N.leb 32) s.

Lemma printable_app a b : printable (a ++ b) = printable a && printable b.
Proof. apply forallb_app. Qed.

Lemma printable_count (s : bytes) (k : N) : printable s = true -> (k < 32)%N -> count_byte s k = 0.
Proof.
  intros H Hk. induction s as [|x s IH]; simpl; [reflexivity|].
  simpl in H. apply andb_true_iff in H as [H1 H2]. apply N.leb_le in H1.
  destruct (N.eqb_spec x k); [lia|]. now apply IH.
Qed.

Lemma dec_go_printable (fuel : nat) : forall n acc, printable acc = true -> printable (dec_go fuel n acc) = true.
Proof.
  induction fuel as [|f IH]; intros n acc H; cbn [dec_go]; cbv zeta; [exact H|].
  assert (Hd : printable ((48 + n mod 10)%N :: acc) = true).
  { unfold printable in *. cbn [forallb]. rewrite H, andb_true_r. apply N.leb_le. generalize (n mod 10)%N. intros m. lia. }
  destruct (n <? 10)%N; [exact Hd|]. apply IH. exact Hd.
Qed.

Lemma N_to_dec_printable n : printable (N_to_dec n) = true.
Proof. unfold N_to_dec. now apply dec_go_printable. Qed.

Lemma Z_to_dec_printable z : printable (Z_to_dec z) = true.
Proof.
  destruct z; unfold Z_to_dec; try apply N_to_dec_printable.
Qed.

Lemma hex_digit_ge u d : (32 <= hex_digit u d)%N.
Proof. unfold hex_digit. destruct (d <? 10)%N; [lia|]. destruct u; lia. Qed.

Lemma hex_go_printable u (fuel : nat) : forall n acc, printable acc = true -> printable (hex_go u fuel n acc) = true.
Proof.
  induction fuel as [|f IH]; intros n acc H; cbn [hex_go]; cbv zeta; [exact H|].
  assert (Hd : printable (hex_digit u (n mod 16) :: acc) = true).
  { unfold printable in *. cbn [forallb]. rewrite H, andb_true_r. apply N.leb_le. apply hex_digit_ge. }
  destruct (n <? 16)%N; [exact Hd|]. apply IH. exact Hd.
Qed.

Lemma N_to_hex_printable u n : printable (N_to_hex u n) = true.
Proof. unfold N_to_hex. now apply hex_go_printable. Qed.

Lemma repeat_printable c n : (32 <= c)%N -> printable (repeat c n) = true.
Proof. intros H. induction n as [|n IH]; simpl; [reflexivity|]. rewrite IH, andb_true_r. now apply N.leb_le. Qed.

Lemma N_to_hex08_printable u n : printable (N_to_hex08 u n) = true.
Proof.
  unfold N_to_hex08. rewrite printable_app, N_to_hex_printable, andb_true_r.
  apply repeat_printable. lia.
Qed.

(* ------------------------------------------------------------------ *)
(* rune_width / rune_count                                             *)
(* ------------------------------------------------------------------ *)
Ltac split_ifs :=
  repeat match goal with
         | |- context [if ?b then _ else _] => destruct b
         | |- context [match ?l with [] => _ | _ :: _ => _ end] => destruct l
         end.

Lemma rune_width_pos (s : bytes) : s <> [] -> 1 <= rune_width s.
Proof.
  destruct s as [|c t]; [congruence|]. intros _. unfold rune_width. cbv zeta. split_ifs; lia.
Qed.

Lemma rune_width_le (s : bytes) : rune_width s <= List.length s.
Proof.
  destruct s as [|c t]; [apply Nat.le_refl|]. unfold rune_width. cbv zeta. split_ifs; simpl; lia.
Qed.

Lemma in_range_ascii (lo hi a : N) : (a < 128)%N -> (128 <= lo)%N -> in_range lo hi a = false.
Proof. intros Ha Hl. unfold in_range. apply andb_false_iff. left. apply N.leb_gt. lia. Qed.

(* an ASCII byte stops the decoder: whatever follows it cannot change the
   width of the rune at the head *)
Lemma rune_width_ascii_sep (s : bytes) (a : N) (y : bytes) :
  s <> [] -> (a < 128)%N -> rune_width (s ++ a :: y) = rune_width s.
Proof.
  intros Hs Ha.
  assert (Hc : cont a = false) by (apply in_range_ascii; [exact Ha|lia]).
  destruct s as [|c s]; [congruence|].
  assert (H3 : forall hi, in_range (if N.eqb c 224 then 160%N else 128%N) hi a = false).
  { intros hi. apply in_range_ascii; [exact Ha|]. destruct (N.eqb c 224); lia. }
  assert (H4 : forall hi, in_range (if N.eqb c 240 then 144%N else 128%N) hi a = false).
  { intros hi. apply in_range_ascii; [exact Ha|]. destruct (N.eqb c 240); lia. }
  destruct s as [|c1 [|c2 [|c3 t]]]; simpl app; unfold rune_width; cbv zeta;
    rewrite ?Hc, ?H3, ?H4, ?andb_false_r; simpl andb;
    destruct (N.ltb c 128); try reflexivity;
    destruct (in_range 194 223 c); try reflexivity;
    destruct (in_range 224 239 c); try reflexivity;
    destruct (in_range 240 244 c); try reflexivity;
    split_ifs; reflexivity.
Qed.

Lemma rune_count_go_fuel : forall (f1 f2 : nat) (s : bytes),
  List.length s <= f1 -> List.length s <= f2 -> rune_count_go f1 s = rune_count_go f2 s.
Proof.
  induction f1 as [|f1 IH]; intros f2 s H1 H2.
  - destruct s; [|simpl in H1; lia]. destruct f2; reflexivity.
  - destruct s as [|c t]; [destruct f2; reflexivity|].
    destruct f2 as [|f2]; [simpl in H2; lia|].
    simpl rune_count_go. f_equal.
    assert (Hw : 1 <= rune_width (c :: t)) by (apply rune_width_pos; discriminate).
    apply IH; rewrite skipn_length; simpl List.length in *; lia.
Qed.

Lemma rune_count_nil : rune_count [] = 0.
Proof. reflexivity. Qed.

Lemma rune_count_cons (c : N) (t : bytes) :
  rune_count (c :: t) = S (rune_count (skipn (rune_width (c :: t)) (c :: t))).
Proof.
  unfold rune_count. simpl List.length. simpl rune_count_go. f_equal.
  assert (Hw : 1 <= rune_width (c :: t)) by (apply rune_width_pos; discriminate).
  apply rune_count_go_fuel; rewrite ?skipn_length; simpl List.length; lia.
Qed.

Lemma rune_count_le (s : bytes) : rune_count s <= List.length s.
Proof.
  induction s as [s IH] using list_len_ind. destruct s as [|c t]; [apply Nat.le_refl|].
  rewrite rune_count_cons.
  assert (Hw : 1 <= rune_width (c :: t)) by (apply rune_width_pos; discriminate).
  assert (Hl : List.length (skipn (rune_width (c :: t)) (c :: t)) < List.length (c :: t)).
  { rewrite skipn_length. simpl List.length. lia. }
  specialize (IH _ Hl). lia.
Qed.

Lemma rune_count_ascii_cons (a : N) (y : bytes) : (a < 128)%N -> rune_count (a :: y) = S (rune_count y).
Proof.
  intros Ha. rewrite rune_count_cons.
  assert (E : rune_width (a :: y) = 1).
  { unfold rune_width. apply N.ltb_lt in Ha. rewrite Ha. reflexivity. }
  rewrite E. reflexivity.
Qed.

(* counting is additive across an ASCII byte *)
Lemma rune_count_ascii_sep (s : bytes) (a : N) (y : bytes) :
  (a < 128)%N -> rune_count (s ++ a :: y) = rune_count s + S (rune_count y).
Proof.
  intros Ha. induction s as [s IH] using list_len_ind. destruct s as [|c t].
  - simpl app. rewrite rune_count_ascii_cons by exact Ha. reflexivity.
  - change ((c :: t) ++ a :: y) with (c :: (t ++ a :: y)). rewrite rune_count_cons.
    change (c :: (t ++ a :: y)) with ((c :: t) ++ a :: y).
    rewrite rune_width_ascii_sep by (discriminate || exact Ha).
    rewrite skipn_app_le by apply rune_width_le.
    assert (Hw : 1 <= rune_width (c :: t)) by (apply rune_width_pos; discriminate).
    rewrite IH by (rewrite skipn_length; simpl List.length; lia).
    rewrite (rune_count_cons c t). reflexivity.
Qed.

Definition ascii (s : bytes) : Prop := Forall (fun c => (c < 128)%N) s.

Lemma rune_count_ascii (s : bytes) : ascii s -> rune_count s = List.length s.
Proof.
  induction 1 as [|a s Ha _ IH]; [reflexivity|]. rewrite rune_count_ascii_cons by exact Ha. simpl. now rewrite IH.
Qed.

Lemma rune_count_app_ascii (s sp : bytes) : ascii sp -> rune_count (s ++ sp) = rune_count s + List.length sp.
Proof.
  intros H. destruct H as [|a sp Ha Hsp]; [rewrite app_nil_r; simpl; lia|].
  rewrite rune_count_ascii_sep by exact Ha. rewrite (rune_count_ascii sp Hsp). reflexivity.
Qed.

Lemma rune_count_ascii_app (sp s : bytes) : ascii sp -> rune_count (sp ++ s) = List.length sp + rune_count s.
Proof.
  induction 1 as [|a sp Ha _ IH]; [reflexivity|]. simpl app. rewrite rune_count_ascii_cons by exact Ha.
  rewrite IH. reflexivity.
Qed.

Lemma ascii_repeat_space n : ascii (repeat 32%N n).
Proof. induction n; simpl; constructor; [reflexivity|assumption]. Qed.

Lemma rune_count_pad_right (w : nat) (s : bytes) : rune_count (pad_right w s) = Nat.max w (rune_count s).
Proof.
  unfold pad_right. rewrite rune_count_app_ascii by apply ascii_repeat_space. rewrite repeat_length. lia.
Qed.

(* a padded field followed by the separating space: the next column starts
   exactly [max w (rune_count s) + 1] runes later, whatever follows *)
Lemma rune_count_field (w : nat) (s rest : bytes) :
  rune_count (pad_right w s ++ 32%N :: rest) = Nat.max w (rune_count s) + 1 + rune_count rest.
Proof.
  rewrite rune_count_ascii_sep by reflexivity. rewrite rune_count_pad_right. lia.
Qed.

(* ------------------------------------------------------------------ *)
(* CSI sequences: ESC '[' (0x20..0x3f)* (0x40..0x7e)                     *)
(* ------------------------------------------------------------------ *)
Definition ESC : N := 27.
Definition is_final (c : N) : bool := in_range 64 126 c.
Definition is_param (c : N) : bool := in_range 32 63 c.

(* [csi_body s = Some r]: s = params ++ final :: r *)
Fixpoint csi_body (s : bytes) : option bytes :=
  match s with
  | [] => None
  | c :: t => if is_final c then Some t else if is_param c then csi_body t else None
  end.

Definition csi_start (s : bytes) : bool :=
  match s with
  | e :: b :: t => N.eqb e ESC && N.eqb b 91 && (match csi_body t with Some _ => true | None => false end)
  | _ => false
  end.

Inductive sstate := StText | StBracket | StBody.

(* structural eraser: a COMPLETE CSI sequence is dropped, everything else
   (including a malformed or truncated sequence) is kept *)
Fixpoint strip_go (st : sstate) (s : bytes) : bytes :=
  match s with
  | [] => []
  | c :: t =>
      match st with
      | StText => if csi_start s then strip_go StBracket t else c :: strip_go StText t
      | StBracket => strip_go StBody t
      | StBody => if is_final c then strip_go StText t else strip_go StBody t
      end
  end.
Definition strip_csi (s : bytes) : bytes := strip_go StText s.

(* a concatenation of complete CSI sequences *)
Inductive csi_string : bytes -> Prop :=
| csi_nil : csi_string []
| csi_cons u r : csi_body u = Some r -> csi_string r -> csi_string (ESC :: 91%N :: u).

Lemma csi_body_app u r s : csi_body u = Some r -> csi_body (u ++ s) = Some (r ++ s).
Proof.
  revert r. induction u as [|c u IH]; intros r H; simpl in *; [discriminate|].
  destruct (is_final c); [now inversion H|]. destruct (is_param c); [now apply IH|discriminate].
Qed.

Lemma strip_body u r : csi_body u = Some r -> strip_go StBody u = strip_go StText r.
Proof.
  revert r. induction u as [|c u IH]; intros r H; simpl in H; [discriminate|].
  simpl strip_go. destruct (is_final c); [now inversion H|]. destruct (is_param c); [now apply IH|discriminate].
Qed.

Lemma strip_csi_seq u r : csi_body u = Some r -> strip_csi (ESC :: 91%N :: u) = strip_csi r.
Proof.
  intros H. unfold strip_csi. cbn [strip_go]. unfold csi_start. rewrite H. simpl.
  now apply strip_body.
Qed.

Lemma strip_csi_string (e s : bytes) : csi_string e -> strip_csi (e ++ s) = strip_csi s.
Proof.
  induction 1 as [|u r Hu _ IH]; [reflexivity|].
  change ((ESC :: 91%N :: u) ++ s) with (ESC :: 91%N :: (u ++ s)).
  rewrite (strip_csi_seq _ _ (csi_body_app _ _ s Hu)). exact IH.
Qed.

Lemma strip_csi_text (t s : bytes) : count_byte t ESC = 0 -> strip_csi (t ++ s) = t ++ strip_csi s.
Proof.
  induction t as [|c t IH]; intros H; [reflexivity|].
  simpl in H. destruct (N.eqb_spec c ESC) as [E|E]; [discriminate|]. simpl in H.
  simpl app. unfold strip_csi. cbn [strip_go].
  assert (Hs : csi_start (c :: t ++ s) = false).
  { unfold csi_start. destruct (t ++ s); [reflexivity|]. apply N.eqb_neq in E. rewrite E. reflexivity. }
  rewrite Hs. f_equal. now apply IH.
Qed.

Lemma csi_string_app a b : csi_string a -> csi_string b -> csi_string (a ++ b).
Proof.
  induction 1 as [|u r Hu _ IH]; intros Hb; [exact Hb|].
  change ((ESC :: 91%N :: u) ++ b) with (ESC :: 91%N :: (u ++ b)).
  apply (csi_cons _ (r ++ b)); [now apply csi_body_app|now apply IH].
Qed.

Lemma strip_csi_of_csi_string e : csi_string e -> strip_csi e = [].
Proof. intros H. rewrite <- (app_nil_r e). now rewrite strip_csi_string. Qed.

(* stripping is the identity on text without ESC *)
Lemma strip_csi_id t : count_byte t ESC = 0 -> strip_csi t = t.
Proof. intros H. rewrite <- (app_nil_r t) at 1. rewrite strip_csi_text by exact H. simpl. apply app_nil_r. Qed.

(* decision procedure for csi_string (fuel = length) *)
Fixpoint csi_stringb_go (fuel : nat) (s : bytes) : bool :=
  match fuel with
  | O => match s with [] => true | _ => false end
  | S f =>
      match s with
      | [] => true
      | e :: b :: u => N.eqb e ESC && N.eqb b 91 &&
                       (match csi_body u with Some r => csi_stringb_go f r | None => false end)
      | _ => false
      end
  end.
Definition csi_stringb (s : bytes) : bool := csi_stringb_go (List.length s) s.

Lemma csi_stringb_go_sound fuel : forall s, csi_stringb_go fuel s = true -> csi_string s.
Proof.
  induction fuel as [|f IH]; intros s H.
  - destruct s; [constructor|discriminate].
  - destruct s as [|e [|b u]]; [constructor|discriminate|]. simpl in H.
    apply andb_true_iff in H as [H H3]. apply andb_true_iff in H as [H1 H2].
    apply N.eqb_eq in H1, H2. subst.
    destruct (csi_body u) as [r|] eqn:E; [|discriminate].
    apply (csi_cons u r E). now apply IH.
Qed.

Lemma csi_stringb_sound s : csi_stringb s = true -> csi_string s.
Proof. apply csi_stringb_go_sound. Qed.
