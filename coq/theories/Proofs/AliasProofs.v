(* Proofs/AliasProofs.v — the ownership discipline of Aggregate / merge /
   Args.String in the tagged model of Model/Alias.v.

   [val m Q]  : the VALUE returned by m satisfies Q, whatever the allocator state
   [safe m]   : if every write logged so far went to a Fresh array, so does
                every write logged by m
   Both are compositional ([val_bind], [safe_bind]). *)
From PP Require Import Base.Bytes Base.GoResult Model.Types Model.Stack Model.Bucket Model.UI Model.Alias.
From PP Require Import Proofs.AggBase.
From Coq Require Import String Permutation.

Definition fresh_cell (w : wcell) : Prop := is_fresh (fst w) = true.
Definition log_fresh (s : wstate) : Prop := Forall fresh_cell (w_log s).
Definition val {A} (m : M A) (Q : A -> Prop) : Prop := forall s, Q (fst (m s)).
Definition safe {A} (m : M A) : Prop := forall s, log_fresh s -> log_fresh (snd (m s)).
(* the backing array of t is a Fresh one *)
Definition fr {A} (t : tslice A) : Prop := is_fresh (t_tag t) = true.
(* appending to t never writes into a non-Fresh array *)
Definition appendable {A} (t : tslice A) : Prop := fr t \/ t_cap t <= t_len t.

(* ---------------- the monad ---------------- *)

Lemma val_ret {A} (a : A) (Q : A -> Prop) : Q a -> val (ret a) Q.
Proof. intros H s. exact H. Qed.

Lemma val_bind {A B} (m : M A) (f : A -> M B) (Q1 : A -> Prop) (Q2 : B -> Prop) :
  val m Q1 -> (forall a, Q1 a -> val (f a) Q2) -> val (mbind m f) Q2.
Proof.
  intros Hm Hf s. unfold mbind. specialize (Hm s). destruct (m s) as [a s']. simpl in Hm.
  apply Hf. exact Hm.
Qed.

Lemma val_weaken {A} (m : M A) (Q1 Q2 : A -> Prop) : val m Q1 -> (forall a, Q1 a -> Q2 a) -> val m Q2.
Proof. intros H HQ s. apply HQ, H. Qed.

Lemma val_true {A} (m : M A) : val m (fun _ => True).
Proof. intros s. exact I. Qed.

Lemma val_conj {A} (m : M A) (Q1 Q2 : A -> Prop) : val m Q1 -> val m Q2 -> val m (fun a => Q1 a /\ Q2 a).
Proof. intros H1 H2 s. split; [apply H1 | apply H2]. Qed.

Lemma safe_ret {A} (a : A) : safe (ret a).
Proof. intros s H. exact H. Qed.

Lemma safe_bind {A B} (m : M A) (f : A -> M B) (Q1 : A -> Prop) :
  val m Q1 -> safe m -> (forall a, Q1 a -> safe (f a)) -> safe (mbind m f).
Proof.
  intros Hv Hm Hf s Hs. unfold mbind. specialize (Hv s). specialize (Hm s Hs).
  destruct (m s) as [a s']. simpl in Hv, Hm. apply Hf; assumption.
Qed.

Lemma safe_bind' {A B} (m : M A) (f : A -> M B) :
  safe m -> (forall a, safe (f a)) -> safe (mbind m f).
Proof. intros Hm Hf. apply (safe_bind m f (fun _ => True)); [apply val_true | exact Hm | intros a _; apply Hf]. Qed.

(* ---------------- primitives ---------------- *)

Lemma log_writes_safe p idx : is_fresh p = true -> safe (log_writes p idx).
Proof.
  intros Hp s Hs. unfold log_fresh, log_writes. simpl. apply Forall_app. split; [|exact Hs].
  apply Forall_forall. intros w Hw. apply in_map_iff in Hw as (i & <- & _). exact Hp.
Qed.

Lemma alloc_val : val alloc (fun p => is_fresh p = true).
Proof. intros s. reflexivity. Qed.
Lemma alloc_safe : safe alloc.
Proof. intros s H. exact H. Qed.

Lemma t_new_safe : safe t_new.
Proof.
  unfold t_new. apply (safe_bind _ _ _ alloc_val alloc_safe). intros p Hp. now apply log_writes_safe.
Qed.

Lemma t_make_val {A} len cap (d : A) :
  val (t_make len cap d) (fun r => fr r /\ t_elems r = repeat d len /\ t_cap r = Nat.max len cap).
Proof. intros s. unfold fr. cbn. auto. Qed.

Lemma t_make_safe {A} len cap (d : A) : safe (t_make len cap d).
Proof.
  unfold t_make. apply (safe_bind _ _ _ alloc_val alloc_safe). intros p Hp.
  apply safe_bind'; [now apply log_writes_safe | intros _; apply safe_ret].
Qed.

Lemma t_set_val {A} (t : tslice A) i x :
  val (t_set t i x) (fun r => t_tag r = t_tag t /\ t_elems r = upd_nth i (fun _ => x) (t_elems t) /\ t_cap r = t_cap t).
Proof. intros s. cbn. auto. Qed.

Lemma t_set_safe {A} (t : tslice A) i x : fr t -> safe (t_set t i x).
Proof.
  intros Ht. unfold t_set. apply safe_bind'; [now apply log_writes_safe | intros _; apply safe_ret].
Qed.

Lemma t_append_val {A} (t : tslice A) x :
  val (t_append t x) (fun r => t_elems r = t_elems t ++ [x] /\ (appendable t -> fr r)).
Proof.
  intros s. unfold t_append, appendable, fr. destruct (Nat.ltb_spec (t_len t) (t_cap t)) as [Hlt|Hge]; cbn.
  - split; [reflexivity|]. intros [H|H]; [exact H | lia].
  - split; [reflexivity|]. intros _. reflexivity.
Qed.

Lemma t_append_safe {A} (t : tslice A) x : appendable t -> safe (t_append t x).
Proof.
  intros Ht. unfold t_append. destruct (Nat.ltb_spec (t_len t) (t_cap t)) as [Hlt|Hge].
  - destruct Ht as [Ht|Ht]; [|lia].
    apply safe_bind'; [now apply log_writes_safe | intros _; apply safe_ret].
  - apply (safe_bind _ _ _ alloc_val alloc_safe). intros p Hp.
    apply safe_bind'; [now apply log_writes_safe | intros _; apply safe_ret].
Qed.

Lemma t_append_all_val {A} (l : list A) : forall t,
  val (t_append_all t l) (fun r => t_elems r = t_elems t ++ l /\ (appendable t -> appendable r)).
Proof.
  induction l as [|x l IH]; intros t; simpl.
  - apply val_ret. rewrite app_nil_r. auto.
  - apply (val_bind _ _ _ _ (t_append_val t x)). intros t' [He Hf].
    apply (val_weaken _ _ _ (IH t')). intros r [Hr1 Hr2]. split.
    + rewrite Hr1, He, <- app_assoc. reflexivity.
    + intros Ht. apply Hr2. left. now apply Hf.
Qed.

Lemma t_append_all_safe {A} (l : list A) : forall t, appendable t -> safe (t_append_all t l).
Proof.
  induction l as [|x l IH]; intros t Ht; simpl.
  - apply safe_ret.
  - apply (safe_bind _ _ _ (t_append_val t x)); [now apply t_append_safe|].
    intros t' [_ Hf]. apply IH. left. now apply Hf.
Qed.

Lemma t_sort_val {A} (f : list A -> list A) (t : tslice A) :
  val (t_sort f t) (fun r => t_tag r = t_tag t /\ t_elems r = f (t_elems t)).
Proof. intros s. cbn. auto. Qed.

Lemma t_sort_safe {A} (f : list A -> list A) (t : tslice A) : fr t -> safe (t_sort f t).
Proof.
  intros Ht. unfold t_sort. apply safe_bind'; [now apply log_writes_safe | intros _; apply safe_ret].
Qed.

Lemma fr_nil {A} : fr (@t_nil A).
Proof. reflexivity. Qed.

(* ---------------- list helpers ---------------- *)

Lemma upd_nth_mid {A} (f : A -> A) (pre : list A) d rest :
  upd_nth (List.length pre) f (pre ++ d :: rest) = pre ++ f d :: rest.
Proof. induction pre as [|x pre IH]; simpl; [reflexivity | now rewrite IH]. Qed.

Lemma map_upd_nth {A B} (h : A -> B) i (x : A) l :
  map h (upd_nth i (fun _ => x) l) = upd_nth i (fun _ => h x) (map h l).
Proof.
  revert i; induction l as [|y l IH]; intros [|i]; simpl; try reflexivity. now rewrite IH.
Qed.

Lemma Forall_upd_nth {A} (P : A -> Prop) i x l : Forall P l -> P x -> Forall P (upd_nth i (fun _ => x) l).
Proof.
  intros Hl Hx. revert i; induction Hl as [|y l Hy Hl IH]; intros [|i]; simpl; constructor; auto.
Qed.

Lemma nth_error_map' {A B} (h : A -> B) l i : nth_error (map h l) i = option_map h (nth_error l i).
Proof. revert i; induction l as [|x l IH]; intros [|i]; simpl; auto. Qed.

Lemma args_safe_len l : forall r, args_list_merge_safe l r = true -> List.length l <= List.length r.
Proof.
  induction l as [|x l IH]; intros [|y r] H; simpl in *; try lia; try discriminate.
  apply andb_true_iff in H as [_ H]. apply IH in H. lia.
Qed.

Lemma args_merge_len l : forall r, List.length l <= List.length r ->
  List.length (args_list_merge l r) = List.length l.
Proof.
  induction l as [|x l IH]; intros [|y r] H; simpl in *; try lia. rewrite IH; lia.
Qed.

(* ---------------- erasing what was tagged ---------------- *)

Lemma erase_tag_args spare g s c a : erase_args (tag_args spare g s c a) = a.
Proof. destruct a; reflexivity. Qed.

Lemma erase_tag_call spare g s c x : erase_call (tag_call spare g s c x) = x.
Proof. destruct x as [f a ? ? ? ? ? ? ? ?]. unfold erase_call, tag_call. simpl. now rewrite erase_tag_args. Qed.

Lemma erase_tag_calls spare g s l : forall c, map erase_call (tag_calls spare g s c l) = l.
Proof. induction l as [|x l IH]; intros c; simpl; [reflexivity|]. now rewrite erase_tag_call, IH. Qed.

Lemma erase_tag_stack spare g s st : erase_stack (tag_stack spare g s st) = st.
Proof. destruct st. unfold erase_stack, tag_stack. simpl. now rewrite erase_tag_calls. Qed.

Lemma erase_tag_sig spare g x : erase_sig (tag_sig spare g x) = x.
Proof. destruct x. unfold erase_sig, tag_sig. simpl. now rewrite !erase_tag_stack. Qed.

Lemma erase_tag_goroutine spare g x : erase_goroutine (tag_goroutine spare g x) = x.
Proof. destruct x. unfold erase_goroutine, tag_goroutine. simpl. now rewrite erase_tag_sig. Qed.

Lemma erase_tag_from spare gs : forall g, erase_snapshot (tag_from spare g gs) = gs.
Proof. induction gs as [|x gs IH]; intros g; simpl; [reflexivity|]. now rewrite erase_tag_goroutine, IH. Qed.

Lemma erase_tag_snapshot spare gs : erase_snapshot (tag_snapshot spare gs) = gs.
Proof. apply erase_tag_from. Qed.

(* ---------------- merge: values ---------------- *)

Lemma t_arg_merge_val l r : val (t_arg_merge l r) (fun v => v = arg_merge l r).
Proof. intros s. reflexivity. Qed.
Lemma t_arg_merge_safe l r : safe (t_arg_merge l r).
Proof. apply safe_ret. Qed.

Lemma args_loop_tag l : forall r out i, val (t_args_loop out i l r) (fun o => t_tag o = t_tag out).
Proof.
  induction l as [|x l IH]; intros [|y r] out i; simpl; try (apply val_ret; reflexivity).
  apply (val_bind _ _ _ _ (t_arg_merge_val x y)). intros v _.
  apply (val_bind _ _ _ _ (t_set_val out i v)). intros out' (Ht & _ & _).
  apply (val_weaken _ _ _ (IH r out' (S i))). intros o Ho. congruence.
Qed.

Lemma args_loop_val l : forall r out i pre rest,
  t_elems out = pre ++ rest -> List.length pre = i -> List.length rest = List.length l ->
  List.length l <= List.length r ->
  val (t_args_loop out i l r) (fun o => t_elems o = pre ++ args_list_merge l r).
Proof.
  induction l as [|x l IH]; intros r out i pre rest He Hi Hr Hl.
  - destruct rest; [|discriminate]. simpl. apply val_ret. exact He.
  - destruct r as [|y r]; [simpl in Hl; lia|]. destruct rest as [|d rest]; [discriminate|]. simpl.
    apply (val_bind _ _ _ _ (t_arg_merge_val x y)). intros v ->.
    apply (val_bind _ _ _ _ (t_set_val out i (arg_merge x y))). intros out' (_ & He' & _).
    assert (Hout' : t_elems out' = (pre ++ [arg_merge x y]) ++ rest).
    { rewrite He', He, <- Hi, upd_nth_mid, <- app_assoc. reflexivity. }
    apply (val_weaken _ _ _ (IH r out' (S i) (pre ++ [arg_merge x y]) rest Hout'
             ltac:(rewrite app_length; simpl; lia) ltac:(simpl in Hr; lia) ltac:(simpl in Hl; lia))).
    intros o Ho. rewrite Ho, <- app_assoc. reflexivity.
Qed.

Lemma t_args_merge_val a r :
  args_list_merge_safe (t_elems (tValues a)) (t_elems (tValues r)) = true ->
  val (t_args_merge a r) (fun o => erase_args o = args_merge (erase_args a) (erase_args r)).
Proof.
  intros Hs. unfold t_args_merge.
  apply (val_bind _ _ _ _ (t_make_val _ _ emptyArg)). intros out (_ & He & _).
  apply (val_bind _ _ _ _ (args_loop_val _ _ out 0 [] (repeat emptyArg (t_len (tValues a))) He eq_refl
           (repeat_length _ _) (args_safe_len _ _ Hs))).
  intros out' Ho. apply val_ret. unfold erase_args, args_merge. simpl. now rewrite Ho.
Qed.

Lemma t_args_merge_fr a r : val (t_args_merge a r) (fun o => fr (tValues o)).
Proof.
  unfold t_args_merge.
  apply (val_bind _ _ _ _ (t_make_val _ _ emptyArg)). intros out (Hf & _ & _).
  apply (val_bind _ _ _ _ (args_loop_tag _ _ out 0)). intros out' Ht.
  apply val_ret. unfold fr in *. simpl. now rewrite Ht.
Qed.

Lemma t_call_merge_val c r :
  call_merge_safe (erase_call c) (erase_call r) = true ->
  val (t_call_merge c r) (fun o => erase_call o = call_merge (erase_call c) (erase_call r)).
Proof.
  intros Hs. unfold t_call_merge.
  apply (val_bind _ _ _ _ (t_args_merge_val _ _ Hs)). intros a Ha. apply val_ret.
  unfold erase_call, call_merge in *. simpl. now rewrite Ha.
Qed.

Lemma calls_loop_tag l : forall r out i, val (t_calls_loop out i l r) (fun o => t_tag o = t_tag out).
Proof.
  induction l as [|x l IH]; intros [|y r] out i; simpl; try (apply val_ret; reflexivity).
  apply (val_bind _ _ _ _ (val_true _)). intros c _.
  apply (val_bind _ _ _ _ (t_set_val out i c)). intros out' (Ht & _ & _).
  apply (val_weaken _ _ _ (IH r out' (S i))). intros o Ho. congruence.
Qed.

Lemma calls_loop_val l : forall r out i pre rest,
  t_elems out = pre ++ rest -> List.length pre = i -> List.length rest = List.length l ->
  calls_merge_safe (map erase_call l) (map erase_call r) = true ->
  val (t_calls_loop out i l r)
      (fun o => map erase_call (t_elems o) = map erase_call pre ++ calls_merge (map erase_call l) (map erase_call r)).
Proof.
  induction l as [|x l IH]; intros r out i pre rest He Hi Hr Hs.
  - destruct rest; [|discriminate]. simpl. apply val_ret. rewrite He, !app_nil_r. reflexivity.
  - destruct r as [|y r]; [simpl in Hs; discriminate|]. destruct rest as [|d rest]; [discriminate|].
    simpl in Hs. apply andb_true_iff in Hs as [Hs1 Hs2]. simpl.
    apply (val_bind _ _ _ _ (t_call_merge_val x y Hs1)). intros c Hc.
    apply (val_bind _ _ _ _ (t_set_val out i c)). intros out' (_ & He' & _).
    assert (Hout' : t_elems out' = (pre ++ [c]) ++ rest).
    { rewrite He', He, <- Hi, upd_nth_mid, <- app_assoc. reflexivity. }
    apply (val_weaken _ _ _ (IH r out' (S i) (pre ++ [c]) rest Hout'
             ltac:(rewrite app_length; simpl; lia) ltac:(simpl in Hr; lia) Hs2)).
    intros o Ho. rewrite Ho, map_app, <- app_assoc. simpl. now rewrite Hc.
Qed.

Lemma t_stack_merge_val s r :
  calls_merge_safe (Calls (erase_stack s)) (Calls (erase_stack r)) = true ->
  val (t_stack_merge s r) (fun o => erase_stack o = stack_merge (erase_stack s) (erase_stack r)).
Proof.
  intros Hs. unfold t_stack_merge.
  apply (val_bind _ _ _ _ (t_make_val _ _ emptyTCall)). intros out (_ & He & _).
  apply (val_bind _ _ _ _ (val_true _)). intros _ _.
  apply (val_bind _ _ _ _ (calls_loop_val _ _ out 0 [] (repeat emptyTCall (t_len (tCalls s))) He eq_refl
           (repeat_length _ _) Hs)).
  intros out' Ho. apply val_ret. unfold erase_stack, stack_merge. simpl. now rewrite Ho.
Qed.

Lemma t_stack_merge_fr s r : val (t_stack_merge s r) (fun o => fr (tCalls o)).
Proof.
  unfold t_stack_merge.
  apply (val_bind _ _ _ _ (t_make_val _ _ emptyTCall)). intros out (Hf & _ & _).
  apply (val_bind _ _ _ _ (val_true _)). intros _ _.
  apply (val_bind _ _ _ _ (calls_loop_tag _ _ out 0)). intros out' Ht.
  apply val_ret. unfold fr in *. simpl. now rewrite Ht.
Qed.

Lemma t_sig_merge_val s r :
  sig_merge_safe (erase_sig s) (erase_sig r) = true ->
  val (t_sig_merge s r) (fun o => erase_sig o = sig_merge (erase_sig s) (erase_sig r)).
Proof.
  intros Hs. unfold t_sig_merge.
  apply (val_bind _ _ _ _ (t_stack_merge_val _ _ Hs)). intros st Hst.
  apply (val_bind _ _ _ _ (val_true _)). intros _ _.
  apply val_ret. unfold erase_sig, sig_merge in *. simpl. now rewrite Hst.
Qed.

(* after a merge: Stack.Calls is fresh, CreatedBy is the left operand's *)
Lemma t_sig_merge_shape s r :
  val (t_sig_merge s r) (fun o => fr (tCalls (tSStack o)) /\ tCreatedBy o = tCreatedBy s).
Proof.
  unfold t_sig_merge.
  apply (val_bind _ _ _ _ (t_stack_merge_fr _ _)). intros st Hst.
  apply (val_bind _ _ _ _ (val_true _)). intros _ _.
  apply val_ret. simpl. auto.
Qed.

(* ---------------- merge: writes ---------------- *)

Lemma args_loop_safe l : forall r out i, fr out -> safe (t_args_loop out i l r).
Proof.
  induction l as [|x l IH]; intros [|y r] out i Hf; simpl; try apply safe_ret.
  apply safe_bind'; [apply t_arg_merge_safe|]. intros v.
  apply (safe_bind _ _ _ (t_set_val out i v)); [now apply t_set_safe|].
  intros out' (Ht & _ & _). apply IH. unfold fr in *. now rewrite Ht.
Qed.

Lemma t_args_merge_safe a r : safe (t_args_merge a r).
Proof.
  unfold t_args_merge.
  apply (safe_bind _ _ _ (t_make_val _ _ emptyArg)); [apply t_make_safe|]. intros out (Hf & _ & _).
  apply safe_bind'; [now apply args_loop_safe | intros o; apply safe_ret].
Qed.

Lemma t_call_merge_safe c r : safe (t_call_merge c r).
Proof. unfold t_call_merge. apply safe_bind'; [apply t_args_merge_safe | intros a; apply safe_ret]. Qed.

Lemma calls_loop_safe l : forall r out i, fr out -> safe (t_calls_loop out i l r).
Proof.
  induction l as [|x l IH]; intros [|y r] out i Hf; simpl; try apply safe_ret.
  apply safe_bind'; [apply t_call_merge_safe|]. intros c.
  apply (safe_bind _ _ _ (t_set_val out i c)); [now apply t_set_safe|].
  intros out' (Ht & _ & _). apply IH. unfold fr in *. now rewrite Ht.
Qed.

Lemma t_stack_merge_safe s r : safe (t_stack_merge s r).
Proof.
  unfold t_stack_merge.
  apply (safe_bind _ _ _ (t_make_val _ _ emptyTCall)); [apply t_make_safe|]. intros out (Hf & _ & _).
  apply safe_bind'; [apply t_new_safe|]. intros _.
  apply safe_bind'; [now apply calls_loop_safe | intros o; apply safe_ret].
Qed.

Lemma t_sig_merge_safe s r : safe (t_sig_merge s r).
Proof.
  unfold t_sig_merge. apply safe_bind'; [apply t_stack_merge_safe|]. intros st.
  apply safe_bind'; [apply t_new_safe | intros _; apply safe_ret].
Qed.

(* ---------------- Aggregate: values ---------------- *)

Definition erase_st (r : GoResult (tslice tentry)) : GoResult (list entry) :=
  match r with Ok st => Ok (map erase_entry (t_elems st)) | Panic m => Panic m end.

Lemma agg_step_val lvl st g k :
  val (t_agg_step lvl st g)
      (fun r => erase_st r = agg_step id_shuffle lvl (map erase_entry (t_elems st)) k (erase_goroutine g)).
Proof.
  unfold t_agg_step, agg_step, id_shuffle, t_len. rewrite map_length.
  destruct (find _ _) as [i|].
  - rewrite nth_error_map'. destruct (nth_error (t_elems st) i) as [e|]; simpl.
    + apply (val_bind _ _ _ _ (t_append_val (teids e) (tID g))). intros ids [Hids _].
      destruct (sig_equal (erase_sig (tekey e)) (erase_sig (tGSig g))).
      * apply (val_bind _ _ _ _ (t_set_val st i _)). intros st' (_ & He & _).
        apply val_ret. simpl. rewrite He, map_upd_nth. unfold erase_entry at 1. simpl. now rewrite Hids.
      * destruct (sig_merge_safe (erase_sig (tekey e)) (erase_sig (tGSig g))) eqn:Hsafe.
        -- apply (val_bind _ _ _ _ (t_sig_merge_val _ _ Hsafe)). intros k' Hk.
           apply (val_bind _ _ _ _ (t_set_val st i _)). intros st' (_ & He & _).
           apply val_ret. simpl. rewrite He, map_upd_nth. unfold erase_entry at 1. simpl. now rewrite Hids, Hk.
        -- apply val_ret. reflexivity.
    + apply val_ret. reflexivity.
  - apply (val_bind _ _ _ _ (val_true _)). intros _ _.
    apply (val_bind _ _ _ _ (t_make_val 1 1 0%Z)). intros ids0 (_ & He0 & _).
    apply (val_bind _ _ _ _ (t_set_val ids0 0 (tID g))). intros ids (_ & He1 & _).
    apply (val_bind _ _ _ _ (val_true _)). intros _ _.
    apply (val_bind _ _ _ _ (t_append_val st _)). intros st' [He _].
    apply val_ret. simpl. rewrite He, map_app. unfold erase_entry at 2. simpl.
    rewrite He1, He0. reflexivity.
Qed.

Lemma agg_loop_val lvl gs : forall st k,
  val (t_agg_loop lvl st gs)
      (fun r => erase_st r = agg_loop id_shuffle lvl (map erase_entry (t_elems st)) k (map erase_goroutine gs)).
Proof.
  induction gs as [|g gs IH]; intros st k; simpl.
  - apply val_ret. reflexivity.
  - apply (val_bind _ _ _ _ (agg_step_val lvl st g k)). intros r Hr. rewrite <- Hr.
    destruct r as [st'|m]; simpl.
    + apply IH.
    + apply val_ret. reflexivity.
Qed.

Lemma buckets_loop_val es : forall bs,
  val (t_buckets_loop bs es)
      (fun r => map erase_bucket (t_elems r) =
                map erase_bucket (t_elems bs) ++ map bucket_of_entry (map erase_entry es)).
Proof.
  induction es as [|e es IH]; intros bs; simpl.
  - apply val_ret. now rewrite app_nil_r.
  - apply (val_bind _ _ _ _ (t_sort_val sort_ints (teids e))). intros ids [_ Hids].
    apply (val_bind _ _ _ _ (val_true _)). intros _ _.
    apply (val_bind _ _ _ _ (t_append_val bs _)). intros bs' [He _].
    apply (val_weaken _ _ _ (IH bs')). intros r Hr.
    rewrite Hr, He, map_app, <- app_assoc. simpl. unfold erase_bucket at 2, bucket_of_entry at 2. simpl.
    now rewrite Hids.
Qed.

Lemma insert_stable_erase x l :
  map erase_bucket (insert_stable t_bucket_before x l) =
  insert_stable bucket_before (erase_bucket x) (map erase_bucket l).
Proof.
  induction l as [|y l IH]; simpl; [reflexivity|]. unfold t_bucket_before at 1.
  destruct (bucket_before (erase_bucket y) (erase_bucket x)); simpl; [now rewrite IH | reflexivity].
Qed.

Lemma sort_stable_erase l :
  map erase_bucket (sort_stable t_bucket_before l) = sort_stable bucket_before (map erase_bucket l).
Proof. induction l as [|x l IH]; simpl; [reflexivity|]. now rewrite insert_stable_erase, IH. Qed.

Lemma t_aggregate_val lvl ts :
  val (t_aggregate lvl ts) (fun r => erase_buckets r = aggregate id_shuffle lvl (erase_snapshot ts)).
Proof.
  unfold t_aggregate, aggregate, erase_snapshot.
  apply (val_bind _ _ _ _ (agg_loop_val lvl ts t_nil 0)). intros r Hr. simpl in Hr. rewrite <- Hr.
  destruct r as [st|m]; simpl.
  - apply (val_bind _ _ _ _ (t_make_val 0 (t_len st) _)). intros bs0 (_ & He0 & _).
    apply (val_bind _ _ _ _ (buckets_loop_val (t_elems st) bs0)). intros bs Hbs.
    apply (val_bind _ _ _ _ (t_sort_val _ bs)). intros bs' [_ Hbs'].
    apply val_ret. simpl. rewrite Hbs', sort_stable_erase, Hbs, He0. reflexivity.
  - apply val_ret. reflexivity.
Qed.

(* ---------------- Aggregate: writes ---------------- *)

(* the invariant of [order]: a Fresh slice of entries whose ids are Fresh slices *)
Definition st_ok (st : tslice tentry) : Prop := fr st /\ Forall (fun e => fr (teids e)) (t_elems st).
Definition res_ok (r : GoResult (tslice tentry)) : Prop := match r with Ok st => st_ok st | Panic _ => True end.

Lemma agg_step_inv lvl st g : st_ok st -> val (t_agg_step lvl st g) res_ok.
Proof.
  intros [Hf Hall]. unfold t_agg_step.
  destruct (find _ _) as [i|].
  - destruct (nth_error (t_elems st) i) as [e|] eqn:Hi; [|apply val_ret; exact I].
    assert (He : fr (teids e)).
    { apply nth_error_In in Hi. revert e Hi. now apply Forall_forall. }
    apply (val_bind _ _ _ _ (t_append_val (teids e) (tID g))). intros ids [_ Hids].
    assert (Hfi : fr ids) by (apply Hids; now left).
    cbv zeta. destruct (sig_equal _ _).
    + apply (val_bind _ _ _ _ (t_set_val st i _)). intros st' (Ht & Hel & _).
      apply val_ret. split; [unfold fr in *; now rewrite Ht|]. rewrite Hel. now apply Forall_upd_nth.
    + destruct (sig_merge_safe _ _); [|apply val_ret; exact I].
      apply (val_bind _ _ _ _ (val_true _)). intros k' _.
      apply (val_bind _ _ _ _ (t_set_val st i _)). intros st' (Ht & Hel & _).
      apply val_ret. split; [unfold fr in *; now rewrite Ht|]. rewrite Hel. now apply Forall_upd_nth.
  - apply (val_bind _ _ _ _ (val_true _)). intros _ _.
    apply (val_bind _ _ _ _ (t_make_val 1 1 0%Z)). intros ids0 (Hf0 & _ & _).
    apply (val_bind _ _ _ _ (t_set_val ids0 0 (tID g))). intros ids (Ht1 & _ & _).
    apply (val_bind _ _ _ _ (val_true _)). intros _ _.
    apply (val_bind _ _ _ _ (t_append_val st _)). intros st' [Hel Hfr].
    apply val_ret. split; [apply Hfr; now left|]. rewrite Hel. apply Forall_app. split; [exact Hall|].
    constructor; [|constructor]. simpl. unfold fr in *. now rewrite Ht1.
Qed.

Lemma agg_step_safe lvl st g : st_ok st -> safe (t_agg_step lvl st g).
Proof.
  intros [Hf Hall]. unfold t_agg_step.
  destruct (find _ _) as [i|].
  - destruct (nth_error (t_elems st) i) as [e|] eqn:Hi; [|apply safe_ret].
    assert (He : fr (teids e)).
    { apply nth_error_In in Hi. revert e Hi. now apply Forall_forall. }
    apply safe_bind'; [apply t_append_safe; now left|]. intros ids.
    cbv zeta. destruct (sig_equal _ _).
    + apply safe_bind'; [now apply t_set_safe | intros st'; apply safe_ret].
    + destruct (sig_merge_safe _ _); [|apply safe_ret].
      apply safe_bind'; [apply t_sig_merge_safe|]. intros k'.
      apply safe_bind'; [now apply t_set_safe | intros st'; apply safe_ret].
  - apply safe_bind'; [apply t_new_safe|]. intros _.
    apply (safe_bind _ _ _ (t_make_val 1 1 0%Z)); [apply t_make_safe|]. intros ids0 (Hf0 & _ & _).
    apply safe_bind'; [now apply t_set_safe|]. intros ids.
    apply safe_bind'; [apply t_new_safe|]. intros _.
    apply safe_bind'; [apply t_append_safe; now left | intros st'; apply safe_ret].
Qed.

Lemma agg_loop_inv lvl gs : forall st, st_ok st -> val (t_agg_loop lvl st gs) res_ok.
Proof.
  induction gs as [|g gs IH]; intros st Hst; simpl.
  - apply val_ret. exact Hst.
  - apply (val_bind _ _ _ _ (agg_step_inv lvl st g Hst)). intros [st'|m] Hr.
    + now apply IH.
    + apply val_ret. exact I.
Qed.

Lemma agg_loop_safe lvl gs : forall st, st_ok st -> safe (t_agg_loop lvl st gs).
Proof.
  induction gs as [|g gs IH]; intros st Hst; simpl.
  - apply safe_ret.
  - apply (safe_bind _ _ _ (agg_step_inv lvl st g Hst)); [now apply agg_step_safe|].
    intros [st'|m] Hr; [now apply IH | apply safe_ret].
Qed.

Lemma buckets_loop_fr es : forall bs, fr bs -> val (t_buckets_loop bs es) (fun r => fr r).
Proof.
  induction es as [|e es IH]; intros bs Hbs; simpl.
  - now apply val_ret.
  - apply (val_bind _ _ _ _ (val_true _)). intros ids _.
    apply (val_bind _ _ _ _ (val_true _)). intros _ _.
    apply (val_bind _ _ _ _ (t_append_val bs _)). intros bs' [_ Hf].
    apply IH. apply Hf. now left.
Qed.

Lemma buckets_loop_safe es : forall bs,
  fr bs -> Forall (fun e => fr (teids e)) es -> safe (t_buckets_loop bs es).
Proof.
  induction es as [|e es IH]; intros bs Hbs Hes; simpl.
  - apply safe_ret.
  - inversion Hes as [|e' es' He Hes']; subst.
    apply safe_bind'; [now apply t_sort_safe|]. intros ids.
    apply safe_bind'; [apply t_new_safe|]. intros _.
    apply (safe_bind _ _ _ (t_append_val bs _)); [apply t_append_safe; now left|].
    intros bs' [_ Hf]. apply IH; [apply Hf; now left | exact Hes'].
Qed.

Lemma st_ok_nil : st_ok t_nil.
Proof. split; [reflexivity | constructor]. Qed.

Lemma t_aggregate_safe lvl ts : safe (t_aggregate lvl ts).
Proof.
  unfold t_aggregate.
  apply (safe_bind _ _ _ (agg_loop_inv lvl ts t_nil st_ok_nil)); [apply agg_loop_safe, st_ok_nil|].
  intros [st|m] Hr; [|apply safe_ret]. destruct Hr as [Hf Hall].
  apply (safe_bind _ _ _ (t_make_val 0 (t_len st) _)); [apply t_make_safe|]. intros bs0 (Hf0 & _ & _).
  apply (safe_bind _ _ _ (buckets_loop_fr (t_elems st) bs0 Hf0)); [now apply buckets_loop_safe|].
  intros bs Hbs.
  apply safe_bind'; [now apply t_sort_safe | intros bs'; apply safe_ret].
Qed.

(* ---------------- Args.String ---------------- *)

Lemma t_args_string_val a : val (t_args_string a) (fun b => b = args_string (erase_args a)).
Proof.
  unfold t_args_string, args_string. simpl.
  apply (val_bind _ _ (fun v => t_elems v = match t_elems (tProcessed a) with
                                             | _ :: _ => t_elems (tProcessed a)
                                             | [] => map arg_string (t_elems (tValues a))
                                             end) _).
  - destruct (t_elems (tProcessed a)) as [|p ps] eqn:EP.
    + apply (val_bind _ _ _ _ (t_make_val 0 (t_len (tValues a)) ([] : bytes))). intros v0 (_ & He0 & _).
      apply (val_weaken _ _ _ (t_append_all_val _ v0)). intros v [Hv _]. now rewrite Hv, He0.
    + apply val_ret. simpl. exact EP.
  - intros v Hv. destruct (tElided a).
    + apply (val_bind _ _ _ _ (t_append_val v _)). intros v' [Hv' _]. apply val_ret. now rewrite Hv', Hv.
    + apply val_ret. now rewrite Hv, app_nil_r.
Qed.

Lemma t_args_string_safe a : safe (t_args_string a).
Proof.
  unfold t_args_string.
  apply (safe_bind _ _ (fun v => appendable v)).
  - destruct (t_elems (tProcessed a)) as [|p ps].
    + apply (val_bind _ _ _ _ (t_make_val 0 (t_len (tValues a)) ([] : bytes))). intros v0 (Hf0 & _ & _).
      apply (val_weaken _ _ _ (t_append_all_val _ v0)). intros v [_ Hv]. apply Hv. now left.
    + apply val_ret. right. unfold t_cap_to_len, t_len. simpl. lia.
  - destruct (t_elems (tProcessed a)) as [|p ps].
    + apply (safe_bind _ _ _ (t_make_val 0 (t_len (tValues a)) ([] : bytes))); [apply t_make_safe|].
      intros v0 (Hf0 & _ & _). apply t_append_all_safe. now left.
    + apply safe_ret.
  - intros v Hv. apply safe_bind'; [|intros v'; apply safe_ret].
    destruct (tElided a); [now apply t_append_safe | apply safe_ret].
Qed.

(* ---------------- sequences of operations ---------------- *)

Lemma t_strings_safe l : safe (t_strings l).
Proof.
  induction l as [|c l IH]; simpl; [apply safe_ret|].
  apply safe_bind'; [apply t_args_string_safe | intros _; exact IH].
Qed.

Lemma t_render_safe bs : safe (t_render bs).
Proof.
  induction bs as [|b bs IH]; simpl; [apply safe_ret|].
  apply safe_bind'; [apply t_strings_safe | intros _; exact IH].
Qed.

Lemma run_op_safe ts o : safe (run_op ts o).
Proof.
  destruct o as [lvl|g c|lvl]; simpl.
  - apply safe_bind'; [apply t_aggregate_safe | intros _; apply safe_ret].
  - destruct (nth_error ts g) as [tg|]; [|apply safe_ret].
    destruct (nth_error _ c) as [call|]; [|apply safe_ret].
    apply safe_bind'; [apply t_args_string_safe | intros _; apply safe_ret].
  - apply safe_bind'; [apply t_aggregate_safe|]. intros [bs|m]; [apply t_render_safe | apply safe_ret].
Qed.

Lemma run_ops_safe ts os : safe (run_ops ts os).
Proof.
  induction os as [|o os IH]; simpl; [apply safe_ret|].
  apply safe_bind'; [apply run_op_safe | intros _; exact IH].
Qed.

Lemma log_fresh_init : log_fresh w_init.
Proof. constructor. Qed.

(* ---------------- the store ---------------- *)

Lemma apply_writes_fresh log (st : store) :
  Forall fresh_cell log -> forall g path i, apply_writes log st (Shared g path) i = st (Shared g path) i.
Proof.
  intros Hlog g path i. induction Hlog as [|w log Hw Hlog IH]; simpl; [reflexivity|].
  unfold apply_write at 1. destruct w as [p j]. unfold fresh_cell in Hw. simpl in *.
  destruct p as [g' path'|n]; [discriminate|]. simpl. exact IH.
Qed.

(* ================ the theorems ================ *)

(* The tagged model is the functional model plus bookkeeping.  The map
   iteration order is id_shuffle (creation order) on both sides. *)
Theorem erasure : forall spare lvl gs s,
  erase_buckets (fst (t_aggregate lvl (tag_snapshot spare gs) s)) = aggregate id_shuffle lvl gs.
Proof. intros spare lvl gs s. rewrite (t_aggregate_val lvl (tag_snapshot spare gs) s). now rewrite erase_tag_snapshot. Qed.

Theorem erasure_any : forall lvl ts s,
  erase_buckets (fst (t_aggregate lvl ts s)) = aggregate id_shuffle lvl (erase_snapshot ts).
Proof. intros lvl ts s. apply t_aggregate_val. Qed.

Theorem erasure_snapshot : forall spare gs, erase_snapshot (tag_snapshot spare gs) = gs.
Proof. exact erase_tag_snapshot. Qed.

Theorem erasure_string : forall a s, fst (t_args_string a s) = args_string (erase_args a).
Proof. intros a s. apply t_args_string_val. Qed.

(* every write of Aggregate, of Args.String (on ANY tagged Args: shared or
   not, any capacity) and of any sequence of operations goes to a Fresh array *)
Theorem writes_fresh_aggregate : forall lvl ts w,
  In w (w_log (snd (t_aggregate lvl ts w_init))) -> is_fresh (fst w) = true.
Proof.
  intros lvl ts. apply Forall_forall. exact (t_aggregate_safe lvl ts w_init log_fresh_init).
Qed.

Theorem writes_fresh_string : forall a w,
  In w (w_log (snd (t_args_string a w_init))) -> is_fresh (fst w) = true.
Proof. intros a. apply Forall_forall. exact (t_args_string_safe a w_init log_fresh_init). Qed.

Theorem writes_fresh_ops : forall ts os w,
  In w (w_log (snd (run_ops ts os w_init))) -> is_fresh (fst w) = true.
Proof. intros ts os. apply Forall_forall. exact (run_ops_safe ts os w_init log_fresh_init). Qed.

Theorem writes_fresh : forall spare lvl gs a,
  (forall w, In w (w_log (snd (t_aggregate lvl (tag_snapshot spare gs) w_init))) -> is_fresh (fst w) = true) /\
  (forall w, In w (w_log (snd (t_args_string a w_init))) -> is_fresh (fst w) = true).
Proof. intros spare lvl gs a. split; [apply writes_fresh_aggregate | apply writes_fresh_string]. Qed.

(* No cell of the snapshot is written by any sequence of operations: the
   version of every Shared cell is what it was, for every spare capacity. *)
Theorem snapshot_unchanged : forall spare gs os (st : store) g path i,
  apply_writes (w_log (snd (run_ops (tag_snapshot spare gs) os w_init))) st (Shared g path) i
  = st (Shared g path) i.
Proof.
  intros spare gs os st g path i. apply apply_writes_fresh.
  exact (run_ops_safe _ os w_init log_fresh_init).
Qed.

(* ... hence aggregating again, in the allocator state and with the store
   left by the sequence, gives the same buckets as the first aggregation, and
   the snapshot read back (erased) is the snapshot given. *)
Theorem reaggregate_same : forall spare gs os lvl,
  let ts := tag_snapshot spare gs in
  let s' := snd (run_ops ts os w_init) in
  erase_buckets (fst (t_aggregate lvl ts s')) = erase_buckets (fst (t_aggregate lvl ts w_init)) /\
  erase_buckets (fst (t_aggregate lvl ts s')) = aggregate id_shuffle lvl gs /\
  log_fresh (snd (t_aggregate lvl ts s')).
Proof.
  intros spare gs os lvl ts s'. split; [|split].
  - unfold ts. now rewrite !erasure.
  - apply erasure.
  - apply t_aggregate_safe. exact (run_ops_safe ts os w_init log_fresh_init).
Qed.

(* The code before the fix: with spare capacity in a shared Processed slice,
   "append(a.Processed, "...")" writes cell len(Processed) of the snapshot. *)
Definition bad_args : tArgs :=
  mkTArgs (mkT (Shared 0 [0; 0; 0]) [] 0) (mkT (Shared 0 [0; 0; 1]) [s2b "x"] 2) true.

Theorem string_uncapped_refuted :
  exists a : tArgs,
    is_fresh (t_tag (tProcessed a)) = false /\ tElided a = true /\ t_elems (tProcessed a) <> [] /\
    t_len (tProcessed a) < t_cap (tProcessed a) /\
    In (t_tag (tProcessed a), t_len (tProcessed a)) (w_log (snd (t_args_string_uncapped a w_init))) /\
    w_log (snd (t_args_string a w_init)) = [(Fresh 1, 0); (Fresh 1, 1)] /\
    fst (t_args_string_uncapped a w_init) = fst (t_args_string a w_init).
Proof.
  exists bad_args. split; [reflexivity|]. split; [reflexivity|]. split; [discriminate|].
  split; [unfold t_len; simpl; lia|]. split; [vm_compute; left; reflexivity|].
  split; vm_compute; reflexivity.
Qed.

(* ================ two threads on one snapshot ================ *)

Lemma path_eqb_eq a : forall b, path_eqb a b = true -> a = b.
Proof.
  induction a as [|x a IH]; intros [|y b] H; simpl in H; try discriminate; [reflexivity|].
  apply andb_true_iff in H as [H1 H2]. apply Nat.eqb_eq in H1. apply IH in H2. now subst.
Qed.

Lemma prov_eqb_eq p q : prov_eqb p q = true -> p = q.
Proof.
  destruct p as [g a|n], q as [h b|m]; simpl; intros H; try discriminate.
  - apply andb_true_iff in H as [H1 H2]. apply Nat.eqb_eq in H1. apply path_eqb_eq in H2. now subst.
  - apply Nat.eqb_eq in H. now subst.
Qed.

Section Interleave.
  Variable V : Type.
  (* own b p: thread b may write the cells of array p *)
  Variable own : bool -> prov -> bool.
  Hypothesis own_disjoint : forall p, own true p = true -> own false p = true -> False.
  Hypothesis own_fresh : forall b p, own b p = true -> is_fresh p = true.

  (* thread b may read array p: its own arrays and the snapshot *)
  Definition vis (b : bool) (p : prov) : Prop := own b p = true \/ is_fresh p = false.

  (* the discipline: write only what you own, read only what you own or the snapshot *)
  Definition ev_ok (b : bool) (e : ev V) : Prop :=
    match e with
    | Wr c _ => own b (fst c) = true
    | Rd c => vis b (fst c)
    end.

  Lemma other_not_vis b b' p : Bool.eqb b b' = false -> own b' p = true -> vis b p -> False.
  Proof.
    intros Hb Ho [Hv|Hv].
    - destruct b, b'; try discriminate; eauto.
    - apply own_fresh in Ho. congruence.
  Qed.

  Lemma exec2_core b : forall l (st st' : vstore V),
    Forall (fun be => ev_ok (fst be) (snd be)) l ->
    (forall p i, vis b p -> st p i = st' p i) ->
    snd (exec2 b l st) = snd (exec (proj b l) st') /\
    (forall p i, vis b p -> fst (exec2 b l st) p i = fst (exec (proj b l) st') p i).
  Proof.
    induction l as [|[b' e] l IH]; intros st st' Hok Hag.
    - simpl. split; [reflexivity | exact Hag].
    - inversion Hok as [|x l' Hx Hl]; subst. simpl in Hx.
      destruct e as [c|c v]; simpl.
      + (* a read *)
        destruct (Bool.eqb b b') eqn:Hb.
        * apply Bool.eqb_prop in Hb. subst b'. simpl.
          destruct (IH st st' Hl Hag) as [IH1 IH2].
          destruct (exec2 b l st) as [s1 v1]. destruct (exec (proj b l) st') as [s2 v2]. simpl in *.
          split; [|exact IH2]. rewrite IH1. f_equal. apply Hag. exact Hx.
        * destruct (IH st st' Hl Hag) as [IH1 IH2].
          destruct (exec2 b l st) as [s1 v1]. simpl in *. split; assumption.
      + (* a write *)
        destruct (Bool.eqb b b') eqn:Hb.
        * simpl. apply IH; [exact Hl|]. intros p i Hp. unfold vwrite.
          destruct (prov_eqb (fst c) p && Nat.eqb (snd c) i); [reflexivity | now apply Hag].
        * apply IH; [exact Hl|]. intros p i Hp. unfold vwrite.
          destruct (prov_eqb (fst c) p) eqn:Hc; simpl; [|now apply Hag].
          apply prov_eqb_eq in Hc. subst p. exfalso. exact (other_not_vis b b' (fst c) Hb Hx Hp).
  Qed.

  Lemma exec_shared b t : forall (st : vstore V), Forall (ev_ok b) t ->
    forall p i, is_fresh p = false -> fst (exec t st) p i = st p i.
  Proof.
    induction t as [|e t IH]; intros st Hok p i Hp; simpl; [reflexivity|].
    inversion Hok as [|x t' Hx Ht]; subst. destruct e as [c|c v]; simpl.
    - specialize (IH st Ht p i Hp). destruct (exec t st) as [s1 v1]. exact IH.
    - rewrite (IH _ Ht p i Hp). unfold vwrite.
      destruct (prov_eqb (fst c) p) eqn:Hc; simpl; [|reflexivity].
      apply prov_eqb_eq in Hc. subst p. simpl in Hx. apply own_fresh in Hx. congruence.
  Qed.

  Lemma exec2_store_indep b b' l : forall (st : vstore V), fst (exec2 b l st) = fst (exec2 b' l st).
  Proof.
    induction l as [|[b0 e] l IH]; intros st; simpl; [reflexivity|].
    destruct e as [c|c v]; simpl; [|apply IH].
    specialize (IH st). destruct (exec2 b l st), (exec2 b' l st). exact IH.
  Qed.

  Lemma lift_ok l :
    Forall (ev_ok true) (proj true l) -> Forall (ev_ok false) (proj false l) ->
    Forall (fun be => ev_ok (fst be) (snd be)) l.
  Proof.
    induction l as [|[b e] l IH]; intros H1 H2; [constructor|].
    destruct b; simpl in H1, H2.
    - inversion H1; subst. constructor; auto.
    - inversion H2; subst. constructor; auto.
  Qed.

  Lemma agree_refl b (st : vstore V) : forall p i, vis b p -> st p i = st p i.
  Proof. reflexivity. Qed.

  (* For EVERY interleaving l of two threads that respect the discipline:
     - every cell of the snapshot holds at the end what it held at the start;
     - every cell owned by a thread holds what the thread alone would have left;
     - every thread reads, in order, exactly the values it reads when alone.
     There is no write to a cell the other thread reads or writes. *)
  Theorem interleave_safe_gen : forall (t1 t2 : list (ev V)) l (st : vstore V),
    interleaving t1 t2 l -> Forall (ev_ok true) t1 -> Forall (ev_ok false) t2 ->
    let final := fst (exec2 true l st) in
    (forall p i, is_fresh p = false -> final p i = st p i) /\
    (forall p i, own true p = true -> final p i = fst (exec t1 st) p i) /\
    (forall p i, own false p = true -> final p i = fst (exec t2 st) p i) /\
    snd (exec2 true l st) = snd (exec t1 st) /\
    snd (exec2 false l st) = snd (exec t2 st).
  Proof.
    intros t1 t2 l st [<- <-] H1 H2 final.
    pose proof (lift_ok l H1 H2) as Hok.
    destruct (exec2_core true l st st Hok (agree_refl true st)) as [R1 S1].
    destruct (exec2_core false l st st Hok (agree_refl false st)) as [R2 S2].
    split; [|split; [|split; [|split]]].
    - intros p i Hp. unfold final. rewrite S1 by (now right). now apply (exec_shared true).
    - intros p i Hp. apply S1. now left.
    - intros p i Hp. unfold final. rewrite (exec2_store_indep true false). apply S2. now left.
    - exact R1.
    - exact R2.
  Qed.
End Interleave.

(* ---- the instance: thread b allocates the names of parity b ---- *)

Lemma owned_disjoint p : owned_by true p = true -> owned_by false p = true -> False.
Proof.
  destruct p as [g a|n]; simpl; [discriminate|]. rewrite <- Nat.negb_even. intros ->. discriminate.
Qed.

Lemma owned_fresh b p : owned_by b p = true -> is_fresh p = true.
Proof. destruct p; [destruct b; discriminate | reflexivity]. Qed.

Lemma global_owned b p : is_fresh p = true -> owned_by b (global_name b p) = true.
Proof.
  destruct p as [g a|n]; [discriminate|]. intros _. destruct b; unfold global_name, owned_by.
  - rewrite Nat.even_mul. reflexivity.
  - rewrite Nat.add_comm, Nat.odd_add_mul_2. reflexivity.
Qed.

Definition ev_ok_owned {V} (b : bool) (e : ev V) : Prop := ev_ok V owned_by b e.

Theorem interleave_safe : forall V (t1 t2 : list (ev V)) l (st : vstore V),
  interleaving t1 t2 l -> Forall (ev_ok_owned true) t1 -> Forall (ev_ok_owned false) t2 ->
  let final := fst (exec2 true l st) in
  (forall p i, is_fresh p = false -> final p i = st p i) /\
  (forall p i, owned_by true p = true -> final p i = fst (exec t1 st) p i) /\
  (forall p i, owned_by false p = true -> final p i = fst (exec t2 st) p i) /\
  snd (exec2 true l st) = snd (exec t1 st) /\
  snd (exec2 false l st) = snd (exec t2 st).
Proof. intros V. exact (interleave_safe_gen V owned_by owned_disjoint owned_fresh). Qed.

(* A thread that runs a sequence of operations on the snapshot: any list of
   events whose writes are (the global names of) the writes logged by the
   model for that sequence - in any order, with any values - and whose reads
   are reads of the snapshot or of arrays the thread allocated. *)
Definition thread_of_ops {V} (b : bool) (ts : list tGoroutine) (os : list op) (t : list (ev V)) : Prop :=
  Forall (fun e => match e with
                   | Wr c _ => In c (map (global_cell b) (w_log (snd (run_ops ts os w_init))))
                   | Rd c => owned_by b (fst c) = true \/ is_fresh (fst c) = false
                   end) t.

Lemma thread_of_ops_ok {V} b ts os (t : list (ev V)) : thread_of_ops b ts os t -> Forall (ev_ok_owned b) t.
Proof.
  intros H. eapply Forall_impl; [|exact H]. intros [c|c v] He; simpl; [exact He|].
  apply in_map_iff in He as (w & <- & Hw). simpl. apply global_owned.
  exact (writes_fresh_ops ts os w Hw).
Qed.

(* Two threads running ANY two sequences of Aggregate / String / render
   operations on the SAME tagged snapshot, under ANY interleaving. *)
Theorem concurrent_ops_safe : forall V ts os1 os2 (t1 t2 : list (ev V)) l (st : vstore V),
  thread_of_ops true ts os1 t1 -> thread_of_ops false ts os2 t2 -> interleaving t1 t2 l ->
  let final := fst (exec2 true l st) in
  (forall g path i, final (Shared g path) i = st (Shared g path) i) /\
  (forall p i, owned_by true p = true -> final p i = fst (exec t1 st) p i) /\
  (forall p i, owned_by false p = true -> final p i = fst (exec t2 st) p i) /\
  snd (exec2 true l st) = snd (exec t1 st) /\
  snd (exec2 false l st) = snd (exec t2 st).
Proof.
  intros V ts os1 os2 t1 t2 l st H1 H2 Hl final.
  destruct (interleave_safe V t1 t2 l st Hl (thread_of_ops_ok _ _ _ _ H1) (thread_of_ops_ok _ _ _ _ H2))
    as (A & B & C & D & E).
  split; [|split; [|split; [|split]]]; try assumption.
  intros g path i. now apply A.
Qed.

(* ================ the shape of the alias graph ================ *)

(* every Values slice of the calls is a Fresh one *)
Definition values_fresh (l : list tCall) : Prop := Forall (fun c => fr (tValues (tcArgs c))) l.

(* A bucket signature is either the shallow copy of a member's signature (all
   its slices ARE that goroutine's), or a merged one: Stack.Calls and every
   Args.Values are Fresh, CreatedBy is still a member's slice header. *)
Definition key_shape (ts : list tGoroutine) (k : tSignature) : Prop :=
  exists tg, In tg ts /\
    (k = tGSig tg \/
     (fr (tCalls (tSStack k)) /\ values_fresh (t_elems (tCalls (tSStack k))) /\
      tCreatedBy k = tCreatedBy (tGSig tg))).

Lemma t_call_merge_fr c r : val (t_call_merge c r) (fun o => fr (tValues (tcArgs o))).
Proof.
  unfold t_call_merge. apply (val_bind _ _ _ _ (t_args_merge_fr _ _)). intros a Ha. now apply val_ret.
Qed.

Lemma calls_loop_values l : forall r out i,
  values_fresh (t_elems out) -> val (t_calls_loop out i l r) (fun o => values_fresh (t_elems o)).
Proof.
  induction l as [|x l IH]; intros [|y r] out i Hout; simpl; try (now apply val_ret).
  apply (val_bind _ _ _ _ (t_call_merge_fr x y)). intros c Hc.
  apply (val_bind _ _ _ _ (t_set_val out i c)). intros out' (_ & He & _).
  apply IH. rewrite He. now apply Forall_upd_nth.
Qed.

Lemma t_stack_merge_values s r : val (t_stack_merge s r) (fun o => values_fresh (t_elems (tCalls o))).
Proof.
  unfold t_stack_merge.
  apply (val_bind _ _ _ _ (t_make_val _ _ emptyTCall)). intros out (_ & He & _).
  apply (val_bind _ _ _ _ (val_true _)). intros _ _.
  apply (val_bind _ _ (fun o => values_fresh (t_elems o)) _).
  - apply calls_loop_values. rewrite He. apply Forall_forall. intros c Hc.
    apply repeat_spec in Hc. subst c. reflexivity.
  - intros out' Ho. now apply val_ret.
Qed.

Lemma t_sig_merge_shape' s r :
  val (t_sig_merge s r) (fun o => fr (tCalls (tSStack o)) /\ values_fresh (t_elems (tCalls (tSStack o))) /\
                                  tCreatedBy o = tCreatedBy s).
Proof.
  unfold t_sig_merge.
  apply (val_bind _ _ _ _ (val_conj _ _ _ (t_stack_merge_fr _ _) (t_stack_merge_values _ _))). intros st [H1 H2].
  apply (val_bind _ _ _ _ (val_true _)). intros _ _.
  apply val_ret. simpl. auto.
Qed.

Definition keys_ok (ts : list tGoroutine) (r : GoResult (tslice tentry)) : Prop :=
  match r with Ok st => Forall (fun e => key_shape ts (tekey e)) (t_elems st) | Panic _ => True end.

Lemma agg_step_keys ts lvl st g :
  In g ts -> keys_ok ts (Ok st) -> val (t_agg_step lvl st g) (keys_ok ts).
Proof.
  intros Hg Hall. simpl in Hall. unfold t_agg_step.
  destruct (find _ _) as [i|].
  - destruct (nth_error (t_elems st) i) as [e|] eqn:Hi; [|apply val_ret; exact I].
    assert (He : key_shape ts (tekey e)).
    { apply nth_error_In in Hi. revert e Hi. now apply Forall_forall. }
    apply (val_bind _ _ _ _ (val_true _)). intros ids _.
    cbv zeta. destruct (sig_equal _ _).
    + apply (val_bind _ _ _ _ (t_set_val st i _)). intros st' (_ & Hel & _).
      apply val_ret. simpl. rewrite Hel. now apply Forall_upd_nth.
    + destruct (sig_merge_safe _ _); [|apply val_ret; exact I].
      apply (val_bind _ _ _ _ (t_sig_merge_shape' (tekey e) (tGSig g))). intros k' (K1 & K2 & K3).
      apply (val_bind _ _ _ _ (t_set_val st i _)). intros st' (_ & Hel & _).
      apply val_ret. simpl. rewrite Hel. apply Forall_upd_nth; [exact Hall|]. simpl.
      destruct He as (tg & Htg & [Hk|(_ & _ & Hk)]); exists tg; (split; [exact Htg|]); right;
        (split; [exact K1|]); (split; [exact K2|]); rewrite K3, Hk; reflexivity.
  - apply (val_bind _ _ _ _ (val_true _)). intros _ _.
    apply (val_bind _ _ _ _ (val_true _)). intros ids0 _.
    apply (val_bind _ _ _ _ (val_true _)). intros ids _.
    apply (val_bind _ _ _ _ (val_true _)). intros _ _.
    apply (val_bind _ _ _ _ (t_append_val st _)). intros st' [Hel _].
    apply val_ret. simpl. rewrite Hel. apply Forall_app. split; [exact Hall|].
    constructor; [|constructor]. simpl. exists g. split; [exact Hg | now left].
Qed.

Lemma agg_loop_keys ts lvl gs : forall st,
  (forall g, In g gs -> In g ts) -> keys_ok ts (Ok st) -> val (t_agg_loop lvl st gs) (keys_ok ts).
Proof.
  induction gs as [|g gs IH]; intros st Hin Hst; simpl.
  - now apply val_ret.
  - apply (val_bind _ _ _ _ (agg_step_keys ts lvl st g (Hin g (or_introl eq_refl)) Hst)). intros [st'|m] Hr.
    + apply IH; [|exact Hr]. intros g' Hg'. apply Hin. now right.
    + apply val_ret. exact I.
Qed.

Lemma buckets_loop_keys ts es : forall bs,
  Forall (fun b => key_shape ts (tBSig b)) (t_elems bs) -> Forall (fun e => key_shape ts (tekey e)) es ->
  val (t_buckets_loop bs es) (fun r => Forall (fun b => key_shape ts (tBSig b)) (t_elems r)).
Proof.
  induction es as [|e es IH]; intros bs Hbs Hes; simpl.
  - now apply val_ret.
  - inversion Hes as [|e' es' He Hes']; subst.
    apply (val_bind _ _ _ _ (val_true _)). intros ids _.
    apply (val_bind _ _ _ _ (val_true _)). intros _ _.
    apply (val_bind _ _ _ _ (t_append_val bs _)). intros bs' [Hel _].
    apply IH; [|exact Hes']. rewrite Hel. apply Forall_app. split; [exact Hbs|].
    constructor; [exact He | constructor].
Qed.

Theorem alias_shape_any : forall lvl ts s bs,
  fst (t_aggregate lvl ts s) = Ok bs -> Forall (fun b => key_shape ts (tBSig b)) (t_elems bs).
Proof.
  intros lvl ts s bs. revert s bs.
  change (val (t_aggregate lvl ts)
              (fun r => forall bs, r = Ok bs -> Forall (fun b => key_shape ts (tBSig b)) (t_elems bs))).
  unfold t_aggregate.
  apply (val_bind _ _ _ _ (agg_loop_keys ts lvl ts t_nil (fun g H => H) (Forall_nil _))).
  intros [st|m] Hr; [|apply val_ret; discriminate]. simpl in Hr.
  apply (val_bind _ _ _ _ (t_make_val 0 (t_len st) _)). intros bs0 (_ & He0 & _).
  apply (val_bind _ _ _ _ (buckets_loop_keys ts (t_elems st) bs0 ltac:(rewrite He0; constructor) Hr)).
  intros bs1 Hbs1.
  apply (val_bind _ _ _ _ (t_sort_val _ bs1)). intros bs2 [_ Hbs2].
  apply val_ret. intros bs [= <-]. rewrite Hbs2.
  apply Forall_forall. intros b Hb. apply (Permutation_in _ (sort_stable_perm _ _)) in Hb.
  revert b Hb. now apply Forall_forall.
Qed.

Lemma in_tag_from spare gs : forall g0 tg, In tg (tag_from spare g0 gs) ->
  exists k x, nth_error gs k = Some x /\ tg = tag_goroutine spare (g0 + k) x.
Proof.
  induction gs as [|x gs IH]; intros g0 tg H; simpl in H; [contradiction|].
  destruct H as [<-|H].
  - exists 0, x. split; [reflexivity|]. now rewrite Nat.add_0_r.
  - apply IH in H as (k & y & Hk & ->). exists (S k), y. split; [exact Hk|]. f_equal. lia.
Qed.

(* What [alias_graph] reports for a bucket, for every snapshot: the bucket is
   either entirely goroutine g's (alias entry of g's own signature) or merged:
   no Stack.Calls / Values sharing at all, CreatedBy.Calls still g's. *)
Theorem alias_graph_shape : forall spare lvl gs s bs b,
  fst (t_aggregate lvl (tag_snapshot spare gs) s) = Ok bs -> In b (t_elems bs) ->
  exists g x, nth_error gs g = Some x /\
    let k := tag_sig spare g (GSig x) in
    (tBSig b = k \/
     alias_of_bucket b =
       (None, calls_shared_with 1 (tCalls (tCreatedBy k)),
        map (fun _ => None) (t_elems (tCalls (tSStack (tBSig b)))))).
Proof.
  intros spare lvl gs s bs b Hr Hb.
  pose proof (alias_shape_any _ _ _ _ Hr) as Hall.
  apply (proj1 (Forall_forall _ _) Hall) in Hb as (tg & Htg & Hk).
  apply in_tag_from in Htg as (g & x & Hg & ->). exists g, x. split; [exact Hg|]. simpl.
  destruct Hk as [Hk|(K1 & K2 & K3)]; [now left|]. right.
  unfold alias_of_bucket. rewrite K3. f_equal; [f_equal|].
  - unfold calls_shared_with. destruct (Nat.eqb _ 0); [reflexivity|].
    unfold fr in K1. destruct (t_tag _); [discriminate | reflexivity].
  - apply map_ext_in. intros c Hc. apply (proj1 (Forall_forall _ _) K2) in Hc.
    unfold values_shared_with. destruct (Nat.eqb _ 0); [reflexivity|].
    unfold fr in Hc. destruct (t_tag _); [discriminate | reflexivity].
Qed.

(* ---------------- the example of Properties/C14.v ---------------- *)
Definition c14_func (name : bytes) : Func := mkFunc name (s2b "main") (s2b "main") name false true.
Definition c14_call (name : bytes) (line : Z) (args : list Arg) : Call :=
  mkCall (c14_func name) (mkArgs args [] false) (s2b "/src/main.go") line (s2b "main.go") (s2b "src/main.go")
         [] [] (s2b "main") LocationUnknown.
Definition c14_ptr (v : N) : Arg := MkArg false [] v true false false [] [] false.
Definition c14_int (v : N) : Arg := MkArg false [] v false false false [] [] false.
Definition c14_creator : Stack := mkStack [c14_call (s2b "main.spawn") 5 []] false.
Definition c14_gor (id : Z) (first : bool) (cr : Stack) (calls : list Call) : Goroutine :=
  mkGoroutine (mkSig (s2b "running") cr 0 0 (mkStack calls false) false) id first false 0.
(* goroutines 0 and 1 differ by a pointer argument; goroutine 2 is alone, has
   no creator, and its second call has no argument (an empty Values slice) *)
Definition c14_gs : list Goroutine :=
  [ c14_gor 1 true c14_creator
      [c14_call (s2b "main.f") 10 [c14_ptr 0xc000010000; c14_int 1]; c14_call (s2b "main.g") 20 [c14_int 7]];
    c14_gor 2 false c14_creator
      [c14_call (s2b "main.f") 10 [c14_ptr 0xc000020000; c14_int 1]; c14_call (s2b "main.g") 20 [c14_int 7]];
    c14_gor 3 false emptyStack
      [c14_call (s2b "main.h") 30 [c14_int 1; c14_int 2]; c14_call (s2b "main.k") 40 [];
       c14_call (s2b "main.m") 50 [c14_int 3]] ].
