(* Proofs/HtmlDocProofs.v — theorems about the document model Model/HtmlDoc.v
   (property C17b).  Stdlib only, no axioms; everything Qed.
     1. holes are escaped: every delimiter byte (<, >, double quote, single quote) of the rendered
        content region lies inside a Lit piece (the template's own text);
     2. completeness: one <h1> per bucket / goroutine, one <tr> per call plus
        two per elided stack (counted in the Lit pieces);
     3. the skeleton (the Lit pieces, the kinds and positions of the holes and
        the numbers) depends only on the SHAPE of the input. *)
From PP Require Import Base.Bytes Base.BytesX Base.Num Base.GoResult Model.Types Model.Html Model.UI Model.HtmlDoc.
From PP Require Import Proofs.HtmlBase Proofs.HtmlProofs.

(* ------------------------------------------------------------------ *)
(* vocabulary                                                          *)
(* ------------------------------------------------------------------ *)
Definition is_lit (p : piece) : bool := match p with Lit _ => true | _ => false end.

(* the four bytes that can open / close a tag or a quoted attribute value *)
Definition delim (c : N) : bool := N.eqb c 60 || N.eqb c 62 || N.eqb c 34 || N.eqb c 39.

(* the piece that contains byte offset [i] of the flattened output, and the
   offset inside the flattened piece *)
Fixpoint piece_at (ps : list piece) (i : nat) : option (piece * nat) :=
  match ps with
  | [] => None
  | p :: r =>
      let n := List.length (flatten_piece p) in
      if Nat.ltb i n then Some (p, i) else piece_at r (i - n)
  end.

(* the template text alone *)
Definition lit_bytes (ps : list piece) : bytes :=
  flat_map (fun p => match p with Lit s => s | _ => [] end) ps.

(* number of positions of [s] at which [pat] starts *)
Fixpoint count_sub (pat s : bytes) : nat :=
  match s with
  | [] => 0
  | _ :: s' => (if has_prefix s pat then 1 else 0) + count_sub pat s'
  end.

(* occurrences of [pat] inside the Lit pieces *)
Fixpoint lit_count (pat : bytes) (ps : list piece) : nat :=
  match ps with
  | [] => 0
  | Lit s :: r => count_sub pat s + lit_count pat r
  | _ :: r => lit_count pat r
  end.

Definition tag_h1 : bytes := s2b "<h1>".
Definition tag_tr : bytes := s2b "<tr>".

(* erase the payload of the holes *)
Definition shape_piece (p : piece) : piece :=
  match p with
  | Lit s => Lit s
  | Text _ => Text []
  | Href _ => Href []
  | Class _ => Class []
  | Num z => Num z
  end.

(* ------------------------------------------------------------------ *)
(* 1. holes are escaped                                                *)
(* ------------------------------------------------------------------ *)
Lemma dec_go_digits fuel : forall n acc c, In c (dec_go fuel n acc) -> In c acc \/ (48 <= c <= 57)%N.
Proof.
  induction fuel as [|f IH]; intros n acc c H; cbn [dec_go] in H; [auto|].
  assert (D : (48 <= 48 + n mod 10 <= 57)%N) by (assert (n mod 10 < 10)%N by (apply N.mod_upper_bound; lia); generalize dependent (n mod 10)%N; intros; lia).
  destruct (n <? 10)%N.
  - destruct H as [<-|H]; auto.
  - apply IH in H. destruct H as [[<-|H]|H]; auto.
Qed.

Lemma N_to_dec_digits n c : In c (N_to_dec n) -> (48 <= c <= 57)%N.
Proof. unfold N_to_dec. intros H. apply dec_go_digits in H. destruct H as [[]|H]; exact H. Qed.

Lemma Z_to_dec_digits z c : In c (Z_to_dec z) -> c = 45%N \/ (48 <= c <= 57)%N.
Proof.
  destruct z; cbn [Z_to_dec]; intros H.
  - right. eapply N_to_dec_digits; eauto.
  - right. eapply N_to_dec_digits; eauto.
  - destruct H as [<-|H]; [left; reflexivity|right; eapply N_to_dec_digits; eauto].
Qed.

Lemma delim_cases c : delim c = true <-> c = 60%N \/ c = 62%N \/ c = 34%N \/ c = 39%N.
Proof. unfold delim. rewrite !orb_true_iff, !N.eqb_eq. tauto. Qed.

(* the bytes of a hole *)
Theorem hole_safe : forall p, is_lit p = false -> forall c, In c (flatten_piece p) ->
  c <> 60%N /\ c <> 62%N /\ c <> 34%N /\ c <> 39%N.
Proof.
  intros p Hp c H. destruct p as [s|d|u|k|z]; cbn [flatten_piece] in H.
  - discriminate.
  - apply text_safe in H. tauto.
  - apply href_safe in H. tauto.
  - apply text_safe in H. tauto.
  - apply Z_to_dec_digits in H. lia.
Qed.

Lemma hole_no_delim p c : is_lit p = false -> In c (flatten_piece p) -> delim c = false.
Proof.
  intros Hp H. destruct (delim c) eqn:E; [|reflexivity].
  apply delim_cases in E. pose proof (hole_safe p Hp c H). lia.
Qed.

Lemma flatten_pieces_cons p r : flatten_pieces (p :: r) = flatten_piece p ++ flatten_pieces r.
Proof. reflexivity. Qed.

Lemma flatten_pieces_app a b : flatten_pieces (a ++ b) = flatten_pieces a ++ flatten_pieces b.
Proof. unfold flatten_pieces. apply flat_map_app. Qed.

(* piece_at finds the piece that produced byte i *)
Theorem piece_at_spec : forall ps i c, nth_error (flatten_pieces ps) i = Some c ->
  exists p k, piece_at ps i = Some (p, k) /\ nth_error (flatten_piece p) k = Some c.
Proof.
  induction ps as [|p r IH]; intros i c H.
  - destruct i; discriminate.
  - rewrite flatten_pieces_cons in H. cbn [piece_at].
    destruct (Nat.ltb_spec i (List.length (flatten_piece p))) as [L|L].
    + rewrite nth_error_app1 in H by assumption. eauto.
    + rewrite nth_error_app2 in H by assumption. apply IH in H. exact H.
Qed.

(* ... and what it returns is a piece of the list, at the right offset *)
Theorem piece_at_split : forall ps i p k, piece_at ps i = Some (p, k) ->
  exists pre post, ps = pre ++ p :: post /\ i = (List.length (flatten_pieces pre) + k)%nat /\
                   (k < List.length (flatten_piece p))%nat.
Proof.
  induction ps as [|q r IH]; intros i p k H; cbn [piece_at] in H; [discriminate|].
  destruct (Nat.ltb_spec i (List.length (flatten_piece q))) as [L|L].
  - injection H as <- <-. exists [], r. repeat split; auto.
  - apply IH in H. destruct H as (pre & post & -> & E & K).
    exists (q :: pre), post. repeat split; auto.
    rewrite flatten_pieces_cons, app_length. lia.
Qed.

(* every delimiter byte of the flattened output is a byte of a Lit piece *)
Theorem delim_in_lit : forall ps i c, nth_error (flatten_pieces ps) i = Some c -> delim c = true ->
  exists s k, piece_at ps i = Some (Lit s, k) /\ nth_error s k = Some c.
Proof.
  intros ps i c H D. apply piece_at_spec in H. destruct H as (p & k & P & N).
  destruct (is_lit p) eqn:L.
  - destruct p; try discriminate. eauto.
  - apply nth_error_In in N. rewrite (hole_no_delim p c L N) in D. discriminate.
Qed.

Lemma count_byte_app a b c : count_byte (a ++ b) c = (count_byte a c + count_byte b c)%nat.
Proof. induction a as [|x a IH]; cbn [count_byte app]; [reflexivity|]. rewrite IH. lia. Qed.

Lemma count_byte_notin s c : ~ In c s -> count_byte s c = 0%nat.
Proof.
  induction s as [|x s IH]; intros H; cbn [count_byte]; [reflexivity|].
  destruct (N.eqb_spec x c) as [->|_]; [exfalso; apply H; left; reflexivity|].
  rewrite IH; [reflexivity|]. intros I. apply H. right. exact I.
Qed.

(* counting formulation: the delimiters of the output are those of the template *)
Theorem delim_count : forall ps c, delim c = true ->
  count_byte (flatten_pieces ps) c = count_byte (lit_bytes ps) c.
Proof.
  intros ps c D. induction ps as [|p r IH]; [reflexivity|].
  rewrite flatten_pieces_cons. unfold lit_bytes in *. cbn [flat_map]. rewrite !count_byte_app, IH. f_equal.
  destruct (is_lit p) eqn:L.
  - destruct p; try discriminate. reflexivity.
  - rewrite count_byte_notin.
    + destruct p; try discriminate; reflexivity.
    + intros I. rewrite (hole_no_delim p c L I) in D. discriminate.
Qed.

Theorem holes_escaped_buckets : forall ver bs i c,
  nth_error (render_content_buckets ver bs) i = Some c -> delim c = true ->
  exists s k, piece_at (content_pieces_buckets ver bs) i = Some (Lit s, k) /\ nth_error s k = Some c.
Proof. intros ver bs. exact (delim_in_lit (content_pieces_buckets ver bs)). Qed.

Theorem holes_escaped_goroutines : forall ver gs i c,
  nth_error (render_content_goroutines ver gs) i = Some c -> delim c = true ->
  exists s k, piece_at (content_pieces_goroutines ver gs) i = Some (Lit s, k) /\ nth_error s k = Some c.
Proof. intros ver gs. exact (delim_in_lit (content_pieces_goroutines ver gs)). Qed.

Theorem delim_count_buckets : forall ver bs c, delim c = true ->
  count_byte (render_content_buckets ver bs) c = count_byte (lit_bytes (content_pieces_buckets ver bs)) c.
Proof. intros ver bs. exact (delim_count (content_pieces_buckets ver bs)). Qed.

Theorem delim_count_goroutines : forall ver gs c, delim c = true ->
  count_byte (render_content_goroutines ver gs) c = count_byte (lit_bytes (content_pieces_goroutines ver gs)) c.
Proof. intros ver gs. exact (delim_count (content_pieces_goroutines ver gs)). Qed.

(* ------------------------------------------------------------------ *)
(* 2. completeness: <h1> and <tr> literals                             *)
(* ------------------------------------------------------------------ *)
Definition is_tag (pat : bytes) : Prop := pat = tag_h1 \/ pat = tag_tr.

Lemma lit_count_app pat a b : lit_count pat (a ++ b) = (lit_count pat a + lit_count pat b)%nat.
Proof.
  induction a as [|p a IH]; [reflexivity|].
  destruct p; cbn [app lit_count]; rewrite IH; lia.
Qed.

Lemma lc_args_items pat e l : is_tag pat -> lit_count pat (args_item_pieces e l) = 0%nat.
Proof.
  intros [-> | ->]; (induction l as [|x r IH]; [reflexivity|]);
  cbn [args_item_pieces lit_count]; rewrite lit_count_app, IH; destruct (e || nonempty r); reflexivity.
Qed.

Lemma lc_args pat a : is_tag pat -> lit_count pat (args_pieces a) = 0%nat.
Proof.
  intros H. unfold args_pieces. rewrite !lit_count_app, lc_args_items by assumption.
  destruct H as [-> | ->]; destruct (Elided a); reflexivity.
Qed.

Lemma lc_tooltip pat c : is_tag pat -> lit_count pat (tooltip_pieces c) = 0%nat.
Proof.
  intros H. unfold tooltip_pieces. rewrite lit_count_app.
  destruct H as [-> | ->]; destruct (two_paths c); reflexivity.
Qed.

Lemma lc_created_by pat ver c : is_tag pat -> lit_count pat (created_by_pieces ver c) = 0%nat.
Proof.
  intros H. unfold created_by_pieces. rewrite !lit_count_app, lc_tooltip by assumption.
  destruct H as [-> | ->]; reflexivity.
Qed.

Lemma lc_call_h1 ver i c : lit_count tag_h1 (call_pieces ver i c) = 0%nat.
Proof.
  unfold call_pieces. rewrite !lit_count_app, lc_tooltip, lc_args by (left; reflexivity). reflexivity.
Qed.

Lemma lc_call_tr ver i c : lit_count tag_tr (call_pieces ver i c) = 1%nat.
Proof.
  unfold call_pieces. rewrite !lit_count_app, lc_tooltip, lc_args by (right; reflexivity). reflexivity.
Qed.

Lemma lc_calls_h1 ver l : forall i, lit_count tag_h1 (calls_pieces ver i l) = 0%nat.
Proof.
  induction l as [|c r IH]; intros i; [reflexivity|].
  cbn [calls_pieces]. rewrite lit_count_app, lc_call_h1, IH. reflexivity.
Qed.

Lemma lc_calls_tr ver l : forall i, lit_count tag_tr (calls_pieces ver i l) = List.length l.
Proof.
  induction l as [|c r IH]; intros i; [reflexivity|].
  cbn [calls_pieces]. rewrite lit_count_app, lc_call_tr, IH. reflexivity.
Qed.

(* rows of one stack table *)
Definition stack_rows (st : Stack) : nat := (List.length (Calls st) + (if SElided st then 2 else 0))%nat.

Lemma lc_stack_h1 ver st : lit_count tag_h1 (stack_pieces ver st) = 0%nat.
Proof.
  unfold stack_pieces. rewrite !lit_count_app, lc_calls_h1. destruct (SElided st); reflexivity.
Qed.

Lemma lc_stack_tr ver st : lit_count tag_tr (stack_pieces ver st) = stack_rows st.
Proof.
  unfold stack_pieces, stack_rows. rewrite !lit_count_app, lc_calls_tr.
  destruct (SElided st).
  - change (lit_count tag_tr [Lit elided_row]) with 2%nat. change (lit_count tag_tr [Lit (s2b "<table class=""stack"">")]) with 0%nat.
    change (lit_count tag_tr [Lit (s2b "</table>")]) with 0%nat. lia.
  - change (lit_count tag_tr [Lit (s2b "<table class=""stack"">")]) with 0%nat.
    change (lit_count tag_tr [Lit (s2b "</table>")]) with 0%nat. cbn [lit_count]. lia.
Qed.

Lemma lc_sleep pat s : is_tag pat -> lit_count pat (sleep_pieces s) = 0%nat.
Proof.
  intros H. unfold sleep_pieces.
  destruct H as [-> | ->]; destruct (Z.eqb (SleepMax s) 0); try reflexivity;
  destruct (negb (Z.eqb (SleepMin s) (SleepMax s))); reflexivity.
Qed.

Lemma lc_locked pat s : is_tag pat -> lit_count pat (locked_pieces s) = 0%nat.
Proof. intros H. unfold locked_pieces. destruct H as [-> | ->]; destruct (Locked s); reflexivity. Qed.

Lemma lc_created pat ver s : is_tag pat -> lit_count pat (created_pieces ver s) = 0%nat.
Proof.
  intros H. unfold created_pieces. destruct (Calls (CreatedBy s)) as [|c r]; [reflexivity|].
  rewrite !lit_count_app, lc_created_by by assumption. destruct H as [-> | ->]; reflexivity.
Qed.

Lemma lc_race pat g : is_tag pat -> lit_count pat (race_pieces g) = 0%nat.
Proof.
  intros H. unfold race_pieces.
  destruct H as [-> | ->]; destruct (N.eqb (RaceAddr g) 0); try reflexivity; destruct (RaceWrite g); reflexivity.
Qed.

Lemma lc_bucket_h1 ver i b : lit_count tag_h1 (bucket_pieces ver i b) = 1%nat.
Proof.
  unfold bucket_pieces.
  rewrite !lit_count_app, lc_sleep, lc_locked, lc_created, lc_stack_h1 by (left; reflexivity).
  destruct (Nat.eqb (List.length (IDs b)) 1); reflexivity.
Qed.

Lemma lc_bucket_tr ver i b : lit_count tag_tr (bucket_pieces ver i b) = stack_rows (SStack (BSig b)).
Proof.
  unfold bucket_pieces.
  rewrite !lit_count_app, lc_sleep, lc_locked, lc_created, lc_stack_tr by (right; reflexivity).
  destruct (Nat.eqb (List.length (IDs b)) 1); reflexivity.
Qed.

Lemma lc_goroutine_h1 ver g : lit_count tag_h1 (goroutine_pieces ver g) = 1%nat.
Proof.
  unfold goroutine_pieces.
  rewrite !lit_count_app, lc_sleep, lc_locked, lc_race, lc_created, lc_stack_h1 by (left; reflexivity).
  reflexivity.
Qed.

Lemma lc_goroutine_tr ver g : lit_count tag_tr (goroutine_pieces ver g) = stack_rows (SStack (GSig g)).
Proof.
  unfold goroutine_pieces.
  rewrite !lit_count_app, lc_sleep, lc_locked, lc_race, lc_created, lc_stack_tr by (right; reflexivity).
  reflexivity.
Qed.

(* calls of all the stacks / number of elided stacks *)
Definition total_calls (sigs : list Signature) : nat := List.length (flat_map (fun s => Calls (SStack s)) sigs).
Definition elided_stacks (sigs : list Signature) : nat := List.length (filter (fun s => SElided (SStack s)) sigs).

Lemma rows_cons s r :
  (total_calls (s :: r) + 2 * elided_stacks (s :: r) =
   stack_rows (SStack s) + (total_calls r + 2 * elided_stacks r))%nat.
Proof.
  unfold total_calls, elided_stacks, stack_rows. cbn [flat_map filter]. rewrite app_length.
  destruct (SElided (SStack s)); cbn [List.length]; lia.
Qed.

Lemma lc_buckets_h1 ver bs : forall i, lit_count tag_h1 (buckets_pieces ver i bs) = List.length bs.
Proof.
  induction bs as [|b r IH]; intros i; [reflexivity|].
  cbn [buckets_pieces]. rewrite lit_count_app, lc_bucket_h1, IH. reflexivity.
Qed.

Lemma lc_buckets_tr ver bs : forall i,
  lit_count tag_tr (buckets_pieces ver i bs) = (total_calls (map BSig bs) + 2 * elided_stacks (map BSig bs))%nat.
Proof.
  induction bs as [|b r IH]; intros i; [reflexivity|].
  cbn [buckets_pieces map]. rewrite lit_count_app, lc_bucket_tr, IH, rows_cons. reflexivity.
Qed.

Lemma lc_goroutines_h1 ver gs : lit_count tag_h1 (flat_map (goroutine_pieces ver) gs) = List.length gs.
Proof.
  induction gs as [|g r IH]; [reflexivity|].
  cbn [flat_map]. rewrite lit_count_app, lc_goroutine_h1, IH. reflexivity.
Qed.

Lemma lc_goroutines_tr ver gs :
  lit_count tag_tr (flat_map (goroutine_pieces ver) gs) = (total_calls (map GSig gs) + 2 * elided_stacks (map GSig gs))%nat.
Proof.
  induction gs as [|g r IH]; [reflexivity|].
  cbn [flat_map map]. rewrite lit_count_app, lc_goroutine_tr, IH, rows_cons. reflexivity.
Qed.

Theorem complete_doc_buckets : forall ver bs,
  lit_count tag_h1 (content_pieces_buckets ver bs) = List.length bs /\
  lit_count tag_tr (content_pieces_buckets ver bs) =
    (total_calls (map BSig bs) + 2 * elided_stacks (map BSig bs))%nat.
Proof.
  intros ver bs. unfold content_pieces_buckets. rewrite !lit_count_app, lc_buckets_h1, lc_buckets_tr.
  split.
  - change (lit_count tag_h1 [Lit div_open]) with 0%nat. change (lit_count tag_h1 [Lit div_close]) with 0%nat. lia.
  - change (lit_count tag_tr [Lit div_open]) with 0%nat. change (lit_count tag_tr [Lit div_close]) with 0%nat. lia.
Qed.

Theorem complete_doc_goroutines : forall ver gs,
  lit_count tag_h1 (content_pieces_goroutines ver gs) = List.length gs /\
  lit_count tag_tr (content_pieces_goroutines ver gs) =
    (total_calls (map GSig gs) + 2 * elided_stacks (map GSig gs))%nat.
Proof.
  intros ver gs. unfold content_pieces_goroutines. rewrite !lit_count_app, lc_goroutines_h1, lc_goroutines_tr.
  split.
  - change (lit_count tag_h1 [Lit div_open]) with 0%nat. change (lit_count tag_h1 [Lit div_close]) with 0%nat. lia.
  - change (lit_count tag_tr [Lit div_open]) with 0%nat. change (lit_count tag_tr [Lit div_close]) with 0%nat. lia.
Qed.

(* ------------------------------------------------------------------ *)
(* 3. the skeleton depends only on the shape                           *)
(* ------------------------------------------------------------------ *)
(* What the template looks at, besides the numbers it prints:
     Args:      .Elided, and the NUMBER of items it ranges over (.Processed when
                non-empty, .Values otherwise: both branches emit one Text hole per item);
                Arg.String (names, values, nested aggregates) is a single hole;
     Call:      and .LocalSrcPath (ne .RemoteSrcPath .LocalSrcPath)  [two_paths], .Line;
                Location, IsExported, IsPkgMain only reach the payload of holes
                (Location text, class value, URLs), never the skeleton;
     Stack:     number of calls, .Elided;
     CreatedBy: empty or not; only its first call is rendered;
     Signature: SleepMin, SleepMax, Locked;   Bucket: len .IDs;
     Goroutine: ID, RaceAddr = 0 or not, RaceWrite (when RaceAddr <> 0).
   Every other string (State, Func.*, SrcName, the three paths, ImportPath, argument
   names, Processed items, ...) is unconstrained. *)
Definition same_shape_args (a1 a2 : Args) : Prop :=
  Elided a1 = Elided a2 /\ List.length (args_items a1) = List.length (args_items a2).

Definition same_shape_call (c1 c2 : Call) : Prop :=
  two_paths c1 = two_paths c2 /\ Line c1 = Line c2 /\ same_shape_args (CArgs c1) (CArgs c2).

Definition same_shape_creator (s1 s2 : Stack) : Prop :=
  match Calls s1, Calls s2 with
  | [], [] => True
  | c1 :: _, c2 :: _ => two_paths c1 = two_paths c2 /\ Line c1 = Line c2
  | _, _ => False
  end.

Definition same_shape_stack (s1 s2 : Stack) : Prop :=
  SElided s1 = SElided s2 /\ Forall2 same_shape_call (Calls s1) (Calls s2).

Definition same_shape_sig (s1 s2 : Signature) : Prop :=
  SleepMin s1 = SleepMin s2 /\ SleepMax s1 = SleepMax s2 /\ Locked s1 = Locked s2 /\
  same_shape_creator (CreatedBy s1) (CreatedBy s2) /\ same_shape_stack (SStack s1) (SStack s2).

Definition same_shape_bucket (b1 b2 : Bucket) : Prop :=
  List.length (IDs b1) = List.length (IDs b2) /\ same_shape_sig (BSig b1) (BSig b2).

Definition same_shape_goroutine (g1 g2 : Goroutine) : Prop :=
  ID g1 = ID g2 /\ N.eqb (RaceAddr g1) 0 = N.eqb (RaceAddr g2) 0 /\
  (RaceAddr g1 <> 0%N -> RaceWrite g1 = RaceWrite g2) /\ same_shape_sig (GSig g1) (GSig g2).

Definition same_shape (bs1 bs2 : list Bucket) : Prop := Forall2 same_shape_bucket bs1 bs2.
Definition same_shape_goroutines (gs1 gs2 : list Goroutine) : Prop := Forall2 same_shape_goroutine gs1 gs2.

Lemma shape_args_items e : forall l1 l2, List.length l1 = List.length l2 ->
  map shape_piece (args_item_pieces e l1) = map shape_piece (args_item_pieces e l2).
Proof.
  induction l1 as [|x r1 IH]; intros [|y r2] H; try discriminate; [reflexivity|].
  injection H as H. cbn [args_item_pieces map shape_piece]. rewrite !map_app, (IH _ H).
  replace (nonempty r2) with (nonempty r1) by (destruct r1, r2; try discriminate; reflexivity).
  reflexivity.
Qed.

Lemma shape_args a1 a2 : same_shape_args a1 a2 ->
  map shape_piece (args_pieces a1) = map shape_piece (args_pieces a2).
Proof.
  intros [E L]. unfold args_pieces. rewrite !map_app, E, (shape_args_items _ _ _ L). reflexivity.
Qed.

Lemma shape_tooltip c1 c2 : two_paths c1 = two_paths c2 ->
  map shape_piece (tooltip_pieces c1) = map shape_piece (tooltip_pieces c2).
Proof.
  intros T. unfold tooltip_pieces. rewrite !map_app, T. destruct (two_paths c2); reflexivity.
Qed.

Lemma shape_created_by ver1 ver2 c1 c2 : two_paths c1 = two_paths c2 -> Line c1 = Line c2 ->
  map shape_piece (created_by_pieces ver1 c1) = map shape_piece (created_by_pieces ver2 c2).
Proof.
  intros T L. unfold created_by_pieces. rewrite !map_app, (shape_tooltip _ _ T).
  cbn [map shape_piece]. rewrite L. reflexivity.
Qed.

Lemma shape_call ver1 ver2 i c1 c2 : same_shape_call c1 c2 ->
  map shape_piece (call_pieces ver1 i c1) = map shape_piece (call_pieces ver2 i c2).
Proof.
  intros (T & L & A). unfold call_pieces. rewrite !map_app, (shape_tooltip _ _ T), (shape_args _ _ A).
  cbn [map shape_piece]. rewrite L. reflexivity.
Qed.

Lemma shape_calls ver1 ver2 l1 l2 : Forall2 same_shape_call l1 l2 -> forall i,
  map shape_piece (calls_pieces ver1 i l1) = map shape_piece (calls_pieces ver2 i l2).
Proof.
  induction 1 as [|c1 c2 r1 r2 H _ IH]; intros i; [reflexivity|].
  cbn [calls_pieces]. rewrite !map_app, (shape_call ver1 ver2 i _ _ H), IH. reflexivity.
Qed.

Lemma shape_stack ver1 ver2 s1 s2 : same_shape_stack s1 s2 ->
  map shape_piece (stack_pieces ver1 s1) = map shape_piece (stack_pieces ver2 s2).
Proof.
  intros [E C]. unfold stack_pieces. rewrite !map_app, E, (shape_calls ver1 ver2 _ _ C). reflexivity.
Qed.

Lemma shape_sleep s1 s2 : SleepMin s1 = SleepMin s2 -> SleepMax s1 = SleepMax s2 ->
  map shape_piece (sleep_pieces s1) = map shape_piece (sleep_pieces s2).
Proof. intros A B. unfold sleep_pieces. rewrite A, B. reflexivity. Qed.

Lemma shape_locked s1 s2 : Locked s1 = Locked s2 ->
  map shape_piece (locked_pieces s1) = map shape_piece (locked_pieces s2).
Proof. intros A. unfold locked_pieces. rewrite A. reflexivity. Qed.

Lemma shape_created ver1 ver2 s1 s2 : same_shape_creator (CreatedBy s1) (CreatedBy s2) ->
  map shape_piece (created_pieces ver1 s1) = map shape_piece (created_pieces ver2 s2).
Proof.
  unfold same_shape_creator, created_pieces.
  destruct (Calls (CreatedBy s1)) as [|c1 r1], (Calls (CreatedBy s2)) as [|c2 r2]; intros H; try contradiction; [reflexivity|].
  destruct H as [T L]. rewrite !map_app, (shape_created_by ver1 ver2 _ _ T L). reflexivity.
Qed.

Lemma shape_race g1 g2 : N.eqb (RaceAddr g1) 0 = N.eqb (RaceAddr g2) 0 ->
  (RaceAddr g1 <> 0%N -> RaceWrite g1 = RaceWrite g2) ->
  map shape_piece (race_pieces g1) = map shape_piece (race_pieces g2).
Proof.
  intros Z W. unfold race_pieces. rewrite <- Z.
  destruct (N.eqb_spec (RaceAddr g1) 0) as [_|NZ]; [reflexivity|].
  rewrite (W NZ). reflexivity.
Qed.

Lemma shape_bucket ver1 ver2 i b1 b2 : same_shape_bucket b1 b2 ->
  map shape_piece (bucket_pieces ver1 i b1) = map shape_piece (bucket_pieces ver2 i b2).
Proof.
  intros (L & Mi & Ma & Lo & Cr & St). unfold bucket_pieces.
  rewrite !map_app, L, (shape_sleep _ _ Mi Ma), (shape_locked _ _ Lo), (shape_created ver1 ver2 _ _ Cr), (shape_stack ver1 ver2 _ _ St).
  reflexivity.
Qed.

Lemma shape_goroutine ver1 ver2 g1 g2 : same_shape_goroutine g1 g2 ->
  map shape_piece (goroutine_pieces ver1 g1) = map shape_piece (goroutine_pieces ver2 g2).
Proof.
  intros (I & Z & W & Mi & Ma & Lo & Cr & St). unfold goroutine_pieces.
  rewrite !map_app, (shape_sleep _ _ Mi Ma), (shape_locked _ _ Lo), (shape_race _ _ Z W),
          (shape_created ver1 ver2 _ _ Cr), (shape_stack ver1 ver2 _ _ St).
  cbn [map shape_piece]. rewrite I. reflexivity.
Qed.

Lemma shape_buckets ver1 ver2 bs1 bs2 : same_shape bs1 bs2 -> forall i,
  map shape_piece (buckets_pieces ver1 i bs1) = map shape_piece (buckets_pieces ver2 i bs2).
Proof.
  induction 1 as [|b1 b2 r1 r2 H _ IH]; intros i; [reflexivity|].
  cbn [buckets_pieces]. rewrite !map_app, (shape_bucket ver1 ver2 i _ _ H), IH. reflexivity.
Qed.

Theorem skeleton_shape_only2 : forall ver1 ver2 bs1 bs2, same_shape bs1 bs2 ->
  map shape_piece (content_pieces_buckets ver1 bs1) = map shape_piece (content_pieces_buckets ver2 bs2).
Proof.
  intros ver1 ver2 bs1 bs2 H. unfold content_pieces_buckets. rewrite !map_app, (shape_buckets ver1 ver2 _ _ H). reflexivity.
Qed.

Theorem skeleton_shape_only_goroutines2 : forall ver1 ver2 gs1 gs2, same_shape_goroutines gs1 gs2 ->
  map shape_piece (content_pieces_goroutines ver1 gs1) = map shape_piece (content_pieces_goroutines ver2 gs2).
Proof.
  intros ver1 ver2 gs1 gs2 H. unfold content_pieces_goroutines. rewrite !map_app. f_equal. f_equal.
  induction H as [|g1 g2 r1 r2 H _ IH]; [reflexivity|].
  cbn [flat_map]. rewrite !map_app, (shape_goroutine ver1 ver2 _ _ H), IH. reflexivity.
Qed.

(* same_shape is an equivalence; it relates inputs with arbitrary other strings *)
Lemma same_shape_sig_refl s : same_shape_sig s s.
Proof.
  unfold same_shape_sig, same_shape_creator, same_shape_stack. repeat split.
  - destruct (Calls (CreatedBy s)); repeat split.
  - induction (Calls (SStack s)); constructor; [repeat split|assumption].
Qed.

Lemma same_shape_refl bs : same_shape bs bs.
Proof. induction bs; constructor; [split; [reflexivity|apply same_shape_sig_refl]|assumption]. Qed.

Lemma same_shape_goroutines_refl gs : same_shape_goroutines gs gs.
Proof.
  induction gs; constructor; [|assumption].
  split; [reflexivity|]. split; [reflexivity|]. split; [intros _; reflexivity|]. apply same_shape_sig_refl.
Qed.

Theorem skeleton_shape_only : forall ver bs1 bs2, same_shape bs1 bs2 ->
  map shape_piece (content_pieces_buckets ver bs1) = map shape_piece (content_pieces_buckets ver bs2).
Proof. intros ver. exact (skeleton_shape_only2 ver ver). Qed.

Theorem skeleton_shape_only_goroutines : forall ver gs1 gs2, same_shape_goroutines gs1 gs2 ->
  map shape_piece (content_pieces_goroutines ver gs1) = map shape_piece (content_pieces_goroutines ver gs2).
Proof. intros ver. exact (skeleton_shape_only_goroutines2 ver ver). Qed.

(* the skeleton does not depend on the Go version string either *)
Theorem skeleton_ver_irrelevant : forall ver1 ver2 bs,
  map shape_piece (content_pieces_buckets ver1 bs) = map shape_piece (content_pieces_buckets ver2 bs).
Proof. intros ver1 ver2 bs. apply skeleton_shape_only2, same_shape_refl. Qed.
