(* Properties/C02b.v — the loop of the pp command, end to end (C02's sentence
   "when it exits 0 its output is its input with each dump replaced by its
   rendering", and the progress half of C03).  Statements only.

   Vocabulary (Proofs/ProcessProofs.v):
     src_of c       = mkSource c [] EOF: stdin, delivered one-shot, ending with io.EOF
     next_of res    = suffix res ++ rest (unread res): what the next call scans
     pcall          = one iteration: pc_res (the scan_result), pc_render (the
                      rendering of its snapshot, [] if none), pc_pre (the lines
                      taken before the dump region, with their kind), pc_dump
                      (the withheld dump region)
     pc_out pc      = fwd (pc_res pc) ++ pc_render pc: written by the iteration
     pc_src pc      = bytes_of (pc_pre pc) ++ pc_dump pc: taken from the stream
     k1_line d      = d is the race-report separator or "WARNING: DATA RACE"
                      (finding K1: withheld while looking, not part of a dump)
     pre_ok (d, k)  = k = KForwarded, or k = KConsumed and k1_line d
     PRun o c cs last = cs are the successive iterations on stream c, each
                      continuing on a nil error; last = the result of the last one. *)
From PP Require Import Base.Bytes Base.BytesX Base.GoResult Model.Types Model.Lines Model.Reader Model.Scan Model.ScanSnapshot.
From PP Require Import Model.Bucket Model.UI Model.Process.
From PP Require Import Proofs.ScanInv Proofs.LoopBase Proofs.LoopProofs.
From PP Require Import Spec.ReaderSpec Spec.LoopSpec Spec.SeqSpec Proofs.ProcessProofs.
From Coq Require Import String.

(* the vocabulary, unfolded *)
Theorem C02b_call_ok_def : forall o c pc, call_ok o c pc <->
  scan_snapshot true (mkSource c [] EOF) = Ok (pc_res pc) /\
  match snap (pc_res pc) with
  | Some gs => render_snapshot o gs = Ok (pc_render pc)
  | None => pc_render pc = [] /\ pc_dump pc = []
  end /\
  c = (bytes_of (pc_pre pc) ++ pc_dump pc) ++ suffix (pc_res pc) ++ rest (unread (pc_res pc)) /\
  fwd (pc_res pc) = bytes_of (filter k_fwd (pc_pre pc)) /\
  Forall (fun x => snd x = KForwarded \/
                   (snd x = KConsumed /\
                    (trim_eol (fst x) = race_header_footer \/ trim_eol (fst x) = race_header)))
         (pc_pre pc).
Proof. intros o c pc. reflexivity. Qed.
Print Assumptions C02b_call_ok_def.

Theorem C02b_PRun_def : forall o c cs last, PRun o c cs last <->
  match cs with
  | [] => False
  | pc :: cs' =>
      call_ok o c pc /\
      match cs' with
      | [] => rerr_out (pc_res pc) <> ENil /\ last = pc_res pc
      | _ => rerr_out (pc_res pc) = ENil /\ PRun o (next_of (pc_res pc)) cs' last
      end
  end.
Proof. exact ProcessProofs.PRun_unfold. Qed.
Print Assumptions C02b_PRun_def.

(* C03, the loop: pp never panics, and the fuel of the model always suffices
   (each continuing iteration strictly shrinks the stream) *)
Theorem C03_process_total : forall o content, exists out ok, pp_run o content = Ok (out, ok).
Proof. exact ProcessProofs.process_total. Qed.
Print Assumptions C03_process_total.

Theorem C03_process_fuel_irrelevant : forall o content fuel, List.length content < fuel ->
  process fuel o content [] = pp_run o content.
Proof. exact ProcessProofs.process_fuel_irrelevant. Qed.
Print Assumptions C03_process_fuel_irrelevant.

(* what pp prints: for each call its forwarded bytes then the rendering of its
   snapshot (if any), then the suffix of the last call; exit 0 iff the last
   error is io.EOF *)
Theorem C02_process_shape : forall o content, exists cs last,
  PRun o content cs last /\
  pp_run o content =
    Ok (List.concat (map (fun pc => fwd (pc_res pc) ++ pc_render pc) cs) ++ suffix last,
        match rerr_out last with EIo EOF => true | _ => false end).
Proof. exact ProcessProofs.process_shape. Qed.
Print Assumptions C02_process_shape.

(* conservation whatever the exit code: the regions taken by the calls, the
   last suffix and what the last call left unread reassemble the input, in
   order; the output is the same with each region replaced by what the call
   wrote *)
Theorem C02_process_conservation_gen : forall o content, exists cs last,
  PRun o content cs last /\
  pp_run o content = Ok (List.concat (map pc_out cs) ++ suffix last, is_eof (rerr_out last)) /\
  content = List.concat (map pc_src cs) ++ suffix last ++ rest (unread last) /\
  Forall (fun pc =>
    pc_out pc = bytes_of (filter k_fwd (pc_pre pc)) ++ pc_render pc /\
    Forall pre_ok (pc_pre pc) /\
    match snap (pc_res pc) with
    | Some gs => render_snapshot o gs = Ok (pc_render pc)
    | None => pc_render pc = [] /\ pc_dump pc = []
    end) cs /\
  (is_eof (rerr_out last) = true -> rest (unread last) = []).
Proof. exact ProcessProofs.process_conservation_gen. Qed.
Print Assumptions C02_process_conservation_gen.

(* exit 0: output = input with each dump region replaced by the rendering of
   its snapshot; outside the dump regions every line is copied, except the
   K1 lines *)
Theorem C02_process_conservation : forall o content out,
  pp_run o content = Ok (out, true) ->
  exists (cs : list pcall) (tl : bytes),
    content = List.concat (map (fun pc => bytes_of (pc_pre pc) ++ pc_dump pc) cs) ++ tl /\
    out = List.concat (map (fun pc => bytes_of (filter k_fwd (pc_pre pc)) ++ pc_render pc) cs) ++ tl /\
    Forall (fun pc =>
      Forall pre_ok (pc_pre pc) /\
      match snap (pc_res pc) with
      | Some gs => render_snapshot o gs = Ok (pc_render pc)
      | None => pc_render pc = [] /\ pc_dump pc = []
      end) cs /\
    exists last, PRun o content cs last /\ tl = suffix last /\ rerr_out last = EIo EOF.
Proof. exact ProcessProofs.process_conservation. Qed.
Print Assumptions C02_process_conservation.

(* the constructive form: J0 ++ D1 ++ J1 ++ ... ++ Dk ++ Jk with junk free of
   start lines and each dump delimited, without scan error, by what follows
   (SeqSpec.delimits with the rejection error None): pp exits 0 and prints
   J0 ++ R1 ++ J1 ++ ... ++ Rk ++ Jk, where Ri is the rendering of Di scanned
   alone *)
Theorem C02b_delimits_clean_def : forall D nxt, delimits_clean D nxt <->
  terminated D /\
  exists s, accept_all ss0 (lines D) = Some s /\ goroutines s <> [] /\
    (st s = done \/
     match nxt with
     | None => True
     | Some d => exists s', rejects s d s' None /\ goroutines s' = goroutines s
     end).
Proof. intros D nxt. reflexivity. Qed.
Print Assumptions C02b_delimits_clean_def.

Theorem C02b_clean_well_delimited : forall segs Jk, clean_delimited segs Jk -> well_delimited segs Jk.
Proof. exact ProcessProofs.clean_well_delimited. Qed.
Print Assumptions C02b_clean_well_delimited.

Theorem C02_process_well_delimited : forall o segs Jk,
  clean_delimited segs Jk ->
  pp_run o (stream_of segs Jk) =
    Ok (stream_of (map (fun x => (fst x, render_alone o (snd x))) segs) Jk, true).
Proof. exact ProcessProofs.process_well_delimited. Qed.
Print Assumptions C02_process_well_delimited.

(* no dump, no race report: pp is the identity *)
Theorem C02_process_identity : forall o content,
  no_start content -> pp_run o content = Ok (content, true).
Proof. exact ProcessProofs.process_identity. Qed.
Print Assumptions C02_process_identity.

(* ------------------------------------------------------------------ *)
(* Examples.                                                            *)

Definition ln (s : string) : bytes := s2b s ++ [LF].
Definition TAB : string := String (Ascii.ascii_of_nat 9) EmptyString.
(* one goroutine, one frame, the blank line that ends the dump *)
Definition dump1 : bytes :=
  ln "goroutine 1 [running]:" ++ ln "main.main()" ++ ln (TAB ++ "/a/main.go:10 +0x1") ++ ln "".
(* -no-color, basename paths, GOTRACEBACK set / unset *)
Definition opts (banner : bool) : pp_opts := mkPP AnyPointer BasePath empty_palette None None banner.
Definition rendering1 : bytes := ln "1: running" ++ ln "    main main.go:10 main()".

Example C02_process_example :
  pp_run (opts false) (ln "x" ++ dump1 ++ ln "y") = Ok (ln "x" ++ rendering1 ++ ln "y", true).
Proof. vm_compute. reflexivity. Qed.

(* the same through the theorem: the hypothesis is satisfiable *)
Example C02_clean_delimited_example : clean_delimited [(ln "x", dump1)] (ln "y").
Proof.
  assert (Hterm : forall B, forallb has_lf (lines B) = true -> terminated B).
  { intros B H d Hin. rewrite forallb_forall in H. now apply H. }
  cbn [clean_delimited].
  split; [vm_compute; reflexivity|]. split; [apply Hterm; vm_compute; reflexivity|]. split.
  { split; [apply Hterm; vm_compute; reflexivity|].
    eexists. split; [vm_compute; reflexivity|]. split; [vm_compute; discriminate|]. right.
    vm_compute. eexists. split; [split; [reflexivity|split; reflexivity]|reflexivity]. }
  vm_compute. reflexivity.
Qed.

Example C02_render_alone_example : render_alone (opts false) dump1 = rendering1.
Proof. vm_compute. reflexivity. Qed.

(* an unterminated last line is kept; with GOTRACEBACK unset the banner is added *)
Example C02_process_example_tail :
  pp_run (opts false) (ln "x" ++ dump1 ++ s2b "y") = Ok (ln "x" ++ rendering1 ++ s2b "y", true).
Proof. vm_compute. reflexivity. Qed.

(* a scan error: the rendering of what was parsed, the suffix, exit 1 *)
Example C02_process_example_error :
  pp_run (opts false) (ln "x" ++ ln "goroutine 1 [running]:" ++ ln "junk" ++ ln "y") =
  Ok (ln "x" ++ ln "1: running" ++ ln "" ++ ln "junk" ++ ln "y", false).
Proof. vm_compute. reflexivity. Qed.

(* finding K1: the separator line is withheld although no race report follows *)
Example C02_process_example_k1 :
  pp_run (opts false) (ln "x" ++ ln "==================" ++ ln "y" ++ dump1 ++ ln "z") =
  Ok (ln "x" ++ ln "y" ++ rendering1 ++ ln "z", true).
Proof. vm_compute. reflexivity. Qed.
