// ops names (C15), chunk (C09 exhaustive chunkings), witness (known findings).
package main

import (
	"fmt"
	"math/rand"
	"os"
	"strings"
)

// opNames: dumps whose pointer values recur; scanned with NameArguments off and on.
// names id content | snap-off snap-on
func emitNames(id string, content []byte) {
	off := runScan(content, nil, "eof", false)
	on := runScan(content, nil, "eof", true)
	emit("names", id, hexs(content), off.snap, on.snap)
}

func opNames(r *rand.Rand, n int, tier string) {
	g := dgen{r}
	for i := 0; i < n; i++ {
		pool := []uint64{512 * 1024, 512*1024 + 1, 512*1024 - 1, 1<<63 - 1, 1<<63 - 2, 1 << 63, 5, 0}
		np := 1 + r.Intn(6)
		for k := 0; k < np; k++ {
			pool = append(pool, 0xc000000000+uint64(r.Intn(32))*16)
		}
		ng := 1 + r.Intn(5)
		d := g.dump(ng, 4)
		var fix func(as []dArg)
		fix = func(as []dArg) {
			for j := range as {
				if as[j].Agg {
					fix(as[j].Fields)
				} else if !as[j].TooLarge && r.Intn(4) != 0 {
					as[j].V = pool[r.Intn(len(pool))]
				}
			}
		}
		for gi := range d {
			for fi := range d[gi].Frames {
				if len(d[gi].Frames[fi].Args) == 0 && r.Intn(2) == 0 {
					d[gi].Frames[fi].Args = []dArg{{V: pool[r.Intn(len(pool))]}, {Agg: true, Fields: []dArg{{V: pool[r.Intn(len(pool))]}}}}
				}
				fix(d[gi].Frames[fi].Args)
			}
		}
		txt := printDump(d, dVariant{FileIndent: "\t"}, true)
		if r.Intn(6) == 0 {
			// the dump is cut short by a stray line inside a later goroutine: a snapshot AND a parse error come back
			txt += fmt.Sprintf("goroutine 999 [running]:\nmain.tail(0x%x, 0x%x)\nstray log line\n\t/a/tail.go:3 +0x1\n", pool[r.Intn(len(pool))], pool[r.Intn(len(pool))])
		}
		emitNames(fmt.Sprintf("names-%d", i), []byte(txt))
	}
}

// opChunk: every chunking (2^(n-1) split sets) of short inputs, each with EOF
// after the data and EOF together with the last data.
// chunk id content | count allsame firstdiff
func opChunk(r *rand.Rand, n int, tier string) {
	alphabet := []byte("ab\n\n\r=")
	for i := 0; i < n; i++ {
		ln := 4 + r.Intn(8)
		if tier == "thorough" {
			ln = 8 + r.Intn(7)
		}
		var content []byte
		switch r.Intn(3) {
		case 0:
			content = []byte("goroutine 1 [a]:\n")[0:0]
			for k := 0; k < ln; k++ {
				content = append(content, alphabet[r.Intn(len(alphabet))])
			}
		case 1:
			content = []byte("x\n==================\ny")[:minInt(ln+6, 22)]
		default:
			for k := 0; k < ln; k++ {
				content = append(content, alphabet[r.Intn(len(alphabet))])
			}
		}
		one := runScan(content, nil, "eof", false)
		count, same, diff := 0, "1", "-"
		L := len(content)
		for mask := 0; mask < 1<<(L-1); mask++ {
			for _, we := range []bool{false, true} {
				var sched []schedStep
				run := 1
				for b := 0; b < L-1; b++ {
					if mask&(1<<b) != 0 {
						sched = append(sched, schedStep{run, false})
						run = 1
					} else {
						run++
					}
				}
				sched = append(sched, schedStep{run, we})
				o := runScan(content, sched, "eof", false)
				count++
				if !sameOutcome(o, one) || o.writes != one.writes {
					if same == "1" {
						diff = fmtSched(sched)
					}
					same = "0"
				}
			}
		}
		emit("chunk", fmt.Sprintf("chunk-%d", i), hexs(content), fmt.Sprint(count), same, diff)
	}
}

// opWitness: the witness of a known finding, run through the op that exposes it.
func opWitness(id string) {
	switch id {
	case "K1":
		b, err := os.ReadFile(os.Getenv("VERIF_ROOT") + "/corpus/known/K1.txt")
		if err != nil {
			panic(err)
		}
		emitScan("known-K1", b, nil, "eof", false, "other", "-", "-")
	case "K2":
		content := "x\ngoroutine 1 [running]:\nmain.main()\n\t/a/b.go:1 +0x1\n\n"
		frag, err := os.ReadFile(os.Getenv("VERIF_ROOT") + "/corpus/known/K2.txt")
		if err != nil {
			panic(err)
		}
		if !strings.HasPrefix(content, string(frag)) {
			panic("K2 witness is not a prefix of its stream")
		}
		emitCut("known-K2", []byte(content), len(frag), "eof", fmt.Sprint(len(content)-1), "dump")
	default:
		fmt.Fprintln(os.Stderr, "unknown finding", id)
		os.Exit(2)
	}
}

func init() {
	replayers["names"] = func(id string, in []string) { emitNames(id, unhexs(in[0])) }
}
