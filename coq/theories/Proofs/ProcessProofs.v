(* Proofs/ProcessProofs.v — the loop of the pp command (Model/Process.v):
   it never panics and its fuel suffices (C03), what it prints (C02 shape), and
   the end-to-end conservation sentence of C02: the output is the input with
   each dump region replaced by the rendering of its snapshot, the only other
   bytes withheld being the race-report separator lines of finding K1.

   One iteration = one call of ScanSnapshot on what the previous call left
   (suffix ++ unread), its forwarded bytes and the rendering of its snapshot
   (if any) are written; the loop continues on a nil error and otherwise
   writes the suffix and stops (exit 0 iff the error is io.EOF). *)
From PP Require Import Base.Bytes Base.BytesX Base.GoResult Model.Types Model.Lines Model.Reader Model.FuncInit Model.Scan Model.Names Model.ScanSnapshot.
From PP Require Import Model.Bucket Model.UI Model.Process.
From PP Require Import Proofs.ReaderBase Proofs.ReaderProofs Proofs.ScanInv Proofs.LoopBase Proofs.LoopProofs.
From PP Require Import Spec.ReaderSpec Spec.LoopSpec Spec.SeqSpec Proofs.PrefixBase Proofs.PrefixFrame Proofs.PrefixProofs.
From PP Require Import Proofs.Aggregate.
From Coq Require Import String.

(* ------------------------------------------------------------------ *)
(* 1. vocabulary                                                        *)
(* ------------------------------------------------------------------ *)

(* stdin of the command: delivered one-shot, ends with io.EOF *)
Definition src_of (c : bytes) : source := mkSource c [] EOF.
(* what a call leaves for the next one: MultiReader(suffix, rest) *)
Definition next_of (res : scan_result) : bytes := suffix res ++ rest (unread res).
Definition is_eof (e : go_err) : bool := match e with EIo EOF => true | _ => false end.

(* the race-report separator and the line after it (finding K1) *)
Definition k1_line (d : bytes) : Prop :=
  trim_eol d = race_header_footer \/ trim_eol d = race_header.
(* a line of the region before the dump: forwarded, or a withheld K1 line *)
Definition pre_ok (x : bytes * kind) : Prop :=
  snd x = KForwarded \/ (snd x = KConsumed /\ k1_line (fst x)).

(* one iteration of the loop *)
Record pcall := mkPC {
  pc_res : scan_result;          (* what ScanSnapshot returned *)
  pc_render : bytes;             (* the rendering of its snapshot, [] if none *)
  pc_pre : list (bytes * kind);  (* the lines taken before the dump region *)
  pc_dump : bytes }.             (* the dump region (withheld) *)

(* written by the iteration / taken from the stream by the iteration *)
Definition pc_out (pc : pcall) : bytes := fwd (pc_res pc) ++ pc_render pc.
Definition pc_src (pc : pcall) : bytes := bytes_of (pc_pre pc) ++ pc_dump pc.

(* [pc] describes the iteration that starts with the stream [c] *)
Definition call_ok (o : pp_opts) (c : bytes) (pc : pcall) : Prop :=
  scan_snapshot true (src_of c) = Ok (pc_res pc) /\
  match snap (pc_res pc) with
  | Some gs => render_snapshot o gs = Ok (pc_render pc)
  | None => pc_render pc = [] /\ pc_dump pc = []
  end /\
  c = pc_src pc ++ next_of (pc_res pc) /\
  fwd (pc_res pc) = bytes_of (filter k_fwd (pc_pre pc)) /\
  Forall pre_ok (pc_pre pc).

(* the iterations of a run on the stream c; the index is the last result *)
Inductive PRun (o : pp_opts) : bytes -> list pcall -> scan_result -> Prop :=
| PR_last c pc :
    call_ok o c pc -> rerr_out (pc_res pc) <> ENil -> PRun o c [pc] (pc_res pc)
| PR_more c pc cs last :
    call_ok o c pc -> rerr_out (pc_res pc) = ENil ->
    PRun o (next_of (pc_res pc)) cs last -> PRun o c (pc :: cs) last.

(* ------------------------------------------------------------------ *)
(* 2. one iteration                                                     *)
(* ------------------------------------------------------------------ *)

Lemma render_total o gs : exists r, render_snapshot o gs = Ok r.
Proof.
  unfold render_snapshot. destruct (is_race gs); [eexists; reflexivity|].
  destruct (partition_ok id_shuffle (o_level o) gs) as (bs & E & _). rewrite E. cbn [bind].
  eexists. reflexivity.
Qed.

Lemma filter_fwd_handled (hl : list (bytes * kind)) : filter k_fwd (filter k_handled hl) = filter k_fwd hl.
Proof.
  induction hl as [|[d k] hl IH]; [reflexivity|].
  destruct k; cbn [filter k_handled k_fwd snd]; rewrite IH; reflexivity.
Qed.

Lemma bytes_of_app a b : bytes_of (a ++ b) = bytes_of a ++ bytes_of b.
Proof. unfold bytes_of. now rewrite map_app, concat_app. Qed.

(* every call has a description *)
Lemma call_exists o c : exists pc, call_ok o c pc.
Proof.
  destruct (scan_snapshot_total true (src_of c)) as (res & H).
  destruct (dump_contiguous true c [] EOF res H) as (pre & dump & _ & D2 & D3 & _ & D5 & _ & D7).
  assert (Hpre : Forall pre_ok (filter k_handled pre)).
  { apply Forall_forall. intros x Hx. apply filter_In in Hx. destruct Hx as [Hin Hk].
    pose proof (proj1 (Forall_forall _ _) D5 x Hin) as H5. unfold pre_ok, k1_line.
    unfold k_handled in Hk. destruct (snd x) eqn:Ek; [right; split; [reflexivity|now apply H5]|now left|discriminate Hk]. }
  assert (Hc : c = (bytes_of (filter k_handled pre) ++ bytes_of (filter k_handled dump)) ++ next_of res).
  { rewrite <- D2 at 1. unfold next_of. now rewrite filter_app, bytes_of_app. }
  assert (Hf : fwd res = bytes_of (filter k_fwd (filter k_handled pre))).
  { now rewrite filter_fwd_handled. }
  destruct (snap res) as [gs|] eqn:Hs.
  - destruct (render_total o gs) as (r & Hr).
    exists (mkPC res r (filter k_handled pre) (bytes_of (filter k_handled dump))).
    unfold call_ok, pc_src. cbn [pc_res pc_render pc_pre pc_dump]. rewrite Hs. tauto.
  - assert (dump = []) by now apply D7. subst dump.
    exists (mkPC res [] (filter k_handled pre) []).
    unfold call_ok, pc_src. cbn [pc_res pc_render pc_pre pc_dump]. rewrite Hs.
    cbn [filter bytes_of map List.concat] in Hc. tauto.
Qed.

(* the body of [process] *)
Lemma process_step o c pc f out0 : call_ok o c pc ->
  process (S f) o c out0 =
  match rerr_out (pc_res pc) with
  | ENil => process f o (next_of (pc_res pc)) (out0 ++ pc_out pc)
  | EIo EOF => Ok ((out0 ++ pc_out pc) ++ suffix (pc_res pc), true)
  | _ => Ok ((out0 ++ pc_out pc) ++ suffix (pc_res pc), false)
  end.
Proof.
  intros (H & Hr & _). cbn [process]. change (mkSource c [] EOF) with (src_of c). rewrite H. cbn [bind].
  unfold pc_out, next_of. destruct (snap (pc_res pc)) as [gs|].
  - rewrite Hr. cbn [bind]. reflexivity.
  - destruct Hr as [-> _]. cbn [bind]. rewrite app_nil_r. reflexivity.
Qed.

Lemma call_progress o c pc : call_ok o c pc -> rerr_out (pc_res pc) = ENil ->
  List.length (next_of (pc_res pc)) < List.length c.
Proof. intros (H & _) He. exact (progress true c [] EOF _ I H He). Qed.

(* ------------------------------------------------------------------ *)
(* 3. the loop                                                          *)
(* ------------------------------------------------------------------ *)

Theorem process_run o : forall fuel c out0, List.length c < fuel ->
  exists cs last, PRun o c cs last /\
    process fuel o c out0 =
    Ok (out0 ++ List.concat (map pc_out cs) ++ suffix last, is_eof (rerr_out last)).
Proof.
  induction fuel as [|f IH]; intros c out0 Hlt; [lia|].
  destruct (call_exists o c) as (pc & Hpc).
  rewrite (process_step o c pc f out0 Hpc).
  destruct (rerr_out (pc_res pc)) as [|x|e] eqn:He.
  - pose proof (call_progress o c pc Hpc He) as Hp.
    destruct (IH (next_of (pc_res pc)) (out0 ++ pc_out pc)) as (cs & last & Hrun & E); [lia|].
    exists (pc :: cs), last. split; [exact (PR_more o c pc cs last Hpc He Hrun)|].
    rewrite E. cbn [map List.concat]. now rewrite <- !app_assoc.
  - exists [pc], (pc_res pc). split; [apply PR_last; [exact Hpc|rewrite He; discriminate]|].
    rewrite He. cbn [map List.concat is_eof]. rewrite app_nil_r, <- !app_assoc.
    destruct x; reflexivity.
  - exists [pc], (pc_res pc). split; [apply PR_last; [exact Hpc|rewrite He; discriminate]|].
    rewrite He. cbn [map List.concat is_eof]. now rewrite app_nil_r, <- !app_assoc.
Qed.

(* C02 shape: what pp prints *)
Theorem process_shape : forall o content, exists cs last,
  PRun o content cs last /\
  pp_run o content = Ok (List.concat (map pc_out cs) ++ suffix last, is_eof (rerr_out last)).
Proof.
  intros o content. unfold pp_run.
  destruct (process_run o (S (S (List.length content))) content []) as (cs & last & Hrun & E); [lia|].
  exists cs, last. split; [exact Hrun|exact E].
Qed.

(* C03: never a panic, and the fuel suffices *)
Theorem process_total : forall o content, exists out ok, pp_run o content = Ok (out, ok).
Proof.
  intros o content. destruct (process_shape o content) as (cs & last & _ & E). eexists. eexists. exact E.
Qed.

(* any larger fuel gives the same result: the model's bound is not observable *)
Theorem process_fuel_irrelevant : forall o content fuel, List.length content < fuel ->
  process fuel o content [] = pp_run o content.
Proof.
  intros o content fuel Hlt.
  assert (Hdet : forall c cs1 l1, PRun o c cs1 l1 -> forall cs2 l2, PRun o c cs2 l2 ->
            List.concat (map pc_out cs1) = List.concat (map pc_out cs2) /\ l1 = l2).
  { intros c cs1 l1 H1. induction H1 as [c pc Hpc He|c pc cs last Hpc He Hrun IH]; intros cs2 l2 H2.
    - inversion H2 as [c' pc' Hpc' He'|c' pc' cs' last' Hpc' He' Hrun']; subst.
      + destruct Hpc as (A1 & A2 & _), Hpc' as (B1 & B2 & _). rewrite A1 in B1. injection B1 as B1.
        cbn [map List.concat]. unfold pc_out. rewrite <- B1 in *. split; [|reflexivity].
        destruct (snap (pc_res pc)); [rewrite A2 in B2; injection B2 as <-; reflexivity|].
        destruct A2 as [-> _], B2 as [-> _]. reflexivity.
      + destruct Hpc as (A1 & _), Hpc' as (B1 & _). rewrite A1 in B1. injection B1 as B1.
        rewrite <- B1 in He'. contradiction.
    - inversion H2 as [c' pc' Hpc' He'|c' pc' cs' last' Hpc' He' Hrun']; subst.
      + destruct Hpc as (A1 & _), Hpc' as (B1 & _). rewrite A1 in B1. injection B1 as B1.
        rewrite <- B1 in He'. contradiction.
      + destruct Hpc as (A1 & A2 & _), Hpc' as (B1 & B2 & _). rewrite A1 in B1. injection B1 as B1.
        rewrite <- B1 in Hrun'. destruct (IH _ _ Hrun') as [I1 I2]. split; [|exact I2].
        cbn [map List.concat]. rewrite I1. f_equal. unfold pc_out. rewrite <- B1 in *.
        destruct (snap (pc_res pc)); [rewrite A2 in B2; injection B2 as <-; reflexivity|].
        destruct A2 as [-> _], B2 as [-> _]. reflexivity. }
  destruct (process_run o fuel content [] Hlt) as (cs1 & l1 & R1 & E1).
  destruct (process_shape o content) as (cs2 & l2 & R2 & E2).
  rewrite E1, E2. destruct (Hdet _ _ _ R1 _ _ R2) as [-> ->]. reflexivity.
Qed.

(* ------------------------------------------------------------------ *)
(* 4. conservation, any input                                           *)
(* ------------------------------------------------------------------ *)

(* the regions taken by the successive calls tile the input, up to what the
   last call leaves *)
Lemma prun_tiles o c cs last : PRun o c cs last ->
  c = List.concat (map pc_src cs) ++ next_of last.
Proof.
  induction 1 as [c pc Hpc He|c pc cs last Hpc He Hrun IH]; cbn [map List.concat].
  - destruct Hpc as (_ & _ & Hc & _). now rewrite app_nil_r.
  - destruct Hpc as (_ & _ & Hc & _). rewrite <- app_assoc, <- IH. exact Hc.
Qed.

(* what each call wrote, in terms of the lines it took *)
Definition pc_good (o : pp_opts) (pc : pcall) : Prop :=
  pc_out pc = bytes_of (filter k_fwd (pc_pre pc)) ++ pc_render pc /\
  Forall pre_ok (pc_pre pc) /\
  match snap (pc_res pc) with
  | Some gs => render_snapshot o gs = Ok (pc_render pc)
  | None => pc_render pc = [] /\ pc_dump pc = []
  end.

Lemma prun_good o c cs last : PRun o c cs last -> Forall (pc_good o) cs.
Proof.
  assert (Hone : forall c pc, call_ok o c pc -> pc_good o pc).
  { intros c0 pc (_ & Hr & _ & Hf & Hp). unfold pc_good, pc_out. rewrite Hf. tauto. }
  induction 1 as [c pc Hpc He|c pc cs last Hpc He Hrun IH]; constructor; eauto.
Qed.

(* the error of the last call: never nil; a reader error is the stream's own *)
Lemma prun_last_err o c cs last : PRun o c cs last -> rerr_out last <> ENil.
Proof. induction 1 as [c pc Hpc He|c pc cs last Hpc He Hrun IH]; assumption. Qed.

Lemma prun_last_call o c cs last : PRun o c cs last ->
  exists c', scan_snapshot true (src_of c') = Ok last.
Proof.
  induction 1 as [c pc Hpc He|c pc cs last Hpc He Hrun IH]; [|exact IH].
  exists c. apply Hpc.
Qed.

Lemma eio_no_rest na c res : scan_snapshot na (src_of c) = Ok res ->
  is_eio (rerr_out res) = true -> rest (unread res) = [].
Proof.
  intros H. destruct (snapshot_lines_inv na c [] EOF res I H) as (_ & _ & _ & _ & Hio). exact Hio.
Qed.

(* the general statement: whatever the exit code.  On a scan error (exit 1)
   the rest of the input is neither read nor written. *)
Theorem process_conservation_gen : forall o content, exists cs last,
  PRun o content cs last /\
  pp_run o content = Ok (List.concat (map pc_out cs) ++ suffix last, is_eof (rerr_out last)) /\
  content = List.concat (map pc_src cs) ++ suffix last ++ rest (unread last) /\
  Forall (pc_good o) cs /\
  (is_eof (rerr_out last) = true -> rest (unread last) = []).
Proof.
  intros o content. destruct (process_shape o content) as (cs & last & Hrun & E).
  exists cs, last. split; [exact Hrun|]. split; [exact E|].
  split; [exact (prun_tiles _ _ _ _ Hrun)|]. split; [exact (prun_good _ _ _ _ Hrun)|].
  intros He. destruct (prun_last_call _ _ _ _ Hrun) as (c' & Hc'). apply (eio_no_rest _ _ _ Hc').
  destruct (rerr_out last) as [|[]|]; try discriminate He; reflexivity.
Qed.

(* C02, end to end: when pp exits 0, its output is its input with each dump
   region replaced by the rendering of its snapshot; outside the dump regions
   the only bytes not copied are K1 lines *)
Theorem process_conservation : forall o content out,
  pp_run o content = Ok (out, true) ->
  exists (cs : list pcall) (tl : bytes),
    content = List.concat (map (fun pc => bytes_of (pc_pre pc) ++ pc_dump pc) cs) ++ tl /\
    out = List.concat (map (fun pc => bytes_of (filter k_fwd (pc_pre pc)) ++ pc_render pc) cs) ++ tl /\
    Forall (fun pc =>
      Forall pre_ok (pc_pre pc) /\
      match snap (pc_res pc) with
      | Some gs => render_snapshot o gs = Ok (pc_render pc)
      | None => pc_render pc = [] /\ pc_dump pc = []
      end) cs /\
    exists last, PRun o content cs last /\ tl = suffix last /\ rerr_out last = EIo EOF.
Proof.
  intros o content out H.
  destruct (process_conservation_gen o content) as (cs & last & Hrun & E & Hc & Hg & Hr).
  rewrite E in H. injection H as Ho He. specialize (Hr He). rewrite Hr, app_nil_r in Hc.
  exists cs, (suffix last). split; [exact Hc|]. split; [|split].
  - rewrite <- Ho. f_equal. f_equal. apply map_ext_in. intros pc Hin.
    exact (proj1 (proj1 (Forall_forall _ _) Hg pc Hin)).
  - apply (Forall_impl _ (P := pc_good o)); [|exact Hg]. intros pc (_ & G2 & G3). tauto.
  - exists last. split; [exact Hrun|]. split; [reflexivity|].
    destruct (rerr_out last) as [|[]|]; try discriminate He; reflexivity.
Qed.

(* ------------------------------------------------------------------ *)
(* 5. conservation, constructive form: J0 D1 J1 ... Dk Jk               *)
(* ------------------------------------------------------------------ *)

(* SeqSpec.delimits, with a rejection that raises no scan error (a scan
   error makes pp write the suffix and exit 1) *)
Definition delimits_clean (D : bytes) (nxt : option bytes) : Prop :=
  terminated D /\
  exists s, accept_all ss0 (lines D) = Some s /\ goroutines s <> [] /\
    (st s = done \/
     match nxt with
     | None => True
     | Some d => exists s', rejects s d s' None /\ goroutines s' = goroutines s
     end).

Fixpoint clean_delimited (segs : list (bytes * bytes)) (Jk : bytes) : Prop :=
  match segs with
  | [] => no_start Jk
  | (J, D) :: t =>
      no_start J /\ terminated J /\ delimits_clean D (hd_error (lines (stream_of t Jk))) /\
      clean_delimited t Jk
  end.

Lemma delimits_clean_delimits D nxt : delimits_clean D nxt -> delimits D nxt.
Proof.
  intros (Ht & s & Ha & Hg & Hend). split; [exact Ht|]. exists s. split; [exact Ha|]. split; [exact Hg|].
  destruct Hend as [F|Hend]; [now left|right]. destruct nxt as [d|]; [|exact I].
  destruct Hend as (s' & Hr & Hgs). exists s', None. tauto.
Qed.

Lemma clean_well_delimited segs Jk : clean_delimited segs Jk -> well_delimited segs Jk.
Proof.
  induction segs as [|[J D] t IH]; cbn [clean_delimited well_delimited]; [exact (fun H => H)|].
  intros (H1 & H2 & H3 & H4). split; [exact H1|]. split; [exact H2|].
  split; [exact (delimits_clean_delimits _ _ H3)|exact (IH H4)].
Qed.

(* the error of the call that meets J ++ D ++ R *)
Lemma dump_in_stream_err na J D R sc f res :
  stall_free sc -> no_start J -> terminated J -> delimits_clean D (hd_error (lines R)) ->
  scan_snapshot na (mkSource (J ++ D ++ R) sc f) = Ok res ->
  rerr_out res = ENil \/ rerr_out res = EIo f.
Proof.
  intros Hsf Hns HtJ Hdel H.
  destruct (snapshot_lines_inv _ _ _ _ _ Hsf H) as (lr & Hrun & (A1 & A2 & A3 & A4 & _) & _ & Hio).
  pose proof Hdel as (HtD & s & Ha & Hg & Hend).
  rewrite (lines_app_terminated _ _ HtJ), (lines_app_terminated _ _ HtD) in Hrun.
  apply terminated_all_lf in HtJ. apply terminated_all_lf in HtD.
  rewrite (run_lines_junk f _ _ _ _ HtJ Hns) in Hrun. cbn [app] in Hrun. rewrite concat_lines in Hrun.
  destruct (run_lines_accept f (lines R) _ _ _ J (0 + List.length (lines J)) HtD Inv_ss0 Ha) as [E Hinv].
  rewrite E, run_lines_eq in Hrun. clear E. rewrite A4.
  destruct (state_eqb (st s) done) eqn:Hdone.
  { injection Hrun as <-. now left. }
  destruct Hend as [F|Hend]; [rewrite F in Hdone; discriminate Hdone|].
  destruct (lines R) as [|d rm].
  - injection Hrun as <-. now right.
  - cbn [hd_error] in Hend. destruct Hend as (s' & (_ & Hscan & Hlook) & Hgs).
    rewrite Hscan in Hrun. cbv zeta in Hrun. rewrite Hlook in Hrun. cbn [negb] in Hrun.
    injection Hrun as <-. cbn [lr_err]. unfold combine_err, lerr. destruct (has_lf d); [now left|now right].
Qed.

(* the rendering of a dump scanned alone (the total functions of C03 make the
   Panic branches dead) *)
Definition render_alone (o : pp_opts) (D : bytes) : bytes :=
  match scan_snapshot true (src_of D) with
  | Ok res =>
      match snap res with
      | Some gs => match render_snapshot o gs with Ok r => r | Panic _ => [] end
      | None => []
      end
  | Panic _ => []
  end.

(* J0 ++ R1 ++ J1 ++ ... ++ Rk ++ Jk *)
Definition rendered_stream (o : pp_opts) (segs : list (bytes * bytes)) (Jk : bytes) : bytes :=
  stream_of (map (fun x => (fst x, render_alone o (snd x))) segs) Jk.

Theorem process_clean o : forall segs Jk fuel out0,
  clean_delimited segs Jk -> List.length (stream_of segs Jk) < fuel ->
  process fuel o (stream_of segs Jk) out0 = Ok (out0 ++ rendered_stream o segs Jk, true).
Proof.
  induction segs as [|[J D] t IH]; intros Jk fuel out0 Hwd Hlen; (destruct fuel as [|f]; [lia|]);
    unfold rendered_stream; cbn [stream_of clean_delimited map fst snd] in *.
  - destruct (call_exists o Jk) as (pc & Hpc). rewrite (process_step o _ pc f out0 Hpc).
    pose proof Hpc as (H & Hr & _).
    destruct (no_dump_identity true Jk [] EOF _ I Hwd H) as (N1 & N2 & N3 & _ & N5 & _).
    rewrite N5. unfold pc_out. rewrite N1, N3. rewrite N2 in Hr. destruct Hr as [-> _].
    now rewrite !app_nil_r.
  - destruct Hwd as (HnsJ & HtJ & Hdel & Hwd').
    fold (rendered_stream o t Jk).
    set (R := stream_of t Jk) in *.
    destruct (call_exists o (J ++ D ++ R)) as (pc & Hpc). rewrite (process_step o _ pc f out0 Hpc).
    pose proof Hpc as (H & Hr & _). unfold src_of in H.
    destruct (dump_in_stream true J D R [] EOF _ I HnsJ HtJ (delimits_clean_delimits _ _ Hdel) H)
      as (F1 & F2 & F3 & F4 & F5).
    destruct (F4 [] I) as (res' & G1 & G2 & _).
    assert (Hren : render_alone o D = pc_render pc).
    { unfold render_alone, src_of. rewrite G1, G2.
      destruct (snap (pc_res pc)) as [gs|]; [now rewrite Hr|contradiction]. }
    assert (Hout : pc_out pc = J ++ render_alone o D) by (unfold pc_out; now rewrite F1, Hren).
    destruct (dump_in_stream_err true J D R [] EOF _ I HnsJ HtJ Hdel H) as [He|He]; rewrite He.
    + pose proof (call_progress o _ pc Hpc He) as Hp. unfold next_of in *. rewrite F2 in *.
      subst R. rewrite (IH Jk f (out0 ++ pc_out pc) Hwd'); [|lia].
      now rewrite Hout, <- !app_assoc.
    + rewrite He in F5. destruct (F5 eq_refl) as [U1 U2]. rewrite U1, app_nil_r in F2.
      assert (Ht : t = []).
      { destruct t as [|[J' D'] t']; [reflexivity|]. exfalso.
        cbn [clean_delimited] in Hwd'. destruct Hwd' as (_ & HtJ' & Hdel' & _).
        apply delimits_clean_delimits in Hdel'.
        destruct (delimits_has_line _ _ Hdel') as (d & Hin & Hlf).
        assert (Hin' : In d (lines R)).
        { unfold R. cbn [stream_of]. rewrite (lines_app_terminated _ _ HtJ').
          destruct Hdel' as (HtD' & _). rewrite (lines_app_terminated _ _ HtD').
          apply in_or_app. right. apply in_or_app. now left. }
        rewrite (U2 _ Hin') in Hlf. discriminate Hlf. }
      subst t. cbn [stream_of rendered_stream map] in *. unfold rendered_stream. cbn [map stream_of].
      subst R. now rewrite F2, Hout, <- !app_assoc.
Qed.

(* C02, the sentence of the property: junk J0..Jk without start lines, dumps
   D1..Dk each delimited by what follows: pp exits 0 and prints
   J0 ++ R1 ++ J1 ++ ... ++ Rk ++ Jk, Ri the rendering of Di scanned alone *)
Theorem process_well_delimited : forall o segs Jk,
  clean_delimited segs Jk ->
  pp_run o (stream_of segs Jk) = Ok (rendered_stream o segs Jk, true).
Proof.
  intros o segs Jk Hwd. unfold pp_run.
  rewrite (process_clean o segs Jk _ [] Hwd); [reflexivity|lia].
Qed.

(* no dump, no race report: the identity *)
Corollary process_identity : forall o content, no_start content -> pp_run o content = Ok (content, true).
Proof. intros o content H. exact (process_well_delimited o [] content H). Qed.

(* PRun, as a recursive definition *)
Lemma PRun_unfold o c cs last : PRun o c cs last <->
  match cs with
  | [] => False
  | pc :: cs' =>
      call_ok o c pc /\
      match cs' with
      | [] => rerr_out (pc_res pc) <> ENil /\ last = pc_res pc
      | _ => rerr_out (pc_res pc) = ENil /\ PRun o (next_of (pc_res pc)) cs' last
      end
  end.
Proof.
  split.
  - intros H. inversion H as [c' pc Hpc He|c' pc cs' last' Hpc He Hrun]; subst.
    + split; [exact Hpc|]. split; [exact He|reflexivity].
    + split; [exact Hpc|]. destruct cs' as [|pc' cs'']; [inversion Hrun|]. split; assumption.
  - destruct cs as [|pc cs']; [contradiction|]. intros [Hpc H].
    destruct cs' as [|pc' cs''].
    + destruct H as [He ->]. now apply PR_last.
    + destruct H as [He Hrun]. now apply PR_more.
Qed.
