(* Model/Alias.v — a TAGGED model of Snapshot.Aggregate (stack/bucket.go:42),
   Signature/Stack/Call/Args.merge and Args.String (stack/stack.go) in which Go
   slice aliasing is observable.  Definitions only.

   Every slice carries the name of its backing array ([prov]) and its
   capacity; every store instruction of the Go code (s[i] = x, append into
   spare capacity, the zeroing done by make/new, the swaps done by sort) is
   logged as (backing array, index) in a writer monad.  Reads are not logged.

   Simplifications, all on the safe side or irrelevant to aliasing:
   - Only the slices Stack.Calls, CreatedBy.Calls, the top-level Args.Values /
     Args.Processed of every call, ids, order and bs are tagged.  The NESTED
     Fields of an aggregate Arg are plain values: Args.merge rebuilds them with
     make at every level (never writes into them), so they are produced here by
     the functional [arg_merge]; Arg.String's recursive a.Fields.String() is the
     functional [arg_string].
   - The *count / *Signature / *Bucket / *Stack heap objects of Aggregate and
     merge are fresh allocations ([t_new]); the mutation of a *count through
     the pointer kept in [order] is logged as a write of the [order] cell.
   - The map b is the list [order] visited in creation order (id_shuffle).
   - A nil slice is the array [Fresh 0] with capacity 0: nothing can be written
     into it (append reallocates, an index panics); the allocator starts at 1. *)
From PP Require Import Base.Bytes Base.GoResult Model.Types Model.Stack Model.Bucket Model.UI.
From Coq Require Import String.

(* ---------------- provenance, tagged slices ---------------- *)

(* Shared g path: a slice of goroutine g of the input snapshot.
   path [0] = Stack.Calls, [1] = CreatedBy.Calls,
   [s; c; 0] = Values of call c of stack s, [s; c; 1] = Processed of that call. *)
Inductive prov := Shared (g : nat) (path : list nat) | Fresh (n : nat).

Definition is_fresh (p : prov) : bool := match p with Fresh _ => true | Shared _ _ => false end.

Fixpoint path_eqb (a b : list nat) : bool :=
  match a, b with
  | [], [] => true
  | x :: a', y :: b' => Nat.eqb x y && path_eqb a' b'
  | _, _ => false
  end.
Definition prov_eqb (p q : prov) : bool :=
  match p, q with
  | Shared g a, Shared h b => Nat.eqb g h && path_eqb a b
  | Fresh n, Fresh m => Nat.eqb n m
  | _, _ => false
  end.

Record tslice (A : Type) := mkT { t_tag : prov; t_elems : list A; t_cap : nat }.
Arguments mkT {A} t_tag t_elems t_cap.
Arguments t_tag {A} t.
Arguments t_elems {A} t.
Arguments t_cap {A} t.

Definition t_len {A} (s : tslice A) : nat := List.length (t_elems s).
(* len <= cap *)
Definition t_wf {A} (s : tslice A) : bool := Nat.leb (t_len s) (t_cap s).

Definition t_nil {A} : tslice A := mkT (Fresh 0) [] 0.

(* ---------------- the writer monad ---------------- *)

(* a write: (backing array, index); the log is newest first *)
Definition wcell : Type := prov * nat.
Record wstate := mkW { w_next : nat; w_log : list wcell }.
Definition w_init : wstate := mkW 1 [].

Definition M (A : Type) : Type := wstate -> A * wstate.
Definition ret {A} (a : A) : M A := fun s => (a, s).
Definition mbind {A B} (m : M A) (f : A -> M B) : M B :=
  fun s => let (a, s') := m s in f a s'.
Notation "x <~ m ;; k" := (mbind m (fun x => k)) (at level 61, m at next level, right associativity).

Definition log_writes (p : prov) (idx : list nat) : M unit :=
  fun s => (tt, mkW (w_next s) (map (pair p) idx ++ w_log s)).
Definition alloc : M prov := fun s => (Fresh (w_next s), mkW (S (w_next s)) (w_log s)).

(* ---------------- Go primitives ---------------- *)

(* make([]T, len, cap): a fresh zeroed array of max(len, cap) cells *)
Definition t_make {A} (len cap : nat) (d : A) : M (tslice A) :=
  p <~ alloc ;; _ <~ log_writes p (seq 0 (Nat.max len cap)) ;; ret (mkT p (repeat d len) (Nat.max len cap)).

(* &T{...}: a fresh one-cell object *)
Definition t_new : M unit := p <~ alloc ;; log_writes p [0].

(* s[i] = x *)
Definition t_set {A} (s : tslice A) (i : nat) (x : A) : M (tslice A) :=
  _ <~ log_writes (t_tag s) [i] ;; ret (mkT (t_tag s) (upd_nth i (fun _ => x) (t_elems s)) (t_cap s)).

(* append(s, x): in place when there is spare capacity, else growslice *)
Definition t_append {A} (s : tslice A) (x : A) : M (tslice A) :=
  if Nat.ltb (t_len s) (t_cap s) then
    _ <~ log_writes (t_tag s) [t_len s] ;; ret (mkT (t_tag s) (t_elems s ++ [x]) (t_cap s))
  else
    p <~ alloc ;; _ <~ log_writes p (seq 0 (S (t_len s))) ;;
    ret (mkT p (t_elems s ++ [x]) (Nat.max 1 (2 * t_len s))).

Fixpoint t_append_all {A} (s : tslice A) (l : list A) : M (tslice A) :=
  match l with
  | [] => ret s
  | x :: l' => s' <~ t_append s x ;; t_append_all s' l'
  end.

(* s[:len(s):len(s)] *)
Definition t_cap_to_len {A} (s : tslice A) : tslice A := mkT (t_tag s) (t_elems s) (t_len s).

(* sort.Ints / sort.SliceStable: permutes the cells of s in place *)
Definition t_sort {A} (f : list A -> list A) (s : tslice A) : M (tslice A) :=
  _ <~ log_writes (t_tag s) (seq 0 (t_len s)) ;; ret (mkT (t_tag s) (f (t_elems s)) (t_cap s)).

(* ---------------- tagged data types ---------------- *)

Record tArgs := mkTArgs { tValues : tslice Arg; tProcessed : tslice bytes; tElided : bool }.

Record tCall := mkTCall {
  tcFunc : Func;
  tcArgs : tArgs;
  tcRemoteSrcPath : bytes;
  tcLine : Z;
  tcSrcName : bytes;
  tcDirSrc : bytes;
  tcLocalSrcPath : bytes;
  tcRelSrcPath : bytes;
  tcImportPath : bytes;
  tcLocation : Location }.

Record tStack := mkTStack { tCalls : tslice tCall; tSElided : bool }.

Record tSignature := mkTSig {
  tState : bytes;
  tCreatedBy : tStack;
  tSleepMin : Z;
  tSleepMax : Z;
  tSStack : tStack;
  tLocked : bool }.

Record tGoroutine := mkTGoroutine {
  tGSig : tSignature;
  tID : Z;
  tFirst : bool;
  tRaceWrite : bool;
  tRaceAddr : N }.

Record tBucket := mkTBucket { tBSig : tSignature; tIDs : tslice Z; tBFirst : bool }.

Definition emptyTArgs : tArgs := mkTArgs t_nil t_nil false.
Definition emptyTCall : tCall := mkTCall emptyFunc emptyTArgs [] 0 [] [] [] [] [] LocationUnknown.

(* ---------------- erasure ---------------- *)

Definition erase_args (a : tArgs) : Args :=
  mkArgs (t_elems (tValues a)) (t_elems (tProcessed a)) (tElided a).
Definition erase_call (c : tCall) : Call :=
  mkCall (tcFunc c) (erase_args (tcArgs c)) (tcRemoteSrcPath c) (tcLine c) (tcSrcName c) (tcDirSrc c)
         (tcLocalSrcPath c) (tcRelSrcPath c) (tcImportPath c) (tcLocation c).
Definition erase_stack (s : tStack) : Stack := mkStack (map erase_call (t_elems (tCalls s))) (tSElided s).
Definition erase_sig (s : tSignature) : Signature :=
  mkSig (tState s) (erase_stack (tCreatedBy s)) (tSleepMin s) (tSleepMax s) (erase_stack (tSStack s)) (tLocked s).
Definition erase_goroutine (g : tGoroutine) : Goroutine :=
  mkGoroutine (erase_sig (tGSig g)) (tID g) (tFirst g) (tRaceWrite g) (tRaceAddr g).
Definition erase_bucket (b : tBucket) : Bucket := mkBucket (erase_sig (tBSig b)) (t_elems (tIDs b)) (tBFirst b).
Definition erase_snapshot (ts : list tGoroutine) : list Goroutine := map erase_goroutine ts.
Definition erase_buckets (r : GoResult (tslice tBucket)) : GoResult (list Bucket) :=
  match r with Ok bs => Ok (map erase_bucket (t_elems bs)) | Panic m => Panic m end.

(* ---------------- tagging the input snapshot ---------------- *)

(* spare g path: the spare capacity (cap - len) of the slice [path] of goroutine g *)
Definition spare_fn : Type := nat -> list nat -> nat.
Definition no_spare : spare_fn := fun _ _ => 0.

Definition mk_shared {A} (spare : spare_fn) (g : nat) (path : list nat) (l : list A) : tslice A :=
  mkT (Shared g path) l (List.length l + spare g path).

Definition tag_args (spare : spare_fn) (g s c : nat) (a : Args) : tArgs :=
  mkTArgs (mk_shared spare g [s; c; 0] (Values a)) (mk_shared spare g [s; c; 1] (Processed a)) (Elided a).
Definition tag_call (spare : spare_fn) (g s c : nat) (x : Call) : tCall :=
  mkTCall (CFunc x) (tag_args spare g s c (CArgs x)) (RemoteSrcPath x) (Line x) (SrcName x) (DirSrc x)
          (LocalSrcPath x) (RelSrcPath x) (CImportPath x) (CLocation x).
Fixpoint tag_calls (spare : spare_fn) (g s c : nat) (l : list Call) : list tCall :=
  match l with
  | [] => []
  | x :: l' => tag_call spare g s c x :: tag_calls spare g s (S c) l'
  end.
Definition tag_stack (spare : spare_fn) (g s : nat) (st : Stack) : tStack :=
  mkTStack (mk_shared spare g [s] (tag_calls spare g s 0 (Calls st))) (SElided st).
Definition tag_sig (spare : spare_fn) (g : nat) (s : Signature) : tSignature :=
  mkTSig (State s) (tag_stack spare g 1 (CreatedBy s)) (SleepMin s) (SleepMax s)
         (tag_stack spare g 0 (SStack s)) (Locked s).
Definition tag_goroutine (spare : spare_fn) (g : nat) (x : Goroutine) : tGoroutine :=
  mkTGoroutine (tag_sig spare g (GSig x)) (ID x) (First x) (RaceWrite x) (RaceAddr x).
Fixpoint tag_from (spare : spare_fn) (g : nat) (gs : list Goroutine) : list tGoroutine :=
  match gs with
  | [] => []
  | x :: gs' => tag_goroutine spare g x :: tag_from spare (S g) gs'
  end.
Definition tag_snapshot (spare : spare_fn) (gs : list Goroutine) : list tGoroutine := tag_from spare 0 gs.

(* ---------------- merge, stack/stack.go ---------------- *)

(* the value stored in out.Values[i] (nested Fields rebuilt functionally) *)
Definition t_arg_merge (l r : Arg) : M Arg := ret (arg_merge l r).

(* for i, l := range a.Values { rv := &r.Values[i]; out.Values[i] = ... } *)
Fixpoint t_args_loop (out : tslice Arg) (i : nat) (l r : list Arg) : M (tslice Arg) :=
  match l, r with
  | x :: l', y :: r' => v <~ t_arg_merge x y ;; out' <~ t_set out i v ;; t_args_loop out' (S i) l' r'
  | _, _ => ret out
  end.

(* Args.merge, stack.go:281: Values: make([]Arg, len(a.Values)); Processed nil *)
Definition t_args_merge (a r : tArgs) : M tArgs :=
  out <~ t_make (t_len (tValues a)) (t_len (tValues a)) emptyArg ;;
  out' <~ t_args_loop out 0 (t_elems (tValues a)) (t_elems (tValues r)) ;;
  ret (mkTArgs out' t_nil (tElided a)).

(* Call.merge, stack.go:495 *)
Definition t_call_merge (c r : tCall) : M tCall :=
  a <~ t_args_merge (tcArgs c) (tcArgs r) ;;
  ret (mkTCall (tcFunc c) a (tcRemoteSrcPath c) (tcLine c) (tcSrcName c) (tcDirSrc c)
               (tcLocalSrcPath c) (tcRelSrcPath c) (tcImportPath c) (tcLocation c)).

(* for i := range s.Calls { out.Calls[i] = s.Calls[i].merge(&r.Calls[i]) } *)
Fixpoint t_calls_loop (out : tslice tCall) (i : nat) (l r : list tCall) : M (tslice tCall) :=
  match l, r with
  | x :: l', y :: r' => c <~ t_call_merge x y ;; out' <~ t_set out i c ;; t_calls_loop out' (S i) l' r'
  | _, _ => ret out
  end.

(* Stack.merge, stack.go:551: out := &Stack{Calls: make([]Call, len(s.Calls))} *)
Definition t_stack_merge (s r : tStack) : M tStack :=
  out <~ t_make (t_len (tCalls s)) (t_len (tCalls s)) emptyTCall ;;
  _ <~ t_new ;;
  out' <~ t_calls_loop out 0 (t_elems (tCalls s)) (t_elems (tCalls r)) ;;
  ret (mkTStack out' (tSElided s)).

(* Signature.merge, stack.go:718: CreatedBy: s.CreatedBy - the SAME slice header *)
Definition t_sig_merge (s r : tSignature) : M tSignature :=
  st <~ t_stack_merge (tSStack s) (tSStack r) ;;
  _ <~ t_new ;;
  ret (mkTSig (tState s) (tCreatedBy s)
              (if Z.ltb (tSleepMin r) (tSleepMin s) then tSleepMin r else tSleepMin s)
              (if Z.gtb (tSleepMax r) (tSleepMax s) then tSleepMax r else tSleepMax s)
              st (tLocked s || tLocked r)).

(* ---------------- Aggregate, stack/bucket.go:42 ---------------- *)

(* *count; the slice [order] is a tslice of them *)
Record tentry := mkTEntry { tekey : tSignature; teids : tslice Z; tefirst : bool }.
Definition erase_entry (e : tentry) : entry := mkEntry (erase_sig (tekey e)) (t_elems (teids e)) (tefirst e).

Definition t_agg_step (lvl : Similarity) (st : tslice tentry) (g : tGoroutine)
  : M (GoResult (tslice tentry)) :=
  match find (entry_similar lvl (map erase_entry (t_elems st)) (erase_goroutine g))
             (seq 0 (t_len st)) with
  | Some i =>
      match nth_error (t_elems st) i with
      | None => ret (Panic "unreachable")
      | Some e =>
          (* c.ids = append(c.ids, routine.ID); c.first = c.first || routine.First *)
          ids <~ t_append (teids e) (tID g) ;;
          let first := tefirst e || tFirst g in
          if sig_equal (erase_sig (tekey e)) (erase_sig (tGSig g)) then
            st' <~ t_set st i (mkTEntry (tekey e) ids first) ;; ret (Ok st')
          else if sig_merge_safe (erase_sig (tekey e)) (erase_sig (tGSig g)) then
            (* newKey := key.merge(&routine.Signature); c.key = newKey *)
            k <~ t_sig_merge (tekey e) (tGSig g) ;;
            st' <~ t_set st i (mkTEntry k ids first) ;; ret (Ok st')
          else ret (Panic "index out of range in merge")
      end
  | None =>
      (* key := &Signature{}; *key = routine.Signature: a SHALLOW copy, the
         tagged slices of the goroutine themselves *)
      _ <~ t_new ;;
      (* ids: []int{routine.ID} *)
      ids0 <~ t_make 1 1 0%Z ;;
      ids <~ t_set ids0 0 (tID g) ;;
      (* c := &count{...}; order = append(order, c) *)
      _ <~ t_new ;;
      st' <~ t_append st (mkTEntry (tGSig g) ids (tFirst g)) ;;
      ret (Ok st')
  end.

Fixpoint t_agg_loop (lvl : Similarity) (st : tslice tentry) (gs : list tGoroutine)
  : M (GoResult (tslice tentry)) :=
  match gs with
  | [] => ret (Ok st)
  | g :: gs' =>
      r <~ t_agg_step lvl st g ;;
      match r with
      | Ok st' => t_agg_loop lvl st' gs'
      | Panic m => ret (Panic m)
      end
  end.

(* for _, c := range order { sort.Ints(c.ids); bs = append(bs, &Bucket{...}) } *)
Fixpoint t_buckets_loop (bs : tslice tBucket) (es : list tentry) : M (tslice tBucket) :=
  match es with
  | [] => ret bs
  | e :: es' =>
      ids <~ t_sort sort_ints (teids e) ;;
      _ <~ t_new ;;
      bs' <~ t_append bs (mkTBucket (tekey e) ids (tefirst e)) ;;
      t_buckets_loop bs' es'
  end.

Definition t_bucket_before (l r : tBucket) : bool := bucket_before (erase_bucket l) (erase_bucket r).

Definition t_aggregate (lvl : Similarity) (ts : list tGoroutine) : M (GoResult (tslice tBucket)) :=
  (* var order []*count *)
  r <~ t_agg_loop lvl t_nil ts ;;
  match r with
  | Panic m => ret (Panic m)
  | Ok st =>
      (* bs := make([]*Bucket, 0, len(order)) *)
      bs0 <~ t_make 0 (t_len st) (mkTBucket (mkTSig [] (mkTStack t_nil false) 0 0 (mkTStack t_nil false) false) t_nil false) ;;
      bs <~ t_buckets_loop bs0 (t_elems st) ;;
      bs' <~ t_sort (sort_stable t_bucket_before) bs ;;
      ret (Ok bs')
  end.

(* ---------------- Args.String, stack.go:236 ---------------- *)

Definition t_args_string (a : tArgs) : M bytes :=
  v <~ (match t_elems (tProcessed a) with
        | _ :: _ =>
            (* v = a.Processed[:len(a.Processed):len(a.Processed)] *)
            ret (t_cap_to_len (tProcessed a))
        | [] =>
            (* v = make([]string, 0, len(a.Values)); v = append(v, item.String()) *)
            v0 <~ t_make 0 (t_len (tValues a)) ([] : bytes) ;;
            t_append_all v0 (map arg_string (t_elems (tValues a)))
        end) ;;
  v' <~ (if tElided a then t_append v (s2b "...") else ret v) ;;
  ret (join (t_elems v') (s2b ", ")).

(* the code BEFORE the fix: v = a.Processed *)
Definition t_args_string_uncapped (a : tArgs) : M bytes :=
  v <~ (match t_elems (tProcessed a) with
        | _ :: _ => ret (tProcessed a)
        | [] =>
            v0 <~ t_make 0 (t_len (tValues a)) ([] : bytes) ;;
            t_append_all v0 (map arg_string (t_elems (tValues a)))
        end) ;;
  v' <~ (if tElided a then t_append v (s2b "...") else ret v) ;;
  ret (join (t_elems v') (s2b ", ")).

(* ---------------- the alias graph of a result ---------------- *)

(* which goroutine's slice [s] (0 = Stack.Calls, 1 = CreatedBy.Calls) is the
   backing array of t; a slice of capacity 0 has no backing array *)
Definition calls_shared_with (s : nat) (t : tslice tCall) : option nat :=
  if Nat.eqb (t_cap t) 0 then None else
  match t_tag t with
  | Shared g [s'] => if Nat.eqb s s' then Some g else None
  | _ => None
  end.

Definition values_shared_with (t : tslice Arg) : option (nat * nat) :=
  if Nat.eqb (t_cap t) 0 then None else
  match t_tag t with
  | Shared g [0; c; 0] => Some (g, c)
  | _ => None
  end.

Definition alias_entry : Type := option nat * option nat * list (option (nat * nat)).

Definition alias_of_bucket (b : tBucket) : alias_entry :=
  (calls_shared_with 0 (tCalls (tSStack (tBSig b))),
   calls_shared_with 1 (tCalls (tCreatedBy (tBSig b))),
   map (fun c => values_shared_with (tValues (tcArgs c))) (t_elems (tCalls (tSStack (tBSig b))))).

Definition alias_graph (lvl : Similarity) (gs : list Goroutine) : GoResult (list alias_entry) :=
  match fst (t_aggregate lvl (tag_snapshot no_spare gs) w_init) with
  | Ok bs => Ok (map alias_of_bucket (t_elems bs))
  | Panic m => Panic m
  end.

(* ---------------- sequences of operations on one snapshot ---------------- *)

(* OpAggregate lvl: Snapshot.Aggregate(lvl)
   OpString g c:    Goroutines[g].Stack.Calls[c].Args.String()
   OpRender lvl:    Aggregate(lvl) then Args.String() of every call of every
                    bucket (what the text and HTML writers do) *)
Inductive op := OpAggregate (lvl : Similarity) | OpString (g c : nat) | OpRender (lvl : Similarity).

Fixpoint t_strings (l : list tCall) : M unit :=
  match l with
  | [] => ret tt
  | c :: l' => _ <~ t_args_string (tcArgs c) ;; t_strings l'
  end.

Fixpoint t_render (bs : list tBucket) : M unit :=
  match bs with
  | [] => ret tt
  | b :: bs' => _ <~ t_strings (t_elems (tCalls (tSStack (tBSig b)))) ;; t_render bs'
  end.

Definition run_op (ts : list tGoroutine) (o : op) : M unit :=
  match o with
  | OpAggregate lvl => _ <~ t_aggregate lvl ts ;; ret tt
  | OpString g c =>
      match nth_error ts g with
      | Some tg =>
          match nth_error (t_elems (tCalls (tSStack (tGSig tg)))) c with
          | Some call => _ <~ t_args_string (tcArgs call) ;; ret tt
          | None => ret tt
          end
      | None => ret tt
      end
  | OpRender lvl =>
      r <~ t_aggregate lvl ts ;;
      match r with
      | Ok bs => t_render (t_elems bs)
      | Panic _ => ret tt
      end
  end.

Fixpoint run_ops (ts : list tGoroutine) (os : list op) : M unit :=
  match os with
  | [] => ret tt
  | o :: os' => _ <~ run_op ts o ;; run_ops ts os'
  end.

(* ---------------- the store ---------------- *)

(* The store maps a cell (backing array, index) to its VERSION: the number of
   store instructions executed on it.  A write always changes the version
   (writing back the same value is still a write, as for the race detector). *)
Definition store : Type := prov -> nat -> nat.

Definition apply_write (w : wcell) (st : store) : store :=
  fun p i => if prov_eqb (fst w) p && Nat.eqb (snd w) i then S (st p i) else st p i.

(* the log is newest first: the oldest write is applied first *)
Definition apply_writes (log : list wcell) (st : store) : store := fold_right apply_write st log.

(* ---------------- two threads ---------------- *)

(* A thread is a list of events on cells holding values of type V.  In an
   interleaving every event carries the identity of its thread (a bool). *)
Section Threads.
  Variable V : Type.
  Definition vstore : Type := prov -> nat -> V.
  Inductive ev := Rd (c : wcell) | Wr (c : wcell) (v : V).

  Definition vwrite (c : wcell) (v : V) (st : vstore) : vstore :=
    fun p i => if prov_eqb (fst c) p && Nat.eqb (snd c) i then v else st p i.

  (* sequential execution: final store and the values read, in order *)
  Fixpoint exec (t : list ev) (st : vstore) : vstore * list V :=
    match t with
    | [] => (st, [])
    | Rd c :: t' => let (st', vs) := exec t' st in (st', st (fst c) (snd c) :: vs)
    | Wr c v :: t' => exec t' (vwrite c v st)
    end.

  (* execution of an interleaving: final store and the values read by thread b *)
  Fixpoint exec2 (b : bool) (l : list (bool * ev)) (st : vstore) : vstore * list V :=
    match l with
    | [] => (st, [])
    | (b', Rd c) :: l' =>
        let (st', vs) := exec2 b l' st in
        (st', if Bool.eqb b b' then st (fst c) (snd c) :: vs else vs)
    | (_, Wr c v) :: l' => exec2 b l' (vwrite c v st)
    end.

  (* the events of thread b, in order *)
  Fixpoint proj (b : bool) (l : list (bool * ev)) : list ev :=
    match l with
    | [] => []
    | (b', e) :: l' => if Bool.eqb b b' then e :: proj b l' else proj b l'
    end.

  (* l is an interleaving of t1 (thread true) and t2 (thread false) *)
  Definition interleaving (t1 t2 : list ev) (l : list (bool * ev)) : Prop :=
    proj true l = t1 /\ proj false l = t2.

  Definition ev_cell (e : ev) : wcell := match e with Rd c => c | Wr c _ => c end.
  Definition is_wr (e : ev) : bool := match e with Wr _ _ => true | Rd _ => false end.
End Threads.
Arguments Rd {V} c.
Arguments Wr {V} c v.
Arguments exec {V} t st.
Arguments exec2 {V} b l st.
Arguments proj {V} b l.
Arguments interleaving {V} t1 t2 l.
Arguments ev_cell {V} e.
Arguments is_wr {V} e.
Arguments vwrite {V} c v st.

(* The allocator of thread b hands out even (b = true) or odd (b = false)
   names: the local name [Fresh n] of a thread is the global [Fresh (2n)] or
   [Fresh (2n+1)].  Shared names are global. *)
Definition global_name (b : bool) (p : prov) : prov :=
  match p with
  | Fresh n => Fresh (if b then 2 * n else 2 * n + 1)
  | Shared g path => Shared g path
  end.
Definition global_cell (b : bool) (c : wcell) : wcell := (global_name b (fst c), snd c).

(* the cells thread b may write *)
Definition owned_by (b : bool) (p : prov) : bool :=
  match p with
  | Fresh n => if b then Nat.even n else Nat.odd n
  | Shared _ _ => false
  end.
