(* Properties/C13b.v — C13, the count contract.  Statements only.

   Properties/C13.v states "First leads" and "stdlib-only last".  The property
   also says "buckets with more frames in package main and in
   non-standard-library code before others".  What Stack.less
   (stack/stack.go:569-630) does, exactly:

     one pass over the frames of each stack: lLoc[c.Location]++ and, if
     c.Func.IsPkgMain, lMain++                              (tally, main_count,
                                                             loc_count)
     then six comparisons in sequence, each "more => less (first), fewer =>
     not less", going on only on equality:
        main ; GoMod ; GOPATH ; GoPkg ; Stdlib ; LocationUnknown   (counts)
     and only when the six counts are equal the frame-by-frame comparison
     (function name, file, line).

   So the order on non-First buckets is LEXICOGRAPHIC on the vector
   [counts], larger first:
     lex_more v w   v has strictly more than w at the first position where
                    they differ
   Things worth noticing (all are Examples below):
     - Stdlib is compared like the others: with equal main/GoMod/GOPATH/GoPkg
       counts, the bucket with MORE standard-library frames comes first
       ("fewer stdlib frames first" is false: C13b_fewer_stdlib_first_refuted);
     - it is lexicographic, not a total: one package-main frame beats four
       module frames (C13b_not_total_refuted);
     - frames of unknown location come last: a bucket with only
       LocationUnknown frames (no guess-paths) sorts AFTER the stdlib-only
       buckets.
   The First bucket leads whatever it contains and is excluded everywhere.

   Vocabulary (Proofs/OrderCounts.v): bcounts b = counts (SStack (BSig b));
   all_stdlib_no_main, has_user_code: Spec/BucketSpec.v. *)
From PP Require Import Base.Bytes Base.GoResult Model.Types Model.Stack Model.Bucket Spec.BucketSpec Spec.Wf.
From PP Require Import Proofs.Order Proofs.OrderCounts.
From Coq Require Import List String ZArith Permutation Sorted.
Import ListNotations.

(* 0. The counters of the Go loop are those of the model of Stack.less, and
   every frame is counted in exactly one location counter. *)
Theorem C13b_counters : forall s,
  main_count s = count_main (Calls s) /\
  (forall loc, loc_count loc s = count_loc loc (Calls s)) /\
  List.length (Calls s) =
    loc_count GoMod s + loc_count GOPATH s + loc_count GoPkg s + loc_count Stdlib s + loc_count LocationUnknown s /\
  main_count s <= List.length (Calls s).
Proof.
  intros s. split; [apply main_count_eq|]. split; [intros loc; apply loc_count_eq|].
  split; [apply loc_counts_total|apply main_count_le].
Qed.
Print Assumptions C13b_counters.

(* 1. Stack.less, exactly. *)
Theorem C13b_stack_less_counts : forall s r,
  stack_less s r = true <->
  lex_more (counts s) (counts r) \/ (counts s = counts r /\ frames_cmp (Calls s) (Calls r) = Lt).
Proof. exact OrderCounts.stack_less_counts. Qed.
Print Assumptions C13b_stack_less_counts.

(* 2. The count contract of the sorted list: for two non-First buckets, a
   before b, b does not have lexicographically more; spelled out. *)
Theorem C13_counts_order :
  forall bs, count_bfirst bs <= 1 ->
  forall i j a b, i < j ->
    nth_error (sort_stable bucket_before bs) i = Some a ->
    nth_error (sort_stable bucket_before bs) j = Some b ->
    BFirst a = false -> BFirst b = false ->
    ~ lex_more (bcounts b) (bcounts a) /\
    let A := SStack (BSig a) in let B := SStack (BSig b) in
    main_count B <= main_count A /\
    (main_count A = main_count B ->
     loc_count GoMod B <= loc_count GoMod A /\
     (loc_count GoMod A = loc_count GoMod B ->
      loc_count GOPATH B <= loc_count GOPATH A /\
      (loc_count GOPATH A = loc_count GOPATH B ->
       loc_count GoPkg B <= loc_count GoPkg A /\
       (loc_count GoPkg A = loc_count GoPkg B ->
        loc_count Stdlib B <= loc_count Stdlib A /\
        (loc_count Stdlib A = loc_count Stdlib B ->
         loc_count LocationUnknown B <= loc_count LocationUnknown A))))).
Proof. exact OrderCounts.counts_order. Qed.
Print Assumptions C13_counts_order.

(* 3. Conversely, strictly more (lexicographically) means strictly before. *)
Theorem C13_more_counts_first :
  forall bs, count_bfirst bs <= 1 ->
  forall i j a b,
    nth_error (sort_stable bucket_before bs) i = Some a ->
    nth_error (sort_stable bucket_before bs) j = Some b ->
    BFirst a = false -> BFirst b = false ->
    lex_more (bcounts a) (bcounts b) -> i < j.
Proof. exact OrderCounts.more_counts_first. Qed.
Print Assumptions C13_more_counts_first.

(* more package-main frames => before *)
Corollary C13_more_main_first :
  forall bs, count_bfirst bs <= 1 ->
  forall i j a b,
    nth_error (sort_stable bucket_before bs) i = Some a ->
    nth_error (sort_stable bucket_before bs) j = Some b ->
    BFirst a = false -> BFirst b = false ->
    main_count (SStack (BSig b)) < main_count (SStack (BSig a)) -> i < j.
Proof. exact OrderCounts.more_main_first. Qed.
Print Assumptions C13_more_main_first.

(* a bucket with a frame in package main, a module, GOPATH or the module
   cache is before every stdlib-only bucket (re-derived from the counts: the
   latter's vector is [0;0;0;0;n;0]) *)
Corollary C13_stdlib_only_last :
  forall bs, count_bfirst bs <= 1 ->
  forall i j a b,
    nth_error (sort_stable bucket_before bs) i = Some a ->
    nth_error (sort_stable bucket_before bs) j = Some b ->
    BFirst a = false -> BFirst b = false ->
    has_user_code a = true -> all_stdlib_no_main b = true -> i < j.
Proof. exact OrderCounts.stdlib_only_last. Qed.
Print Assumptions C13_stdlib_only_last.

Theorem C13b_stdlib_only_counts : forall b, all_stdlib_no_main b = true ->
  bcounts b = [0; 0; 0; 0; List.length (Calls (SStack (BSig b))); 0].
Proof. exact OrderCounts.stdlib_only_counts. Qed.
Print Assumptions C13b_stdlib_only_counts.

(* 4. The same for Aggregate's result: every map-iteration oracle, every
   level, every snapshot with at most one First goroutine. *)
Theorem C13_aggregate_counts :
  forall shuffle lvl gs bs, count_first gs <= 1 ->
  aggregate shuffle lvl gs = Ok bs ->
  forall i j a b, nth_error bs i = Some a -> nth_error bs j = Some b ->
    BFirst a = false -> BFirst b = false ->
    (i < j -> ~ lex_more (bcounts b) (bcounts a) /\ counts_ge (SStack (BSig a)) (SStack (BSig b))) /\
    (lex_more (bcounts a) (bcounts b) -> i < j) /\
    (main_count (SStack (BSig b)) < main_count (SStack (BSig a)) -> i < j) /\
    (has_user_code a = true -> all_stdlib_no_main b = true -> i < j).
Proof. exact OrderCounts.aggregate_counts_order. Qed.
Print Assumptions C13_aggregate_counts.

(* ------------------------------------------------------------------ *)
(* Examples: aggregated snapshots with mixed locations                   *)

Definition call (name : string) (ismain : bool) (loc : Location) : Call :=
  mkCall (mkFunc (s2b name) [] [] (s2b name) false ismain) emptyArgs (s2b "/p/f.go") 7 (s2b "f.go") (s2b "p/f.go") [] [] [] loc.
Definition gor (id : Z) (first : bool) (cs : list Call) : Goroutine :=
  mkGoroutine (mkSig (s2b "running") emptyStack 0 0 (mkStack cs false) false) id first false 0.

Definition gs1 : list Goroutine :=
  [ gor 1 false [call "io.a" false Stdlib; call "io.b" false Stdlib; call "io.c" false Stdlib];
    gor 2 false [call "x.u" false LocationUnknown];
    gor 3 false [call "dep.f" false GoPkg; call "io.a" false Stdlib];
    gor 4 true  [call "io.z" false Stdlib];
    gor 5 false [call "mod.f" false GoMod; call "mod.g" false GoMod; call "mod.h" false GoMod; call "mod.i" false GoMod];
    gor 6 false [call "main.main" true GoMod];
    gor 7 false [call "gp.f" false GOPATH; call "io.a" false Stdlib; call "io.b" false Stdlib];
    gor 8 false [call "gp.g" false GOPATH; call "io.a" false Stdlib];
    gor 9 false [call "io.q" false Stdlib];
    gor 10 false [call "main.main" true GoMod];
    gor 11 false [call "main.x" true Stdlib; call "main.y" true LocationUnknown] ].

(* the buckets, in order: ids, First, [main; GoMod; GOPATH; GoPkg; Stdlib; Unknown] *)
Example C13b_mixed :
  count_first gs1 = 1 /\
  match aggregate id_shuffle AnyPointer gs1 with
  | Ok bs => map (fun b => (IDs b, BFirst b, bcounts b)) bs
  | Panic _ => []
  end =
  [ ([4%Z], true,  [0; 0; 0; 0; 1; 0]);        (* First leads, although stdlib-only *)
    ([11%Z], false, [2; 0; 0; 0; 1; 1]);       (* 2 main *)
    ([6%Z; 10%Z], false, [1; 1; 0; 0; 0; 0]);  (* 1 main: before 4 module frames *)
    ([5%Z], false, [0; 4; 0; 0; 0; 0]);
    ([7%Z], false, [0; 0; 1; 0; 2; 0]);        (* GOPATH tie: MORE stdlib first *)
    ([8%Z], false, [0; 0; 1; 0; 1; 0]);
    ([3%Z], false, [0; 0; 0; 1; 1; 0]);
    ([1%Z], false, [0; 0; 0; 0; 3; 0]);        (* stdlib-only: the larger first *)
    ([9%Z], false, [0; 0; 0; 0; 1; 0]);
    ([2%Z], false, [0; 0; 0; 0; 0; 1]) ].      (* unknown-only: after stdlib-only *)
Proof. vm_compute. split; reflexivity. Qed.

(* the same snapshot reversed, another level: same order of the vectors *)
Example C13b_mixed_rev :
  match aggregate id_shuffle ExactLines (rev gs1) with
  | Ok bs => map bcounts bs
  | Panic _ => []
  end =
  [ [0; 0; 0; 0; 1; 0]; [2; 0; 0; 0; 1; 1]; [1; 1; 0; 0; 0; 0]; [0; 4; 0; 0; 0; 0]; [0; 0; 1; 0; 2; 0];
    [0; 0; 1; 0; 1; 0]; [0; 0; 0; 1; 1; 0]; [0; 0; 0; 0; 3; 0]; [0; 0; 0; 0; 1; 0]; [0; 0; 0; 0; 0; 1] ].
Proof. vm_compute. reflexivity. Qed.

(* the hypotheses of C13_aggregate_counts on that result: every pair of
   non-First buckets i < j satisfies the contract (checked, not only proved) *)
Definition pair_ok (bs : list Bucket) (i j : nat) : bool :=
  match nth_error bs i, nth_error bs j with
  | Some a, Some b =>
      if BFirst a || BFirst b then true
      else negb (lex_moreb (bcounts b) (bcounts a)) &&
           (if lex_moreb (bcounts a) (bcounts b) then Nat.ltb i j else true)
  | _, _ => false
  end.
Example C13b_mixed_pairs :
  match aggregate id_shuffle AnyPointer gs1 with
  | Ok bs => forallb (fun i => forallb (fun j => if Nat.ltb i j then pair_ok bs i j else true) (seq 0 10)) (seq 0 10)
  | Panic _ => false
  end = true.
Proof. vm_compute. reflexivity. Qed.

(* "with equal non-stdlib counts the bucket with FEWER stdlib frames comes
   first" is false *)
Theorem C13b_fewer_stdlib_first_refuted :
  ~ (forall bs, count_bfirst bs <= 1 ->
     forall i j a b, i < j ->
       nth_error (sort_stable bucket_before bs) i = Some a ->
       nth_error (sort_stable bucket_before bs) j = Some b ->
       BFirst a = false -> BFirst b = false ->
       firstn 4 (bcounts a) = firstn 4 (bcounts b) ->
       loc_count Stdlib (SStack (BSig a)) <= loc_count Stdlib (SStack (BSig b))).
Proof.
  intros F.
  set (a := mkBucket (GSig (gor 7 false [call "gp.f" false GOPATH; call "io.a" false Stdlib; call "io.b" false Stdlib])) [7%Z] false).
  set (b := mkBucket (GSig (gor 8 false [call "gp.g" false GOPATH; call "io.a" false Stdlib])) [8%Z] false).
  assert (H := F [b; a] (le_S _ _ (le_n 0)) 0 1 a b (le_n 1) eq_refl eq_refl eq_refl eq_refl eq_refl).
  vm_compute in H. lia.
Qed.
Print Assumptions C13b_fewer_stdlib_first_refuted.

(* "the bucket with more frames in main and non-stdlib code IN TOTAL comes
   first" is false: the comparison is lexicographic *)
Theorem C13b_not_total_refuted :
  ~ (forall bs, count_bfirst bs <= 1 ->
     forall i j a b, i < j ->
       nth_error (sort_stable bucket_before bs) i = Some a ->
       nth_error (sort_stable bucket_before bs) j = Some b ->
       BFirst a = false -> BFirst b = false ->
       let tot x := main_count (SStack (BSig x)) + loc_count GoMod (SStack (BSig x)) +
                    loc_count GOPATH (SStack (BSig x)) + loc_count GoPkg (SStack (BSig x)) in
       tot b <= tot a).
Proof.
  intros F.
  set (a := mkBucket (GSig (gor 6 false [call "main.main" true Stdlib])) [6%Z] false).
  set (b := mkBucket (GSig (gor 5 false [call "mod.f" false GoMod; call "mod.g" false GoMod; call "mod.h" false GoMod])) [5%Z] false).
  assert (H := F [b; a] (le_S _ _ (le_n 0)) 0 1 a b (le_n 1) eq_refl eq_refl eq_refl eq_refl).
  vm_compute in H. lia.
Qed.
Print Assumptions C13b_not_total_refuted.
