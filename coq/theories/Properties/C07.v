(* Properties/C07.v — Delimitation and resumable scanning.  Statements only.

   One call of ScanSnapshot handles the longest prefix of lines each of which
   scan accepts or forwards; it hands back, untouched, everything from the
   first line that scan rejects.  Calling it again on suffix ++ unread (the
   documented resume protocol, Model/ScanSeq.scan_seq) always makes progress,
   terminates, tiles the stream without gap or overlap, and finds every dump
   of a stream "junk, dump, junk, dump, ..., junk" exactly as if the dump had
   been scanned alone.

   Vocabulary (Spec/SeqSpec.v, Spec/LoopSpec.v, Spec/ReaderSpec.v):
     lines B            B cut after each LF; the last piece may be unterminated
     run_lines f s fw n ls
                        the loop of ScanSnapshot as a pure fold of scan over
                        the list of lines ls, from scanner state s, with fw
                        already forwarded and n lines already read; f is the
                        terminal error of the source.  Stops (1) before a line
                        when the state is done (error nil), (2) when the lines
                        are exhausted (error f), (3) after a line that came
                        with an error (reader error f for the unterminated
                        last line, or a scan error), (4) at a line with flag
                        false whose new state is not looking (the REJECTED
                        line: it stays in lr_rem).  A line with flag false and
                        new state looking is forwarded.
     lrun               outcome: lr_ss final scanner state, lr_fwd forwarded
                        bytes, lr_rem the lines not handled, lr_err, lr_n
     combine_err e e1   "err1 != nil && (err == nil || err == io.EOF)"
     lerr f d           the reader error that comes with line d: none if d is
                        LF-terminated, f otherwise
     agrees na res lr   snap/fwd/rerr_out/final_state/lines_read of res are
                        those of lr and suffix res ++ rest (unread res) is the
                        concatenation of lr_rem lr
     Handled s fw ds s' fw'
                        folding scan from s over ds: every line is accepted
                        (flag true) or forwarded (flag false, new state
                        looking), never starting in state done; fw' = fw ++
                        the forwarded lines
     rejects s d s' e   scan s d = (s', false, e), s not done, s' not looking
     terminated B       every line of B ends with LF
     no_start B         no line of B is a goroutine header or "=================="
     accept_all s ls    fold of scan over ls, all flags true, never done before
                        a line
     delimits D nxt     D is terminated; scanning it from ss0 accepts all its
                        lines into a state s with at least one goroutine; and
                        s is done, or the stream ends (nxt = None), or scan
                        rejects the next line nxt without touching the
                        goroutines
     stream_of segs Jk  J0 ++ D1 ++ J1 ++ ... ++ Dk ++ Jk for
                        segs = [(J0, D1); ...; (J(k-1), Dk)]
     well_delimited     every Ji is junk (no_start) and, but for Jk, terminated;
                        every Di is delimited by the first line of what follows
     alone D            snap of scan_snapshot false on D alone, with io.EOF
     seq_chain f c hls items r
                        the calls of scan_seq: call i scans c_i, hls_i are the
                        lines it handed to scan with their kinds, item i is its
                        (snap, fwd, err), c_(i+1) = suffix_i ++ unread_i,
                        c_i = handled lines of hls_i ++ c_(i+1); r is the last c
     stall_free sc      no 100 consecutive zero-length reads (Spec/ReaderSpec)

   All theorems about one call hold for every stall-free delivery schedule;
   scan_seq itself uses one-shot delivery (by C09 this is no restriction). *)
From PP Require Import Base.Bytes Base.BytesX Base.GoResult Model.Types Model.Lines Model.Reader Model.FuncInit Model.Scan Model.Names Model.ScanSnapshot Model.ScanSeq.
From PP Require Import Proofs.ScanInv Proofs.LoopBase Proofs.LoopProofs.
From PP Require Import Spec.ReaderSpec Spec.LoopSpec Spec.SeqSpec Proofs.PrefixBase Proofs.PrefixFrame Proofs.PrefixProofs.
From Coq Require Import String.

(* A. ScanSnapshot is the fold of scan over the lines of the input. *)
Theorem C07_scan_is_fold : forall na B sc f, stall_free sc ->
  exists res lr,
    scan_snapshot na (mkSource B sc f) = Ok res /\
    run_lines f ss0 [] 0 (lines B) = Ok lr /\
    agrees na res lr /\ Inv (lr_ss lr) /\
    (is_eio (rerr_out res) = true -> rest (unread res) = []).
Proof. exact PrefixBase.snapshot_lines. Qed.
Print Assumptions C07_scan_is_fold.

(* B1. The handled region hd is the longest prefix of lines that scan accepts
   or forwards; what is handed back (suffix ++ unread) is the concatenation of
   the remaining lines rm, and rm is empty, or the scanner is done, or rm
   begins with the first line that scan rejects.  fwd is the concatenation of
   the forwarded lines of hd. *)
Theorem C07_ends_at_first_non_continuing : forall na B sc f res,
  stall_free sc ->
  scan_snapshot na (mkSource B sc f) = Ok res ->
  exists hd rm sh,
    lines B = hd ++ rm /\
    Handled ss0 [] hd sh (fwd res) /\
    suffix res ++ rest (unread res) = List.concat rm /\
    ((st sh = done /\ snap res = snap_of na (goroutines sh) /\ final_state res = done /\
      rerr_out res = ENil /\ lines_read res = List.length hd) \/
     (rm = [] /\ snap res = snap_of na (goroutines sh) /\ final_state res = st sh /\
      rerr_out res = EIo f /\ lines_read res = List.length hd) \/
     (exists d rm' s' e, rm = d :: rm' /\ rejects sh d s' e /\
        snap res = snap_of na (goroutines s') /\ final_state res = st s' /\
        rerr_out res = combine_err (lerr f d) e /\ lines_read res = S (List.length hd))).
Proof. exact PrefixProofs.ends_at_first_non_continuing. Qed.
Print Assumptions C07_ends_at_first_non_continuing.

(* B2. Progress: a call on a non-empty stream, or a call that does not return
   a reader error, consumes at least one line (the first line handed to scan
   is never rejected). *)
Theorem C07_progress_strong : forall na B sc f res,
  stall_free sc ->
  scan_snapshot na (mkSource B sc f) = Ok res ->
  B <> [] \/ is_eio (rerr_out res) = false ->
  List.length (suffix res ++ rest (unread res)) < List.length B.
Proof. exact PrefixProofs.progress_strong. Qed.
Print Assumptions C07_progress_strong.

Theorem C07_progress : forall na B sc f res,
  stall_free sc ->
  scan_snapshot na (mkSource B sc f) = Ok res ->
  rerr_out res = ENil ->
  List.length (suffix res ++ rest (unread res)) < List.length B.
Proof. exact PrefixProofs.progress. Qed.
Print Assumptions C07_progress.

(* The resume protocol is total; with fuel S (length B) it ends because the
   stream ended (the last item, and only the last, carries a reader error),
   and more fuel changes nothing. *)
Theorem C07_seq_total : forall B f, exists l r, scan_seq (S (List.length B)) B f = Ok (l, r).
Proof. exact PrefixProofs.seq_total. Qed.
Print Assumptions C07_seq_total.

Theorem C07_seq_fuel_enough : forall B f k,
  scan_seq (S (List.length B) + k) B f = scan_seq (S (List.length B)) B f.
Proof. exact PrefixProofs.seq_fuel_enough. Qed.
Print Assumptions C07_seq_fuel_enough.

Theorem C07_seq_ends_with_io_error : forall B f l r,
  scan_seq (S (List.length B)) B f = Ok (l, r) ->
  exists l' it x, l = l' ++ [it] /\ snd it = EIo x /\
    Forall (fun y => is_eio (snd y) = false) l'.
Proof. exact PrefixProofs.seq_ends_with_io_error. Qed.
Print Assumptions C07_seq_ends_with_io_error.

(* B3. The calls tile the stream: call i+1 scans exactly what call i handed
   back; the handled regions in order, followed by the final remainder, are B;
   each item's fwd is the forwarded part of its region; forwarded + withheld +
   remainder = everything.  (Any fuel.) *)
Theorem C07_seq_conservation : forall n B f items r,
  scan_seq n B f = Ok (items, r) ->
  exists hls,
    seq_chain f B hls items r /\
    List.concat (map handled_bytes hls) ++ r = B /\
    map item_fwd items = map fwd_bytes_hl hls /\
    List.length (List.concat (map item_fwd items)) +
      List.length (List.concat (map consumed_bytes hls)) + List.length r = List.length B.
Proof. exact PrefixProofs.seq_conservation. Qed.
Print Assumptions C07_seq_conservation.

(* B4, one dump: junk J, a dump D delimited by what follows, anything R.  The
   junk is forwarded, R is handed back untouched, the snapshot is the one
   obtained by scanning D alone.  A reader error is returned only if R is
   empty or a single unterminated line. *)
Theorem C07_dump_alone_equals_in_stream : forall na J D R sc f res,
  stall_free sc -> no_start J -> terminated J -> delimits D (hd_error (lines R)) ->
  scan_snapshot na (mkSource (J ++ D ++ R) sc f) = Ok res ->
  fwd res = J /\ suffix res ++ rest (unread res) = R /\ snap res <> None /\
  (forall sc', stall_free sc' ->
     exists res', scan_snapshot na (mkSource D sc' EOF) = Ok res' /\ snap res' = snap res /\
       fwd res' = [] /\ suffix res' ++ rest (unread res') = []) /\
  (is_eio (rerr_out res) = true ->
     rest (unread res) = [] /\ forall d, In d (lines R) -> has_lf d = false).
Proof. exact PrefixProofs.dump_in_stream. Qed.
Print Assumptions C07_dump_alone_equals_in_stream.

(* The goroutine clause of [delimits] is automatic when the next line is
   rejected without a scan error (e.g. "exit status 2" after the blank line
   that ends a dump): such a line never touches the goroutines. *)
Theorem C07_reject_clean : forall s d s', rejects s d s' None -> goroutines s' = goroutines s.
Proof. exact PrefixFrame.rejects_clean. Qed.
Print Assumptions C07_reject_clean.

(* B4, the main theorem: on J0 ++ D1 ++ J1 ++ ... ++ Dk ++ Jk the protocol
   yields exactly k non-empty snapshots, the i-th being the goroutines of Di
   scanned alone, and the forwarded bytes of all calls, followed by the final
   remainder (non-empty only when Jk ends with an unterminated line that the
   last dump rejects together with a reader error), are J0 ++ ... ++ Jk. *)
Theorem C07_resume : forall segs Jk f n,
  well_delimited segs Jk -> List.length (stream_of segs Jk) < n ->
  exists items r,
    scan_seq n (stream_of segs Jk) f = Ok (items, r) /\
    map Some (nonempty_snaps items) = map (fun x => alone (snd x)) segs /\
    List.concat (map item_fwd items) ++ r = List.concat (map fst segs) ++ Jk.
Proof. exact PrefixProofs.resume. Qed.
Print Assumptions C07_resume.

(* B5. A goroutine header at any line boundary of junk starts a dump: the junk
   before it is forwarded and nothing else, the header creates the first
   goroutine, and the handled region extends from the header onwards. *)
Theorem C07_start_anywhere : forall na J h R sc f res,
  stall_free sc -> no_start J -> terminated J ->
  complete_line h -> try_header ss0 (trim_eol h) <> None ->
  scan_snapshot na (mkSource (J ++ h ++ R) sc f) = Ok res ->
  fwd res = J /\ snap res <> None /\
  (exists s1 g, scan ss0 h = Ok (s1, true, None) /\ goroutines s1 = [g] /\ First g = true /\
                st s1 = gotRoutineHeader) /\
  (exists handled, R = handled ++ suffix res ++ rest (unread res)).
Proof. exact PrefixProofs.start_anywhere. Qed.
Print Assumptions C07_start_anywhere.

(* ------------------------------------------------------------------ *)
(* Non-vacuity.                                                        *)

Definition ln (s : string) : bytes := s2b s ++ [LF].
Definition TAB : string := String (Ascii.ascii_of_nat 9) EmptyString.
Definition dump (id : string) : bytes :=
  ln ("goroutine " ++ id ++ " [running]:") ++ ln "main.main()" ++ ln (TAB ++ "/a/b.go:1 +0x1") ++ ln "".

(* the hypotheses of C07_resume are satisfiable: two dumps between junk; the
   second one is followed by an unterminated line *)
Example C07_well_delimited_example :
  well_delimited [(ln "x", dump "1"); (ln "exit status 2", dump "7")] (s2b "bye").
Proof.
  assert (Hterm : forall B, forallb has_lf (lines B) = true -> terminated B).
  { intros B H d Hin. rewrite forallb_forall in H. now apply H. }
  cbn [well_delimited].
  split; [vm_compute; reflexivity|]. split; [apply Hterm; vm_compute; reflexivity|]. split.
  { split; [apply Hterm; vm_compute; reflexivity|].
    eexists. split; [vm_compute; reflexivity|]. split; [vm_compute; discriminate|]. right.
    vm_compute. eexists. eexists. split; [split; [reflexivity|split; reflexivity]|reflexivity]. }
  split; [vm_compute; reflexivity|]. split; [apply Hterm; vm_compute; reflexivity|]. split.
  { split; [apply Hterm; vm_compute; reflexivity|].
    eexists. split; [vm_compute; reflexivity|]. split; [vm_compute; discriminate|]. right.
    vm_compute. eexists. eexists. split; [split; [reflexivity|split; reflexivity]|reflexivity]. }
  vm_compute. reflexivity.
Qed.

(* ... and this is what the protocol does on that stream: two calls, one
   snapshot of one goroutine each (IDs 1 and 7), the junk forwarded; the
   unterminated "bye" is rejected together with io.EOF and comes back as the
   final remainder *)
Example C07_resume_example :
  let B := stream_of [(ln "x", dump "1"); (ln "exit status 2", dump "7")] (s2b "bye") in
  match scan_seq (S (List.length B)) B EOF with
  | Ok (items, r) =>
      map (fun it => option_map (map ID) (fst (fst it))) items = [Some [1%Z]; Some [7%Z]] /\
      map item_fwd items = [ln "x"; ln "exit status 2"] /\
      map snd items = [ENil; EIo EOF] /\ r = s2b "bye" /\
      alone (dump "1") = fst (fst (nth 0 items (None, [], ENil))) /\
      alone (dump "7") = fst (fst (nth 1 items (None, [], ENil)))
  | Panic _ => False
  end.
Proof. vm_compute. repeat split. Qed.

(* a reader failure instead of io.EOF: same snapshots, the failure is reported *)
Example C07_resume_example_fail :
  let B := stream_of [(ln "x", dump "1"); (ln "exit status 2", dump "7")] (ln "bye") in
  match scan_seq (S (List.length B)) B (Fail 5) with
  | Ok (items, r) =>
      map (fun it => option_map (map ID) (fst (fst it))) items = [Some [1%Z]; Some [7%Z]; None] /\
      map item_fwd items = [ln "x"; ln "exit status 2"; ln "bye"] /\
      map snd items = [ENil; ENil; EIo (Fail 5)] /\ r = []
  | Panic _ => False
  end.
Proof. vm_compute. repeat split. Qed.

(* a header in the middle of junk *)
Example C07_start_anywhere_example :
  let h := ln "goroutine 3 [select]:" in
  no_start (ln "a" ++ ln "b") /\ try_header ss0 (trim_eol h) <> None /\
  match scan_snapshot false (mkSource (ln "a" ++ ln "b" ++ h ++ ln "c") [(5, false)] EOF) with
  | Ok res => fwd res = ln "a" ++ ln "b" /\ option_map (map ID) (snap res) = Some [3%Z] /\
              suffix res ++ rest (unread res) = ln "c"
  | Panic _ => False
  end.
Proof. vm_compute. repeat split; discriminate. Qed.
