// op guess (C18): ScanSnapshot with GuessPaths on a generated file-system
// layout (materialised under /tmp/vhg/...), with remote roots renamed.
// guess id content localgoroot localgopaths fs expect | snap goroot gopaths gomods
//
//	fs      = "path=contenthex;..." of every regular file of the layout
//	expect  = per frame of the dump, in order: "class|local|rel|import" or "?" when the layout is ambiguous for it
package main

import (
	"fmt"
	"math/rand"
	"os"
	"path/filepath"
	"sort"
	"strings"

	"github.com/maruel/panicparse/v2/stack"
)

type gfile struct {
	remote    string // path as printed in the dump
	local     string // local path ("" if absent locally)
	rel       string
	imp       string // expected ImportPath when resolved
	class     stack.Location
	pkg       string // package path of the frame's symbol (unescaped)
	name      string
	ambiguous bool   // resolvable under two roots: outside the oracle's statement
	expect    string // when set: the expectation entry to use verbatim
}

type layout struct {
	base         string
	localGoroot  string
	localGopaths []string
	files        map[string]string // every regular file -> content
}

func (l *layout) add(p, content string) { l.files[p] = content }

func (l *layout) materialise() error {
	for p, c := range l.files {
		if err := os.MkdirAll(filepath.Dir(p), 0o755); err != nil {
			return err
		}
		if err := os.WriteFile(p, []byte(c), 0o644); err != nil {
			return err
		}
	}
	return nil
}

func fmtFS(files map[string]string) string {
	var ks []string
	for k := range files {
		ks = append(ks, k)
	}
	sort.Strings(ks)
	var p []string
	for _, k := range ks {
		p = append(p, hexs([]byte(k))+"="+hexs([]byte(files[k])))
	}
	if len(p) == 0 {
		return "-"
	}
	return strings.Join(p, ";")
}

func sortedMap(m map[string]string) string {
	var ks []string
	for k := range m {
		ks = append(ks, k)
	}
	sort.Strings(ks)
	var p []string
	for _, k := range ks {
		p = append(p, hexs([]byte(k))+"="+hexs([]byte(m[k])))
	}
	if len(p) == 0 {
		return "-"
	}
	return strings.Join(p, ";")
}

func runGuess(content []byte, l *layout) (snap, goroot, gopaths, gomods string) {
	gpCopy := append([]string{}, l.localGopaths...)
	opts := &stack.Opts{LocalGOROOT: l.localGoroot, LocalGOPATHs: gpCopy, GuessPaths: true}
	snap, goroot, gopaths, gomods = runGuessOpts(content, opts)
	// the caller's options value is shared between scans: it must come back untouched
	if strings.Join(gpCopy, "\x00") != strings.Join(l.localGopaths, "\x00") && !strings.HasPrefix(snap, "PANIC") {
		snap = "OPTS-MODIFIED"
	}
	return
}

func runGuessOpts(content []byte, opts *stack.Opts) (snap, goroot, gopaths, gomods string) {
	defer func() {
		if e := recover(); e != nil {
			snap = "PANIC:" + strings.ReplaceAll(fmt.Sprint(e), "\t", " ")
		}
	}()
	rd := &scriptedReader{rest: append([]byte{}, content...), final: finalOf("eof"), w: &recWriter{}}
	s, _, _ := stack.ScanSnapshot(rd, rd.w, opts)
	if s == nil {
		return "nil", "x", "-", "-"
	}
	return sexpGoroutines(s.Goroutines), hexs([]byte(s.RemoteGOROOT)), sortedMap(s.RemoteGOPATHs), sortedMap(s.LocalGomods)
}

func emitGuess(id string, content []byte, l *layout, expect string) {
	if err := l.materialise(); err != nil {
		panic(err)
	}
	defer os.RemoveAll(l.base)
	snap, goroot, gopaths, gomods := runGuess(content, l)
	// determinism (C06): the same again, several times
	det := "1"
	for i := 0; i < 4; i++ {
		s2, g2, p2, m2 := runGuess(content, l)
		if s2 != snap || g2 != goroot || p2 != gopaths || m2 != gomods {
			det = "0"
		}
	}
	// ... and with ONE options value reused for successive scans, as a long-running caller does
	if !strings.HasPrefix(snap, "PANIC") {
		shared := &stack.Opts{LocalGOROOT: l.localGoroot, LocalGOPATHs: append([]string{}, l.localGopaths...), GuessPaths: true}
		s1, g1, p1, m1 := runGuessOpts(content, shared)
		for i := 0; i < 3; i++ {
			s2, g2, p2, m2 := runGuessOpts(content, shared)
			if s2 != s1 || g2 != g1 || p2 != p1 || m2 != m1 {
				det = "0"
			}
		}
	}
	var gps []string
	for _, g := range l.localGopaths {
		gps = append(gps, hexs([]byte(g)))
	}
	gp := strings.Join(gps, ",")
	if gp == "" {
		gp = "-"
	}
	emit("guess", id, hexs(content), hexs([]byte(l.localGoroot)), gp, fmtFS(l.files), expect, snap, goroot, gopaths, gomods, det)
	// the disk changes between two scans of one process (a go.mod is edited): the second scan must see the new content
	if !strings.HasSuffix(id, "-edited") {
		var mods []string
		for p := range l.files {
			if strings.HasSuffix(p, "/go.mod") && strings.Contains(l.files[p], "module") {
				mods = append(mods, p)
			}
		}
		sort.Strings(mods)
		if len(mods) > 0 {
			p := mods[0]
			l.files[p] = strings.Replace(l.files[p], "module example.com/", "module example.org/renamed/", 1)
			if err := os.WriteFile(p, []byte(l.files[p]), 0o644); err == nil {
				// nothing is predicted from the layout here: only model = implementation on the disk as it is NOW
				q := func(s string) string {
					parts := strings.Split(s, ",")
					for i := range parts {
						if parts[i] != "-" {
							parts[i] = "?"
						}
					}
					return strings.Join(parts, ",")
				}
				e2 := expect
				if ab := strings.SplitN(expect, ";", 2); len(ab) == 2 {
					e2 = q(ab[0]) + ";" + q(ab[1])
				}
				s2, g2, p2, m2 := runGuess(content, l)
				emit("guess", id+"-edited", hexs(content), hexs([]byte(l.localGoroot)), gp, fmtFS(l.files), e2, s2, g2, p2, m2, "1")
			}
		}
	}
}

func init() {
	replayers["guess"] = func(id string, in []string) {
		l := &layout{files: map[string]string{}, localGoroot: string(unhexs(in[1]))}
		if in[2] != "-" {
			for _, g := range strings.Split(in[2], ",") {
				l.localGopaths = append(l.localGopaths, string(unhexs(g)))
			}
		}
		if in[3] != "-" {
			for _, kv := range strings.Split(in[3], ";") {
				p := strings.SplitN(kv, "=", 2)
				l.files[string(unhexs(p[0]))] = string(unhexs(p[1]))
			}
		}
		// everything lives under /tmp/vhg/<case>/
		for k := range l.files {
			if i := strings.Index(k, "/tmp/vhg/"); i == 0 {
				rest := k[len("/tmp/vhg/"):]
				l.base = "/tmp/vhg/" + rest[:strings.IndexByte(rest, '/')]
				break
			}
		}
		if l.base == "" {
			l.base = "/tmp/vhg/replay-empty"
		}
		emitGuess(id, unhexs(in[0]), l, in[4])
	}
}

var stdPkgs = []string{"fmt", "runtime", "net/http", "sync", "internal/poll", "os"}
var gpPkgs = []string{"github.com/x/y", "github.com/foo/bar/baz", "example.org/tool", "gopkg.in/yaml.v2"}
var modPkgs = []string{"example.com/mod@v1.2.3/pkg", "github.com/a/b@v0.0.0-20200223170610-d5e6a3e2c0ae", "golang.org/x/sys@v0.1.0/unix"}

func opGuess(r *rand.Rand, n int, tier string, seed int64) {
	for i := 0; i < n; i++ {
		base := fmt.Sprintf("/tmp/vhg/s%d-%d", seed, i)
		l := &layout{base: base, files: map[string]string{}}
		var frames []gfile
		uniq := 0
		fname := func() string { uniq++; return fmt.Sprintf("f%d.go", uniq) }
		// GOROOT
		hasGoroot := r.Intn(5) != 0
		remoteGoroot := "/remote/goroot"
		if hasGoroot {
			l.localGoroot = base + "/goroot"
			if r.Intn(3) == 0 {
				remoteGoroot = l.localGoroot
			}
			for k := 0; k < 1+r.Intn(3); k++ {
				pkg := stdPkgs[r.Intn(len(stdPkgs))]
				f := fname()
				rel := pkg + "/" + f
				gf := gfile{remote: remoteGoroot + "/src/" + rel, rel: rel, imp: pkg, class: stack.Stdlib, pkg: pkg, name: "F"}
				if r.Intn(6) != 0 {
					gf.local = l.localGoroot + "/src/" + rel
					l.add(gf.local, "package x\n")
				}
				frames = append(frames, gf)
			}
		} else if r.Intn(2) == 0 {
			l.localGoroot = base + "/nogoroot"
		}
		// GOPATHs
		ngp := r.Intn(4)
		for g := 0; g < ngp; g++ {
			lg := fmt.Sprintf("%s/gp%d%s", base, g, []string{"", "", "-a-much-longer-directory-name", "x"}[r.Intn(4)])
			rg := fmt.Sprintf("/remote/gopath%d", g)
			if r.Intn(3) == 0 {
				rg = lg
			}
			l.localGopaths = append(l.localGopaths, lg)
			rgMod := rg
			if r.Intn(3) == 0 {
				rgMod = fmt.Sprintf("/ci/cache%d", g) // the module cache was at another remote root than src/
			}
			if r.Intn(4) == 0 {
				// a vendored copy whose path tail also exists at the top of the same GOPATH
				f := fname()
				relV := fmt.Sprintf("example.com/app%d/vendor/example.com/lib%d/%s", g, g, f)
				l.add(lg+"/src/"+relV, "package x\n")
				l.add(fmt.Sprintf("%s/src/example.com/lib%d/%s", lg, g, f), "package x\n")
				frames = append(frames, gfile{remote: rg + "/src/" + relV, local: lg + "/src/" + relV, rel: relV, imp: fmt.Sprintf("example.com/app%d/vendor/example.com/lib%d", g, g), class: stack.GOPATH, pkg: "lib", name: "V"})
			}
			for k := 0; k < 1+r.Intn(3); k++ {
				f := fname()
				if r.Intn(2) == 0 {
					pkg := fmt.Sprintf("%s%d", gpPkgs[r.Intn(len(gpPkgs))], g)
					rel := pkg + "/" + f
					gf := gfile{remote: rg + "/src/" + rel, rel: rel, imp: pkg, class: stack.GOPATH, pkg: pkg, name: "G"}
					if r.Intn(6) != 0 {
						gf.local = lg + "/src/" + rel
						l.add(gf.local, "package x\n")
					}
					frames = append(frames, gf)
				} else {
					pkg := modPkgs[r.Intn(len(modPkgs))]
					rel := fmt.Sprintf("%s/g%d/%s", pkg, g, f)
					gf := gfile{remote: rgMod + "/pkg/mod/" + rel, rel: rel, imp: fmt.Sprintf("%s/g%d", pkg, g), class: stack.GoPkg, pkg: "pkg", name: "H"}
					if r.Intn(6) != 0 {
						gf.local = lg + "/pkg/mod/" + rel
						l.add(gf.local, "package x\n")
					}
					frames = append(frames, gf)
				}
			}
		}
		// overlapping GOPATH roots: one nested under the other's src/ and listed first (ambiguous for the inner files:
		// not predicted, but the answer must be the same every time and equal to the model's)
		if r.Intn(5) == 0 {
			outerL, outerR := base+"/gpo", "/remote/gpo"
			if r.Intn(2) == 0 {
				outerR = outerL
			}
			innerL, innerR := outerL+"/src/nested", outerR+"/src/nested"
			l.localGopaths = append([]string{innerL, outerL}, l.localGopaths...)
			fa, fb, fc := fname(), fname(), fname()
			l.add(outerL+"/src/pkga/"+fa, "package x\n")
			l.add(innerL+"/src/foo/"+fb, "package x\n")
			l.add(outerL+"/src/pkgz/"+fc, "package x\n")
			frames = append(frames, gfile{remote: outerR + "/src/pkga/" + fa, local: outerL + "/src/pkga/" + fa, rel: "pkga/" + fa, imp: "pkga", class: stack.GOPATH, pkg: "pkga", name: "A"})
			frames = append(frames, gfile{remote: innerR + "/src/foo/" + fb, class: stack.GOPATH, pkg: "foo", name: "B", ambiguous: true})
			frames = append(frames, gfile{remote: outerR + "/src/pkgz/" + fc, local: outerL + "/src/pkgz/" + fc, rel: "pkgz/" + fc, imp: "pkgz", class: stack.GOPATH, pkg: "pkgz", name: "Z"})
		}
		// the same package present in two GOPATHs (first listed wins: not predicted), and a file only the second one has
		if r.Intn(6) == 0 {
			g1, g2 := base+"/gpd1", base+"/gpd2"
			l.localGopaths = append(l.localGopaths, g1, g2)
			fa, fz := fname(), fname()
			l.add(g1+"/src/dup/pkg/"+fa, "package x\n")
			l.add(g2+"/src/dup/pkg/"+fa, "package x\n")
			l.add(g2+"/src/only2/"+fz, "package x\n")
			frames = append(frames, gfile{remote: "/remote/dupA/src/dup/pkg/" + fa, class: stack.GOPATH, pkg: "pkg", name: "D", ambiguous: true})
			frames = append(frames, gfile{remote: "/remote/dupB/src/only2/" + fz, local: g2 + "/src/only2/" + fz, rel: "only2/" + fz, imp: "only2", class: stack.GOPATH, pkg: "only2", name: "O"})
		}
		// a file sitting directly in a detected remote GOPATH root (neither src/ nor pkg/mod/ follows the root)
		if ngp > 0 && r.Intn(4) == 0 {
			rgs := map[string]bool{}
			for _, f := range frames {
				if f.class == stack.GOPATH && f.local != "" && strings.HasPrefix(f.remote, "/remote/gopath") {
					rgs[f.remote[:strings.Index(f.remote, "/src/")]] = true
				}
			}
			for rg := range rgs {
				frames = append(frames, gfile{remote: rg + []string{"/zz.go", "/util.go", "/z.go", "/srcs/a.go", "/pkg/mo.go"}[r.Intn(5)], class: stack.LocationUnknown, pkg: "odd", name: "R", ambiguous: true})
				break
			}
		}
		// one remote GOPATH whose packages are split over two local GOPATH entries: the file examined first binds the root
		if r.Intn(6) == 0 {
			g1, g2 := base+"/gps1", base+"/gps2"
			l.localGopaths = append(l.localGopaths, g1, g2)
			fa, fb := fname(), fname()
			l.add(g1+"/src/p/"+fa, "package x\n")
			l.add(g2+"/src/q/"+fb, "package x\n")
			frames = append(frames, gfile{remote: "/remote/split/src/p/" + fa, local: g1 + "/src/p/" + fa, rel: "p/" + fa, imp: "p", class: stack.GOPATH, pkg: "p", name: "P"})
			frames = append(frames, gfile{remote: "/remote/split/src/q/" + fb, class: stack.GOPATH, pkg: "q", name: "Q", ambiguous: true})
		}
		// a GOPATH package whose path tail also exists in the local GOROOT (errors/errors.go): still a GOPATH file
		if hasGoroot && r.Intn(5) == 0 {
			lg := base + "/gplook"
			l.localGopaths = append(l.localGopaths, lg)
			l.add(l.localGoroot+"/src/errors/errors.go", "package errors\n")
			rel := "example.com/foo/errors/errors.go"
			l.add(lg+"/src/"+rel, "package errors\n")
			frames = append(frames, gfile{remote: "/remote/gopath-look/src/" + rel, local: lg + "/src/" + rel, rel: rel, imp: "example.com/foo/errors", class: stack.GOPATH, pkg: "example.com/foo/errors", name: "New"})
		}
		// the generated main of "go test" (Stdlib by decree) lying under a detected GOPATH root
		if ngp > 0 && r.Intn(5) == 0 {
			for _, f := range frames {
				if f.class == stack.GOPATH && f.local != "" && strings.HasPrefix(f.remote, "/remote/gopath") && !strings.Contains(f.remote, "gopath-look") {
					rg := f.remote[:strings.Index(f.remote, "/src/")]
					frames = append(frames, gfile{remote: rg + "/src/pkgt/_test/_testmain.go", class: stack.Stdlib, pkg: "main", name: "main",
						expect: fmt.Sprintf("%d|*|*|*", int(stack.Stdlib))})
					break
				}
			}
		}
		// local modules (paths are the same remotely and locally)
		for m := 0; m < r.Intn(3); m++ {
			root := fmt.Sprintf("%s/proj%d", base, m)
			modpath := fmt.Sprintf("example.com/proj%d", m)
			gomod := "module " + modpath + "\n\ngo 1.21\n"
			switch r.Intn(5) {
			case 0:
				gomod = "// comment\r\nmodule " + modpath + "\r\n\r\ngo 1.21\r\n"
			case 1:
				gomod = "module\t  " + modpath + "\n"
			case 2:
				gomod = "go 1.21\nmodule " + modpath
			case 3: // a licence header: the module directive comes late in the file
				if r.Intn(2) == 0 {
					gomod = strings.Repeat("// Copyright The Authors. Licensed under the Apache License, Version 2.0.\n", 2+r.Intn(12)) + "\n" + gomod
				}
			}
			l.add(root+"/go.mod", gomod)
			for k := 0; k < 1+r.Intn(3); k++ {
				sub := []string{"", "cmd/tool", "internal/deep/er"}[r.Intn(3)]
				f := fname()
				rel := f
				imp := modpath
				if sub != "" {
					rel = sub + "/" + f
					imp = modpath + "/" + sub
				}
				p := root + "/" + rel
				l.add(p, "package x\n")
				frames = append(frames, gfile{remote: p, local: p, rel: rel, imp: imp, class: stack.GoMod, pkg: "main", name: "M"})
			}
			if r.Intn(3) == 0 {
				// a sub-directory holding a go.mod WITHOUT a module directive (empty / comment only): still part of this module;
				// its file sorts before the module's other files ("aaa")
				sub := root + "/aaa"
				l.add(sub+"/go.mod", []string{"", "// placeholder\n", "go 1.21\n"}[r.Intn(3)])
				f := fname()
				l.add(sub+"/"+f, "package x\n")
				frames = append(frames, gfile{remote: sub + "/" + f, local: sub + "/" + f, rel: "aaa/" + f, imp: modpath + "/aaa", class: stack.GoMod, pkg: "main", name: "E"})
			}
			if r.Intn(3) == 0 {
				// a sibling directory whose name extends the module root's name: not part of the module
				frames = append(frames, gfile{remote: root + "2/gen/" + fname(), class: stack.LocationUnknown, pkg: "gen", name: "S"})
			}
			if r.Intn(3) == 0 {
				// a module nested in this one: its files belong to the inner module
				inner := root + "/nested"
				hdr := ""
				if r.Intn(2) == 0 {
					hdr = strings.Repeat("// Copyright The Authors. Licensed under the Apache License, Version 2.0.\n", 8+r.Intn(6)) + "\n"
				}
				l.add(inner+"/go.mod", hdr+"module example.com/nested"+fmt.Sprint(m)+"\n")
				f := fname()
				l.add(inner+"/"+f, "package x\n")
				frames = append(frames, gfile{remote: inner + "/" + f, local: inner + "/" + f, rel: f, imp: "example.com/nested" + fmt.Sprint(m), class: stack.GoMod, pkg: "main", name: "N"})
			}
		}
		// "go run" file without go.mod
		if r.Intn(3) == 0 {
			p := base + "/solo/" + fname()
			l.add(p, "package main\n")
			frames = append(frames, gfile{remote: p, local: p, rel: filepath.Base(p), imp: "main", class: stack.GoMod, pkg: "main", name: "main"})
		}
		// frames under no root
		for k := 0; k < r.Intn(3); k++ {
			frames = append(frames, gfile{remote: "/nowhere/else/" + fname(), class: stack.LocationUnknown, pkg: "lost", name: "L"})
		}
		if r.Intn(4) == 0 {
			frames = append(frames, gfile{remote: "/x/_test/_testmain.go", class: stack.Stdlib, pkg: "main", name: "main"})
		}
		if len(frames) == 0 {
			frames = append(frames, gfile{remote: "/nowhere/a.go", class: stack.LocationUnknown, pkg: "lost", name: "L"})
		}
		r.Shuffle(len(frames), func(a, b int) { frames[a], frames[b] = frames[b], frames[a] })
		if r.Intn(4) == 0 {
			// two frames that follow each other, in different files with the same last directory and file name:
			// one resolved under a GOPATH, its twin under no root
			for k, f := range frames {
				if f.class == stack.GOPATH && f.local != "" && !f.ambiguous && f.expect == "" && strings.Count(f.rel, "/") >= 1 {
					parts := strings.Split(f.rel, "/")
					tail := strings.Join(parts[len(parts)-2:], "/")
					twin := gfile{remote: "/elsewhere/tree/" + tail, class: stack.LocationUnknown, pkg: f.pkg, name: "T"}
					frames = append(frames[:k+1], append([]gfile{twin}, frames[k+1:]...)...)
					break
				}
			}
		}
		// a dump of 1..3 goroutines using the frames
		var d []dGoroutine
		var exp, cexp []string
		ng := 1 + r.Intn(3)
		per := (len(frames) + ng - 1) / ng
		for g := 0; g < ng; g++ {
			gr := dGoroutine{ID: g + 1, State: "running", ElideAfter: -1}
			for k := g * per; k < (g+1)*per && k < len(frames); k++ {
				f := frames[k]
				gr.Frames = append(gr.Frames, dFrame{Sym: dSym{Pkg: f.pkg, Name: f.name}, File: f.remote, Line: 10 + k})
				if f.expect != "" {
					exp = append(exp, f.expect)
				} else if f.ambiguous {
					exp = append(exp, "?")
				} else if f.local != "" || f.class == stack.LocationUnknown || f.remote == "/x/_test/_testmain.go" {
					imp := f.imp
					if f.local == "" {
						imp = f.pkg
					}
					exp = append(exp, fmt.Sprintf("%d|%s|%s|%s", int(f.class), hexs([]byte(f.local)), hexs([]byte(relOrEmpty(f))), hexs([]byte(imp))))
				} else {
					exp = append(exp, "?")
				}
			}
			if len(gr.Frames) == 0 {
				gr.Frames = []dFrame{{Sym: dSym{Pkg: "main", Name: "idle"}, File: "/nowhere/idle.go", Line: 1}}
				exp = append(exp, fmt.Sprintf("0|x|x|%s", hexs([]byte("main"))))
			}
			d = append(d, gr)
			cexp = append(cexp, "-")
			if r.Intn(2) == 0 {
				// a creator: either one of the known files or a file under no root (roots are inferred from stack frames only)
				gi := len(d) - 1
				if r.Intn(2) == 0 {
					d[gi].Creator = &dCreator{Sym: dSym{Pkg: "lost", Name: "spawn"}, GID: -1, File: "/remote/elsewhere/src/example.com/lib/pool/pool.go", Line: 5}
					cexp[gi] = fmt.Sprintf("0|x|x|%s", hexs([]byte("lost")))
				} else {
					f := frames[r.Intn(len(frames))]
					d[gi].Creator = &dCreator{Sym: dSym{Pkg: f.pkg, Name: f.name}, GID: -1, File: f.remote, Line: 3}
					// resolvable only if the roots it lies under were detected from some stack frame: not predicted here
					cexp[gi] = "?"
				}
			}
		}
		txt := printDump(d, dVariant{FileIndent: "\t"}, true)
		emitGuess(fmt.Sprintf("guess-%d", i), []byte(txt), l, strings.Join(exp, ",")+";"+strings.Join(cexp, ","))
	}
}

func relOrEmpty(f gfile) string {
	if f.local == "" {
		return ""
	}
	return f.rel
}
