// Reader for the canonical s-expressions (used by `vh replay` and by ops that
// take their input from a file).
package main

import (
	"encoding/hex"
	"fmt"
	"strconv"

	"github.com/maruel/panicparse/v2/stack"
)

type sx struct {
	atom string
	list []*sx
	isL  bool
}

func parseSx(s string) *sx {
	pos := 0
	var one func() *sx
	one = func() *sx {
		for pos < len(s) && s[pos] == ' ' {
			pos++
		}
		if pos >= len(s) {
			panic("sexp: eof")
		}
		if s[pos] == '(' {
			pos++
			n := &sx{isL: true}
			for {
				for pos < len(s) && s[pos] == ' ' {
					pos++
				}
				if pos >= len(s) {
					panic("sexp: unterminated")
				}
				if s[pos] == ')' {
					pos++
					return n
				}
				n.list = append(n.list, one())
			}
		}
		st := pos
		for pos < len(s) && s[pos] != ' ' && s[pos] != '(' && s[pos] != ')' {
			pos++
		}
		return &sx{atom: s[st:pos]}
	}
	return one()
}

func (n *sx) str() string {
	if n.isL || len(n.atom) == 0 || n.atom[0] != 'x' {
		panic(fmt.Sprintf("expected hex atom, got %v", n))
	}
	b, err := hex.DecodeString(n.atom[1:])
	if err != nil {
		panic(err)
	}
	return string(b)
}
func (n *sx) boolean() bool { return n.atom == "1" }
func (n *sx) int() int {
	v, err := strconv.Atoi(n.atom)
	if err != nil {
		panic(err)
	}
	return v
}
func (n *sx) u64() uint64 {
	v, err := strconv.ParseUint(n.atom, 10, 64)
	if err != nil {
		panic(err)
	}
	return v
}
func (n *sx) head(h string) []*sx {
	if !n.isL || len(n.list) == 0 || n.list[0].atom != h {
		panic("expected (" + h + " ...)")
	}
	return n.list[1:]
}

func readFunc(n *sx) stack.Func {
	l := n.head("f")
	return stack.Func{Complete: l[0].str(), ImportPath: l[1].str(), DirName: l[2].str(), Name: l[3].str(), IsExported: l[4].boolean(), IsPkgMain: l[5].boolean()}
}

func readArgs(n *sx) stack.Args {
	l := n.head("args")
	a := stack.Args{Elided: l[0].boolean()}
	for _, v := range l[1].head("vals") {
		a.Values = append(a.Values, readArg(v))
	}
	for _, p := range l[2].head("proc") {
		a.Processed = append(a.Processed, p.str())
	}
	return a
}

func readArg(n *sx) stack.Arg {
	l := n.head("a")
	return stack.Arg{IsAggregate: l[0].boolean(), Name: l[1].str(), Value: l[2].u64(), IsPtr: l[3].boolean(), IsOffsetTooLarge: l[4].boolean(), IsInaccurate: l[5].boolean(), Fields: readArgs(l[6])}
}

func readCall(n *sx) stack.Call {
	l := n.head("c")
	return stack.Call{Func: readFunc(l[0]), Args: readArgs(l[1]), RemoteSrcPath: l[2].str(), Line: l[3].int(), SrcName: l[4].str(), DirSrc: l[5].str(),
		LocalSrcPath: l[6].str(), RelSrcPath: l[7].str(), ImportPath: l[8].str(), Location: stack.Location(l[9].int())}
}

func readStack(n *sx) stack.Stack {
	l := n.head("stack")
	s := stack.Stack{Elided: l[0].boolean()}
	for _, c := range l[1:] {
		s.Calls = append(s.Calls, readCall(c))
	}
	return s
}

func readSig(n *sx) stack.Signature {
	l := n.head("sig")
	return stack.Signature{State: l[0].str(), SleepMin: l[1].int(), SleepMax: l[2].int(), Locked: l[3].boolean(), CreatedBy: readStack(l[4]), Stack: readStack(l[5])}
}

func readGoroutine(n *sx) *stack.Goroutine {
	l := n.head("g")
	return &stack.Goroutine{ID: l[0].int(), First: l[1].boolean(), RaceWrite: l[2].boolean(), RaceAddr: l[3].u64(), Signature: readSig(l[4])}
}

func readGoroutines(s string) []*stack.Goroutine {
	var out []*stack.Goroutine
	for _, g := range parseSx(s).head("gs") {
		out = append(out, readGoroutine(g))
	}
	return out
}
