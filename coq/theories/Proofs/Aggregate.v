(* Proofs/Aggregate.v — C04 (aggregation is a partition) and C05 (buckets are
   the similarity classes).  The bucketing loop is analysed once, with a ghost
   list of member goroutines attached to every entry. *)
From PP Require Import Base.Bytes Base.GoResult Model.Types Model.Stack Model.Bucket Spec.BucketSpec Spec.Wf.
From PP Require Import Proofs.AggBase Proofs.AggCanon.
From Coq Require Import Permutation.

(* ------------------------------------------------------------------ *)
(* results of AggCanon, under the names the property files use         *)
(* ------------------------------------------------------------------ *)
Theorem similar_iff_canon : forall lvl a b, sig_similar lvl a b = canon_sig_eqb lvl a b.
Proof. exact AggCanon.similar_iff_canon. Qed.

Theorem canon_equivalence : forall lvl,
  (forall a, canon_sig_eqb lvl a a = true) /\
  (forall a b, canon_sig_eqb lvl a b = canon_sig_eqb lvl b a) /\
  (forall a b c, canon_sig_eqb lvl a b = true -> canon_sig_eqb lvl b c = true -> canon_sig_eqb lvl a c = true).
Proof. exact AggCanon.canon_equivalence. Qed.

Theorem canon_refines : forall a b,
  (canon_sig_eqb ExactFlags a b = true -> canon_sig_eqb ExactLines a b = true) /\
  (canon_sig_eqb ExactLines a b = true -> canon_sig_eqb AnyPointer a b = true) /\
  (canon_sig_eqb AnyPointer a b = true -> canon_sig_eqb AnyValue a b = true).
Proof. exact AggCanon.canon_refines. Qed.

Theorem sleep_irrelevant : forall lvl a mn mx,
  canon_sig_eqb lvl a (mkSig (State a) (CreatedBy a) mn mx (SStack a) (Locked a)) = true.
Proof. exact AggCanon.sleep_irrelevant. Qed.

Theorem key_class : forall lvl k m, wf_sig k = true -> wf_sig m = true ->
  sig_similar lvl k m = true ->
  canon_sig_eqb lvl (sig_merge k m) k = true /\ (lvl <> AnyValue -> wf_sig (sig_merge k m) = true).
Proof. exact AggCanon.key_class. Qed.

(* ------------------------------------------------------------------ *)
(* the loop, with ghost members                                        *)
(* ------------------------------------------------------------------ *)
Notation gentry := (entry * list Goroutine)%type (only parsing).
Definition new_entry (g : Goroutine) : entry := mkEntry (GSig g) [ID g] (First g).
Definition upd_entry (e : entry) (key' : Signature) (g : Goroutine) : entry :=
  mkEntry key' (eids e ++ [ID g]) (efirst e || First g).
Definition gb (p : gentry) : Bucket := bucket_of_entry (fst p).

Section Loop.
  Variable shuffle : nat -> list nat -> list nat.
  Variable lvl : Similarity.

  Lemma agg_step_cases (gst : list gentry) k g :
    (agg_step shuffle lvl (map fst gst) k g = Ok (map fst (gst ++ [(new_entry g, [g])])) /\
     forall i, In i (shuffle k (seq 0 (List.length gst))) -> entry_similar lvl (map fst gst) g i = false)
    \/
    (exists l1 e m l2 key',
       gst = l1 ++ (e, m) :: l2 /\ sig_similar lvl (ekey e) (GSig g) = true /\
       (key' = ekey e \/ key' = sig_merge (ekey e) (GSig g)) /\
       agg_step shuffle lvl (map fst gst) k g = Ok (map fst (l1 ++ (upd_entry e key' g, m ++ [g]) :: l2))).
  Proof.
    unfold agg_step. cbv zeta. rewrite map_length.
    destruct (find (entry_similar lvl (map fst gst) g) (shuffle k (seq 0 (List.length gst)))) as [i|] eqn:EF.
    - right. apply find_some in EF as [_ HS]. unfold entry_similar in HS.
      destruct (nth_error (map fst gst) i) as [e|] eqn:EN; [|discriminate].
      apply nth_error_split in EN as (s1 & s2 & ES & EL).
      apply map_eq_app_inv in ES as (l1 & [e' m] & l2 & EG & E1 & E2 & E3).
      simpl in E2. subst e' gst. exists l1, e, m, l2.
      assert (EU : forall key', upd_nth i (fun _ => mkEntry key' (eids e ++ [ID g]) (efirst e || First g))
                                  (map fst (l1 ++ (e, m) :: l2)) =
                                map fst (l1 ++ (upd_entry e key' g, m ++ [g]) :: l2)).
      { intros key'. rewrite !map_app. cbn [map fst]. rewrite <- EL, <- E1. unfold upd_entry.
        exact (upd_nth_app (fun _ => mkEntry key' (eids e ++ [ID g]) (efirst e || First g)) (map fst l1) e (map fst l2)). }
      destruct (sig_equal (ekey e) (GSig g)).
      + exists (ekey e). split; [reflexivity|]. split; [exact HS|]. split; [now left|]. now rewrite EU.
      + exists (sig_merge (ekey e) (GSig g)). split; [reflexivity|]. split; [exact HS|]. split; [now right|].
        rewrite (sig_similar_safe lvl _ _ HS). now rewrite EU.
    - left. split.
      + rewrite map_app. reflexivity.
      + intros i Hi. exact (find_none _ _ EF i Hi).
  Qed.

  (* the generic invariant rule *)
  Lemma agg_loop_inv (P : Goroutine -> Prop) (Inv : list Goroutine -> list gentry -> Prop) :
    (forall done gst k g, P g -> Inv done gst ->
       (forall i, In i (shuffle k (seq 0 (List.length gst))) -> entry_similar lvl (map fst gst) g i = false) ->
       Inv (done ++ [g]) (gst ++ [(new_entry g, [g])])) ->
    (forall done l1 e m l2 g key', P g -> Inv done (l1 ++ (e, m) :: l2) ->
       sig_similar lvl (ekey e) (GSig g) = true ->
       (key' = ekey e \/ key' = sig_merge (ekey e) (GSig g)) ->
       Inv (done ++ [g]) (l1 ++ (upd_entry e key' g, m ++ [g]) :: l2)) ->
    forall gs done gst k, Forall P gs -> Inv done gst ->
    exists gst', agg_loop shuffle lvl (map fst gst) k gs = Ok (map fst gst') /\ Inv (done ++ gs) gst'.
  Proof.
    intros Hnew Hupd gs. induction gs as [|g gs IH]; intros done gst k HP HI.
    - exists gst. rewrite app_nil_r. split; [reflexivity | exact HI].
    - inversion HP as [|? ? Pg HP']; subst. cbn [agg_loop].
      destruct (agg_step_cases gst k g) as [[ES HN] | (l1 & e & m & l2 & key' & EG & HS & HK & ES)].
      + rewrite ES. cbn [bind].
        destruct (IH (done ++ [g]) _ (S k) HP' (Hnew done gst k g Pg HI HN)) as (gst' & EL & HI').
        exists gst'. rewrite <- app_assoc in HI'. split; assumption.
      + rewrite ES. cbn [bind]. subst gst.
        destruct (IH (done ++ [g]) _ (S k) HP' (Hupd done l1 e m l2 g key' Pg HI HS HK)) as (gst' & EL & HI').
        exists gst'. rewrite <- app_assoc in HI'. split; assumption.
  Qed.

  Lemma aggregate_inv (P : Goroutine -> Prop) (Inv : list Goroutine -> list gentry -> Prop) :
    (forall done gst k g, P g -> Inv done gst ->
       (forall i, In i (shuffle k (seq 0 (List.length gst))) -> entry_similar lvl (map fst gst) g i = false) ->
       Inv (done ++ [g]) (gst ++ [(new_entry g, [g])])) ->
    (forall done l1 e m l2 g key', P g -> Inv done (l1 ++ (e, m) :: l2) ->
       sig_similar lvl (ekey e) (GSig g) = true ->
       (key' = ekey e \/ key' = sig_merge (ekey e) (GSig g)) ->
       Inv (done ++ [g]) (l1 ++ (upd_entry e key' g, m ++ [g]) :: l2)) ->
    forall gs, Forall P gs -> Inv [] [] ->
    exists gst, aggregate shuffle lvl gs = Ok (sort_stable bucket_before (map gb gst)) /\ Inv gs gst.
  Proof.
    intros Hnew Hupd gs HP H0.
    destruct (agg_loop_inv P Inv Hnew Hupd gs [] [] 0 HP H0) as (gst & EL & HI).
    exists gst. unfold aggregate. cbn [map] in EL. rewrite EL. cbn [bind].
    rewrite map_map. split; [reflexivity | exact HI].
  Qed.

  (* ---------------- the C04 invariant ---------------- *)
  Definition ent_ok (p : gentry) : Prop :=
    eids (fst p) = map ID (snd p) /\ efirst (fst p) = existsb First (snd p) /\ snd p <> [].
  Definition Inv4 (done : list Goroutine) (gst : list gentry) : Prop :=
    Forall ent_ok gst /\ Permutation (List.concat (map snd gst)) done.

  Lemma Inv4_new done gst g : Inv4 done gst -> Inv4 (done ++ [g]) (gst ++ [(new_entry g, [g])]).
  Proof.
    intros [HF HP]. split.
    - apply Forall_app. split; [exact HF|]. constructor; [|constructor].
      unfold ent_ok. cbn. split; [reflexivity|]. split; [now rewrite orb_false_r | discriminate].
    - rewrite map_app, concat_app. cbn. now apply Permutation_app.
  Qed.

  Lemma Inv4_upd done l1 e m l2 g key' :
    Inv4 done (l1 ++ (e, m) :: l2) -> Inv4 (done ++ [g]) (l1 ++ (upd_entry e key' g, m ++ [g]) :: l2).
  Proof.
    intros [HF HP]. apply Forall_app in HF as [F1 F2]. inversion F2 as [|? ? Fx F2']; subst. split.
    - apply Forall_app. split; [exact F1|]. constructor; [|exact F2'].
      destruct Fx as (X1 & X2 & X3). cbn [fst snd] in *. unfold ent_ok. cbn [fst snd upd_entry eids efirst].
      split; [|split].
      + now rewrite map_app, X1.
      + rewrite existsb_app, X2. cbn. now rewrite orb_false_r.
      + intros E. apply app_eq_nil in E as [_ E]. discriminate.
    - rewrite map_app, concat_app in *. cbn [map snd List.concat] in *.
      transitivity ((List.concat (map snd l1) ++ m ++ List.concat (map snd l2)) ++ [g]);
        [|apply Permutation_app_tail; exact HP].
      rewrite <- !app_assoc. apply Permutation_app_head. apply Permutation_app_head.
      apply Permutation_app_comm.
  Qed.

  (* ---------------- the C05 invariant ---------------- *)
  Definition ckey (p : gentry) := canon_sig lvl (ekey (fst p)).
  Definition ent5 (p : gentry) : Prop :=
    wfl lvl (wf_sig (ekey (fst p))) /\ forall g, In g (snd p) -> canon_sig lvl (GSig g) = ckey p.
  Definition Inv5 (gst : list gentry) : Prop := Forall ent5 gst /\ NoDup (map ckey gst).

  Hypothesis shuffle_perm : forall k l, Permutation (shuffle k l) l.

  Lemma Inv5_new gst k g :
    wf_sig (GSig g) = true -> Inv5 gst ->
    (forall i, In i (shuffle k (seq 0 (List.length gst))) -> entry_similar lvl (map fst gst) g i = false) ->
    Inv5 (gst ++ [(new_entry g, [g])]).
  Proof.
    intros Wg [HF HN] Hnone. split.
    - apply Forall_app. split; [exact HF|]. constructor; [|constructor].
      split; cbn [fst snd new_entry ekey].
      + intros _. exact Wg.
      + intros g' [<- | []]. reflexivity.
    - rewrite map_app. cbn [map]. apply (Permutation_NoDup (Permutation_cons_append _ _)).
      constructor; [|exact HN]. intros Hin. apply in_map_iff in Hin as (p & Ep & Hp).
      apply In_nth_error in Hp as (i & Hi).
      assert (Hlt : i < List.length gst) by (apply nth_error_Some; congruence).
      assert (Hsh : In i (shuffle k (seq 0 (List.length gst)))).
      { apply (Permutation_in _ (Permutation_sym (shuffle_perm k _))). apply in_seq. lia. }
      specialize (Hnone i Hsh). unfold entry_similar in Hnone.
      rewrite (map_nth_error fst _ _ Hi) in Hnone.
      unfold ckey in Ep. cbn [fst new_entry ekey] in Ep.
      apply similar_canon_eq in Ep. congruence.
  Qed.

  Lemma Inv5_upd l1 e m l2 g key' :
    wf_sig (GSig g) = true -> Inv5 (l1 ++ (e, m) :: l2) ->
    sig_similar lvl (ekey e) (GSig g) = true ->
    (key' = ekey e \/ key' = sig_merge (ekey e) (GSig g)) ->
    Inv5 (l1 ++ (upd_entry e key' g, m ++ [g]) :: l2).
  Proof.
    intros Wg [HF HN] HS HK. apply Forall_app in HF as [F1 F2]. inversion F2 as [|? ? Fx F2']; subst.
    destruct Fx as [W M]. cbn [fst snd] in W, M. unfold ckey in M. cbn [fst] in M.
    assert (K : canon_sig lvl key' = canon_sig lvl (ekey e) /\ wfl lvl (wf_sig key')).
    { destruct HK as [-> | ->]; [split; [reflexivity | exact W]|].
      apply sig_merge_class; [exact W | intros _; exact Wg | exact HS]. }
    destruct K as [KC KW].
    assert (CK : ckey (upd_entry e key' g, m ++ [g]) = ckey (e, m)) by exact KC.
    split.
    - apply Forall_app. split; [exact F1|]. constructor; [|exact F2'].
      split; [exact KW|]. rewrite CK. cbn [fst snd]. unfold ckey. cbn [fst].
      intros g' Hg'. apply in_app_or in Hg' as [Hg' | [<- | []]]; [now apply M|].
      symmetry. now apply similar_canon_eq.
    - rewrite map_app in *. cbn [map] in *. now rewrite CK.
  Qed.
End Loop.

(* ------------------------------------------------------------------ *)
(* facts on the final ghost state                                      *)
(* ------------------------------------------------------------------ *)
Definition bs_of (gst : list gentry) : list Bucket := sort_stable bucket_before (map gb gst).

Lemma aggregate_ghost4 shuffle lvl gs :
  exists gst, aggregate shuffle lvl gs = Ok (bs_of gst) /\ Inv4 gs gst.
Proof.
  apply (aggregate_inv shuffle lvl (fun _ => True) Inv4).
  - intros done gst k g _ HI _. now apply Inv4_new.
  - intros done l1 e m l2 g key' _ HI _ _. now apply Inv4_upd.
  - apply Forall_forall. intros; exact I.
  - split; [constructor | apply Permutation_refl].
Qed.

Lemma aggregate_ghost5 shuffle lvl gs :
  (forall k l, Permutation (shuffle k l) l) -> wf_goroutines gs = true ->
  exists gst, aggregate shuffle lvl gs = Ok (bs_of gst) /\ Inv4 gs gst /\ Inv5 lvl gst.
Proof.
  intros Hsh Hwf.
  apply (aggregate_inv shuffle lvl (fun g => wf_sig (GSig g) = true) (fun d s => Inv4 d s /\ Inv5 lvl s)).
  - intros done gst k g Wg [H4 H5] HN. split; [now apply Inv4_new | now apply (Inv5_new shuffle lvl Hsh gst k g)].
  - intros done l1 e m l2 g key' Wg [H4 H5] HS HK. split; [now apply Inv4_upd | now apply Inv5_upd].
  - apply Forall_forall. unfold wf_goroutines in Hwf. rewrite forallb_forall in Hwf. exact Hwf.
  - split; [split; [constructor | apply Permutation_refl] | split; constructor].
Qed.

Lemma in_bs_of gst b : In b (bs_of gst) <-> exists p, In p gst /\ b = gb p.
Proof.
  unfold bs_of. split.
  - intros H. apply (Permutation_in _ (sort_stable_perm _ _)) in H.
    apply in_map_iff in H as (p & E & Hp). eauto.
  - intros (p & Hp & ->). apply (Permutation_in _ (Permutation_sym (sort_stable_perm _ _))).
    now apply in_map.
Qed.

Lemma gb_ids p : ent_ok p -> Permutation (IDs (gb p)) (map ID (snd p)).
Proof.
  intros (E & _ & _). unfold gb, bucket_of_entry. cbn [IDs]. rewrite E. apply sort_ints_perm.
Qed.

Lemma flat_ids gst :
  Forall ent_ok gst -> Permutation (flat_map IDs (map gb gst)) (map ID (List.concat (map snd gst))).
Proof.
  intros HF. induction HF as [|p l Hp HF IH]; cbn; [constructor|].
  rewrite map_app. apply Permutation_app; [now apply gb_ids | exact IH].
Qed.

Lemma existsb_count {A} (f : A -> bool) (m : list A) :
  existsb f m = negb (Nat.eqb (List.length (filter f m)) 0).
Proof. induction m as [|x m IH]; cbn; [reflexivity|]. destruct (f x); cbn; [reflexivity | exact IH]. Qed.

Lemma count_zero {A} (f : A -> bool) (ms : list (list A)) :
  List.length (filter f (List.concat ms)) = 0 -> List.length (filter (existsb f) ms) = 0.
Proof.
  induction ms as [|m ms IH]; cbn; [reflexivity|].
  rewrite filter_app, app_length, existsb_count. intros H.
  assert (H1 : List.length (filter f m) = 0) by lia.
  assert (H2 : List.length (filter f (List.concat ms)) = 0) by lia.
  rewrite H1. cbn. now apply IH.
Qed.

Lemma count_one {A} (f : A -> bool) (ms : list (list A)) :
  List.length (filter f (List.concat ms)) = 1 -> List.length (filter (existsb f) ms) = 1.
Proof.
  induction ms as [|m ms IH]; cbn; [discriminate|].
  rewrite filter_app, app_length, existsb_count. intros H.
  destruct (List.length (filter f m)) as [|n] eqn:E; cbn.
  - apply IH. lia.
  - rewrite count_zero; [reflexivity | lia].
Qed.

Lemma bfirst_count gst :
  Forall ent_ok gst ->
  List.length (filter BFirst (map gb gst)) = List.length (filter (existsb First) (map snd gst)).
Proof.
  intros HF. induction HF as [|p l Hp HF IH]; cbn; [reflexivity|].
  destruct Hp as (_ & E & _). rewrite E.
  destruct (existsb First (snd p)); cbn; now rewrite IH.
Qed.

Section Final.
  Variables (gs : list Goroutine) (gst : list gentry).
  Hypothesis H4 : Inv4 gs gst.

  Lemma member_in_gs p g : In p gst -> In g (snd p) -> In g gs.
  Proof.
    intros Hp Hg. destruct H4 as [_ HP]. apply (Permutation_in _ HP).
    apply in_concat. exists (snd p). split; [now apply in_map | exact Hg].
  Qed.

  Lemma gs_has_member g : In g gs -> exists p, In p gst /\ In g (snd p).
  Proof.
    intros Hg. destruct H4 as [_ HP]. apply (Permutation_in _ (Permutation_sym HP)) in Hg.
    apply in_concat in Hg as (m & Hm & Hg). apply in_map_iff in Hm as (p & <- & Hp). eauto.
  Qed.

  Lemma ent_ok_in p : In p gst -> ent_ok p.
  Proof. destruct H4 as [HF _]. rewrite Forall_forall in HF. apply HF. Qed.

  Lemma bs_nonempty_sorted b : In b (bs_of gst) -> IDs b <> [] /\ sortedZ (IDs b) = true.
  Proof.
    intros Hb. apply in_bs_of in Hb as (p & Hp & ->). pose proof (ent_ok_in p Hp) as Hok. split.
    - intros E. pose proof (gb_ids p Hok) as HP. rewrite E in HP. apply Permutation_nil in HP.
      apply map_eq_nil in HP. now destruct Hok as (_ & _ & NE).
    - unfold gb, bucket_of_entry. cbn [IDs]. apply sort_ints_sorted.
  Qed.

  Lemma bs_ids_perm : Permutation (flat_map IDs (bs_of gst)) (map ID gs).
  Proof.
    destruct H4 as [HF HP].
    transitivity (flat_map IDs (map gb gst)).
    - apply Permutation_flat_map. apply sort_stable_perm.
    - transitivity (map ID (List.concat (map snd gst))); [now apply flat_ids | now apply Permutation_map].
  Qed.

  Lemma bs_counts : count_first gs = 1 -> count_bfirst (bs_of gst) = 1.
  Proof.
    unfold count_first, count_bfirst, bs_of. intros H1.
    rewrite (Permutation_length (Permutation_filter BFirst _ _ (sort_stable_perm bucket_before (map gb gst)))).
    destruct H4 as [HF HP]. rewrite (bfirst_count gst HF). apply count_one.
    now rewrite (Permutation_length (Permutation_filter First _ _ HP)).
  Qed.

  Hypothesis HND : NoDup (map ID gs).

  Lemma id_in_member p g : In p gst -> In g gs -> In (ID g) (IDs (gb p)) -> In g (snd p).
  Proof.
    intros Hp Hg Hid. apply (Permutation_in _ (gb_ids p (ent_ok_in p Hp))) in Hid.
    apply in_map_iff in Hid as (g' & E & Hg').
    assert (g' = g) as <-; [|exact Hg'].
    apply (NoDup_map_inj_in ID gs); auto. now apply (member_in_gs p).
  Qed.

  Lemma members_iff p g : In p gst -> (In g (members gs (gb p)) <-> In g (snd p)).
  Proof.
    intros Hp. unfold members. rewrite filter_In, memZ_In. split.
    - intros [Hg Hid]. now apply id_in_member.
    - intros Hg. split; [now apply (member_in_gs p)|].
      apply (Permutation_in _ (Permutation_sym (gb_ids p (ent_ok_in p Hp)))). now apply in_map.
  Qed.

  Lemma bs_first b : In b (bs_of gst) -> BFirst b = existsb First (members gs b).
  Proof.
    intros Hb. apply in_bs_of in Hb as (p & Hp & ->).
    destruct (ent_ok_in p Hp) as (_ & E & _). unfold gb at 1. unfold bucket_of_entry. cbn [BFirst]. rewrite E.
    apply eq_iff_eq_true. rewrite !existsb_exists.
    split; intros (g & Hg & HF); exists g; (split; [|exact HF]); now apply (members_iff p g Hp).
  Qed.
End Final.

(* ------------------------------------------------------------------ *)
(* C04                                                                 *)
(* ------------------------------------------------------------------ *)
Theorem partition_explicit :
  forall shuffle lvl gs bs, aggregate shuffle lvl gs = Ok bs ->
  (forall b, In b bs -> IDs b <> [] /\ sortedZ (IDs b) = true) /\
  Permutation (flat_map IDs bs) (map ID gs) /\
  (NoDup (map ID gs) ->
     NoDup (flat_map IDs bs) /\
     (forall b, In b bs -> BFirst b = existsb First (members gs b)) /\
     (count_first gs = 1 -> count_bfirst bs = 1)).
Proof.
  intros shuffle lvl gs bs HA.
  destruct (aggregate_ghost4 shuffle lvl gs) as (gst & EA & H4).
  rewrite EA in HA. injection HA as <-.
  split; [|split].
  - apply (bs_nonempty_sorted gs gst H4).
  - apply (bs_ids_perm gs gst H4).
  - intros HND. split; [|split].
    + apply (Permutation_NoDup (Permutation_sym (bs_ids_perm gs gst H4))). exact HND.
    + apply (bs_first gs gst H4 HND).
    + apply (bs_counts gs gst H4).
Qed.

Lemma c04_ok_of_explicit gs bs :
  (forall b, In b bs -> IDs b <> [] /\ sortedZ (IDs b) = true) ->
  Permutation (flat_map IDs bs) (map ID gs) ->
  (NoDup (map ID gs) -> forall b, In b bs -> BFirst b = existsb First (members gs b)) ->
  c04_ok gs bs = true.
Proof.
  intros HA HB HC. unfold c04_ok.
  rewrite (sortZ_perm _ _ HB), list_eqb_Z_refl, andb_true_r.
  apply andb_true_iff. split.
  - apply forallb_forall. intros b Hb. destruct (HA b Hb) as [NE SO]. rewrite SO, andb_true_r.
    destruct (IDs b); [contradiction | reflexivity].
  - destruct (nodupZ (map ID gs)) eqn:E; [|reflexivity]. apply nodupZ_NoDup in E.
    apply forallb_forall. intros b Hb. rewrite (HC E b Hb). apply eqb_reflx.
Qed.

Theorem partition_ok :
  forall shuffle lvl gs, exists bs, aggregate shuffle lvl gs = Ok bs /\ c04_ok gs bs = true.
Proof.
  intros shuffle lvl gs.
  destruct (aggregate_ghost4 shuffle lvl gs) as (gst & EA & H4).
  exists (bs_of gst). split; [exact EA|].
  destruct (partition_explicit shuffle lvl gs _ EA) as (HA & HB & HC).
  apply c04_ok_of_explicit; [exact HA | exact HB | intros HND; apply (HC HND)].
Qed.

Theorem counts_add_up :
  forall shuffle lvl gs bs, aggregate shuffle lvl gs = Ok bs ->
  fold_right Nat.add 0 (map (fun b => List.length (IDs b)) bs) = List.length gs.
Proof.
  intros shuffle lvl gs bs HA.
  destruct (partition_explicit shuffle lvl gs bs HA) as (_ & HB & _).
  rewrite <- length_flat_map, (Permutation_length HB). apply map_length.
Qed.

(* ------------------------------------------------------------------ *)
(* bucket_index                                                        *)
(* ------------------------------------------------------------------ *)
Fixpoint bidx (l : list Bucket) (id : Z) (i : nat) : option nat :=
  match l with
  | [] => None
  | b :: l' => if memZ id (IDs b) then Some i else bidx l' id (S i)
  end.

Lemma bucket_index_bidx bs id : bucket_index bs id = bidx bs id 0.
Proof.
  unfold bucket_index. generalize 0. induction bs as [|b bs IH]; intros i; cbn; [reflexivity|].
  destruct (memZ id (IDs b)); [reflexivity | apply IH].
Qed.

Lemma bidx_found l id : forall i, In id (flat_map IDs l) ->
  exists n b, bidx l id i = Some (i + n) /\ nth_error l n = Some b /\ In id (IDs b).
Proof.
  induction l as [|a l IH]; intros i Hin; cbn in Hin; [contradiction|].
  cbn [bidx]. destruct (memZ id (IDs a)) eqn:E.
  - exists 0, a. rewrite Nat.add_0_r. apply memZ_In in E. auto.
  - apply in_app_or in Hin as [Hin | Hin]; [apply memZ_In in Hin; congruence|].
    destruct (IH (S i) Hin) as (n & b & E1 & E2 & E3).
    exists (S n), b. rewrite E1. split; [f_equal; lia | auto].
Qed.

Lemma NoDup_app_inv {A} (l1 l2 : list A) :
  NoDup (l1 ++ l2) -> NoDup l2 /\ forall x, In x l1 -> In x l2 -> False.
Proof.
  induction l1 as [|a l1 IH]; cbn; intros HN; [split; [exact HN | contradiction]|].
  inversion HN as [|? ? Hni HN']; subst. destruct (IH HN') as [N2 D]. split; [exact N2|].
  intros x [<- | Hx] Hx2; [apply Hni, in_or_app; now right | eauto].
Qed.

Lemma bidx_unique l id : NoDup (flat_map IDs l) ->
  forall n n' b b', nth_error l n = Some b -> nth_error l n' = Some b' ->
  In id (IDs b) -> In id (IDs b') -> n = n'.
Proof.
  induction l as [|a l IH]; intros HN n n' b b' E1 E2 I1 I2.
  - destruct n; discriminate.
  - cbn in HN. destruct (NoDup_app_inv _ _ HN) as [HN2 HD].
    assert (HX : forall k c, nth_error l k = Some c -> In id (IDs c) -> In id (flat_map IDs l)).
    { intros k c Ek Ic. apply in_flat_map. exists c. split; [now apply nth_error_In in Ek | exact Ic]. }
    destruct n as [|n], n' as [|n']; cbn in E1, E2.
    + reflexivity.
    + injection E1 as <-. exfalso. apply (HD id I1). now apply (HX n' b').
    + injection E2 as <-. exfalso. apply (HD id I2). now apply (HX n b).
    + f_equal. now apply (IH HN2 n n' b b').
Qed.

(* ------------------------------------------------------------------ *)
(* C05                                                                 *)
(* ------------------------------------------------------------------ *)
Lemma same_bucket shuffle lvl gs bs :
  (forall k l, Permutation (shuffle k l) l) -> wf_goroutines gs = true -> NoDup (map ID gs) ->
  aggregate shuffle lvl gs = Ok bs ->
  forall g1 g2, In g1 gs -> In g2 gs ->
  (opt_nat_eqb (bucket_index bs (ID g1)) (bucket_index bs (ID g2)) = true <->
   canon_sig lvl (GSig g1) = canon_sig lvl (GSig g2)).
Proof.
  intros Hsh Hwf HND HA g1 g2 Hg1 Hg2.
  destruct (aggregate_ghost5 shuffle lvl gs Hsh Hwf) as (gst & EA & H4 & [H5F H5N]).
  rewrite EA in HA. injection HA as <-.
  pose proof (bs_ids_perm gs gst H4) as HP.
  assert (HNB : NoDup (flat_map IDs (bs_of gst))) by (apply (Permutation_NoDup (Permutation_sym HP)); exact HND).
  assert (HC : forall g, In g gs -> In (ID g) (flat_map IDs (bs_of gst))).
  { intros g Hg. apply (Permutation_in _ (Permutation_sym HP)). now apply in_map. }
  rewrite !bucket_index_bidx.
  destruct (bidx_found _ _ 0 (HC g1 Hg1)) as (n1 & b1 & E1 & N1 & I1).
  destruct (bidx_found _ _ 0 (HC g2 Hg2)) as (n2 & b2 & E2 & N2 & I2).
  rewrite E1, E2. cbn [opt_nat_eqb Nat.add]. rewrite Nat.eqb_eq.
  rewrite Forall_forall in H5F.
  split.
  - intros ->. rewrite N1 in N2. injection N2 as <-.
    apply nth_error_In in N1. apply in_bs_of in N1 as (p & Hp & ->).
    destruct (H5F p Hp) as [_ M].
    rewrite (M g1 (id_in_member gs gst H4 HND p g1 Hp Hg1 I1)).
    now rewrite (M g2 (id_in_member gs gst H4 HND p g2 Hp Hg2 I2)).
  - intros EC.
    destruct (gs_has_member gs gst H4 g1 Hg1) as (p1 & Hp1 & M1).
    destruct (gs_has_member gs gst H4 g2 Hg2) as (p2 & Hp2 & M2).
    assert (p1 = p2) as <-.
    { apply (NoDup_map_inj_in (ckey lvl) gst); auto.
      destruct (H5F p1 Hp1) as [_ X1]. destruct (H5F p2 Hp2) as [_ X2].
      rewrite <- (X1 g1 M1), <- (X2 g2 M2). exact EC. }
    assert (Hb : In (gb p1) (bs_of gst)) by (apply in_bs_of; eauto).
    apply In_nth_error in Hb as (n & Hn).
    assert (J1 : In (ID g1) (IDs (gb p1))).
    { apply (Permutation_in _ (Permutation_sym (gb_ids p1 (ent_ok_in gs gst H4 p1 Hp1)))). now apply in_map. }
    assert (J2 : In (ID g2) (IDs (gb p1))).
    { apply (Permutation_in _ (Permutation_sym (gb_ids p1 (ent_ok_in gs gst H4 p1 Hp1)))). now apply in_map. }
    rewrite (bidx_unique _ (ID g1) HNB n1 n b1 (gb p1) N1 Hn I1 J1).
    rewrite (bidx_unique _ (ID g2) HNB n2 n b2 (gb p1) N2 Hn I2 J2). reflexivity.
Qed.

Theorem buckets_are_classes :
  forall shuffle lvl gs bs,
  (forall k l, Permutation (shuffle k l) l) ->
  wf_goroutines gs = true ->
  aggregate shuffle lvl gs = Ok bs -> c05_ok lvl gs bs = true.
Proof.
  intros shuffle lvl gs bs Hsh Hwf HA. unfold c05_ok.
  destruct (nodupZ (map ID gs)) eqn:E; cbn [negb]; [|reflexivity].
  apply nodupZ_NoDup in E.
  apply forallb_forall. intros g1 Hg1. apply forallb_forall. intros g2 Hg2.
  apply eqb_true_iff. apply eq_iff_eq_true. rewrite canon_sig_eqb_iff.
  now apply (same_bucket shuffle lvl gs bs).
Qed.

Theorem order_independent :
  forall sh1 sh2 lvl gs gs' bs bs',
  (forall k l, Permutation (sh1 k l) l) -> (forall k l, Permutation (sh2 k l) l) ->
  wf_goroutines gs = true -> NoDup (map ID gs) -> Permutation gs gs' ->
  aggregate sh1 lvl gs = Ok bs -> aggregate sh2 lvl gs' = Ok bs' ->
  forall g1 g2, In g1 gs -> In g2 gs ->
    opt_nat_eqb (bucket_index bs (ID g1)) (bucket_index bs (ID g2)) =
    opt_nat_eqb (bucket_index bs' (ID g1)) (bucket_index bs' (ID g2)).
Proof.
  intros sh1 sh2 lvl gs gs' bs bs' H1 H2 Hwf HND HP HA HA' g1 g2 Hg1 Hg2.
  assert (Hwf' : wf_goroutines gs' = true).
  { unfold wf_goroutines in *. rewrite forallb_forall in *. intros g Hg. apply Hwf.
    now apply (Permutation_in _ (Permutation_sym HP)). }
  assert (HND' : NoDup (map ID gs')) by (apply (Permutation_NoDup (Permutation_map ID HP)); exact HND).
  apply eq_iff_eq_true.
  rewrite (same_bucket sh1 lvl gs bs H1 Hwf HND HA g1 g2 Hg1 Hg2).
  rewrite (same_bucket sh2 lvl gs' bs' H2 Hwf' HND' HA' g1 g2
             (Permutation_in _ HP Hg1) (Permutation_in _ HP Hg2)).
  reflexivity.
Qed.

(* ------------------------------------------------------------------ *)
(* concrete witnesses                                                  *)
(* ------------------------------------------------------------------ *)
Definition ex_func (name : bytes) : Func := mkFunc name (s2b "main") (s2b "main") name false true.
Definition ex_call (name : bytes) (line : Z) (args : list Arg) : Call :=
  mkCall (ex_func name) (mkArgs args [] false) (s2b "/src/main.go") line (s2b "main.go") (s2b "src/main.go")
         [] [] (s2b "main") LocationUnknown.
Definition ex_gor (id : Z) (first : bool) (name : bytes) (args : list Arg) : Goroutine :=
  mkGoroutine (mkSig (s2b "running") emptyStack 0 0 (mkStack [ex_call name 10 args] false) false)
              id first false 0.
Definition ex_ptr (v : N) : Arg := MkArg false [] v true false false [] [] false.

Definition ex_gs : list Goroutine :=
  [ ex_gor 1 true (s2b "main.f") [ex_ptr 824633786368];
    ex_gor 2 false (s2b "main.g") [ex_ptr 824633786368];
    ex_gor 3 false (s2b "main.f") [ex_ptr 824633790464] ].

Definition ok_or_nil {A} (r : GoResult (list A)) : list A := match r with Ok l => l | Panic _ => [] end.

Theorem example_partition : exists gs bs, List.length gs = 3 /\ NoDup (map ID gs) /\
  aggregate id_shuffle AnyPointer gs = Ok bs /\ List.length bs = 2 /\ c04_ok gs bs = true.
Proof.
  exists ex_gs, (ok_or_nil (aggregate id_shuffle AnyPointer ex_gs)).
  split; [reflexivity|]. split; [apply nodupZ_NoDup; vm_compute; reflexivity|].
  split; [vm_compute; reflexivity|]. split; vm_compute; reflexivity.
Qed.

Theorem example_classes : exists gs bs, wf_goroutines gs = true /\ List.length gs = 3 /\
  aggregate id_shuffle AnyPointer gs = Ok bs /\ List.length bs = 2 /\ c05_ok AnyPointer gs bs = true.
Proof.
  exists ex_gs, (ok_or_nil (aggregate id_shuffle AnyPointer ex_gs)).
  split; [vm_compute; reflexivity|]. split; [reflexivity|].
  split; [vm_compute; reflexivity|]. split; vm_compute; reflexivity.
Qed.

(* hand-set names on too-large non-pointers: not producible by the parser *)
Definition ex_big (name : bytes) : Arg := MkArg false name 1 false true false [] [] false.
Definition bad_gs : list Goroutine :=
  [ ex_gor 1 true (s2b "main.f") [ex_big (s2b "a")];
    ex_gor 2 false (s2b "main.f") [ex_big (s2b "b")];
    ex_gor 3 false (s2b "main.f") [ex_big (s2b "a")] ].

Theorem unnamed_refuted : exists gs bs,
  wf_goroutines gs = false /\ aggregate id_shuffle AnyPointer gs = Ok bs /\ c05_ok AnyPointer gs bs = false.
Proof.
  exists bad_gs, (ok_or_nil (aggregate id_shuffle AnyPointer bad_gs)).
  split; [vm_compute; reflexivity|]. split; vm_compute; reflexivity.
Qed.
