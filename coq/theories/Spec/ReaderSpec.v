(* Spec/ReaderSpec.v — vocabulary of C09 (reader delivery independence).
   Definitions only. *)
From PP Require Import Base.Bytes Base.GoResult Model.Types Model.Reader Model.Scan Model.ScanSnapshot.

(* bytes not yet returned to the caller *)
Definition stream (r : reader) (src : source) : bytes := pending r ++ rest src.

(* b up to and including its first LF; all of b if it has none *)
Fixpoint first_line (b : bytes) : bytes :=
  match b with
  | [] => []
  | x :: b' => if N.eqb x LF then [x] else x :: first_line b'
  end.

Definition has_lf (b : bytes) : bool :=
  match index_byte b LF with Some _ => true | None => false end.

(* the error that accompanies the first line of a stream whose terminal error is f *)
Definition line_err (s : bytes) (f : io_err) : option io_err :=
  if has_lf s then None else Some f.

(* what remains after removing the first n lines *)
Fixpoint drop_lines (n : nat) (b : bytes) : bytes :=
  match n with
  | O => b
  | S n' => drop_lines n' (skipn (List.length (first_line b)) b)
  end.

(* reader invariant, any schedule: the sticky error is either the
   no-progress error or the terminal error of an exhausted source *)
Definition rinv (r : reader) (src : source) : Prop :=
  List.length (pending r) <= buf_cap /\
  (forall e, rerr r = Some e -> e = NoProgress \/ (rest src = [] /\ e = final src)).

(* reader invariant, stall-free schedules: no spurious no-progress error *)
Definition rinv_s (r : reader) (src : source) : Prop :=
  List.length (pending r) <= buf_cap /\
  (forall e, rerr r = Some e -> rest src = [] /\ e = final src).

(* schedules *)
Definition positive (sc : list (nat * bool)) : Prop := Forall (fun s => 0 < fst s) sc.

Fixpoint leading_zeros (sc : list (nat * bool)) : nat :=
  match sc with
  | (O, _) :: sc' => S (leading_zeros sc')
  | _ => O
  end.

(* no 100 consecutive zero-length reads anywhere in the schedule *)
Fixpoint stall_free (sc : list (nat * bool)) : Prop :=
  match sc with
  | [] => True
  | s :: sc' => leading_zeros (s :: sc') < 100 /\ stall_free sc'
  end.

(* the (n+1)-th call of read_line *)
Fixpoint nth_read_line (n : nat) (r : reader) (src : source)
  : GoResult (bytes * option io_err * reader * source * list event) :=
  match n with
  | O => read_line r src
  | S n' =>
      match read_line r src with
      | Panic m => Panic m
      | Ok (_, _, r', src', _) => nth_read_line n' r' src'
      end
  end.

(* the schedule-independent part of the outcome of ScanSnapshot *)
Definition scan_proj (x : GoResult scan_result) :=
  match x with
  | Panic _ => None
  | Ok res => Some (snap res, fwd res, rerr_out res, suffix res ++ rest (unread res),
                    final_state res, lines_read res)
  end.
