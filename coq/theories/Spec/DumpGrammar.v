(* Spec/DumpGrammar.v — the LANGUAGE of goroutine dumps and race-detector
   reports, given declaratively over sequences of line kinds.  Definitions only.

   Spec/RefGrammar.v describes the scanner's control as an automaton with the
   scanner's 19 states.  Here nothing is indexed by a scanner state: the
   language is a set of lists of [kinds] (Spec.RefGrammar.kinds, the answers of
   the state-independent line tests), defined by inductive rules that read like
   the productions below.  Proofs/DumpGrammarProofs.v shows that the automaton
   [ref_step] - hence [scan] - consumes exactly the prefixes of this language
   (Properties/C07d.v).

     dump       ::= goroutine ( blank goroutine )* [ blank ]
     goroutine  ::= header ( unavailable | stack ) [ created-by file ]
     stack      ::= func file ( elided-marker | func file )*

     report     ::= separator warning section(operation) ops-tail
     ops-tail   ::= blank section(previous-operation) ops-tail
                  | blank section(goroutine N created at) gor-tail
     gor-tail   ::= separator
                  | blank section(goroutine N created at) gor-tail
     section(h) ::= h func file ( func file )*

   The source of the productions is the "Regexp: / Signature: / from: / to:"
   comments on the state constants of stack/context.go:330-445 and the order of
   the tests in scanningState.scan.

   PRIORITIES.  The line tests overlap ("created by main.f()" is also a function
   line; on abstract kinds anything may overlap), and the code tries them in a
   fixed order.  A line class below therefore says not only which test
   succeeds but also which earlier tests must have failed:
     - directly after a header:      unavailable-marker, then func
     - after the file line of a frame: created-by, then elided-marker, then
                                      func, then blank; anything else ends the dump
     - after the unavailable marker: blank, then created-by
     - after a file line in a race operation section: blank, then func
     - after a file line in a race goroutine section: blank, then separator, then func
     - after the blank that ends an operation section: "Previous ...", then "Goroutine N ..."
     - where a dump may start:       goroutine header, then race separator
   A created-by or func line whose symbol / arguments are invalid (CBadSymbol,
   FErr) is never a line of the language; where it stands in for a valid one it
   is an error (see [malformed_stack_line]).
   For the kinds of real lines most overlaps are empty: a blank line is nothing
   else (GrammarProofs.line_kinds_blank). *)
From PP Require Import Base.Bytes Base.BytesX Base.Num Base.GoResult Model.Types Model.Lines Model.FuncInit Model.ParseArgs.
From PP Require Import Model.Scan.          (* [state]: only for running the automaton, section 4 *)
From PP Require Import Spec.RefGrammar.

(* every line of a dump starts with the indentation of its first header *)
Definition indented (k : kinds) : Prop := k_indent_ok k = true.

(* ------------------------------------------------------------------ *)
(* 1. goroutine dumps                                                  *)
(* ------------------------------------------------------------------ *)

(* "goroutine N [...]:" *)
Definition is_header (k : kinds) : Prop := k_header k = true.
(* "goroutine running on other thread; stack unavailable" *)
Definition is_unavail (k : kinds) : Prop := k_unavail k = true.
(* the function line directly after the header *)
Definition is_first_func (k : kinds) : Prop := k_unavail k = false /\ k_func k = FOk.
(* "<TAB>path.go:N ..." *)
Definition is_file (k : kinds) : Prop := k_file k = FileOk.
(* after the file line of a frame: "created by sym" *)
Definition is_created (k : kinds) : Prop := k_created k = COk.
(* ... "...additional frames elided..." *)
Definition is_elided (k : kinds) : Prop := k_created k = CNo /\ k_elided k = true.
(* ... the function line of the next frame *)
Definition is_next_func (k : kinds) : Prop :=
  k_created k = CNo /\ k_elided k = false /\ k_func k = FOk.
(* ... the blank line that ends the goroutine *)
Definition is_blank_after_stack (k : kinds) : Prop :=
  k_created k = CNo /\ k_elided k = false /\ k_func k = FNo /\ k_blank k = true.
(* a blank line, where blank is the first test *)
Definition is_blank (k : kinds) : Prop := k_blank k = true.
(* "created by sym" after the unavailable marker *)
Definition is_created_after_unavail (k : kinds) : Prop := k_blank k = false /\ k_created k = COk.

(* ( elided-marker | func file )*  - the marker may follow the file line of ANY
   frame, any number of times, and frames may follow it *)
Inductive stack_rest : list kinds -> Prop :=
| sr_nil : stack_rest []
| sr_elided e rest : is_elided e -> stack_rest rest -> stack_rest (e :: rest)
| sr_frame f l rest : is_next_func f -> is_file l -> stack_rest rest -> stack_rest (f :: l :: rest).

(* how a goroutine ends: with (the file line or elided marker of) its stack,
   with the file line of its creator, with the unavailable marker *)
Inductive gend := EndStack | EndCreated | EndUnavail.

Inductive goroutine : gend -> list kinds -> Prop :=
| g_stack h f l rest :
    is_header h -> is_first_func f -> is_file l -> stack_rest rest ->
    goroutine EndStack (h :: f :: l :: rest)
| g_stack_created h f l rest c cl :
    is_header h -> is_first_func f -> is_file l -> stack_rest rest ->
    is_created c -> is_file cl ->
    goroutine EndCreated (h :: f :: l :: rest ++ [c; cl])
| g_unavail h u :
    is_header h -> is_unavail u ->
    goroutine EndUnavail [h; u]
| g_unavail_created h u c cl :
    is_header h -> is_unavail u -> is_created_after_unavail c -> is_file cl ->
    goroutine EndCreated [h; u; c; cl].

(* the blank line after a goroutine: after a stack it is a separator only if
   it cannot be read as a continuation of the stack *)
Definition is_separator_after (e : gend) (k : kinds) : Prop :=
  match e with
  | EndStack => is_blank_after_stack k
  | EndCreated | EndUnavail => is_blank k
  end.

(* where a sequence of goroutines stops: after a goroutine (ending as said) or
   after the blank line that follows one *)
Inductive dend := AfterGoroutine (e : gend) | AfterBlank.

(* goroutine ( blank goroutine )* [ blank ] *)
Inductive dump : dend -> list kinds -> Prop :=
| d_last e g : goroutine e g -> dump (AfterGoroutine e) g
| d_last_blank e g b : goroutine e g -> is_separator_after e b -> dump AfterBlank (g ++ [b])
| d_more e g b x d : goroutine e g -> is_separator_after e b -> dump x d -> dump x (g ++ b :: d).

(* [ks] stops exactly at a goroutine boundary *)
Definition at_boundary (ks : list kinds) : Prop := exists x, dump x ks.

(* [ks] is a dump that can end quietly here: the next line may end it without
   error.  After "header unavailable" this is NOT so: a blank line (or a
   created-by line) must follow, anything else is an error. *)
Definition dump_complete (ks : list kinds) : Prop :=
  exists x, x <> AfterGoroutine EndUnavail /\ dump x ks.

(* a dump, every line properly indented *)
Definition is_dump (ks : list kinds) : Prop := Forall indented ks /\ at_boundary ks.

(* the beginning of a dump: [ks] can be continued into a dump *)
Definition is_dump_prefix (ks : list kinds) : Prop := exists rest, is_dump (ks ++ rest).

(* the two ill-formed lines that are errors where a well-formed stack
   continuation could stand: "created by" with an invalid symbol, a function
   line with an invalid symbol or arguments *)
Definition malformed_stack_line (k : kinds) : Prop :=
  k_created k = CBadSymbol \/ (k_created k = CNo /\ k_elided k = false /\ k_func k = FErr).

(* after [ks], line [k] may end the dump quietly (if it is not a line of the
   dump): [ks] stops after a blank line, after the file line of a creator, or
   after a stack - and then [k] must not be a malformed stack line.  (It may
   not after "header unavailable", nor inside a goroutine.) *)
Definition may_end_before (ks : list kinds) (k : kinds) : Prop :=
  dump AfterBlank ks \/ dump (AfterGoroutine EndCreated) ks \/
  (dump (AfterGoroutine EndStack) ks /\ ~ malformed_stack_line k).

(* ------------------------------------------------------------------ *)
(* 2. race detector reports                                            *)
(* ------------------------------------------------------------------ *)

(* the opening "==================" - a goroutine header is tried first *)
Definition is_race_open (k : kinds) : Prop := k_header k = false /\ k_separator k = true.
(* "WARNING: DATA RACE" *)
Definition is_warning (k : kinds) : Prop := k_warning k = true.
(* "Read at 0x.. by goroutine N:" / "Write at ..." *)
Definition is_op (k : kinds) : Prop := k_op k = OpOk.
(* "Previous read at ..." / "Previous write at ..." *)
Definition is_prev (k : kinds) : Prop := k_prev k = OpOk.
(* "Goroutine N (running|finished) created at:", N the id of an operation of
   this report - after the operations ("Previous ..." is tried first) *)
Definition is_racegor_first (k : kinds) : Prop := k_prev k = OpNo /\ k_racegor k = RgKnown.
(* ... after another goroutine section *)
Definition is_racegor_next (k : kinds) : Prop := k_racegor k = RgKnown.
(* the function line directly after a section header (leading blanks allowed) *)
Definition is_rfunc_first (k : kinds) : Prop := k_func_lt k = FOk.
(* the function line of a further frame, in an operation section *)
Definition is_rfunc_op (k : kinds) : Prop := k_blank k = false /\ k_func_lt k = FOk.
(* ... in a goroutine section *)
Definition is_rfunc_gor (k : kinds) : Prop :=
  k_blank k = false /\ k_separator k = false /\ k_func_lt k = FOk.
(* the closing "==================" *)
Definition is_race_close (k : kinds) : Prop := k_blank k = false /\ k_separator k = true.

(* ( func file )* *)
Inductive rframes (nf : kinds -> Prop) : list kinds -> Prop :=
| rf_nil : rframes nf []
| rf_cons f l rest : nf f -> is_file l -> rframes nf rest -> rframes nf (f :: l :: rest).

(* header func file ( func file )* *)
Inductive section (hd nf : kinds -> Prop) : list kinds -> Prop :=
| sec h f l rest : hd h -> is_rfunc_first f -> is_file l -> rframes nf rest ->
    section hd nf (h :: f :: l :: rest).

Inductive gor_tail : list kinds -> Prop :=
| gt_close c : is_race_close c -> gor_tail [c]
| gt_more b s t : is_blank b -> section is_racegor_next is_rfunc_gor s -> gor_tail t ->
    gor_tail (b :: s ++ t).

Inductive ops_tail : list kinds -> Prop :=
| ot_prev b s t : is_blank b -> section is_prev is_rfunc_op s -> ops_tail t ->
    ops_tail (b :: s ++ t)
| ot_gor b s t : is_blank b -> section is_racegor_first is_rfunc_gor s -> gor_tail t ->
    ops_tail (b :: s ++ t).

Inductive race_report : list kinds -> Prop :=
| rr o w s t : is_race_open o -> is_warning w -> section is_op is_rfunc_op s -> ops_tail t ->
    race_report (o :: w :: s ++ t).

Definition is_race_report (ks : list kinds) : Prop := Forall indented ks /\ race_report ks.
Definition is_race_prefix (ks : list kinds) : Prop := exists rest, is_race_report (ks ++ rest).

(* ------------------------------------------------------------------ *)
(* 3. the language                                                     *)
(* ------------------------------------------------------------------ *)

(* the sequences of lines that are wholly part of a dump or of a report *)
Definition in_language (ks : list kinds) : Prop := is_dump_prefix ks \/ is_race_prefix ks.

(* ------------------------------------------------------------------ *)
(* 4. running the reference automaton (vocabulary of the theorems)     *)
(* ------------------------------------------------------------------ *)

(* every line is consumed: verdict Consume at each step.  (Forward, EndHere and
   Fail stop the run; a run is never in [looking] or [done] before a line it
   consumes, except in [looking] before the first.) *)
Fixpoint ref_consume (st : state) (ks : list kinds) : option state :=
  match ks with
  | [] => Some st
  | k :: ks' =>
      match ref_step st k with
      | (st', Consume) => ref_consume st' ks'
      | _ => None
      end
  end.

(* what the automaton says of line [k] after having consumed [ks] *)
Definition verdict_after (ks : list kinds) (k : kinds) : option verdict :=
  match ref_consume looking ks with
  | Some st => Some (snd (ref_step st k))
  | None => None
  end.

(* the kinds of the lines as the scanner meets them: the scanner supplies what
   the classification of a line depends on besides its text (inside a dump or
   not, the indentation prefix, the goroutine ids seen so far); None = the
   unterminated last line outside a dump, which is not examined *)
Fixpoint kinds_along (s : sstate) (lines : list bytes) : list (option kinds) :=
  match lines with
  | [] => []
  | ln :: rest =>
      kinds_of (in_dump (st s)) (sprefix s) (List.map ID (goroutines s)) ln ::
      match scan s ln with
      | Ok (s', _, _) => kinds_along s' rest
      | Panic _ => []
      end
  end.
